// C03 "no input can take the embedding host down".
//
//	c03-fuzz   the search: generates jobs (Eval / Load, then Call / Func on the resulting VM), runs them in
//	           CHILD processes (c03-one; a batch per child, every call under recover and a 5 s watchdog), so a
//	           Go fatal error (stack overflow, out of memory) or a wedged goroutine cannot take the fuzzer down;
//	           every escaped panic / front-end timeout / dead child / unprefixed error is a failing input,
//	           minimised by delta debugging (c03-shrink, also in a child)
//	c03-one    child: runs the jobs of a batch file, one JSON result line per job
//	c03-shrink child: delta-debugging of one failing job
//	c03-corr   Coq cases tying Model/Host.v to observed outcomes
//	c03-deep   recursion-depth experiment in children (never in-process)
package main

import (
	"bufio"
	"bytes"
	"compress/gzip"
	"encoding/base64"
	"encoding/gob"
	"encoding/json"
	"fmt"
	"io"
	"io/fs"
	"os"
	"os/exec"
	"path/filepath"
	"regexp"
	"runtime/debug"
	"sort"
	"strconv"
	"strings"
	"sync"
	"syscall"
	"testing/fstest"
	"time"
	"unicode/utf8"

	g "github.com/philhassey/goatlang"
)

func init() {
	register("c03-fuzz", func(a cmdArgs) { cmdC03Fuzz(a) })
	register("c03-one", func(a cmdArgs) { cmdC03One(a) })
	register("c03-shrink", func(a cmdArgs) { cmdC03Shrink(a) })
	register("c03-corr", func(a cmdArgs) { cmdC03Corr(a) })
	register("c03-deep", func(a cmdArgs) { cmdC03Deep(a) })
	register("c03-deep-one", func(a cmdArgs) { cmdC03DeepOne(a) })
	register("c03-replay", func(a cmdArgs) { cmdC03Replay(a) })
}

// ---- jobs ------------------------------------------------------------------------------------------------

type c03Arg struct {
	K string  `json:"k"` // int | float | string | bool | nil | slice | func | native
	I int     `json:"i,omitempty"`
	F float64 `json:"f,omitempty"`
	S string  `json:"s,omitempty"`
}

type c03Call struct {
	Kind  string   `json:"kind"` // call | func
	Name  string   `json:"name,omitempty"`
	Fn    c03Arg   `json:"fn,omitempty"`
	XRets int      `json:"xrets"`
	Args  []c03Arg `json:"args,omitempty"`
}

type c03Job struct {
	ID            int               `json:"id"`
	Entry         string            `json:"entry"` // eval | load
	Class         string            `json:"class"`
	Src           string            `json:"src,omitempty"`
	Fname         string            `json:"fname,omitempty"`
	Files         map[string]string `json:"files,omitempty"`
	NilFS         bool              `json:"nilfs,omitempty"`
	Arg           string            `json:"arg,omitempty"`
	Opts          int               `json:"opts"`                     // bit 0 WithTreeDump, bit 1 WithCodeDump, bit 2 WithEvalImports
	MustTerminate bool              `json:"must_terminate,omitempty"` // the script terminates by construction: a timeout is "wedged", not excepted
	SlowMS        int               `json:"slow_ms,omitempty"`        // watchdog override for the confirmation run of a front-end timeout
	Calls         []c03Call         `json:"calls,omitempty"`
}

type c03Obs struct {
	Outcome string `json:"outcome"`         // ok | err | escape | timeout
	Stage   string `json:"stage,omitempty"` // stage named by the error prefix / where the escape or timeout happened
	Err     string `json:"err,omitempty"`
	Panic   string `json:"panic,omitempty"`
	Where   string `json:"where,omitempty"` // innermost goatlang function on the panicking stack
	Site    string `json:"site,omitempty"`  // the callee of the entry point on the panicking stack
	NoPfx   bool   `json:"noprefix,omitempty"`
}

type c03Result struct {
	ID     int      `json:"id"`
	Probes []c03Obs `json:"probes,omitempty"` // front-end stages run separately first
	Main   c03Obs   `json:"main"`
	Calls  []c03Obs `json:"calls,omitempty"`
	Leaked bool     `json:"leaked,omitempty"` // a goroutine was abandoned: the child must exit
	Must   bool     `json:"must_terminate,omitempty"`
	MS     int      `json:"ms"`
}

func optNames(o int) string {
	var p []string
	if o&1 != 0 {
		p = append(p, "WithTreeDump")
	}
	if o&2 != 0 {
		p = append(p, "WithCodeDump")
	}
	if o&4 != 0 {
		p = append(p, "WithEvalImports")
	}
	if len(p) == 0 {
		return "none"
	}
	return strings.Join(p, "+")
}

// ---- running one call under recover and a watchdog -----------------------------------------------------------

const c03Timeout = 5 * time.Second

var c03Watchdog = c03Timeout // the child's current watchdog (c03Job.SlowMS overrides it for one job)

var c03Frame = regexp.MustCompile(`github\.com/philhassey/goatlang\.((?:\(\*?\w+\)\.)?[\w.]+)(?:\[\.\.\.\])?\(`)

// where: innermost goatlang frame below the panic; site: the goatlang frame called directly by the entry point
func c03Locate(stack string, entry string) (where, site string) {
	lines := strings.Split(stack, "\n")
	var frames []string
	seenPanic := false
	for _, l := range lines {
		if strings.HasPrefix(l, "panic(") {
			seenPanic = true // the first panic line is the innermost = the one that escaped
			continue
		}
		if !seenPanic {
			continue
		}
		if m := c03Frame.FindStringSubmatch(l); m != nil {
			f := m[1]
			f = strings.TrimSuffix(f, "...")
			if strings.HasPrefix(f, "Verif") {
				break
			}
			if strings.HasPrefix(f, "verif") {
				return "hook", "hook" // the panic is in the test hook's own rendering code, not in goatlang proper
			}
			frames = append(frames, f)
		}
	}
	if len(frames) == 0 {
		return "?", "?"
	}
	where = frames[0]
	site = frames[len(frames)-1]
	for i := len(frames) - 1; i >= 0; i-- {
		f := frames[i]
		if strings.HasSuffix(f, ")."+entry) || strings.HasSuffix(f, ").Call") || strings.HasSuffix(f, ").Func") || strings.HasSuffix(f, ").Load") || strings.HasSuffix(f, ").Eval") {
			continue
		}
		site = f
		break
	}
	return where, site
}

// guarded runs f in a goroutine; a panic is caught (with its stack), a timeout abandons the goroutine.
func guarded(entry string, f func() error) (o c03Obs, leaked bool) {
	type out struct {
		err   error
		pan   any
		stack string
	}
	ch := make(chan out, 1)
	go func() {
		var r out
		defer func() {
			if p := recover(); p != nil {
				r.pan = p
				r.stack = string(debug.Stack())
			}
			ch <- r
		}()
		r.err = f()
	}()
	select {
	case r := <-ch:
		switch {
		case r.pan != nil:
			o.Outcome = "escape"
			o.Panic = firstLine(fmt.Sprint(r.pan))
			o.Where, o.Site = c03Locate(r.stack, entry)
		case r.err != nil:
			o.Outcome = "err"
			o.Err = clip(r.err.Error(), 300)
		default:
			o.Outcome = "ok"
		}
		return o, false
	case <-time.After(c03Watchdog):
		o.Outcome = "timeout"
		return o, true
	}
}

func firstLine(s string) string {
	if i := strings.IndexByte(s, '\n'); i >= 0 {
		s = s[:i]
	}
	return clip(s, 200)
}
func clip(s string, n int) string {
	if len(s) > n {
		return s[:n] + "..."
	}
	return s
}

var c03Prefix = regexp.MustCompile(`^error in (tokenize|parse|load|compile|run)`)

func c03StageOf(err string) (string, bool) {
	if m := c03Prefix.FindStringSubmatch(err); m != nil {
		return m[1], true
	}
	return "", false
}

// a writer that keeps at most 1 MB (a looping script must not exhaust the child's memory)
type capWriter struct {
	buf bytes.Buffer
}

func (w *capWriter) Write(p []byte) (int, error) {
	if w.buf.Len() < 1<<20 {
		w.buf.Write(p)
	}
	return len(p), nil
}

func c03FS(j *c03Job) fs.FS {
	if j.NilFS {
		return nil
	}
	m := fstest.MapFS{}
	for k, v := range j.Files {
		m[k] = &fstest.MapFile{Data: []byte(v)}
	}
	return m
}

// a fresh VM whose host-affecting natives are neutralised (the fuzzer must not write files or sleep)
func c03VM(out io.Writer) *g.VM { return c03VMSleep(out, false) }

// realSleep: keep goatlang's own time.Sleep (it yields back into the VM); only for scripts that sleep nanoseconds
func c03VMSleep(out io.Writer, realSleep bool) *g.VM {
	vm := g.New(g.WithStdout(out))
	vm.Set("os.WriteFile", g.NewFunc(3, 1, func(vm *g.VM, args []g.Value) g.Value { return g.Nil() }))
	vm.Set("os.ReadFile", g.NewFunc(1, 2, func(vm *g.VM, args []g.Value) []g.Value { return []g.Value{g.Nil(), g.Nil()} }))
	if !realSleep {
		vm.Set("time.Sleep", g.NewFunc(1, 0, func(vm *g.VM, args []g.Value) {}))
	}
	return vm
}

func c03Value(vm *g.VM, a c03Arg) g.Value {
	switch a.K {
	case "int":
		return g.Int(a.I)
	case "float":
		return g.Float64(a.F)
	case "string":
		return g.String(a.S)
	case "bool":
		return g.Bool(a.I != 0)
	case "slice":
		return g.NewSlice(g.TypeInt32, []g.Value{g.Int(1), g.Int(2)})
	case "global":
		return vm.Get(a.S)
	case "native":
		return g.NewFunc(1, 1, func(vm *g.VM, args []g.Value) g.Value { return args[0] })
	case "nativepanic":
		return g.NewFunc(0, 0, func(vm *g.VM, args []g.Value) { panic("native panic") })
	case "intslice": // I elements in descending order
		var vs []g.Value
		for k := a.I; k > 0; k-- {
			vs = append(vs, g.Int(k))
		}
		return g.NewSlice(g.TypeInt32, vs)
	case "nativecb":
		// a host native that calls back into the VM it was registered on (what slices.SortFunc does with its comparator)
		outer, name := vm, a.S
		return g.NewFunc(0, 1, func(_ *g.VM, args []g.Value) g.Value {
			rets, err := outer.Call(name, 1, g.Int(2), g.Int(1))
			if err != nil {
				panic(err)
			}
			return rets[0]
		})
	}
	return g.Nil()
}

func c03Options(j *c03Job, tree, code io.Writer) []g.RunOption {
	var opts []g.RunOption
	if j.Opts&1 != 0 {
		opts = append(opts, g.WithTreeDump(tree))
	}
	if j.Opts&2 != 0 {
		opts = append(opts, g.WithCodeDump(code))
	}
	if j.Opts&4 != 0 {
		opts = append(opts, g.WithEvalImports(map[string]string{"fmt": "fmt", "strings": "strings", "lib": "lib", "m": "math", "zz": "no/such"}))
	}
	return opts
}

// c03RunJob: the front-end stages separately first (a timeout there = the front end does not terminate),
// then the entry point itself, then the calls on the resulting VM.
func c03RunJob(j *c03Job) (res c03Result) {
	t0 := time.Now()
	res.ID = j.ID
	res.Must = j.MustTerminate
	c03Watchdog = c03Timeout
	if j.MustTerminate {
		c03Watchdog = 3 * time.Second // these scripts finish in milliseconds
	}
	if j.SlowMS > 0 {
		c03Watchdog = time.Duration(j.SlowMS) * time.Millisecond
	}
	defer func() { res.MS = int(time.Since(t0).Milliseconds()) }()
	probe := func(stage string, f func() error) bool {
		o, leaked := guarded("Verif", f)
		o.Stage = stage
		if (o.Outcome == "escape" && o.Where != "hook") || o.Outcome == "timeout" {
			res.Probes = append(res.Probes, o)
		}
		if leaked {
			res.Leaked = true
		}
		return o.Outcome == "ok"
	}
	var sources []string
	if j.Entry == "eval" {
		sources = []string{j.Src}
	} else {
		var names []string
		for k := range j.Files {
			if strings.HasSuffix(k, ".go") {
				names = append(names, k)
			}
		}
		sort.Strings(names)
		for _, k := range names {
			sources = append(sources, j.Files[k])
		}
	}
	for _, src := range sources {
		src := src
		if !probe("tokenize", func() error { _, e := g.VerifTokens(src); return e }) {
			continue
		}
		if res.Leaked {
			return
		}
		if !probe("parse", func() error { _, e := g.VerifParse(src, false); return e }) {
			continue
		}
		if res.Leaked {
			return
		}
		probe("compile", func() error { _, _, e := g.VerifCompile(g.New(g.WithStdout(io.Discard)), src, true); return e })
		if res.Leaked {
			return
		}
	}
	if j.Entry == "load" && !j.NilFS {
		probe("load", func() error { _, e := g.VerifLoadOrder(c03FS(j), j.Arg); return e })
		if res.Leaked {
			return
		}
	}

	var out capWriter
	var tree, code capWriter
	vm := c03VMSleep(&out, j.MustTerminate)
	fsys := c03FS(j)
	opts := c03Options(j, &tree, &code)
	var leaked bool
	if j.Entry == "eval" {
		res.Main, leaked = guarded("Eval", func() error {
			rets, e := vm.Eval(fsys, j.Fname, j.Src, opts...)
			c03Render(rets)
			return e
		})
	} else {
		res.Main, leaked = guarded("Load", func() error { return vm.Load(fsys, j.Arg, opts...) })
	}
	c03Classify(&res.Main)
	if leaked {
		res.Leaked = true
		res.Main.Stage = "run" // every front-end stage returned when run separately
		return
	}
	for _, c := range j.Calls {
		c := c
		var o c03Obs
		args := make([]g.Value, len(c.Args))
		for i, a := range c.Args {
			args[i] = c03Value(vm, a)
		}
		if c.Kind == "call" {
			o, leaked = guarded("Call", func() error { rets, e := vm.Call(c.Name, c.XRets, args...); c03Render(rets); return e })
		} else {
			fn := c03Value(vm, c.Fn)
			o, leaked = guarded("Func", func() error { rets, e := vm.Func(fn, c.XRets, args...); c03Render(rets); return e })
		}
		o.Stage = "run"
		res.Calls = append(res.Calls, o)
		if leaked {
			res.Leaked = true
			return
		}
	}
	return
}

// c03Render does what a host does with the values it gets back: print them
func c03Render(rets []g.Value) {
	for _, v := range rets {
		_ = v.String()
	}
	_ = fmt.Sprint(rets)
}

func c03Classify(o *c03Obs) {
	switch o.Outcome {
	case "err":
		st, ok := c03StageOf(o.Err)
		o.Stage = st
		if !ok {
			o.NoPfx = true
		}
	case "escape":
		o.Stage = o.Site
	}
}

// ---- the child: one batch ----------------------------------------------------------------------------------------

func c03ChildLimits() {
	// address space limit: an allocation bomb must kill the child, not the sandbox
	lim := syscall.Rlimit{Cur: 6 << 30, Max: 6 << 30}
	syscall.Setrlimit(syscall.RLIMIT_AS, &lim)
	debug.SetMaxStack(256 << 20)
}

func cmdC03One(a cmdArgs) {
	c03ChildLimits()
	b, err := os.ReadFile(a.file)
	must(err)
	var jobs []c03Job
	must(c03Ungob(b, &jobs))
	w := bufio.NewWriter(os.Stdout)
	for i := range jobs {
		fmt.Fprintf(w, "START %d\n", jobs[i].ID)
		w.Flush()
		r := c03RunJob(&jobs[i])
		line, _ := json.Marshal(r)
		w.Write(line)
		w.WriteByte('\n')
		w.Flush()
		if r.Leaked {
			os.Exit(0) // a goroutine is still running: start over in a new process
		}
	}
}

// ---- the parent ----------------------------------------------------------------------------------------------------

type c03Death struct {
	ID     int
	Stderr string
	Why    string
	InRun  bool   // the dying goroutine was inside VM.exec (the script was running)
	Script bool   // the INNERMOST frames of the dying goroutine cycle through VM.exec: the script itself recurses
	Where  string // innermost goatlang function of the dying goroutine
}

// c03Dying looks at the trace Go prints for a fatal error: the goroutine's innermost 50 frames come first, then
// "...N frames elided...", then the outermost ones.  A script that recurses shows (*VM).exec among the innermost
// frames; a runaway recursion of the HOST side (e.g. the value stringer on cyclic data) does not.
func c03Dying(stderr string) (script bool, where string) {
	i := strings.Index(stderr, "\ngoroutine ")
	if i < 0 {
		return false, ""
	}
	top := stderr[i:]
	if k := strings.Index(top, "frames elided"); k >= 0 {
		top = top[:k]
	} else if k := strings.Index(top[1:], "\ngoroutine "); k >= 0 {
		top = top[:k+1]
	}
	// the functions among the innermost frames (a recursion shows its whole cycle, whichever frame happens to be on top)
	seen := map[string]bool{}
	var fs []string
	for _, m := range c03Frame.FindAllStringSubmatch(top, -1) {
		if !seen[m[1]] && len(fs) < 4 {
			seen[m[1]] = true
			fs = append(fs, m[1])
		}
	}
	sort.Strings(fs)
	where = strings.Join(fs, " + ")
	return strings.Contains(top, "goatlang.(*VM).exec("), where
}

// c03RunBatch runs jobs in child processes until every job has a result or is recorded as a death.
func c03RunBatch(tmp string, tag string, jobs []c03Job) (results map[int]c03Result, deaths []c03Death) {
	results = map[int]c03Result{}
	self, err := os.Executable()
	must(err)
	rest := jobs
	round := 0
	for len(rest) > 0 {
		round++
		file := filepath.Join(tmp, fmt.Sprintf("batch_%s_%d.json", tag, round))
		must(os.WriteFile(file, c03Gob(rest), 0o644))
		cmd := exec.Command(self, "c03-one", "-file", file)
		cmd.Dir = tmp
		var stderr bytes.Buffer
		cmd.Stderr = &stderr
		stdout, err := cmd.StdoutPipe()
		must(err)
		must(cmd.Start())
		lines := make(chan string, 16)
		go func() {
			sc := bufio.NewScanner(stdout)
			sc.Buffer(make([]byte, 1<<20), 64<<20)
			for sc.Scan() {
				lines <- sc.Text()
			}
			close(lines)
		}()
		current := -1
		done := 0
		killed := false
	loop:
		for {
			select {
			case l, ok := <-lines:
				if !ok {
					break loop
				}
				if strings.HasPrefix(l, "START ") {
					current, _ = strconv.Atoi(l[6:])
					continue
				}
				var r c03Result
				if json.Unmarshal([]byte(l), &r) == nil {
					results[r.ID] = r
					done++
					current = -1
				}
			case <-time.After(6*c03Timeout + 150*time.Second):
				cmd.Process.Kill()
				killed = true
				break loop
			}
		}
		cmd.Wait()
		os.Remove(file)
		// drop the finished jobs
		var next []c03Job
		for _, j := range rest {
			if _, ok := results[j.ID]; !ok {
				next = append(next, j)
			}
		}
		if len(next) == len(rest) && current < 0 && !killed {
			// the child died before starting anything
			d := c03Death{ID: next[0].ID, Stderr: clip(stderr.String(), 1500), Why: "child produced no result", InRun: strings.Contains(stderr.String(), "goatlang.(*VM).exec")}
			d.Script, d.Where = c03Dying(stderr.String())
			deaths = append(deaths, d)
			next = next[1:]
		} else if current >= 0 {
			// the child died (or was killed) inside job `current`
			why := "child died"
			if killed {
				why = "child unresponsive (killed)"
			}
			d := c03Death{ID: current, Stderr: clip(stderr.String(), 1500), Why: why, InRun: strings.Contains(stderr.String(), "goatlang.(*VM).exec")}
			d.Script, d.Where = c03Dying(stderr.String())
			deaths = append(deaths, d)
			var n2 []c03Job
			for _, j := range next {
				if j.ID != current {
					n2 = append(n2, j)
				}
			}
			next = n2
		}
		rest = next
	}
	return
}

// ---- job generation -------------------------------------------------------------------------------------------------

func c03SmallArg(r *rng) c03Arg {
	switch r.intn(9) {
	case 0, 1, 2:
		return c03Arg{K: "int", I: r.rangeI(-3, 10)}
	case 3:
		return c03Arg{K: "float", F: float64(r.rangeI(-2, 5)) + 0.5}
	case 4:
		return c03Arg{K: "string", S: pick(r, []string{"", "a", "héllo", "\x00", "%d"})}
	case 5:
		return c03Arg{K: "bool", I: r.intn(2)}
	case 6:
		return c03Arg{K: "nil"}
	case 7:
		return c03Arg{K: "slice"}
	default:
		return c03Arg{K: "native"}
	}
}

var c03Natives = []string{"fmt.Println", "fmt.Sprintf", "fmt.Sprint", "strings.ToUpper", "strings.Repeat", "strings.Split", "math.Sqrt", "math.Floor",
	"strconv.Itoa", "strconv.Atoi", "errors.New", "slices.Sort", "slices.SortFunc", "maps.Keys", "time.Now", "builtin.yield", "math.Pi", "os.Args", "nil", "true"}

var c03FuncName = regexp.MustCompile(`func (?:\([^)]*\) )?(\w+)\(([^)]*)\)`)

func c03GenCalls(r *rng, src string) []c03Call {
	var names []string
	for _, m := range c03FuncName.FindAllStringSubmatch(src, -1) {
		names = append(names, "main."+m[1])
	}
	var calls []c03Call
	if r.chance(40) {
		// the ordinary use first: call main.main (if there is one) with no arguments
		calls = append(calls, c03Call{Kind: "call", Name: "main.main"})
	}
	for k := r.intn(5); k > 0; k-- {
		var c c03Call
		c.XRets = r.intn(6)
		if r.chance(5) {
			c.XRets = pick(r, []int{-1, -5, 100, 1 << 20})
		}
		for n := r.intn(4); n > 0; n-- {
			c.Args = append(c.Args, c03SmallArg(r))
		}
		switch r.intn(10) {
		case 0:
			c.Kind, c.Name = "call", pick(r, []string{"nope", "", "main.", "main.missing", ".", "fmt", "\x00", "#x", "main.main.main", "builtin.", "~x"})
		case 1, 2:
			c.Kind, c.Name = "call", pick(r, c03Natives)
		case 3:
			c.Kind, c.Name = "call", pick(r, []string{"main.G", "main.V", "main.A", "main.x", "main.t", "main.m", "main.S", "main.T", "main.P", "lib.V", "math.Pi"})
		case 4:
			c.Kind, c.Fn = "func", c03SmallArg(r) // a value of the wrong kind as the function
		case 5:
			c.Kind, c.Fn = "func", c03Arg{K: pick(r, []string{"native", "nativepanic", "nil"})}
		case 6:
			c.Kind, c.Fn = "func", c03Arg{K: "global", S: pick(r, append(c03Natives, names...))}
		default:
			if len(names) > 0 {
				c.Kind, c.Name = "call", pick(r, names)
				if r.chance(60) && c.Name == "main.main" {
					c.Args, c.XRets = nil, 0
				}
			} else {
				c.Kind, c.Name = "call", "main.main"
				c.Args, c.XRets = nil, 0
			}
		}
		calls = append(calls, c)
	}
	return calls
}

func c03GenJob(r *rng, c *c03Corpus, id int) c03Job {
	j := c03Job{ID: id, Opts: r.intn(8)}
	if len(c.pending) == 0 && r.intn(400) == 0 {
		// truncation sweep: one program cut at every k-th byte
		src, _, _ := c.base(r)
		step := len(src)/48 + 1
		for cut := 0; cut < len(src); cut += step {
			c.pending = append(c.pending, src[:cut])
		}
	}
	if len(c.pending) > 0 {
		j.Entry, j.Src, j.Class = "eval", c.pending[0], "mut-trunc-sweep"
		c.pending = c.pending[1:]
		j.Fname, j.Files = "eval", c03EvalFS()
		return j
	}
	if r.intn(100) < 6 {
		return c03TermJob(r, id, j.Opts)
	}
	if r.intn(100) < 7 {
		// terminating scripts that build cyclic data and render it through some route
		if r.chance(70) {
			j.Entry, j.Class = "eval", "cyclic-data"
			j.Src = c03CyclicEval(r)
			j.Fname, j.Files = "eval", c03EvalFS()
			if r.chance(30) {
				j.Calls = []c03Call{{Kind: "call", Name: "main.cycGet", XRets: 1}, {Kind: "call", Name: "main.cycShow", XRets: 0}}
			}
		} else {
			j.Entry, j.Class, j.Arg = "load", "load-cyclic-data", "main"
			j.Files = map[string]string{"main/main.go": c03CyclicLoad(r)}
			j.Calls = []c03Call{{Kind: "call", Name: "main.main", XRets: 0}, {Kind: "call", Name: "main.cycGet", XRets: 1}, {Kind: "call", Name: "main.cycShow", XRets: 0}}
		}
		return j
	}
	switch k := r.intn(100); {
	case k < 45: // Eval, mostly-valid stream
		src, class, _ := c.base(r)
		if r.chance(75) {
			var m string
			src, m = c03Mutate(r, src)
			class = m
		} else {
			class = "valid-" + class
		}
		j.Entry, j.Src, j.Class = "eval", src, class
	case k < 70: // Eval, malformed stream
		j.Entry = "eval"
		j.Src, j.Class = c03Malformed(r, c)
	default:
		j.Entry = "load"
		j.Files, j.Arg, j.Class = c03GenLoad(r, c)
	}
	if j.Entry == "eval" {
		j.Fname = pick(r, []string{"eval", "eval", "stdin", "", "a b.go", "x\x00y", "\xff", strings.Repeat("n", 300)})
		j.Files = c03EvalFS()
		if r.chance(6) {
			j.NilFS, j.Files = true, nil // Eval(nil, ...) is how the repository's own tests call it
		}
		j.Calls = c03GenCalls(r, j.Src)
	} else {
		j.Calls = c03GenCalls(r, j.Files["main/main.go"])
	}
	return j
}

// ---- failing inputs ------------------------------------------------------------------------------------------------------

type c03Failing struct {
	Kind    string            `json:"kind"` // escape | frontend-timeout | host-dies | noprefix
	Entry   string            `json:"entry"`
	Stage   string            `json:"stage"`
	Panic   string            `json:"panic,omitempty"`
	Where   string            `json:"where,omitempty"`
	Err     string            `json:"error,omitempty"`
	Options string            `json:"options"`
	Class   string            `json:"input_class"`
	Input   string            `json:"input,omitempty"`
	Fname   string            `json:"fname,omitempty"`
	Files   map[string]string `json:"files,omitempty"`
	NilFS   bool              `json:"nil_fs,omitempty"`
	Arg     string            `json:"arg,omitempty"`
	Call    *c03Call          `json:"call,omitempty"`
	CallSeq []c03Call         `json:"call_sequence,omitempty"` // for kind wedged: the host calls made after the entry point, in order
	JobGz   string            `json:"job_gz,omitempty"`        // the exact job (gzip+base64 of its JSON) for c03-replay
	Shrunk  bool              `json:"minimised"`
	OrigLen int               `json:"original_size"`
	Detail  string            `json:"detail,omitempty"`
}

type c03Sig struct {
	Kind, Entry, Where, Site string
	CallIdx                  int
}

func (s c03Sig) group() string { return s.Kind + "|" + s.Entry + "|" + s.Where + "|" + s.Site }

// signatures of everything wrong in a result
func c03Sigs(r *c03Result) []c03Sig {
	var out []c03Sig
	for _, p := range r.Probes {
		if p.Outcome == "escape" {
			out = append(out, c03Sig{"escape", "stage:" + p.Stage, p.Where, p.Site, -1})
		} else if p.Outcome == "timeout" {
			out = append(out, c03Sig{"frontend-timeout", "stage:" + p.Stage, "", "", -1})
		}
	}
	ent := "Eval"
	_ = ent
	if r.Main.Outcome == "escape" {
		out = append(out, c03Sig{"escape", "main", r.Main.Where, r.Main.Site, -1})
	}
	if r.Main.NoPfx {
		out = append(out, c03Sig{"noprefix", "main", firstWord(r.Main.Err), "", -1})
	}
	if r.Must && r.Main.Outcome == "timeout" {
		out = append(out, c03Sig{"wedged", "main", "", "", -1})
	}
	for i, c := range r.Calls {
		if c.Outcome == "escape" {
			out = append(out, c03Sig{"escape", "call", c.Where, c.Site, i})
		}
		if r.Must && c.Outcome == "timeout" {
			out = append(out, c03Sig{"wedged", "call", "", "", i})
		}
	}
	return out
}

// c03Describe renders a long repetitive input compactly: runs of one byte become «"c"×n»
func c03Describe(s string) string {
	if !utf8.ValidString(s) {
		// JSON cannot carry invalid UTF-8: show the Go-quoted form (the exact bytes are in job_gz)
		return "Go-quoted: " + clip(strconv.QuoteToASCII(s), 3000)
	}
	if len(s) <= 600 {
		return s
	}
	var sb strings.Builder
	for i := 0; i < len(s) && sb.Len() < 3000; {
		j := i
		for j < len(s) && s[j] == s[i] {
			j++
		}
		if j-i >= 16 {
			fmt.Fprintf(&sb, "«%q×%d»", s[i:i+1], j-i)
		} else {
			sb.WriteString(s[i:j])
		}
		i = j
	}
	return clip(sb.String(), 3000)
}

func firstWord(s string) string {
	if i := strings.IndexAny(s, " :"); i > 0 {
		return s[:i]
	}
	return clip(s, 20)
}

func jobSize(j *c03Job) int {
	n := len(j.Src)
	if j.Entry == "load" {
		n = 0
		for _, v := range j.Files {
			n += len(v)
		}
	}
	return n
}

func c03MakeFailing(j *c03Job, r *c03Result, s c03Sig, shrunk bool, orig int) c03Failing {
	f := c03Failing{Kind: s.Kind, Options: optNames(j.Opts), Class: j.Class, Shrunk: shrunk, OrigLen: orig, NilFS: j.NilFS, JobGz: c03Pack(j)}
	entry := map[string]string{"eval": "Eval", "load": "Load"}[j.Entry]
	f.Entry = entry
	if j.Entry == "eval" {
		f.Input, f.Fname = c03Describe(j.Src), clip(j.Fname, 50)
		if len(j.Src) > 600 {
			f.Detail = fmt.Sprintf("input of %d bytes, shown with runs of one byte written «\"c\"×n»; ", len(j.Src))
		}
	} else {
		f.Files, f.Arg = map[string]string{}, j.Arg
		for k, v := range j.Files {
			f.Files[k] = clip(c03Describe(v), 3000)
		}
	}
	switch {
	case strings.HasPrefix(s.Entry, "stage:"):
		f.Stage = s.Entry[6:]
		f.Entry = entry + " (stage run separately through the verif hook)"
		for _, p := range r.Probes {
			if p.Stage == f.Stage {
				f.Panic, f.Where = p.Panic, p.Where
			}
		}
	case s.Kind == "wedged":
		f.Stage = "run"
		f.Panic = "did not return within the watchdog although the script terminates by construction (no panic, no error: the host is wedged)"
		f.CallSeq = j.Calls
		if s.Entry == "call" && s.CallIdx < len(j.Calls) {
			cc := j.Calls[s.CallIdx]
			f.Call = &cc
			f.Entry = map[string]string{"call": "Call", "func": "Func"}[cc.Kind] + " after " + entry
		}
	case s.Entry == "main":
		f.Stage, f.Panic, f.Where, f.Err = r.Main.Stage, r.Main.Panic, r.Main.Where, r.Main.Err
	case s.Entry == "call":
		c := r.Calls[s.CallIdx]
		f.Stage, f.Panic, f.Where = "run", c.Panic, c.Where
		cc := j.Calls[s.CallIdx]
		f.Call = &cc
		f.Entry = map[string]string{"call": "Call", "func": "Func"}[cc.Kind] + " after " + entry
	}
	return f
}

// Jobs travel between processes in gob, NOT JSON: encoding/json replaces every byte that is not valid
// UTF-8 by U+FFFD, which would silently turn the invalid-UTF-8 and random-byte inputs into other inputs.
func c03Gob(v any) []byte {
	var buf bytes.Buffer
	must(gob.NewEncoder(&buf).Encode(v))
	return buf.Bytes()
}

func c03Ungob(b []byte, v any) error { return gob.NewDecoder(bytes.NewReader(b)).Decode(v) }

func c03Pack(j *c03Job) string {
	b := c03Gob(j)
	var buf bytes.Buffer
	zw := gzip.NewWriter(&buf)
	zw.Write(b)
	zw.Close()
	return base64.StdEncoding.EncodeToString(buf.Bytes())
}

func c03Unpack(s string) (j c03Job, err error) {
	raw, err := base64.StdEncoding.DecodeString(s)
	if err != nil {
		return j, err
	}
	zr, err := gzip.NewReader(bytes.NewReader(raw))
	if err != nil {
		return j, err
	}
	b, err := io.ReadAll(zr)
	if err != nil {
		return j, err
	}
	return j, c03Ungob(b, &j)
}

// c03-replay -file <replay.json>: re-runs the recorded failing jobs in a child and prints what happens now
func cmdC03Replay(a cmdArgs) {
	b, err := os.ReadFile(a.file)
	must(err)
	var rep struct {
		Failing []c03Failing `json:"failing_inputs"`
	}
	must(json.Unmarshal(b, &rep))
	tmp, err := os.MkdirTemp("", "c03replay")
	must(err)
	defer os.RemoveAll(tmp)
	for i, f := range rep.Failing {
		if f.JobGz == "" {
			fmt.Printf("[%d] %s %s: no recorded job (%s)\n", i, f.Kind, f.Entry, clip(f.Panic, 100))
			continue
		}
		j, err := c03Unpack(f.JobGz)
		if err != nil {
			fmt.Printf("[%d] cannot decode job: %v\n", i, err)
			continue
		}
		j.ID = 0
		rs, ds := c03RunBatch(tmp, fmt.Sprint("r", i), []c03Job{j})
		fmt.Printf("[%d] recorded: kind=%s entry=%s stage=%s panic=%q options=%s\n", i, f.Kind, f.Entry, f.Stage, clip(f.Panic, 120), f.Options)
		if r, ok := rs[0]; ok {
			out, _ := json.Marshal(r)
			fmt.Printf("    now: %s\n", clip(string(out), 1500))
			fmt.Printf("    still failing: %v\n", len(c03Sigs(&r)) > 0)
		}
		for _, d := range ds {
			fmt.Printf("    now: child died: %s %s\n", d.Why, clip(d.Stderr, 300))
		}
	}
}

// ---- shrinking (runs in a child: c03-shrink) ----------------------------------------------------------------------------------

type c03ShrinkReq struct {
	Job c03Job `json:"job"`
	Sig c03Sig `json:"sig"`
	MS  int    `json:"ms"`
}

func c03Has(j *c03Job, want c03Sig) (bool, bool) {
	r := c03RunJob(j)
	for _, s := range c03Sigs(&r) {
		if s.Kind == want.Kind && s.Entry == want.Entry && s.Where == want.Where && s.Site == want.Site {
			return true, r.Leaked
		}
	}
	return false, r.Leaked
}

// ddmin over a list of pieces: remove chunks while test(pieces) stays true
func c03DD(pieces []string, test func([]string) bool, deadline time.Time) []string {
	n := 2
	for len(pieces) >= 1 && time.Now().Before(deadline) {
		chunk := (len(pieces) + n - 1) / n
		reduced := false
		for i := 0; i < len(pieces); i += chunk {
			hi := i + chunk
			if hi > len(pieces) {
				hi = len(pieces)
			}
			cand := append(append([]string{}, pieces[:i]...), pieces[hi:]...)
			if test(cand) {
				pieces = cand
				if n > 2 {
					n--
				}
				reduced = true
				break
			}
			if !time.Now().Before(deadline) {
				return pieces
			}
		}
		if !reduced {
			if chunk <= 1 {
				break
			}
			n *= 2
			if n > len(pieces) {
				n = len(pieces)
			}
		}
	}
	return pieces
}

func c03ShrinkText(s string, test func(string) bool, deadline time.Time) string {
	if !test(s) {
		return s
	}
	if test("") {
		return ""
	}
	// lines, then tokens (a run of blanks is one token), then the length of long runs, then bytes
	if strings.Count(s, "\n") < 3000 {
		lines := strings.SplitAfter(s, "\n")
		lines = c03DD(lines, func(p []string) bool { return test(strings.Join(p, "")) }, deadline)
		s = strings.Join(lines, "")
	}
	toks := c03Lex(s)
	if len(toks) < 4000 {
		toks = c03DD(toks, func(p []string) bool { return test(strings.Join(p, "")) }, deadline)
		for i, t := range toks {
			if len(t) < 64 || strings.Trim(t, t[:1]) != "" {
				continue
			}
			// smallest run length that still fails (assuming monotonicity), by bisection
			lo, hi := 0, len(t) // lo does not fail (or is untested 0), hi fails
			for hi-lo > 1 && time.Now().Before(deadline) {
				mid := (lo + hi) / 2
				cand := append(append(append([]string{}, toks[:i]...), t[:mid]), toks[i+1:]...)
				if test(strings.Join(cand, "")) {
					hi = mid
				} else {
					lo = mid
				}
			}
			toks[i] = t[:hi]
		}
		s = strings.Join(toks, "")
	}
	if len(s) <= 300 {
		var bs []string
		for i := 0; i < len(s); i++ {
			bs = append(bs, s[i:i+1])
		}
		bs = c03DD(bs, func(p []string) bool { return test(strings.Join(p, "")) }, deadline)
		s = strings.Join(bs, "")
	}
	return s
}

func cmdC03Shrink(a cmdArgs) {
	c03ChildLimits()
	b, err := os.ReadFile(a.file)
	must(err)
	var req c03ShrinkReq
	must(c03Ungob(b, &req))
	deadline := time.Now().Add(time.Duration(req.MS) * time.Millisecond)
	j := req.Job
	emit := func() {
		fmt.Println(base64.StdEncoding.EncodeToString(c03Gob(j)))
	}
	test := func(c *c03Job) bool {
		ok, leaked := c03Has(c, req.Sig)
		if leaked {
			emit()
			os.Exit(0)
		}
		return ok
	}
	if !test(&j) {
		emit()
		return
	}
	// calls: keep only the one that matters
	if req.Sig.Entry == "call" {
		c := j
		c.Calls = []c03Call{j.Calls[req.Sig.CallIdx]}
		if test(&c) {
			j = c
		}
	} else {
		c := j
		c.Calls = nil
		if test(&c) {
			j = c
		}
	}
	// options: drop the ones that do not matter
	for bit := 1; bit <= 4; bit <<= 1 {
		if j.Opts&bit != 0 {
			c := j
			c.Opts &^= bit
			if test(&c) {
				j = c
			}
		}
	}
	if j.Entry == "eval" {
		if j.Fname != "eval" {
			c := j
			c.Fname = "eval"
			if test(&c) {
				j = c
			}
		}
		// the file tree: drop it entirely, or file by file
		if !j.NilFS {
			c := j
			c.Files = map[string]string{}
			if test(&c) {
				j = c
			}
		}
		j.Src = c03ShrinkText(j.Src, func(s string) bool { c := j; c.Src = s; return test(&c) }, deadline)
	}
	if !j.NilFS && len(j.Files) > 0 {
		var names []string
		for k := range j.Files {
			names = append(names, k)
		}
		sort.Strings(names)
		names = c03DD(names, func(keep []string) bool {
			c := j
			c.Files = map[string]string{}
			for _, k := range keep {
				c.Files[k] = j.Files[k]
			}
			return test(&c)
		}, deadline)
		nf := map[string]string{}
		for _, k := range names {
			nf[k] = j.Files[k]
		}
		j.Files = nf
		for _, k := range names {
			k := k
			j.Files[k] = c03ShrinkText(j.Files[k], func(s string) bool {
				c := j
				c.Files = map[string]string{}
				for kk, v := range j.Files {
					c.Files[kk] = v
				}
				c.Files[k] = s
				return test(&c)
			}, deadline)
		}
	}
	emit()
}

// c03ShrinkDeath minimises a job that KILLS the child (fatal error): every candidate runs in a child of its own.
func c03ShrinkDeath(tmp string, idx int, j c03Job, where string, deadline time.Time) c03Job {
	return c03ShrinkBy(tmp, idx, j, func(c *c03Job, n int) bool {
		c.ID = 0
		_, ds := c03RunBatch(tmp, fmt.Sprintf("sd%d_%d", idx, n), []c03Job{*c})
		return len(ds) > 0 && ds[0].Where == where
	}, deadline)
}

// c03ShrinkBy minimises a job under a predicate that needs a child process per candidate (a dying or a wedged child)
func c03ShrinkBy(tmp string, idx int, j c03Job, bad func(c *c03Job, n int) bool, deadline time.Time) c03Job {
	n := 0
	dies := func(c *c03Job) bool {
		n++
		return bad(c, n)
	}
	if !dies(&j) {
		return j
	}
	try := func(c c03Job) {
		if time.Now().Before(deadline) && dies(&c) {
			j = c
		}
	}
	if len(j.Calls) > 0 {
		c := j
		c.Calls = nil
		try(c)
	}
	if len(j.Calls) > 1 {
		// the shortest call sequence that still fails
		idxs := make([]string, len(j.Calls))
		for k := range idxs {
			idxs[k] = strconv.Itoa(k)
		}
		calls := j.Calls
		keep := c03DD(idxs, func(p []string) bool {
			c := j
			c.Calls = nil
			for _, ks := range p {
				k, _ := strconv.Atoi(ks)
				c.Calls = append(c.Calls, calls[k])
			}
			return dies(&c)
		}, deadline)
		j.Calls = nil
		for _, ks := range keep {
			k, _ := strconv.Atoi(ks)
			j.Calls = append(j.Calls, calls[k])
		}
	}
	if j.Opts != 0 {
		c := j
		c.Opts = 0
		try(c)
	}
	shrinkText := func(get func(*c03Job) string, set func(*c03Job, string)) {
		test := func(p []string) bool { c := j; set(&c, strings.Join(p, "")); return dies(&c) }
		for _, split := range []func(string) []string{
			func(s string) []string { return strings.SplitAfter(s, "\n") },
			func(s string) []string { return strings.SplitAfter(s, ";") },
			c03Lex,
		} {
			pieces := split(get(&j))
			if len(pieces) > 400 {
				continue
			}
			pieces = c03DD(pieces, test, deadline)
			set(&j, strings.Join(pieces, ""))
		}
	}
	if j.Entry == "eval" {
		if !j.NilFS && len(j.Files) > 0 {
			c := j
			c.Files = map[string]string{}
			try(c)
		}
		shrinkText(func(c *c03Job) string { return c.Src }, func(c *c03Job, s string) { c.Src = s })
		return j
	}
	var names []string
	for k := range j.Files {
		names = append(names, k)
	}
	sort.Strings(names)
	names = c03DD(names, func(keep []string) bool {
		c := j
		c.Files = map[string]string{}
		for _, k := range keep {
			c.Files[k] = j.Files[k]
		}
		return dies(&c)
	}, deadline)
	nf := map[string]string{}
	for _, k := range names {
		nf[k] = j.Files[k]
	}
	j.Files = nf
	for _, k := range names {
		k := k
		shrinkText(func(c *c03Job) string { return c.Files[k] }, func(c *c03Job, s string) {
			m := map[string]string{}
			for kk, v := range c.Files {
				m[kk] = v
			}
			m[k] = s
			c.Files = m
		})
	}
	return j
}

func c03Shrink(tmp string, idx int, j c03Job, s c03Sig, ms int) (c03Job, bool) {
	self, _ := os.Executable()
	file := filepath.Join(tmp, fmt.Sprintf("shrink_%d.json", idx))
	must(os.WriteFile(file, c03Gob(c03ShrinkReq{Job: j, Sig: s, MS: ms}), 0o644))
	defer os.Remove(file)
	cmd := exec.Command(self, "c03-shrink", "-file", file)
	cmd.Dir = tmp
	var out bytes.Buffer
	cmd.Stdout = &out
	done := make(chan error, 1)
	must(cmd.Start())
	go func() { done <- cmd.Wait() }()
	select {
	case <-done:
	case <-time.After(time.Duration(ms)*time.Millisecond + 4*c03Timeout):
		cmd.Process.Kill()
		<-done
		return j, false
	}
	var res c03Job
	lines := strings.Split(strings.TrimSpace(out.String()), "\n")
	if len(lines) == 0 {
		return j, false
	}
	raw, err := base64.StdEncoding.DecodeString(lines[len(lines)-1])
	if err != nil || c03Ungob(raw, &res) != nil {
		return j, false
	}
	return res, true
}

// ---- c03-fuzz --------------------------------------------------------------------------------------------------------------------

func cmdC03Fuzz(a cmdArgs) {
	t0 := time.Now()
	r := newRng(a.seed)
	corpus := c03NewCorpus()
	st := newStats()
	tmp, err := os.MkdirTemp("", "c03fuzz")
	must(err)
	defer os.RemoveAll(tmp)

	jobs := make([]c03Job, a.n)
	seedJobs := c03TermSeedJobs()
	for i := range jobs {
		jobs[i] = c03GenJob(r, corpus, i)
		if i < len(seedJobs) {
			jobs[i] = seedJobs[i] // hand-written jobs of the terminating class come first, on every seed
			jobs[i].ID = i
		}
		st.add(jobs[i].Entry+":"+jobs[i].Class, fmt.Sprintf("%s %s opts=%s %q", jobs[i].Entry, jobs[i].Class, optNames(jobs[i].Opts), clip(jobs[i].Src+jobs[i].Arg, 60)))
	}
	// batches over a few workers
	const batch = 40
	workers := 6
	type chunk struct {
		tag  string
		jobs []c03Job
	}
	var chunks []chunk
	for i := 0; i < len(jobs); i += batch {
		hi := minInt(i+batch, len(jobs))
		chunks = append(chunks, chunk{fmt.Sprint(i), jobs[i:hi]})
	}
	results := map[int]c03Result{}
	var deaths []c03Death
	var mu sync.Mutex
	var wg sync.WaitGroup
	next := make(chan chunk)
	for w := 0; w < workers; w++ {
		wg.Add(1)
		go func() {
			defer wg.Done()
			for c := range next {
				rs, ds := c03RunBatch(tmp, c.tag, c.jobs)
				mu.Lock()
				for k, v := range rs {
					results[k] = v
				}
				deaths = append(deaths, ds...)
				mu.Unlock()
			}
		}()
	}
	for _, c := range chunks {
		next <- c
	}
	close(next)
	wg.Wait()

	// a front-end stage that did not return within the watchdog is run again, alone, with a 60 s watchdog:
	// only a stage that still does not return counts as "front end does not terminate"
	confirmed := 0
	for i := range jobs {
		res, ok := results[i]
		if !ok {
			continue
		}
		slow := false
		for _, p := range res.Probes {
			if p.Outcome == "timeout" {
				slow = true
			}
		}
		if !slow {
			continue
		}
		confirmed++
		j := jobs[i]
		j.SlowMS = 60000
		rs, ds := c03RunBatch(tmp, fmt.Sprintf("slow%d", i), []c03Job{j})
		if r2, ok := rs[j.ID]; ok {
			results[i] = r2
		}
		deaths = append(deaths, ds...)
	}

	// outcome distribution
	outcomes := map[string]int{}
	cyclic := map[string]int{} // what became of the scripts that render cyclic data
	term := map[string]int{}   // what became of the scripts that terminate by construction (entry points and host calls)
	optsSeen := map[string]int{}
	callOutcomes := map[string]int{}
	type found struct {
		job c03Job
		res c03Result
		sig c03Sig
	}
	groups := map[string]*found{}
	var order []string
	count := map[string]int{}
	excepted := 0
	var resourceCandidates []map[string]string
	for i := range jobs {
		j := &jobs[i]
		optsSeen[j.Entry+" "+optNames(j.Opts)]++
		res, ok := results[i]
		if !ok {
			continue
		}
		key := j.Entry + ": " + res.Main.Outcome
		if res.Main.Outcome == "err" || res.Main.Outcome == "escape" {
			key += " (" + res.Main.Stage + ")"
		}
		if res.Main.Outcome == "timeout" && j.MustTerminate {
			key += ": WEDGED (the script terminates by construction)"
		} else if res.Main.Outcome == "timeout" {
			key += " in run: script did not terminate (excepted)"
			excepted++
		}
		outcomes[key]++
		if strings.Contains(j.Class, "cyclic") {
			cyclic[j.Class+" -> "+res.Main.Outcome+" "+res.Main.Stage]++
		}
		if j.MustTerminate {
			term[j.Class+" "+j.Entry+" -> "+res.Main.Outcome+" "+res.Main.Stage]++
		}
		for k, c := range res.Calls {
			ck := j.Calls[k].Kind + ": " + c.Outcome
			if c.Outcome == "timeout" && j.MustTerminate {
				ck += ": WEDGED (the script terminates by construction)"
			} else if c.Outcome == "timeout" {
				ck += " (script did not terminate, excepted)"
				excepted++
			}
			callOutcomes[ck]++
			if j.MustTerminate {
				term[j.Class+" "+j.Calls[k].Kind+" -> "+c.Outcome]++
			}
		}
		for _, s := range c03Sigs(&res) {
			gk := s.group()
			count[gk]++
			if cur, ok := groups[gk]; !ok {
				groups[gk] = &found{*j, res, s}
				order = append(order, gk)
			} else if jobSize(j) < jobSize(&cur.job) {
				groups[gk] = &found{*j, res, s}
			}
		}
	}
	// dead children
	byID := map[int]*c03Job{}
	for i := range jobs {
		byID[jobs[i].ID] = &jobs[i]
	}
	type dead struct {
		job   c03Job
		d     c03Death
		fatal string
		n     int
	}
	deadGroups := map[string]*dead{}
	var deadOrder []string
	for _, d := range deaths {
		j := byID[d.ID]
		fatal := firstLine(d.Stderr)
		if i := strings.Index(d.Stderr, "fatal error:"); i >= 0 {
			fatal = firstLine(d.Stderr[i:])
		}
		overflow := strings.Contains(fatal, "stack overflow") || strings.Contains(d.Stderr, "stack exceeds")
		if overflow && d.Script {
			// the innermost frames cycle through VM.exec: the script itself recurses without bound
			outcomes[j.Entry+": child died in the run stage from unbounded script recursion (excepted)"]++
			excepted++
			continue
		}
		if d.InRun && !overflow && (strings.Contains(d.Stderr, "out of memory") || strings.Contains(d.Stderr, "cannot allocate")) {
			// the child's address space is limited to 6 GB: a script that allocates more dies here, not necessarily on a real host
			outcomes[j.Entry+": child ran out of its 6 GB address space in the run stage (resource candidate, not failed)"]++
			resourceCandidates = append(resourceCandidates, map[string]string{"entry": j.Entry, "class": j.Class, "input": c03Describe(j.Src), "fatal": fatal})
			continue
		}
		outcomes[j.Entry+": HOST DIES ("+fatal+" in "+d.Where+")"]++
		gk := "host-dies|" + j.Entry + "|" + fatal + "|" + d.Where
		if cur, ok := deadGroups[gk]; !ok {
			deadGroups[gk] = &dead{*j, d, fatal, 1}
			deadOrder = append(deadOrder, gk)
		} else {
			cur.n++
			if jobSize(j) < jobSize(&cur.job) {
				cur.job, cur.d = *j, d
			}
		}
	}
	deathMS := 8000
	if a.thorough {
		deathMS = 40000
	}
	for k, gk := range deadOrder {
		dg := deadGroups[gk]
		j := c03ShrinkDeath(tmp, k, dg.job, dg.d.Where, time.Now().Add(time.Duration(deathMS)*time.Millisecond))
		stage := "host side, while the script runs (not a recursion of the script)"
		if !dg.d.InRun {
			stage = "outside the running script"
		}
		f := c03Failing{Kind: "host-dies", Entry: map[string]string{"eval": "Eval", "load": "Load"}[j.Entry], Stage: stage,
			Panic: dg.fatal, Where: dg.d.Where, Options: optNames(j.Opts), Class: dg.job.Class, NilFS: j.NilFS, Arg: j.Arg, JobGz: c03Pack(&j),
			Shrunk: jobSize(&j) < jobSize(&dg.job), OrigLen: jobSize(&dg.job),
			Detail: fmt.Sprintf("%d inputs of this run kill the child this way; %s; %s", dg.n, dg.d.Why, clip(dg.d.Stderr, 500))}
		if j.Entry == "load" {
			f.Files = map[string]string{}
			for kk, v := range j.Files {
				f.Files[kk] = clip(c03Describe(v), 3000)
			}
		} else {
			f.Input, f.Fname = c03Describe(j.Src), clip(j.Fname, 50)
		}
		if len(j.Calls) > 0 {
			f.Detail = fmt.Sprintf("calls after it: %d; ", len(j.Calls)) + f.Detail
		}
		st.mismatchG(gk, f)
		st.Groups[gk] = dg.n
	}
	// minimise one representative per class (in children, in parallel)
	shrinkMS := 6000
	if a.thorough {
		shrinkMS = 30000
	}
	type shr struct {
		gk  string
		job c03Job
		ok  bool
	}
	shrunk := make([]shr, len(order))
	slowOnly := map[string]bool{} // wedged candidates that returned when run alone with a 20 s watchdog
	var wg2 sync.WaitGroup
	sem := make(chan bool, workers)
	for i, gk := range order {
		i, gk := i, gk
		f := groups[gk]
		if f.sig.Kind == "frontend-timeout" {
			shrunk[i] = shr{gk, f.job, false}
			continue
		}
		if f.sig.Kind == "wedged" {
			// first: is it beyond doubt?  the representative runs alone with a 20 s watchdog
			want := f.sig
			cj := f.job
			cj.ID, cj.SlowMS = 0, 20000
			crs, _ := c03RunBatch(tmp, fmt.Sprintf("cw%d", i), []c03Job{cj})
			still := false
			if cr, ok := crs[0]; ok {
				for _, sg := range c03Sigs(&cr) {
					if sg.Kind == "wedged" && sg.Entry == want.Entry {
						still = true
					}
				}
			}
			if !still {
				slowOnly[gk] = true // returned within 20 s: a slow machine, not a wedged host
				shrunk[i] = shr{gk, f.job, false}
				continue
			}
			// every candidate in a child of its own with a 1.5 s watchdog (these scripts finish in milliseconds)
			j := c03ShrinkBy(tmp, 1000+i, f.job, func(c *c03Job, n int) bool {
				c.ID, c.SlowMS = 0, 1500
				rs, _ := c03RunBatch(tmp, fmt.Sprintf("sw%d_%d", i, n), []c03Job{*c})
				r, ok := rs[0]
				if !ok {
					return false
				}
				for _, sg := range c03Sigs(&r) {
					if sg.Kind == "wedged" && sg.Entry == want.Entry {
						return true
					}
				}
				return false
			}, time.Now().Add(time.Duration(2*shrinkMS)*time.Millisecond))
			j.SlowMS = 0
			shrunk[i] = shr{gk, j, true}
			continue
		}
		wg2.Add(1)
		sem <- true
		go func() {
			defer wg2.Done()
			defer func() { <-sem }()
			j, ok := c03Shrink(tmp, i, f.job, f.sig, shrinkMS)
			shrunk[i] = shr{gk, j, ok}
		}()
	}
	wg2.Wait()
	for i, gk := range order {
		f := groups[gk]
		if slowOnly[gk] {
			delete(count, gk)
			st.Extra["slow_but_returning_terminating_scripts"] = len(slowOnly)
			continue
		}
		j := shrunk[i].job
		// re-run the minimised job (in a child) to report the observation that belongs to it
		res := f.res
		sig := f.sig
		if shrunk[i].ok {
			rs, _ := c03RunBatch(tmp, fmt.Sprintf("re%d", i), []c03Job{j})
			if r2, ok := rs[j.ID]; ok {
				matched := false
				for _, s2 := range c03Sigs(&r2) {
					if s2.Kind == sig.Kind && s2.Entry == sig.Entry && s2.Where == sig.Where && s2.Site == sig.Site {
						res, sig, matched = r2, s2, true
						break
					}
				}
				if !matched {
					j = f.job
				}
			} else {
				j = f.job
			}
		}
		rec := c03MakeFailing(&j, &res, sig, shrunk[i].ok && jobSize(&j) < jobSize(&f.job), jobSize(&f.job))
		rec.Detail += fmt.Sprintf("%d inputs of this run fall in this class", count[gk])
		st.mismatchG(gk, rec)
		st.Groups[gk] = count[gk]
	}
	st.MismatchN = 0
	for _, v := range st.Groups {
		st.MismatchN += v
	}
	st.Extra["outcomes"] = outcomes
	st.Extra["cyclic_data_outcomes"] = cyclic
	st.Extra["terminating_script_outcomes"] = term
	st.Extra["call_outcomes"] = callOutcomes
	st.Extra["options"] = optsSeen
	st.Extra["excepted_non_terminating_scripts"] = excepted
	st.Extra["jobs_without_result"] = len(jobs) - len(results)
	st.Extra["front_end_timeouts_rerun_with_60s_watchdog"] = confirmed
	st.Extra["resource_candidates"] = resourceCandidates
	st.Extra["failing_classes"] = len(order)
	st.Extra["seconds"] = int(time.Since(t0).Seconds())
	st.write(a.dir + "/C03_fuzz_stats.json")
}

// ---- c03-deep: recursion depth (always in children) --------------------------------------------------------------------------

type c03DeepSpec struct {
	Script   string `json:"script,omitempty"` // a fixed script instead of a family
	ASMB     int    `json:"as_mb,omitempty"`  // address-space limit of the child in MB (default 8192)
	Family   string `json:"family"`
	N        int    `json:"n"`
	Stage    string `json:"stage"` // parse | eval
	MaxStack int    `json:"max_stack"`
}

func c03DeepInput(fam string, n int) string {
	switch fam {
	case "paren":
		return strings.Repeat("(", n) + "1" + strings.Repeat(")", n)
	case "plus":
		return "1" + strings.Repeat("+1", n)
	case "not":
		return strings.Repeat("!", n) + "x"
	case "index":
		return "x" + strings.Repeat("[x", n) + strings.Repeat("]", n)
	case "block":
		return "func f() " + strings.Repeat("{ if x ", n) + "{}" + strings.Repeat("}", n)
	case "slicetype":
		return "var v " + strings.Repeat("[]", n) + "int"
	case "script-recursion":
		return fmt.Sprintf("func f(n int) int { if n == 0 { return 0 }; return f(n-1) + 1 }; f(%d)", n)
	}
	return ""
}

func cmdC03DeepOne(a cmdArgs) {
	b, err := os.ReadFile(a.file)
	must(err)
	var sp c03DeepSpec
	must(json.Unmarshal(b, &sp))
	as := uint64(8192)
	if sp.ASMB > 0 {
		as = uint64(sp.ASMB)
	}
	lim := syscall.Rlimit{Cur: as << 20, Max: as << 20}
	syscall.Setrlimit(syscall.RLIMIT_AS, &lim)
	if sp.MaxStack > 0 {
		debug.SetMaxStack(sp.MaxStack)
	}
	src := c03DeepInput(sp.Family, sp.N)
	if sp.Script != "" {
		src = sp.Script
	}
	var everr error
	if sp.Stage == "parse" {
		g.VerifParse(src, false)
	} else {
		_, everr = c03VM(io.Discard).Eval(fstest.MapFS{}, "deep", src)
	}
	fmt.Println("SURVIVED", clip(fmt.Sprint(everr), 150))
}

// returns "survived", "slow" (no death within the time limit: the deep descent is over by then) or the fatal error line
func c03DeepTry(tmp string, sp c03DeepSpec, limit time.Duration) string {
	self, _ := os.Executable()
	file := filepath.Join(tmp, "deep.json")
	b, _ := json.Marshal(sp)
	must(os.WriteFile(file, b, 0o644))
	cmd := exec.Command(self, "c03-deep-one", "-file", file)
	cmd.Dir = tmp
	var out, errb bytes.Buffer
	cmd.Stdout, cmd.Stderr = &out, &errb
	must(cmd.Start())
	done := make(chan error, 1)
	go func() { done <- cmd.Wait() }()
	select {
	case <-done:
	case <-time.After(limit):
		cmd.Process.Kill()
		<-done
		return "slow"
	}
	if strings.Contains(out.String(), "SURVIVED") {
		if sp.Script != "" {
			return "survived: " + firstLine(out.String())
		}
		return "survived"
	}
	e := errb.String()
	if i := strings.Index(e, "fatal error:"); i >= 0 {
		return firstLine(e[i:])
	}
	return "died: " + firstLine(e)
}

type c03DeepResult struct {
	Family        string `json:"family"`
	Example       string `json:"input_family"`
	Stage         string `json:"stage"`
	MaxStack      string `json:"go_max_stack"`
	Survives      int    `json:"largest_surviving_depth"`
	Dies          int    `json:"smallest_killing_depth_found"`
	SourceBytes   int    `json:"source_bytes_at_killing_depth"`
	Fatal         string `json:"fatal_error"`
	ScaledTo1GB   int    `json:"killing_depth_extrapolated_to_default_1GB_stack,omitempty"`
	ChildRuns     int    `json:"child_runs"`
	SlowSurvivors int    `json:"runs_cut_off_as_slow"`
}

func cmdC03Deep(a cmdArgs) {
	tmp, err := os.MkdirTemp("", "c03deep")
	must(err)
	defer os.RemoveAll(tmp)
	st := newStats()
	type fam struct{ name, stage, example string }
	fams := []fam{
		{"paren", "parse", "((((...1...))))  n opening and n closing parentheses"},
		{"plus", "eval", "1+1+1+...+1  n additions (the parser loops, the tree is n deep: compile recurses)"},
		{"not", "eval", "!!!!...!x  n prefix operators"},
		{"index", "eval", "x[x[x[...]]]  n nested index expressions"},
		{"block", "eval", "func f() { if x { if x { ... } } }  n nested blocks"},
		{"slicetype", "eval", "var v [][][]...[]int  n nested slice types"},
		{"script-recursion", "eval", "func f(n int) int { if n == 0 { return 0 }; return f(n-1) + 1 }; f(N)  a TERMINATING script that recurses N deep (run stage)"},
	}
	// Go grows a goroutine stack by doubling and refuses a size above the limit: the default limit of 1 GB
	// allows 512 MB, the quick tier's 16 MB allows 16 MB (factor 32)
	// (since the nesting guard of /repo (maxDepth) the quick tier runs at Go's default limit too: what matters is
	// that the guard fires long before the default stack is exhausted, not how deep a 16 MB stack reaches)
	maxStack, label, limit, factor := 0, "Go default (1 GB limit, 512 MB usable)", 10*time.Second, 0
	steps := 4
	maxN := 4_096_000
	if a.thorough {
		maxStack, label, limit, factor = 0, "Go default (1 GB limit, 512 MB usable)", 25*time.Second, 0
		maxN = 8_192_000 // beyond that the token list of the source alone exhausts the child's address space
		fams = []fam{fams[0], fams[1], fams[2], fams[4], fams[5], fams[6]}
	} else {
		steps = 2
		fams = []fam{fams[0], fams[1], fams[2], fams[4], fams[5], fams[6]}
	}
	var results []c03DeepResult
	for _, f := range fams {
		res := c03DeepResult{Family: f.name, Example: f.example, Stage: f.stage, MaxStack: label}
		lo, hi := 0, 0
		// quick: the source families are probed once, at the largest depth (is there a depth limit or not?);
		// the thorough tier brackets the killing depth
		n, mult, fsteps := maxN, 8, 0
		if f.name == "script-recursion" {
			n, fsteps = 64000, steps
		}
		if a.thorough {
			n, mult, fsteps = 60000, 4, steps
		}
		fatal := ""
		// grow until a child dies
		for hi == 0 && n <= maxN {
			r := c03DeepTry(tmp, c03DeepSpec{Family: f.name, N: n, Stage: f.stage, MaxStack: maxStack}, limit)
			res.ChildRuns++
			st.add("deep:"+f.name, fmt.Sprintf("%s n=%d %s", f.name, n, r))
			switch r {
			case "survived":
				lo = n
				n *= mult
			case "slow":
				res.SlowSurvivors++
				lo = n
				n *= mult
			default:
				hi, fatal = n, r
			}
		}
		for k := 0; k < fsteps && hi > 0 && hi-lo > hi/20; k++ {
			mid := (lo + hi) / 2
			r := c03DeepTry(tmp, c03DeepSpec{Family: f.name, N: mid, Stage: f.stage, MaxStack: maxStack}, limit)
			res.ChildRuns++
			if r == "survived" || r == "slow" {
				if r == "slow" {
					res.SlowSurvivors++
				}
				lo = mid
			} else {
				hi, fatal = mid, r
			}
		}
		res.Survives, res.Dies, res.Fatal = lo, hi, fatal
		if hi > 0 {
			res.SourceBytes = len(c03DeepInput(f.name, hi))
			res.ScaledTo1GB = hi * factor
		}
		results = append(results, res)
	}
	st.Extra["deep"] = results
	// deep nesting of SOURCE (parser / compiler recursion) kills the host: one failing-input record for all
	// front-end families (the script-recursion family is the running script's own resource use)
	var front []c03DeepResult
	var names []string
	detail := ""
	for _, r := range results {
		// a death by memory exhaustion on a source of tens of megabytes is the size of the input, not its nesting
		if r.Family != "script-recursion" && r.Dies > 0 && strings.Contains(r.Fatal, "stack overflow") {
			front = append(front, r)
			names = append(names, r.Family)
			detail += fmt.Sprintf("%s: dies at depth %d (%d bytes of source), survives %d; ", r.Family, r.Dies, r.SourceBytes, r.Survives)
		}
	}
	if len(front) > 0 {
		st.mismatchG("deep-nesting", map[string]any{
			"kind": "deep-nesting", "family_names": strings.Join(names, ","), "entry": "Eval / parse (in a child process)", "stage": "parse / compile recursion",
			"panic": front[0].Fatal, "go_max_stack": label, "input": c03Describe(c03DeepInput(front[0].Family, front[0].Dies)),
			"detail": detail, "families": front,
		})
	}
	// terminating scripts that exhaust memory: Go's "out of memory" is a fatal error, not a panic
	var bombs []map[string]string
	for _, sc := range []string{
		`x := "a"; for i := 0; i < 40; i++ { x += x }; len(x)`,
		`x := make([]int, 2000000000); len(x)`,
		`x := []int{1}; for i := 0; i < 40; i++ { x = append(x, x...) }; len(x)`,
		`import "strings"; len(strings.Repeat("x", 2000000000))`,
	} {
		if !a.thorough && len(bombs) >= 2 {
			break
		}
		r := c03DeepTry(tmp, c03DeepSpec{Script: sc, ASMB: 3072, Stage: "eval"}, 30*time.Second)
		st.add("alloc", sc)
		bombs = append(bombs, map[string]string{"script": sc, "child_address_space": "3 GB", "result": r})
	}
	st.Extra["terminating_scripts_that_exhaust_memory"] = bombs
	st.Extra["note"] = "finding CANDIDATES (resource exhaustion?): a child process dies with a Go fatal error (not recoverable) on these input families; never run in-process"
	st.write(a.dir + "/C03_deep_stats.json")
}

// ---- c03-corr: observations for Model/Host.v ---------------------------------------------------------------------------------

var c03EvalPrefixes = []string{"error in tokenize: ", "error in parse: ", "error in loadImports: ", "error in compile (imports): ", "error in run (imports): ", "error in compile: ", "error in run: "}
var c03LoadPrefixes = []string{"error in load: ", "error in compile: ", "error in run: "}

func c03SiteTag(site string) string {
	switch {
	case strings.Contains(site, "loadImports") || strings.Contains(site, "rawLoad") || strings.Contains(site, "loadPackage") || strings.Contains(site, "loadFile"):
		return "load"
	case strings.Contains(site, "treeDump"):
		return "treeDump"
	case strings.Contains(site, "codeDump"):
		return "codeDump"
	case strings.Contains(site, ").run") || strings.Contains(site, "btErr") || strings.Contains(site, ").Func"):
		return "btErr"
	case strings.Contains(site, "tokenize"):
		return "tokenize"
	case strings.Contains(site, "parse"):
		return "parse"
	}
	return site
}

func c03ObsCoq(o c03Obs, prefixes []string) (string, bool) {
	switch o.Outcome {
	case "ok":
		return "OOk", true
	case "err":
		for _, p := range prefixes {
			if strings.HasPrefix(o.Err, p) {
				return "(OErr " + coqStrLit(p) + ")", true
			}
		}
		return "(OErr " + coqStrLit(clip(o.Err, 30)) + ")", true
	case "escape":
		return "(OEsc " + coqStrLit(c03SiteTag(o.Site)) + ")", true
	}
	return "", false
}

// c03TopImports reads the import paths of the top-level import nodes out of a tree dump (token.String
// format); ok = false when the dump cannot be read reliably.
func c03TopImports(dump string) (paths []string, ok bool) {
	// atom: a literal (quotes respected) or a run of other characters; may be EMPTY (a token with Text "")
	atom := func(i int) int {
		if i >= len(dump) {
			return i
		}
		c := dump[i]
		j := i
		switch {
		case c == '"' || c == '\'':
			j++
			for j < len(dump) && dump[j] != c {
				if dump[j] == '\\' {
					j++
				}
				j++
			}
			j++
		case c == '`':
			j++
			for j < len(dump) && dump[j] != '`' {
				j++
			}
			j++
		default:
			for j < len(dump) && dump[j] != ' ' && dump[j] != '(' && dump[j] != ')' {
				j++
			}
		}
		return j
	}
	depth := 0
	for i := 0; i < len(dump); {
		switch c := dump[i]; {
		case c == '(':
			depth++
			if depth == 2 && strings.HasPrefix(dump[i:], "(import ") {
				// children are leaves separated by single blanks: name path name path ...
				i += len("(import")
				pos := 0
				for i < len(dump) && dump[i] == ' ' {
					j := atom(i + 1)
					if j > len(dump) {
						return nil, false
					}
					if pos%2 == 1 {
						paths = append(paths, dump[i+1:j])
					}
					pos++
					i = j
				}
				if i >= len(dump) || dump[i] != ')' {
					return nil, false
				}
				continue
			}
			i++
		case c == ')':
			depth--
			if depth < 0 {
				return nil, false
			}
			i++
		case c == ' ':
			i++
		default:
			j := atom(i)
			if j > len(dump) || j == i {
				return nil, false
			}
			i = j
		}
	}
	return paths, depth == 0
}

// coqComment renders (a prefix of) the input as a Coq comment, for the reader of a disagreeing case
func coqComment(src string) string {
	q := strconv.Quote(clip(src, 120))
	q = strings.ReplaceAll(strings.ReplaceAll(q, "(*", "( *"), "*)", "* )")
	q = strings.ReplaceAll(q, "\"", "'") // Coq lexes string literals inside comments
	return "(* " + q + " *)"
}

// c03GlobErr: does rawLoadPackage (load.go) hit a pattern fs.Glob rejects before it finds the package?  It tries
// vendor/<pkg>/*.go, then drops leading path elements.  fs.Glob fails only on a malformed pattern (path.ErrBadPattern:
// an unclosed [ or a trailing backslash); I/O errors and invalid paths just match nothing.
func c03GlobErr(sys fs.FS, pkg string) bool {
	parts := append([]string{"vendor"}, strings.Split(pkg, "/")...)
	for len(parts) > 0 {
		m, err := fs.Glob(sys, strings.Join(parts, "/")+"/*.go")
		if err != nil {
			return true
		}
		if len(m) > 0 {
			return false
		}
		parts = parts[1:]
	}
	return false
}

// c03OddImports: import clauses with the paths the loader treats specially
func c03OddImports(r *rng) string {
	odd := []string{`""`, `"."`, `".."`, `"/"`, `"/lib"`, `"lib/"`, `"./lib"`, `"a/../lib"`, `"lib//"`, `"lib\\"`, `"a\\b"`, `"["`, `"lib["`, `"a[b]"`, `"[]"`, `"[a-"`,
		`"\\"`, `"*"`, `"?"`, `"li*"`, `"\x00"`, `"vendor/ven"`, `"ven"`, `"lib"`, `"fmt"`, `"lib/lib.go"`, `"//"`, `"\400"`, `"\ud800"`, "`lib`", "`li[b`", `"cyc1"`, `"bad"`, `"conf"`, `"badalias"`, `"rt"`, `"starpkg"`, `"amppkg"`}
	var sb strings.Builder
	switch r.intn(3) {
	case 0:
		fmt.Fprintf(&sb, "import (z %s)\n", pick(r, odd))
	case 1:
		sb.WriteString("import (\n")
		for k := 1 + r.intn(3); k > 0; k-- {
			fmt.Fprintf(&sb, "\tz%d %s\n", k, pick(r, odd))
		}
		sb.WriteString(")\n")
	default:
		fmt.Fprintf(&sb, "import %s\nimport (y %s)\n", pick(r, []string{`"fmt"`, `"lib"`, `""`, `"["`}), pick(r, odd))
	}
	return sb.String()
}

func coqBool(b bool) string {
	if b {
		return "true"
	}
	return "false"
}

func cmdC03Corr(a cmdArgs) {
	r := newRng(a.seed + 77)
	corpus := c03NewCorpus()
	st := newStats()
	tmp, err := os.MkdirTemp("", "c03corr")
	must(err)
	defer os.RemoveAll(tmp)
	// pairs of jobs: the same input without and with dump options
	var jobs []c03Job
	for len(jobs) < 2*a.n {
		j := c03GenJob(r, corpus, len(jobs))
		if len(jobs)%20 == 0 {
			// deliberately: an Eval whose top tree imports odd paths (empty = the top package itself, malformed glob
			// patterns, slashes, dots, literals strconv.Unquote rejects), with a real or a nil file system
			src, _, _ := corpus.base(r)
			if r.chance(50) {
				src = pick(r, []string{"1", "x := 1; x", "println(1)"})
			}
			j = c03Job{ID: len(jobs), Entry: "eval", Class: "corr-import-paths", Fname: "eval", Files: c03EvalFS(), Opts: r.intn(4)}
			j.Src = c03OddImports(r) + src
			if r.chance(35) {
				j.NilFS, j.Files = true, nil
			}
		}
		if j.Entry != "eval" && j.Entry != "load" {
			continue
		}
		if strings.Contains(j.Src, "<nil>") || strings.Count(j.Src, "\n") > 60000 || len(j.Src) > 20000 {
			continue
		}
		j.Calls = nil
		j.Opts &= 3
		if r.chance(70) {
			j.Opts |= 1 + r.intn(3)
			j.Opts &= 3
		}
		base := j
		base.Opts = 0
		base.ID = len(jobs)
		j.ID = len(jobs) + 1
		jobs = append(jobs, base, j)
	}
	results := map[int]c03Result{}
	var mu sync.Mutex
	var wg sync.WaitGroup
	const batch = 40
	sem := make(chan bool, 6)
	for i := 0; i < len(jobs); i += batch {
		i := i
		hi := minInt(i+batch, len(jobs))
		wg.Add(1)
		sem <- true
		go func() {
			defer wg.Done()
			defer func() { <-sem }()
			rs, _ := c03RunBatch(tmp, fmt.Sprint(i), jobs[i:hi])
			mu.Lock()
			for k, v := range rs {
				results[k] = v
			}
			mu.Unlock()
		}()
	}
	wg.Wait()
	var cases []string
	for i := 0; i+1 < len(jobs); i += 2 {
		base, with := jobs[i], jobs[i+1]
		rb, ok1 := results[base.ID]
		rw, ok2 := results[with.ID]
		if !ok1 || !ok2 || rb.Leaked || rw.Leaked || len(rb.Probes) > 0 {
			st.add("skipped: no result / timeout / stage hook escaped", fmt.Sprint(i))
			continue
		}
		if base.Entry == "eval" {
			bo, okb := c03ObsCoq(rb.Main, c03EvalPrefixes)
			wo, okw := c03ObsCoq(rw.Main, c03EvalPrefixes)
			if !okb || !okw {
				continue
			}
			// tree facts through the parse hook (safe: the child ran this stage without timeout)
			hasNil := false
			var flags []string
			if dump, err := g.VerifParse(base.Src, false); err == nil {
				hasNil = strings.Contains(dump, "<nil>")
				paths, ok := c03TopImports(dump)
				if !ok {
					st.add("skipped: tree dump not readable", fmt.Sprint(i))
					continue
				}
				names := map[string]string{"": ""} // Eval's top package is "": importing it is a self-import
				for _, p := range paths {
					u, e := strconv.Unquote(p)
					if e != nil {
						flags = append(flags, "PBad")
						continue
					}
					n, ok := names[u]
					if !ok {
						n = fmt.Sprintf("p%d", len(names))
						names[u] = n
					}
					if u != "" && !base.NilFS && c03GlobErr(c03FS(&base), u) {
						flags = append(flags, "PGlobErr "+coqStrLit(n))
					} else {
						flags = append(flags, "PName "+coqStrLit(n))
					}
				}
			}
			cases = append(cases, fmt.Sprintf("CEvalCase %s %s %s %s [%s] %s %s %s", coqBool(base.NilFS), coqBool(with.Opts&1 != 0), coqBool(with.Opts&2 != 0),
				coqBool(hasNil), strings.Join(flags, ";"), bo, wo, coqComment(base.Src)))
			st.add("eval base="+rb.Main.Outcome+"/"+rb.Main.Stage+" with="+rw.Main.Outcome+"/"+rw.Main.Stage, fmt.Sprintf("%s opts=%s %q", with.Class, optNames(with.Opts), clip(with.Src, 50)))
		} else {
			bo, okb := c03ObsCoq(rb.Main, c03LoadPrefixes)
			wo, okw := c03ObsCoq(rw.Main, c03LoadPrefixes)
			if !okb || !okw {
				continue
			}
			hasNil := false
			func() {
				defer func() { recover() }()
				if dumps, err := g.VerifLoadOrder(c03FS(&base), base.Arg); err == nil {
					for _, d := range dumps {
						if strings.Contains(d, "<nil>") {
							hasNil = true
						}
					}
				}
			}()
			cases = append(cases, fmt.Sprintf("CLoadCase %s %s %s %s %s", coqBool(with.Opts&1 != 0), coqBool(with.Opts&2 != 0), coqBool(hasNil), bo, wo))
			st.add("load base="+rb.Main.Outcome+"/"+rb.Main.Stage+" with="+rw.Main.Outcome+"/"+rw.Main.Stage, fmt.Sprintf("%s opts=%s arg=%q", with.Class, optNames(with.Opts), with.Arg))
		}
	}
	header := "From Coq Require Import ZArith List String Bool.\nFrom GV Require Import Model.Host Model.CorrC03.\nImport ListNotations.\nOpen Scope string_scope.\n"
	files := writeCases(a.dir, "cases_C03", header, "xmismatches", cases, 400)
	st.Extra["files"] = files
	st.write(a.dir + "/C03_corr_stats.json")
}
