package main

import (
	"bytes"
	"fmt"
	"math"
	"strconv"
	"strings"
	"testing/fstest"

	g "github.com/philhassey/goatlang"
)

// ---------------------------------------------------------------------------
// C10 correspondence: host-side Value API (NewMap/Get/Set/Delete/Len/Range)
// against Model/OMap.v.  The order chosen by maps.Keys at a compaction is read
// back through Range right after each Delete and handed to the model.

type mapDrv struct {
	r      *rng
	m      g.Value
	strKey bool
	pool   []string // key spellings
	shape  map[string]int
}

func (d *mapDrv) key(s string) g.Value {
	if d.strKey {
		return g.String(s)
	}
	n, _ := strconv.Atoi(s)
	return g.Int32(int32(n))
}

func (d *mapDrv) keyCoq(v g.Value) string {
	if d.strKey {
		return coqBytes(v.String())
	}
	return coqZ(int64(g.VerifNum(v)))
}

func (d *mapDrv) order() string {
	next := d.m.Range()
	var ks []string
	for {
		k, _, ok := next()
		if !ok {
			break
		}
		ks = append(ks, d.keyCoq(k))
	}
	return "[" + strings.Join(ks, "; ") + "]"
}

// ops emits n random operations (depth limits nested ranges) as Coq hop terms.
func (d *mapDrv) ops(n, depth int) []string {
	var out []string
	for i := 0; i < n; i++ {
		k := d.key(pick(d.r, d.pool))
		x := d.r.intn(100)
		switch {
		case x < 30:
			var v g.Value
			if d.r.chance(30) {
				v = g.VerifNewUntyped(d.r.intn(100))
			} else {
				v = g.Int32(int32(d.r.intn(1000)))
			}
			d.m.Set(k, v)
			out = append(out, fmt.Sprintf("HSet %s %s", d.keyCoq(k), coqValue(v)))
			d.shape["set"]++
		case x < 58:
			d.m.Delete(k)
			out = append(out, fmt.Sprintf("HDel %s %s", d.keyCoq(k), d.order()))
			d.shape["delete"]++
		case x < 75:
			v, ok := d.m.Get(k)
			out = append(out, fmt.Sprintf("HGet %s %s %v", d.keyCoq(k), coqValue(v), ok))
			d.shape["get"]++
		case x < 82:
			out = append(out, fmt.Sprintf("HLen %d", d.m.Len()))
			d.shape["len"]++
		default:
			if depth <= 0 {
				continue
			}
			d.shape["range"]++
			next := d.m.Range()
			var visits []string
			for {
				kk, vv, ok := next()
				if !ok {
					break
				}
				body := d.ops(d.r.intn(4), depth-1)
				if len(body) > 0 {
					d.shape["mutation_in_range"]++
				}
				visits = append(visits, fmt.Sprintf("(%s, %s, [%s])", d.keyCoq(kk), coqValue(vv), strings.Join(body, "; ")))
			}
			out = append(out, "HRange ["+strings.Join(visits, "; ")+"]")
		}
	}
	return out
}

func cmdC10Corr(seed uint64, n int, dir string) {
	r := newRng(seed)
	st := newStats()
	var cases []string
	for c := 0; c < n; c++ {
		d := &mapDrv{r: r, strKey: r.chance(40), shape: map[string]int{}}
		np := 2 + r.intn(7)
		for i := 0; i < np; i++ {
			if d.strKey {
				d.pool = append(d.pool, pick(r, []string{"", "a", "b", "ab", "k1", "k2", "é", "z", "key", "x\x00"}))
			} else {
				d.pool = append(d.pool, strconv.Itoa(r.intn(12)-2))
			}
		}
		vt := tagInt32
		kt := tagInt32
		if d.strKey {
			kt = tagString
		}
		// initial literal with distinct keys
		var init []g.Value
		var initCoq []string
		seen := map[string]bool{}
		for i := 0; i < r.intn(4); i++ {
			ks := pick(r, d.pool)
			if seen[ks] {
				continue
			}
			seen[ks] = true
			v := g.VerifNewUntyped(r.intn(50))
			init = append(init, d.key(ks), v)
			initCoq = append(initCoq, fmt.Sprintf("(%s, %s)", d.keyCoq(d.key(ks)), coqValue(v)))
		}
		d.m = g.NewMap(g.Type(kt), g.Type(vt), init)
		ops := d.ops(10+r.intn(60), 2)
		ctor := "CMapZ"
		if d.strKey {
			ctor = "CMapS"
		}
		cases = append(cases, fmt.Sprintf("%s %d [%s] [%s]", ctor, vt, strings.Join(initCoq, "; "), strings.Join(ops, "; ")))
		st.add(fmt.Sprintf("%s pool=%d", ctor, np), fmt.Sprintf("%s pool=%v ops=%d %v", ctor, d.pool, len(ops), d.shape))
		for k, v := range d.shape {
			st.Histogram["op:"+k] += v
		}
	}
	files := writeCases(dir, "cases_C10", "From Coq Require Import ZArith List Floats.\nFrom GV Require Import GoSpec.GoPrim Model.CorrC10.\nImport ListNotations.\nOpen Scope Z_scope.\n", "mmismatches", cases, 80)
	st.Extra["files"] = files
	st.write(dir + "/C10_corr_stats.json")
}

// ---------------------------------------------------------------------------
// C10 system level: generated scripts using the map syntax; the oracle is a
// native Go map replayed along the visit order the script printed, plus Go's
// range contract.

type mapKeyKind struct {
	name   string
	goType string
	keys   []string // literal spellings
	show   func(string) string
}

var mapKinds = []mapKeyKind{
	{"int", "int", []string{"0", "1", "2", "3", "5", "8", "-1", "100"}, func(s string) string { return s }},
	{"string", "string", []string{`""`, `"a"`, `"b"`, `"ab"`, `"k"`, `"zz"`}, func(s string) string { u, _ := strconv.Unquote(s); return u }},
	{"bool", "bool", []string{"true", "false"}, func(s string) string { return s }},
	{"float64", "float64", []string{"0.5", "1.5", "2.25", "-3.5", "100.125", "0.0"}, func(s string) string {
		f, _ := strconv.ParseFloat(s, 64)
		return fmt.Sprint(f)
	}},
	{"uint8", "uint8", []string{"0", "1", "200", "255"}, func(s string) string { return s }},
}

// element types of the missing-key probe: a non-zero value, the zero literal and what println shows for zero
var c10Elems = []struct{ typ, val, zeroLit, zeroOut string }{
	{"int", "5", "0", "0"},
	{"string", `"s"`, `""`, ""},
	{"bool", "true", "false", "false"},
	{"float64", "2.5", "0.0", "0"},
	{"uint8", "9", "0", "0"},
}

type sOp struct {
	kind string // set del get getok len range
	k    string
	v    int
	body [][]sOp // per visit index
}

func genSOps(r *rng, kind mapKeyKind, n, depth int) []sOp {
	var ops []sOp
	for i := 0; i < n; i++ {
		k := pick(r, kind.keys)
		x := r.intn(100)
		switch {
		case x < 30:
			ops = append(ops, sOp{kind: "set", k: k, v: r.intn(90) + 1})
		case x < 55:
			ops = append(ops, sOp{kind: "del", k: k})
		case x < 65:
			ops = append(ops, sOp{kind: "get", k: k})
		case x < 75:
			ops = append(ops, sOp{kind: "getok", k: k})
		case x < 82:
			ops = append(ops, sOp{kind: "len"})
		default:
			if depth <= 0 {
				continue
			}
			o := sOp{kind: "range"}
			for j := 0; j < 4; j++ {
				o.body = append(o.body, genSOps(r, kind, r.intn(3), 0))
			}
			ops = append(ops, o)
		}
	}
	return ops
}

func emitSOps(sb *strings.Builder, ops []sOp, ind string, uniq *int) {
	for _, o := range ops {
		switch o.kind {
		case "set":
			fmt.Fprintf(sb, "%sm[%s] = %d\n", ind, o.k, o.v)
		case "del":
			fmt.Fprintf(sb, "%sdelete(m, %s)\n", ind, o.k)
		case "get":
			fmt.Fprintf(sb, "%sprintln(\"g\", m[%s])\n", ind, o.k)
		case "getok":
			*uniq++
			fmt.Fprintf(sb, "%sv%d, ok%d := m[%s]\n%sprintln(\"o\", v%d, ok%d)\n", ind, *uniq, *uniq, o.k, ind, *uniq, *uniq)
		case "len":
			fmt.Fprintf(sb, "%sprintln(\"l\", len(m))\n", ind)
		case "range":
			*uniq++
			id := *uniq
			fmt.Fprintf(sb, "%si%d := 0\n%sfor k, v := range m {\n%s\tprintln(\"v\", k, v)\n", ind, id, ind, ind)
			for j, b := range o.body {
				if len(b) == 0 {
					continue
				}
				fmt.Fprintf(sb, "%s\tif i%d == %d {\n", ind, id, j)
				emitSOps(sb, b, ind+"\t\t", uniq)
				fmt.Fprintf(sb, "%s\t}\n", ind)
			}
			fmt.Fprintf(sb, "%s\ti%d++\n%s}\n%sprintln(\"e\")\n", ind, id, ind, ind)
		}
	}
}

type c10Mismatch struct {
	Kind     string `json:"kind"`
	KeyType  string `json:"key_type"`
	Src      string `json:"src"`
	Line     int    `json:"output_line"`
	Expected string `json:"expected"`
	Got      string `json:"got"`
	Pattern  string `json:"pattern"`
}

// replaySOps checks the script output against a native map; returns "" when all is well.
func replaySOps(kind mapKeyKind, ops []sOp, lines []string, pos *int, nat map[string]int, pattern *[]string) (string, string) {
	nextLine := func() string {
		if *pos >= len(lines) {
			return "<missing>"
		}
		l := lines[*pos]
		*pos++
		return l
	}
	for _, o := range ops {
		switch o.kind {
		case "set":
			nat[kind.show(o.k)] = o.v
			*pattern = append(*pattern, "set")
		case "del":
			delete(nat, kind.show(o.k))
			*pattern = append(*pattern, "del")
		case "get":
			exp := fmt.Sprintf("g %d", nat[kind.show(o.k)])
			if got := nextLine(); got != exp {
				return exp, got
			}
		case "getok":
			v, ok := nat[kind.show(o.k)]
			exp := fmt.Sprintf("o %d %v", v, ok)
			if got := nextLine(); got != exp {
				return exp, got
			}
		case "len":
			exp := fmt.Sprintf("l %d", len(nat))
			if got := nextLine(); got != exp {
				return exp, got
			}
		case "range":
			*pattern = append(*pattern, "range{")
			liveThroughout := map[string]bool{}
			for k := range nat {
				liveThroughout[k] = true
			}
			insertedDuring := map[string]bool{}
			visited := map[string]bool{}
			i := 0
			for {
				l := nextLine()
				if l == "e" {
					break
				}
				if !strings.HasPrefix(l, "v ") {
					return "visit line or e", l
				}
				rest := l[2:]
				sp := strings.LastIndex(rest, " ")
				if sp < 0 {
					return "v <key> <value>", l
				}
				k, vs := rest[:sp], rest[sp+1:]
				cur, live := nat[k]
				if !live {
					return "no visit of a key that is not live (" + k + ")", l
				}
				if visited[k] {
					return "each key visited at most once (" + k + " again)", l
				}
				if vs != strconv.Itoa(cur) {
					return fmt.Sprintf("v %s %d", k, cur), l
				}
				visited[k] = true
				if i < len(o.body) {
					before := map[string]bool{}
					for kk := range nat {
						before[kk] = true
					}
					e, gth := replaySOps(kind, o.body[i], lines, pos, nat, pattern)
					if e != "" {
						return e, gth
					}
					for kk := range liveThroughout {
						if _, ok := nat[kk]; !ok {
							delete(liveThroughout, kk)
						}
					}
					// a key deleted and re-inserted inside one body is not live throughout
					for _, bo := range o.body[i] {
						if bo.kind == "del" {
							delete(liveThroughout, kind.show(bo.k))
						}
					}
					for kk := range nat {
						if !before[kk] {
							insertedDuring[kk] = true
						}
					}
				}
				i++
				if i > 10000 {
					return "loop terminates", "more than 10000 visits"
				}
			}
			for k := range liveThroughout {
				if !visited[k] {
					return "key " + k + " live for the whole loop is visited", "not visited"
				}
			}
			*pattern = append(*pattern, "}")
		}
	}
	return "", ""
}

func cmdC10Script(seed uint64, n int, dir string) {
	r := newRng(seed)
	st := newStats()
	for c := 0; c < n; c++ {
		kind := mapKinds[c%len(mapKinds)]
		ops := genSOps(r, kind, 8+r.intn(30), 1)
		var sb strings.Builder
		form := r.intn(5)
		switch form {
		case 0:
			fmt.Fprintf(&sb, "m := map[%s]int{}\n", kind.goType)
		case 1:
			fmt.Fprintf(&sb, "m := make(map[%s]int)\n", kind.goType)
		case 3:
			// a size hint changes nothing observable (the zero key of a hinted map is still one key)
			fmt.Fprintf(&sb, "m := make(map[%s]int, %d)\n", kind.goType, r.intn(9))
			st.Histogram["map made with a size hint"]++
		case 4:
			fmt.Fprintf(&sb, "hint := %d\nm := make(map[%s]int, hint)\n", r.intn(9), kind.goType)
			st.Histogram["map made with a size hint"]++
		default:
			fmt.Fprintf(&sb, "m := map[%s]int{%s: 7}\n", kind.goType, kind.keys[0])
		}
		uniq := 0
		// placement: the map is a package-level variable (GET/SET), a local of a function, or a parameter
		// (the peephole-fused FASTGET/FASTSET/FASTGETINT/FASTSETINT forms exist only for locals)
		place := r.intn(3)
		switch place {
		case 0:
			emitSOps(&sb, ops, "", &uniq)
		case 1:
			decl := sb.String()
			sb.Reset()
			sb.WriteString("func run() {\n\t" + strings.ReplaceAll(strings.TrimRight(decl, "\n"), "\n", "\n\t") + "\n")
			emitSOps(&sb, ops, "\t", &uniq)
			sb.WriteString("}\nrun()\n")
		default:
			decl := sb.String()
			sb.Reset()
			fmt.Fprintf(&sb, "func run(m map[%s]int) {\n", kind.goType)
			emitSOps(&sb, ops, "\t", &uniq)
			sb.WriteString("}\n" + decl + "run(m)\n")
		}
		st.Histogram[[]string{"map is a package-level variable", "map is a local of a function", "map is a parameter"}[place]]++
		src := sb.String()
		var out bytes.Buffer
		vm := g.New(g.WithStdout(&out))
		_, err := vm.Eval(fstest.MapFS{}, "in", src)
		nat := map[string]int{}
		if form == 2 {
			nat[kind.show(kind.keys[0])] = 7
		}
		var pattern []string
		lines := strings.Split(strings.TrimRight(out.String(), "\n"), "\n")
		if out.Len() == 0 {
			lines = nil
		}
		pos := 0
		exp, got := "", ""
		if err != nil {
			exp, got = "no error", err.Error()
		} else {
			exp, got = replaySOps(kind, ops, lines, &pos, nat, &pattern)
			if exp == "" && pos != len(lines) {
				exp, got = "end of output", lines[pos]
			}
		}
		st.add("script key="+kind.name, fmt.Sprintf("key=%s ops=%d lines=%d", kind.name, len(ops), len(lines)))
		if exp != "" {
			st.mismatchG("script|"+kind.name+"|"+exp, c10Mismatch{Kind: "script", KeyType: kind.name, Src: src, Line: pos, Expected: exp, Got: got, Pattern: strings.Join(pattern, " ")})
		}
	}
	// missing keys give the zero value of the ELEMENT type: every element type x key type x placement, literal
	// and variable keys, never-inserted and deleted keys; the expected lines are what Go prints
	for _, el := range c10Elems {
		for _, kind := range mapKinds {
			for place := 0; place < 3; place++ {
				k0, k1 := kind.keys[0], kind.keys[1]
				body := fmt.Sprintf("m[%s] = %s\ndelete(m, %s)\nprintln(\"a\", m[%s])\nprintln(\"b\", m[%s])\nk := %s\nprintln(\"c\", m[k])\nprintln(\"d\", m[%s] == %s, len(m))\n", k0, el.val, k0, k0, k1, k1, k1, el.zeroLit)
				decl := fmt.Sprintf("m := map[%s]%s{}\n", kind.goType, el.typ)
				var src string
				switch place {
				case 0:
					src = decl + body
				case 1:
					src = "func run() {\n" + decl + body + "}\nrun()\n"
				default:
					src = fmt.Sprintf("func run(m map[%s]%s) {\n%s}\n%srun(m)\n", kind.goType, el.typ, body, decl)
				}
				exp := fmt.Sprintf("a %s\nb %s\nc %s\nd true 0\n", el.zeroOut, el.zeroOut, el.zeroOut)
				var out bytes.Buffer
				vm := g.New(g.WithStdout(&out))
				_, err := vm.Eval(fstest.MapFS{}, "in", src)
				st.add("script missing-key zero elem="+el.typ, src)
				if err != nil || out.String() != exp {
					st.mismatchG("script|zero|"+el.typ+"|"+kind.name, c10Mismatch{Kind: "script-zero", KeyType: kind.name, Src: src, Expected: exp, Got: out.String() + fmt.Sprint(err)})
				}
			}
		}
	}
	// float keys: +0 and -0 are one key
	{
		src := "m := map[float64]int{}\nz := 0.0\nm[z] = 1\nm[-z] = 2\nprintln(len(m), m[z])\n"
		var out bytes.Buffer
		vm := g.New(g.WithStdout(&out))
		_, err := vm.Eval(fstest.MapFS{}, "in", src)
		st.add("script float zero", src)
		if err != nil || out.String() != "1 2\n" {
			st.mismatchG("script|float64|zero", c10Mismatch{Kind: "script", KeyType: "float64", Src: src, Expected: "1 2", Got: out.String() + fmt.Sprint(err)})
		}
		_ = math.Pi
	}
	st.write(dir + "/C10_script_stats.json")
}
