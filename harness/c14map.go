package main

import (
	"fmt"
	"io"
	"strconv"
	"strings"
	"testing/fstest"

	g "github.com/philhassey/goatlang"
)

// ---------------------------------------------------------------------------
// C14 native oracle: maps with 0 or 1 LIVE entries reached through a history.
//
// The property compares maps with at most one entry (several entries are printed in insertion / map order by
// goatlang and sorted by Go).  A map that HAD several entries and lost them through delete is such a map: Go
// prints only what is still in it.  Each case starts from a map literal (0..3 entries) or make, applies 1..6
// inserts / overwrites / deletes (deleted-then-reinserted keys included) ending with at most one live entry, and
// prints the map through println, fmt.Println, fmt.Sprint, nested in a slice, in a struct field and next to
// another operand; the same history is replayed through the host API (NewMap / Value.Set / Value.Delete) and
// rendered with Value.String(), alone and inside NewSlice.  The expectation is what the real fmt package prints
// for a native Go map that went through the same history.

type c14MapOp struct {
	del bool
	k   int // index into the key universe
	v   int // index into the value universe (inserts)
}

type c14MapKind struct {
	name  string   // Go / goatlang type name
	tag   int      // goatlang type tag
	lits  []string // source spelling
	nat   []any    // native Go value (int32 for int: goatlang's int)
	goat  []g.Value
	isKey bool
}

func c14MapKinds() (keys, vals []c14MapKind) {
	mk := func(name string, tag int, lits []string, nat []any) c14MapKind {
		k := c14MapKind{name: name, tag: tag, lits: lits, nat: nat}
		for _, x := range nat {
			switch y := x.(type) {
			case string:
				k.goat = append(k.goat, g.String(y))
			case int32:
				k.goat = append(k.goat, g.Int32(y))
			case float64:
				k.goat = append(k.goat, g.Float64(y))
			case bool:
				k.goat = append(k.goat, g.Bool(y))
			}
		}
		return k
	}
	keys = []c14MapKind{
		mk("string", tagString, []string{`"a"`, `"b"`, `"c"`, `"key d"`}, []any{"a", "b", "c", "key d"}),
		mk("int", tagInt32, []string{"0", "1", "-3", "70000"}, []any{int32(0), int32(1), int32(-3), int32(70000)}),
		mk("float64", tagFloat64, []string{"0.5", "2.0", "-1.25", "1e21"}, []any{0.5, 2.0, -1.25, 1e21}),
		mk("bool", tagBool, []string{"true", "false"}, []any{true, false}),
	}
	vals = []c14MapKind{
		mk("int", tagInt32, []string{"1", "2", "-7", "0", "123456"}, []any{int32(1), int32(2), int32(-7), int32(0), int32(123456)}),
		mk("string", tagString, []string{`"x"`, `"yy"`, `""`, `"z z"`, `"é"`}, []any{"x", "yy", "", "z z", "é"}),
		mk("float64", tagFloat64, []string{"1.5", "2.0", "-0.25", "1e-07", "0.0"}, []any{1.5, 2.0, -0.25, 1e-07, 0.0}),
		mk("bool", tagBool, []string{"true", "false", "true", "false", "true"}, []any{true, false, true, false, true}),
	}
	return
}

type c14MapCase struct {
	kt, vt  c14MapKind
	useMake bool
	init    []c14MapOp // entries of the literal, distinct keys
	ops     []c14MapOp
}

// replay runs the history on a native Go map; also tells whether a key was ever deleted while absent from the
// final map (dead key) and whether a deleted key came back
func (c *c14MapCase) replay() (m map[any]any, dead, reinserted bool) {
	m = map[any]any{}
	deleted := map[int]bool{}
	for _, o := range c.init {
		m[c.kt.nat[o.k]] = c.vt.nat[o.v]
	}
	for _, o := range c.ops {
		if o.del {
			if _, ok := m[c.kt.nat[o.k]]; ok {
				deleted[o.k] = true
			}
			delete(m, c.kt.nat[o.k])
		} else {
			if _, ok := m[c.kt.nat[o.k]]; !ok && deleted[o.k] {
				reinserted = true
			}
			m[c.kt.nat[o.k]] = c.vt.nat[o.v]
		}
	}
	for k := range deleted {
		if _, ok := m[c.kt.nat[k]]; !ok {
			dead = true
		}
	}
	return
}

func (c *c14MapCase) mapType() string { return "map[" + c.kt.name + "]" + c.vt.name }

// build: the statements creating m (script side)
func (c *c14MapCase) build() string {
	var sb strings.Builder
	if c.useMake {
		fmt.Fprintf(&sb, "\tm := make(%s)\n", c.mapType())
		for _, o := range c.init {
			fmt.Fprintf(&sb, "\tm[%s] = %s\n", c.kt.lits[o.k], c.vt.lits[o.v])
		}
	} else {
		var p []string
		for _, o := range c.init {
			p = append(p, c.kt.lits[o.k]+": "+c.vt.lits[o.v])
		}
		fmt.Fprintf(&sb, "\tm := %s{%s}\n", c.mapType(), strings.Join(p, ", "))
	}
	for _, o := range c.ops {
		if o.del {
			fmt.Fprintf(&sb, "\tdelete(m, %s)\n", c.kt.lits[o.k])
		} else {
			fmt.Fprintf(&sb, "\tm[%s] = %s\n", c.kt.lits[o.k], c.vt.lits[o.v])
		}
	}
	return sb.String()
}

func (c *c14MapCase) program() string {
	mt := c.mapType()
	return "package main\n\nimport \"fmt\"\n\ntype T struct {\n\tM " + mt + "\n}\n\nfunc build() " + mt + " {\n" + c.build() + "\treturn m\n}\n\n" +
		"func inSlice() []" + mt + " { return []" + mt + "{build()} }\n\nfunc inStruct() *T { return &T{M: build()} }\n\n" +
		"func main() {\n\tm := build()\n\tprintln(m)\n\tfmt.Println(m)\n\tfmt.Println(\"<\" + fmt.Sprint(m) + \">\")\n\tfmt.Println([]" + mt + "{m})\n" +
		"\tfmt.Println(&T{M: m})\n\tfmt.Println(len(m), m)\n\tfmt.Print(m)\n\tfmt.Println()\n}\n"
}

// host replays the history through the public host API
func (c *c14MapCase) host() g.Value {
	var in []g.Value
	if !c.useMake {
		for _, o := range c.init {
			in = append(in, c.kt.goat[o.k], c.vt.goat[o.v])
		}
	}
	m := g.NewMap(g.Type(c.kt.tag), g.Type(c.vt.tag), in)
	if c.useMake {
		for _, o := range c.init {
			m.Set(c.kt.goat[o.k], c.vt.goat[o.v])
		}
	}
	for _, o := range c.ops {
		if o.del {
			m.Delete(c.kt.goat[o.k])
		} else {
			m.Set(c.kt.goat[o.k], c.vt.goat[o.v])
		}
	}
	return m
}

func (c *c14MapCase) describe() string {
	s := strings.ReplaceAll(strings.TrimSpace(c.build()), "\n\t", "; ")
	return s
}

func c14GenMapCase(r *rng, kt, vt c14MapKind) *c14MapCase {
	c := &c14MapCase{kt: kt, vt: vt, useMake: r.chance(25)}
	nk := len(kt.lits)
	perm := []int{}
	for i := 0; i < nk; i++ {
		perm = append(perm, i)
	}
	for i := nk - 1; i > 0; i-- {
		j := r.intn(i + 1)
		perm[i], perm[j] = perm[j], perm[i]
	}
	nInit := r.intn(minInt(nk, 3) + 1)
	for i := 0; i < nInit; i++ {
		c.init = append(c.init, c14MapOp{k: perm[i], v: r.intn(len(vt.lits))})
	}
	live := map[int]bool{}
	for _, o := range c.init {
		live[o.k] = true
	}
	everDeleted := []int{}
	nOps := 1 + r.intn(6)
	for i := 0; i < nOps; i++ {
		var o c14MapOp
		switch x := r.intn(100); {
		case x < 45 && len(live) > 0: // delete a live key
			ks := sortedIntKeys(live)
			o = c14MapOp{del: true, k: pick(r, ks)}
		case x < 52: // delete a key that may be absent
			o = c14MapOp{del: true, k: r.intn(nk)}
		case x < 70 && len(everDeleted) > 0: // bring a deleted key back
			o = c14MapOp{k: pick(r, everDeleted), v: r.intn(len(vt.lits))}
		case x < 82 && len(live) > 0: // overwrite
			o = c14MapOp{k: pick(r, sortedIntKeys(live)), v: r.intn(len(vt.lits))}
		default:
			o = c14MapOp{k: r.intn(nk), v: r.intn(len(vt.lits))}
		}
		if o.del {
			if live[o.k] {
				everDeleted = append(everDeleted, o.k)
			}
			delete(live, o.k)
		} else {
			live[o.k] = true
		}
		c.ops = append(c.ops, o)
	}
	// the comparable fragment: at most one live entry at the end
	target := r.intn(2)
	for len(live) > target {
		k := pick(r, sortedIntKeys(live))
		c.ops = append(c.ops, c14MapOp{del: true, k: k})
		delete(live, k)
	}
	return c
}

func sortedIntKeys(m map[int]bool) []int {
	var ks []int
	for k := range m {
		ks = append(ks, k)
	}
	for i := 1; i < len(ks); i++ {
		for j := i; j > 0 && ks[j] < ks[j-1]; j-- {
			ks[j], ks[j-1] = ks[j-1], ks[j]
		}
	}
	return ks
}

// c14FixedMapCases: the shortest histories, for every key type
func c14FixedMapCases(keys, vals []c14MapKind) []*c14MapCase {
	var cs []*c14MapCase
	for ki, kt := range keys {
		vt := vals[ki%len(vals)]
		two := []c14MapOp{{k: 0, v: 0}, {k: 1, v: 1}}
		cs = append(cs,
			&c14MapCase{kt: kt, vt: vt, init: two, ops: []c14MapOp{{del: true, k: 0}}},                                                                    // {a,b}; delete a
			&c14MapCase{kt: kt, vt: vt, init: two, ops: []c14MapOp{{del: true, k: 1}}},                                                                    // {a,b}; delete b
			&c14MapCase{kt: kt, vt: vt, init: two[:1], ops: []c14MapOp{{del: true, k: 0}}},                                                                // {a}; delete a
			&c14MapCase{kt: kt, vt: vt, init: two, ops: []c14MapOp{{del: true, k: 0}, {del: true, k: 1}}},                                                 // emptied
			&c14MapCase{kt: kt, vt: vt, init: two[:1], ops: []c14MapOp{{del: true, k: 0}, {k: 0, v: 2}}},                                                  // deleted, reinserted
			&c14MapCase{kt: kt, vt: vt, init: two[:1], ops: []c14MapOp{{del: true, k: 0}, {k: 1, v: 2}}},                                                  // deleted, another key inserted
			&c14MapCase{kt: kt, vt: vt, init: two, ops: []c14MapOp{{del: true, k: 0}, {k: 0, v: 3}, {del: true, k: 1}}},                                   // a comes back, b goes
			&c14MapCase{kt: kt, vt: vt, useMake: true, ops: []c14MapOp{{k: 0, v: 0}, {k: 1, v: 1}, {del: true, k: 0}}},                                    // make; insert; delete
			&c14MapCase{kt: kt, vt: vt, useMake: true, ops: []c14MapOp{{k: 0, v: 0}, {del: true, k: 0}}},                                                  // make; insert; delete
			&c14MapCase{kt: kt, vt: vt, useMake: true, ops: []c14MapOp{{k: 0, v: 0}, {k: 0, v: 1}, {del: true, k: 0}, {k: 0, v: 4}}},                      // overwrite, delete, reinsert
			&c14MapCase{kt: kt, vt: vt, init: two, ops: []c14MapOp{{del: true, k: 1}, {del: true, k: 0}, {k: 1, v: 0}, {del: true, k: 1}, {k: 1, v: 3}}},  // repeated
			&c14MapCase{kt: kt, vt: vt, init: two[:1], ops: []c14MapOp{{del: true, k: 1}}},                                                                // deleting an absent key
			&c14MapCase{kt: kt, vt: vt, init: nil, ops: []c14MapOp{{del: true, k: 0}}},                                                                    // delete on an empty literal
			&c14MapCase{kt: kt, vt: vt, init: two, ops: []c14MapOp{{k: 0, v: 2}, {del: true, k: 1}}},                                                      // overwrite, delete the other
			&c14MapCase{kt: kt, vt: vt, init: two, ops: []c14MapOp{{del: true, k: 0}, {del: true, k: 1}, {k: 0, v: 1}, {k: 1, v: 0}, {del: true, k: 0}}},  // emptied and refilled
			&c14MapCase{kt: kt, vt: vt, init: two, ops: []c14MapOp{{del: true, k: 0}, {del: true, k: 0}, {del: true, k: 1}, {del: true, k: 1}}},           // double deletes
			&c14MapCase{kt: kt, vt: vt, useMake: true, init: two, ops: []c14MapOp{{del: true, k: 1}, {k: 1, v: 2}, {del: true, k: 0}, {del: true, k: 1}}}, // make + inserts
		)
		if len(kt.lits) >= 4 {
			four := []c14MapOp{{k: 0, v: 0}, {k: 1, v: 1}, {k: 2, v: 2}}
			cs = append(cs,
				&c14MapCase{kt: kt, vt: vt, init: four, ops: []c14MapOp{{del: true, k: 0}, {del: true, k: 2}}},                                  // 3 entries, 2 deleted: no compaction yet
				&c14MapCase{kt: kt, vt: vt, init: four, ops: []c14MapOp{{k: 3, v: 3}, {del: true, k: 0}, {del: true, k: 1}, {del: true, k: 2}}}, // 4 entries, 3 deleted: compaction
				&c14MapCase{kt: kt, vt: vt, init: four, ops: []c14MapOp{{del: true, k: 1}, {del: true, k: 0}, {del: true, k: 2}}},               // 3 entries, all deleted
			)
		}
	}
	return cs
}

// c14MapHistories is called from cmdC14Script.
func c14MapHistories(st *stats, r *rng, n int) {
	keys, vals := c14MapKinds()
	cases := c14FixedMapCases(keys, vals)
	for i := 0; i < n; i++ {
		cases = append(cases, c14GenMapCase(r, keys[i%len(keys)], vals[(i/len(keys))%len(vals)]))
	}
	for _, c := range cases {
		nm, dead, reins := c.replay()
		if len(nm) > 1 {
			panic("c14 map histories: generator left more than one live entry")
		}
		hist := "no key deleted"
		switch {
		case dead && reins:
			hist = "dead keys and a reinserted key"
		case dead:
			hist = "dead keys"
		case reins:
			hist = "a reinserted key"
		}
		class := fmt.Sprintf("map[%s] history: %d live, %s", c.kt.name, len(nm), hist)
		st.add(class, c.mapType()+": "+c.describe())
		st.Histogram["map history: "+strconv.Itoa(len(c.ops))+" operations"]++

		// what the real fmt package prints
		nslice := []map[any]any{nm}
		nstruct := &struct{ M map[any]any }{nm}
		want := []string{fmt.Sprintln(nm), fmt.Sprintln(nm), "<" + fmt.Sprint(nm) + ">\n", fmt.Sprintln(nslice), fmt.Sprintf("%+v\n", nstruct),
			fmt.Sprintln(len(nm), nm), fmt.Sprint(nm) + "\n"}
		forms := []string{"println(m)", "fmt.Println(m)", "fmt.Sprint(m)", "fmt.Println([]M{m})", "fmt.Println(&T{M: m})", "fmt.Println(len(m), m)", "fmt.Print(m)"}
		depths := []int{1, 1, 1, 2, 2, 1, 1}
		src := c.program()
		got, gerr := goatRun(src)
		es := ""
		if gerr != nil {
			es = gerr.Error()
		}
		lines := strings.SplitAfter(got, "\n")
		for i, w := range want {
			gl := "<no output>"
			if i < len(lines) {
				gl = lines[i]
			}
			if gl != w || gerr != nil {
				c14Record(st, class, depths[i], "script "+forms[i], src, w, gl, es)
			}
		}
		if es == "" && len(lines) != len(want)+1 {
			c14Record(st, class, 1, "script output length", src, strings.Join(want, ""), got, "")
		}

		// the host API: the same history, rendered by Value.String()
		var hs, hsl, vs, vsl, vst string
		var herr error
		hobs := c14Guard(func() {
			hv := c.host()
			hs = hv.String()
			hsl = g.NewSlice(g.Type(g.VerifMapType(c.kt.tag, c.vt.tag)), []g.Value{hv}).String()
			// values built by the script, rendered by the host
			vm, e := c14LoadMain(src)
			if e != nil {
				herr = e
				return
			}
			for _, q := range []struct {
				fn  string
				dst *string
			}{{"main.build", &vs}, {"main.inSlice", &vsl}, {"main.inStruct", &vst}} {
				out, e := vm.Call(q.fn, 1)
				if e != nil || len(out) != 1 {
					herr = fmt.Errorf("%s: %v (%d results)", q.fn, e, len(out))
					return
				}
				*q.dst = out[0].String()
			}
		})
		if herr != nil {
			hobs += herr.Error()
		}
		hostSrc := "host API: " + c.hostDescribe()
		for _, q := range []struct {
			via, src, want, got string
			depth               int
		}{
			{"host NewMap/Set/Delete; Value.String()", hostSrc, fmt.Sprint(nm), hs, 1},
			{"host NewSlice of the map; Value.String()", hostSrc, fmt.Sprint(nslice), hsl, 2},
			{"script build(); host Value.String()", src, fmt.Sprint(nm), vs, 1},
			{"script inSlice(); host Value.String()", src, fmt.Sprint(nslice), vsl, 2},
			{"script inStruct(); host Value.String()", src, fmt.Sprintf("%+v", nstruct), vst, 2},
		} {
			if q.got != q.want || hobs != "" {
				c14Record(st, class, q.depth, q.via, q.src, q.want, q.got, hobs)
			}
		}
	}
}

func (c *c14MapCase) hostDescribe() string {
	var p []string
	var in []string
	for _, o := range c.init {
		if c.useMake {
			p = append(p, fmt.Sprintf("m.Set(%s, %s)", c.kt.lits[o.k], c.vt.lits[o.v]))
		} else {
			in = append(in, c.kt.lits[o.k], c.vt.lits[o.v])
		}
	}
	for _, o := range c.ops {
		if o.del {
			p = append(p, fmt.Sprintf("m.Delete(%s)", c.kt.lits[o.k]))
		} else {
			p = append(p, fmt.Sprintf("m.Set(%s, %s)", c.kt.lits[o.k], c.vt.lits[o.v]))
		}
	}
	return fmt.Sprintf("m := NewMap(%s, %s, [%s]); %s", c.kt.name, c.vt.name, strings.Join(in, " "), strings.Join(p, "; "))
}

func c14Guard(f func()) (escaped string) {
	defer func() {
		if r := recover(); r != nil {
			escaped = fmt.Sprint("GO PANIC ESCAPED: ", r)
		}
	}()
	f()
	return ""
}

func c14LoadMain(src string) (*g.VM, error) {
	vm := g.New(g.WithStdout(io.Discard))
	if err := vm.Load(fstest.MapFS{"main/main.go": &fstest.MapFile{Data: []byte(src)}}, "main"); err != nil {
		return nil, err
	}
	return vm, nil
}
