(* C01 -- programs in the supported Go subset run as the Go toolchain runs them.
   No formal semantics of Go is available offline, so C01 is claimed as the composition of the facet
   properties (C04-C16, each with its own theorems) plus the whole-program differential against the Go
   toolchain.  The theorems here are the part of that composition that is closed end to end: for
   expressions, goatlang's parser (generated table), opcode selection (generated infixMap) and operator
   implementations (generated from value.go) agree with Go's grouping and Go's int32 operators, for every
   token list, every variable assignment and every operand value. *)
From Coq Require Import ZArith List String Bool.
From GV Require Import GoSpec.GoPrim GoSpec.GoPrec Gen.ValueOps_gen Gen.Tables_gen Model.Pratt Model.PrattInst Model.ExprEval
                        Proofs.C04_ops Proofs.C05_inst Proofs.C01_expr.
Import ListNotations.
Open Scope string_scope.
Open Scope Z_scope.

Theorem c01_expr_eval : forall (env : string -> Z) t,
  (forall x, in_range I32 (env x) = true) -> arith t = true ->
  eval_goat (fun x => V I32 (env x)) t = lift32 (eval_go env t) /\
  (forall z, eval_go env t = Ok z -> in_range I32 z = true).
Proof. exact c01_eval_agrees. Qed.
Print Assumptions c01_expr_eval.

Theorem c01_expr_partial : table_ok_b = true ->
  forall ts t (env : string -> Z), goat_parse ts = inl (t, []) ->
  (forall x, in_range I32 (env x) = true) -> arith t = true ->
  flatten t = ts /\ grouped go_prec t /\
  eval_goat (fun x => V I32 (env x)) t = lift32 (eval_go env t).
Proof. exact c01_expr. Qed.
Print Assumptions c01_expr_partial.
(* _partial: the full property quantifies over whole programs (statements, calls, containers, strings,
   printing, packages); those are covered by C02-C20 separately and by the differential, not by this theorem. *)

Example c01_witness :
  let ts := [TAtom false "a"; TSym "<<"; TAtom false "b"; TSym "-"; TAtom false "c"; TSym "*"; TSym "-"; TAtom false "a"] in
  let env := fun x => if String.eqb x "a" then 1 else if String.eqb x "b" then 31 else 2147483647 in
  match goat_parse ts with
  | inl (t, []) => arith t = true /\ eval_go env t = Ok (-1) /\ eval_goat (fun x => V I32 (env x)) t = Ok (V I32 (-1))
  | _ => False
  end.
Proof. vm_compute. repeat split; reflexivity. Qed.

(* ---- the dispatch loop is part of the composition -----------------------------------------------------
   c01_expr_eval uses Model/ExprEval.v binop_of_code for "the Value method the VM executes for a binary
   opcode".  That table is not an assumption: for every opcode in it, the dispatch case REGENERATED from the
   exec switch of /repo/do.go on every run (Gen/Steps_gen.v step_gen) pops the right operand b and the left
   operand a, applies exactly that method to (a, b) and pushes the result -- for every instruction, operand
   stack, frame and VM state.  The second theorem is the same for all sixteen two-operand opcodes incl. the
   comparisons (GT and GTE are LT and LTE with the operands swapped).  A change of one of these cases in
   do.go (say, computing a <= b as !(b < a), which differs on NaN) breaks these obligations. *)
From GV Require Import Model.VM Gen.Steps_gen Proofs.C04_vm.
Lemma c01_disp_res : forall name g, In (name, false, BRes g) vm_binops ->
  forall i slots a b rest s, icode i = C name ->
  step_gen i slots (b :: a :: rest) s = Some (slift (g a b) s (fun r => SNext slots (r :: rest) s)).
Proof. intros name g Hin i slots a b rest s Hc. rewrite (vm_binop_step name false (BRes g) Hin i slots a b rest s Hc). reflexivity. Qed.
Lemma c01_disp_plain : forall name g, In (name, false, BPlain g) vm_binops ->
  forall i slots a b rest s, icode i = C name ->
  step_gen i slots (b :: a :: rest) s = Some (slift (Ok (g a b)) s (fun r => SNext slots (r :: rest) s)).
Proof. intros name g Hin i slots a b rest s Hc. rewrite (vm_binop_step name false (BPlain g) Hin i slots a b rest s Hc). reflexivity. Qed.

Theorem c01_dispatch_from_source : forall code f, binop_of_code code = Some f ->
  forall i slots a b rest s, icode i = C code ->
  step_gen i slots (b :: a :: rest) s = Some (slift (f a b) s (fun r => SNext slots (r :: rest) s)).
Proof.
  intros code f H i slots a b rest s Hc. unfold binop_of_code in H.
  Ltac c01_case H Hc :=
    match type of H with
    | (if String.eqb ?code ?n then _ else _) = _ =>
        let E := fresh "E" in destruct (String.eqb code n) eqn:E;
        [ apply String.eqb_eq in E; subst code; injection H as H; subst;
          cbv beta;
          first [ eapply c01_disp_res; [ | exact Hc]; cbn [vm_binops In]; tauto
                | eapply c01_disp_plain; [ | exact Hc]; cbn [vm_binops In]; tauto ]
        | ]
    end.
  c01_case H Hc. c01_case H Hc. c01_case H Hc. c01_case H Hc. c01_case H Hc.
  c01_case H Hc. c01_case H Hc. c01_case H Hc. c01_case H Hc. c01_case H Hc.
  discriminate.
Qed.
Print Assumptions c01_dispatch_from_source.

Theorem c01_vm_binop_from_source : forall name sw f, In (name, sw, f) vm_binops ->
  forall i slots a b rest s, icode i = C name ->
  step_gen i slots (b :: a :: rest) s = Some (binop_result sw f slots a b rest s).
Proof. exact vm_binop_step. Qed.
Print Assumptions c01_vm_binop_from_source.
