(* C01 -- programs in the supported Go subset run as the Go toolchain runs them.
   No formal semantics of Go is available offline, so C01 is claimed as the composition of the facet
   properties (C04-C16, each with its own theorems) plus the whole-program differential against the Go
   toolchain.  The theorems here are the part of that composition that is closed end to end: for
   expressions, goatlang's parser (generated table), opcode selection (generated infixMap) and operator
   implementations (generated from value.go) agree with Go's grouping and Go's int32 operators, for every
   token list, every variable assignment and every operand value. *)
From Coq Require Import ZArith List String Bool.
From GV Require Import GoSpec.GoPrim GoSpec.GoPrec Gen.ValueOps_gen Gen.Tables_gen Model.Pratt Model.PrattInst Model.ExprEval
                        Proofs.C04_ops Proofs.C05_inst Proofs.C01_expr.
Import ListNotations.
Open Scope string_scope.
Open Scope Z_scope.

Theorem c01_expr_eval : forall (env : string -> Z) t,
  (forall x, in_range I32 (env x) = true) -> arith t = true ->
  eval_goat (fun x => V I32 (env x)) t = lift32 (eval_go env t) /\
  (forall z, eval_go env t = Ok z -> in_range I32 z = true).
Proof. exact c01_eval_agrees. Qed.
Print Assumptions c01_expr_eval.

Theorem c01_expr_partial : table_ok_b = true ->
  forall ts t (env : string -> Z), goat_parse ts = inl (t, []) ->
  (forall x, in_range I32 (env x) = true) -> arith t = true ->
  flatten t = ts /\ grouped go_prec t /\
  eval_goat (fun x => V I32 (env x)) t = lift32 (eval_go env t).
Proof. exact c01_expr. Qed.
Print Assumptions c01_expr_partial.
(* _partial: the full property quantifies over whole programs (statements, calls, containers, strings,
   printing, packages); those are covered by C02-C20 separately and by the differential, not by this theorem. *)

Example c01_witness :
  let ts := [TAtom false "a"; TSym "<<"; TAtom false "b"; TSym "-"; TAtom false "c"; TSym "*"; TSym "-"; TAtom false "a"] in
  let env := fun x => if String.eqb x "a" then 1 else if String.eqb x "b" then 31 else 2147483647 in
  match goat_parse ts with
  | inl (t, []) => arith t = true /\ eval_go env t = Ok (-1) /\ eval_goat (fun x => V I32 (env x)) t = Ok (V I32 (-1))
  | _ => False
  end.
Proof. vm_compute. repeat split; reflexivity. Qed.
