(* C08 -- names resolve by Go's lexical block scoping.
   Model/Lookup.v transcribes lookup.go (flat table with "~"-renaming) and the compiler's
   Begin / End / Shadow; its specification part is the textbook stack of blocks.  Tie:
   correspondence through hook VerifLookup on every run. *)
From Coq Require Import List String Bool PeanoNat.
From GV Require Import Model.Lookup Proofs.C08_lookup.
Import ListNotations.
Open Scope string_scope.

(* for every well-bracketed sequence of Begin / End / Declare / Resolve on valid names started inside a
   function body, at any nesting depth and in any order: every declaration gets the slot of a new variable
   (or the same one when redeclared in the same block), every name occurrence resolves to the innermost
   enclosing declaration -- shadowing inside the block, the outer binding again after the block ends,
   "not a local" (so: the global or import alias) when no enclosing block declares it *)
Theorem c08_refine : forall os, well_formed 1 os = true ->
  c_run (c_begin new_scope) os = s_run (s_begin s_new) os.
Proof. exact C08_lookup.c08_refine. Qed.
Print Assumptions c08_refine.

(* the renaming recursions never run out of budget: the recursive shadow/unshadow of lookup.go terminate *)
Theorem c08_budget : forall m k f, chain_fuel m <= f ->
  shadow f m k = shadow (chain_fuel m) m k /\ unshadow f m k = unshadow (chain_fuel m) m k.
Proof. intros m k f H. exact (conj (shadow_budget_any m k f H) (unshadow_budget_any m k f H)). Qed.
Print Assumptions c08_budget.

(* non-vacuity: the two-level shadowing history that used to resurrect x *)
Example c08_witness :
  let os := [SDeclare "x"; SBegin; SDeclare "x"; SBegin; SDeclare "x"; SResolve "x"; SEnd; SResolve "x"; SEnd;
             SResolve "x"; SEnd; SResolve "x"] in
  well_formed 1 os = true /\
  c_run (c_begin new_scope) os =
    [Some (Some 0); None; Some (Some 1); None; Some (Some 2); Some (Some 2); None; Some (Some 1); None;
     Some (Some 0); None; Some None].
Proof. vm_compute. split; reflexivity. Qed.
