(* C17 -- reloading swaps code in place and keeps state.
   Model/Reload.v transcribes the top-level instructions GLOBALFUNC, GLOBALZERO, GLOBALSET,
   GLOBALSTRUCT, SETMETHOD of do.go and addMethod / syncFields / newMethod / structT.GetIndex of
   value.go (tie: c17-corr runs histories on the real VM; the instruction list of every Load is
   decompiled from the code the real compiler produced).

   S : sig     the names a package declares (types with fields, methods, functions, variables with or
               without initialiser), in the order treeSort gives the top-level code;
   beta v      the function and method bodies of version v: versions differ in bodies only;
   histories   any list of  Load v | store (capture a function value, a bound method, an instance, a
               scalar into a host slot, a global variable or an instance field) | call | identity test,
               from the empty VM, IN WHICH NO STEP FAILS: every theorem below has the premise
               run ... = Some (st, o); `run` is None as soon as one step panics in the model (a call of a
               non-function, a path through a nil receiver or a missing slot, a Load that finds a
               non-function in a function's name ...).  About histories with a failing step -- in particular
               about the state a failed Load leaves behind -- nothing is said.
               hist_ok: scripts and host never assign to the NAME of a declared
               function or type (not expressible in Go). *)
From Coq Require Import ZArith List Bool.
From GV Require Import Model.Reload Proofs.C17_reload Proofs.C17_hist Proofs.C17_idem Proofs.C17_closed.
Import ListNotations.
Open Scope Z_scope.

(* one function object per declared function / method, from its first Load on and for the rest of the
   history: its address never changes, distinct declarations have distinct objects, a bound method keeps
   receiver and target object, and the Values the host captured stay what they were.
   Consequence of conjunct 1 for globals: the global NAMED AFTER a declared function f (key KFunc f) holds
   the same function object for the rest of the history -- it never becomes nil again.  This is about the
   declared function NAMES only (protected by hist_ok); an ordinary variable into which a function value
   was copied may of course be overwritten by a later store. *)
Theorem c17_identity : forall S, wf_sig S -> forall beta,
  forall h1 h2 st1 o1 st2 o2, hist_ok S h1 -> hist_ok S h2 ->
    run (prog S beta) init_state h1 = Some (st1, o1) -> run (prog S beta) st1 h2 = Some (st2, o2) ->
    (forall k a, key_ok S k -> fn_addr st1 k = Some a -> fn_addr st2 k = Some a) /\
    (last_load h1 <> None -> forall k, key_ok S k -> exists a, fn_addr st1 k = Some a) /\
    (forall k k' a, key_ok S k -> key_ok S k' -> fn_addr st1 k = Some a -> fn_addr st1 k' = Some a -> k = k') /\
    (forall c r f, nth_error (funcs st1) c = Some (FBound r f) -> nth_error (funcs st2) c = Some (FBound r f)) /\
    (forall i v, nth_error (slots st1) i = Some v -> nth_error (slots st2) i = Some v).
Proof. exact identity. Qed.

(* after any history the object of every declared function / method holds the body of the version loaded last *)
Theorem c17_latest : forall S, wf_sig S -> forall beta,
  forall h st o v, hist_ok S h -> run (prog S beta) init_state h = Some (st, o) -> last_load h = Some v ->
    forall k a, key_ok S k -> fn_addr st k = Some a ->
      nth_error (funcs st) a = Some (FBody (body_of (beta v) k)).
Proof. exact latest. Qed.

(* a reference c taken at ANY earlier point of the history (state st1) -- the function value of k itself,
   wherever it was copied to, or a bound method made from k -- when called later (state st2) runs the body
   that the version loaded last gives k, on the receiver it was bound to *)
Theorem c17_latest_call : forall S, wf_sig S -> forall beta,
  forall h1 h2 st1 o1 st2 o2 v, hist_ok S h1 -> hist_ok S h2 ->
    run (prog S beta) init_state h1 = Some (st1, o1) -> run (prog S beta) st1 h2 = Some (st2, o2) ->
    last_load (h1 ++ h2) = Some v ->
    forall k c, key_ok S k ->
      (fn_addr st1 k = Some c -> call_obs st2 (VFunc c) = Some (OCall (body_of (beta v) k) None)) /\
      (forall r a, nth_error (funcs st1) c = Some (FBound r a) -> fn_addr st1 k = Some a ->
                   call_obs st2 (VFunc c) = Some (OCall (body_of (beta v) k) (Some r))).
Proof. exact latest_call. Qed.

(* there are no other function objects: EVERY successful call of ANY function value in a reachable state --
   whatever path, slot, variable or field it came from, whenever it was captured -- runs the body that the
   version loaded last gives some declared function or method k: c is k's own object, or a bound method on it *)
Theorem c17_any_call : forall S, wf_sig S -> forall beta,
  forall h st o v, hist_ok S h -> run (prog S beta) init_state h = Some (st, o) -> last_load h = Some v ->
    forall c ob, call_obs st (VFunc c) = Some ob ->
      exists k recv, key_ok S k /\ ob = OCall (body_of (beta v) k) recv /\
        ((recv = None /\ fn_addr st k = Some c) \/
         (exists r a, recv = Some r /\ nth_error (funcs st) c = Some (FBound r a) /\ fn_addr st k = Some a)).
Proof. exact any_call. Qed.

(* state across one Load, from ANY machine state st (no invariant, no reachability premise in any of the
   four conjuncts) on which the Load does not fail (exec_list ... = Some st'; from an arbitrary state it may
   fail, e.g. when the name of a function holds a number): `var n T` keeps a non-nil value; `var n = c`
   holds c; `var n = f` holds THE object of f (the one the global f holds after the Load); host slots and
   existing instances are untouched *)
Theorem c17_state : forall S B, wf_sig S ->
  (forall st st' n z, In (VZero n z) (svars S) -> exec_list st (version_of S B) = Some st' ->
     gget st' n = if is_nil (gget st n) then z else gget st n) /\
  (forall st st' n z, In (VSet n (EArg (AConst z))) (svars S) -> exec_list st (version_of S B) = Some st' ->
     gget st' n = VInt z) /\
  (forall st st' n f, In (VSet n (EArg (APath (PGlobal f)))) (svars S) -> In f (sfuncs S) ->
     exec_list st (version_of S B) = Some st' -> gget st' n = gget st' f /\ exists a, gget st' f = VFunc a) /\
  (forall st st', exec_list st (version_of S B) = Some st' ->
     slots st' = slots st /\ exists y, (insts st' = insts st ++ y)%list).
Proof.
  exact (fun S B WF => conj (state_zero S WF B) (conj (state_const S WF B) (conj (state_funcref S WF B) (state_objects S B)))).
Qed.

(* Load v; Load v is observationally equal to Load v, at any point of any history, for every later
   observation sequence (initialisers: constants and references to declared functions) *)
Theorem c17_idem : forall S beta, wf_sig S -> simple_init S ->
  forall h0 st o0 v h, hist_ok S h0 -> run (prog S beta) init_state h0 = Some (st, o0) ->
    run (prog S beta) st (HLoad v :: HLoad v :: h) = run (prog S beta) st (HLoad v :: h).
Proof. exact idem. Qed.

(* the invariant behind them: reachable states keep function objects of declared keys distinct and type
   objects in place *)
Theorem c17_invariant : forall S, wf_sig S -> forall beta,
  forall h st o, hist_ok S h -> run (prog S beta) init_state h = Some (st, o) -> Inv S st.
Proof. exact (fun S WF beta h st o OK R => proj1 (run_good S WF beta h init_state st o OK (inv_init S) R)). Qed.

Print Assumptions c17_identity.
Print Assumptions c17_latest.
Print Assumptions c17_latest_call.
Print Assumptions c17_any_call.
Print Assumptions c17_state.
Print Assumptions c17_idem.
Print Assumptions c17_invariant.

(* non-vacuity: a package with a struct type (fields 10, 11; method 20), functions 2 and 3, variables
   4 (var int), 5 (= 5), 6 (= function 2), 7 (var *T); two versions; a history that captures function 2
   and a bound method before the reload and calls them afterwards *)
Definition S0 : sig := mkSig [(1, [(10, VInt 0); (11, VNil)])] [(1, 20)] [2; 3]
                             [VZero 4 (VInt 0); VSet 5 (EArg (AConst 5)); VSet 6 (EArg (APath (PGlobal 2))); VZero 7 VNil].
Definition beta0 (v : nat) : bodies := mkBodies (fun n => Z.of_nat v * 100 + n) (fun _ m => Z.of_nat v * 100 + m).
Definition h0 : list hop :=
  [HLoad 1; HStore LSlot (EArg (APath (PGlobal 2))); HStore (LGlobal 7) (ENew 1 [(10, AConst 9)]);
   HStore LSlot (EArg (APath (PAttr (PGlobal 7) 20))); HStore (LGlobal 4) (EArg (AConst 42));
   HStore (LGlobal 5) (EArg (AConst 77)); HCall (PSlot 0); HCall (PSlot 1);
   HLoad 2; HCall (PSlot 0); HCall (PSlot 1); HCall (PGlobal 6); HSame (PSlot 0) (PGlobal 2)].

Example c17_witness :
  wf_sig S0 /\ simple_init S0 /\ hist_ok S0 h0 /\
  match run (prog S0 beta0) init_state h0 with
  | Some (st, obs) =>
      obs = [OCall 102 None; OCall 120 (Some 0%nat); OCall 202 None; OCall 220 (Some 0%nat); OCall 202 None; OSame true]
      /\ gget st 4 = VInt 42 /\ gget st 5 = VInt 5
  | None => False
  end.
Proof.
  split; [|split; [|split]].
  - split.
    + simpl. repeat constructor; simpl; intuition discriminate.
    + simpl. intros t m [E|[]]. inversion E. auto.
    + simpl. intros t fs [E|[]]. inversion E. subst. simpl. repeat constructor; simpl; intuition discriminate.
  - intros n e HI. simpl in HI. destruct HI as [E|[E|[E|[E|[]]]]]; inversion E; subst.
    + left. eauto.
    + right. exists 2. simpl. auto.
  - unfold h0. repeat constructor; simpl; unfold protected; simpl; intuition discriminate.
  - vm_compute. repeat split; reflexivity.
Qed.

(* outside the quantifier (a version that ADDS a field to a struct type): the model reproduces what
   c17-script group "evolve" observes on the real VM -- an instance made before the reload has its own
   copy of Fields without the new field, so reading the field falls through to the method table and
   panics (None), and SetIndex (intMap.Assign) drops the write; an instance made afterwards is fine *)
Example c17_evolve_witness :
  let v1 := [GlobalStruct 1 [(10, VInt 0)]; GlobalZero 7 VNil] in
  let v2 := [GlobalStruct 1 [(10, VInt 0); (12, VInt 0)]; GlobalZero 7 VNil; GlobalZero 8 VNil] in
  let prog := fun v : nat => match v with 1%nat => v1 | _ => v2 end in
  let h := [HLoad 1; HStore (LGlobal 7) (ENew 1 [(10, AConst 9)]); HLoad 2] in
  match run prog init_state h with
  | Some (st, _) =>
      eval_path st (PAttr (PGlobal 7) 10) = Some (st, VInt 9) /\
      eval_path st (PAttr (PGlobal 7) 12) = None /\
      (match run prog st [HStore (LField (PGlobal 7) 12) (EArg (AConst 4))] with
       | Some (st', _) => eval_path st' (PAttr (PGlobal 7) 12) = None
       | None => False end) /\
      (match run prog st [HStore (LGlobal 8) (ENew 1 [])] with
       | Some (st', _) => eval_path st' (PAttr (PGlobal 8) 12) = Some (st', VInt 0)
       | None => False end)
  | None => False
  end.
Proof. vm_compute. repeat split; reflexivity. Qed.

(* ---- tie to the source for the two variable instructions ---------------------------------------------
   Reload.v's GlobalZero / GlobalSet transcribe GLOBALZERO / GLOBALSET of do.go.  For these two opcodes the
   dispatch case is ALSO regenerated from do.go by go2v on every run (Gen/Steps_gen.v), and the theorems
   below are about that generated step: GLOBALZERO leaves the VM state exactly as it is when the variable
   already holds a non-nil value (whatever its dynamic type, whatever the declared type operand B) and
   otherwise stores the zero value of the declared type; GLOBALSET stores the operand, assigned the type of
   the variable's current value.  A change of either case in do.go (e.g. re-zeroing on some condition of
   the old value) breaks these theorems. *)
From Coq Require Import String.
From GV Require Import GoSpec.GoPrim Gen.ValueOps_gen Gen.Tables_gen Model.VM Gen.Steps_gen Proofs.C04_vm.
Open Scope string_scope.
Theorem c17_globalzero_from_source : forall i slots ops s g, icode i = C "codeGlobalZero" ->
  znth (globals s) (iA i) = Some g ->
  step_gen i slots ops s =
    Some (if Value_IsNil g then SNext slots ops (set_global s (iA i) (Value_assign (fn_newZero (iB i)) (vt g)))
          else SNext slots ops s).
Proof. exact vm_globalzero_step. Qed.
Print Assumptions c17_globalzero_from_source.

Theorem c17_globalset_from_source : forall i slots a rest s g, icode i = C "codeGlobalSet" ->
  znth (globals s) (iA i) = Some g ->
  step_gen i slots (a :: rest) s = Some (SNext slots rest (set_global s (iA i) (Value_assign a (vt g)))).
Proof. exact vm_globalset_step. Qed.
Print Assumptions c17_globalset_from_source.
