(* C16 -- declaration order and file layout inside a package do not matter.
   The priority table is REGENERATED from /repo/tree.go by go2v; Model/TreeSort.v
   is the stable descending sort (= sort.SliceStable's contract, theorem c16_sort_unique). *)
From Coq Require Import ZArith List String Bool Permutation Sorted.
From GV Require Import Model.TreeSort Gen.Tables_gen Proofs.C16_sort.
Import ListNotations.
Open Scope Z_scope.

(* the generated table hoists imports, then struct types, then constants, then methods, then functions in
   front of everything else (priority 0: var declarations and statements), init functions last; and the
   comparison sorts descending *)
Theorem c16_table :
  priority_desc = true /\
  let p := prio_of priority in
  (p "import" > p "type" /\ p "type" > p "const" /\ p "const" > p "method" /\ p "method" > p "function" /\
   p "function" > 0 /\ 0 > p "init" /\ p "var" = 0 /\ p ":=" = 0 /\ p "call" = 0 /\ p "=" = 0)%string.
Proof. vm_compute. repeat split; discriminate. Qed.
Print Assumptions c16_table.

Section C16.
  Context {A : Type} (prio : A -> Z).

  (* treeSort returns a permutation, sorted by descending priority, stable *)
  Theorem c16_sort_spec : forall l,
    Permutation (tree_sort prio l) l /\
    StronglySorted (fun a b => prio b <= prio a) (tree_sort prio l) /\
    (forall p, filter (fun x => prio x =? p) (tree_sort prio l) = filter (fun x => prio x =? p) l).
  Proof. intro l. exact (conj (sort_perm prio l) (conj (sort_sorted prio l) (fun p => sort_stable prio p l))). Qed.

  (* and these three properties determine the result: the model IS sort.SliceStable *)
  Theorem c16_sort_unique : forall l l',
    StronglySorted (fun a b => prio b <= prio a) l' ->
    (forall p, filter (fun x => prio x =? p) l' = filter (fun x => prio x =? p) l) ->
    (forall x, In x l' -> exists p, prio x = p) -> Permutation l' l -> l' = tree_sort prio l.
  Proof. exact (sort_unique prio). Qed.

  (* any permutation of the hoistable declarations (function, method, struct type) and any partition into
     files that keeps the other nodes in sequence hands the compiler: the same sequence of non-hoistable
     nodes, level by level the same hoistable declarations, higher levels strictly first *)
  Theorem c16_layout_invariant : forall (hoist : A -> bool) l l', hoist_equiv prio hoist l l' ->
    filter (fun x => negb (hoist x)) (tree_sort prio l) = filter (fun x => negb (hoist x)) (tree_sort prio l') /\
    (forall p, Permutation (filter (fun x => hoist x && (prio x =? p)) (tree_sort prio l))
                           (filter (fun x => hoist x && (prio x =? p)) (tree_sort prio l'))) /\
    (forall l1 x l2 y l3, tree_sort prio l = l1 ++ x :: l2 ++ y :: l3 -> prio y <= prio x).
  Proof. exact (sort_hoist_invariant prio). Qed.
End C16.
Print Assumptions c16_sort_spec.
Print Assumptions c16_sort_unique.
Print Assumptions c16_layout_invariant.

(* files of a package are joined in name order: first file whole, later files without their package clause *)
Theorem c16_join : forall (A : Type) (f : list A) (r : list (list A)),
  join_files (f :: r) = f ++ List.concat (map (@tl A) r).
Proof. exact join_files_spec. Qed.
Print Assumptions c16_join.
