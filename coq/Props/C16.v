(* C16 -- declaration order and file layout inside a package do not matter.
   The priority table is REGENERATED from /repo/tree.go by go2v; Model/TreeSort.v
   is the stable descending sort (= sort.SliceStable's contract, theorem c16_sort_unique). *)
From Coq Require Import ZArith List String Bool Permutation Sorted.
From GV Require Import Model.TreeSort Gen.Tables_gen Proofs.C16_sort Model.Reload Proofs.C17_base Proofs.C17_reload Proofs.C16_commute.
Import ListNotations.
Open Scope Z_scope.

(* the generated table hoists imports, then struct types, then constants, then methods, then functions in
   front of everything else (priority 0: var declarations and statements), init functions last; and the
   comparison sorts descending *)
Theorem c16_table :
  priority_desc = true /\
  let p := prio_of priority in
  (p "import" > p "type" /\ p "type" > p "const" /\ p "const" > p "method" /\ p "method" > p "function" /\
   p "function" > 0 /\ 0 > p "init" /\ p "var" = 0 /\ p ":=" = 0 /\ p "call" = 0 /\ p "=" = 0)%string.
Proof. vm_compute. repeat split; discriminate. Qed.
Print Assumptions c16_table.

Section C16.
  Context {A : Type} (prio : A -> Z).

  (* treeSort returns a permutation, sorted by descending priority, stable *)
  Theorem c16_sort_spec : forall l,
    Permutation (tree_sort prio l) l /\
    StronglySorted (fun a b => prio b <= prio a) (tree_sort prio l) /\
    (forall p, filter (fun x => prio x =? p) (tree_sort prio l) = filter (fun x => prio x =? p) l).
  Proof. intro l. exact (conj (sort_perm prio l) (conj (sort_sorted prio l) (fun p => sort_stable prio p l))). Qed.

  (* and sortedness + stability determine the result: the model IS sort.SliceStable.  (No further premise:
     that l' is a permutation of l follows from the stability equations -- take the union over p -- and an
     earlier version's premise `forall x, In x l' -> exists p, prio x = p` was trivially true.) *)
  Theorem c16_sort_unique : forall l l',
    StronglySorted (fun a b => prio b <= prio a) l' ->
    (forall p, filter (fun x => prio x =? p) l' = filter (fun x => prio x =? p) l) ->
    l' = tree_sort prio l.
  Proof. exact (sort_unique prio). Qed.

  (* any permutation of the hoistable declarations (function, method, struct type) and any partition into
     files that keeps the other nodes in sequence hands the compiler: the same sequence of non-hoistable
     nodes, level by level the same hoistable declarations, higher levels strictly first *)
  Theorem c16_layout_invariant : forall (hoist : A -> bool) l l', hoist_equiv prio hoist l l' ->
    filter (fun x => negb (hoist x)) (tree_sort prio l) = filter (fun x => negb (hoist x)) (tree_sort prio l') /\
    (forall p, Permutation (filter (fun x => hoist x && (prio x =? p)) (tree_sort prio l))
                           (filter (fun x => hoist x && (prio x =? p)) (tree_sort prio l'))) /\
    (forall l1 x l2 y l3, tree_sort prio l = l1 ++ x :: l2 ++ y :: l3 -> prio y <= prio x).
  Proof. exact (sort_hoist_invariant prio). Qed.
End C16.
Print Assumptions c16_sort_spec.
Print Assumptions c16_sort_unique.
Print Assumptions c16_layout_invariant.

(* join_files (Model/TreeSort.v) unfolded: the first file whole, every later file without its first node (the
   package clause).  DEFINITIONAL: this is the defining equation of join_files, proved by reflexivity, stated
   only so that the shape of the model is visible next to the theorems that use it.  It says nothing about
   the ORDER in which the files arrive ("fs.Glob returns the files in name order" is a listed assumption of
   checks/c16.py), nor that the real joinFiles has this shape: there is no model-level correspondence for
   it; the real loader is exercised end to end by the harness command c16-perm (random partitions of a
   package into 1..4 files must print what the one-file layout prints). *)
Theorem c16_join : forall (A : Type) (f : list A) (r : list (list A)),
  join_files (f :: r) = f ++ List.concat (map (@tl A) r).
Proof. exact join_files_spec. Qed.
Print Assumptions c16_join.

(* ---- the declarations of one level commute at run time --------------------------------------------
   c16_layout_invariant says what the compiler is handed; what remains is that the ORDER of the hoisted
   declarations inside a level (types, methods, functions: it follows the source order, the sort is
   stable) does not change what the loaded package does.  This is proved on the declaration machine of
   Model/Reload.v (GLOBALSTRUCT / SETMETHOD / GLOBALFUNC / GLOBALZERO / GLOBALSET of do.go with the heap
   of function, type and instance objects; tie: c17-corr runs the real VM on the top-level code the real
   compiler produced).  Function and type ADDRESSES do differ between two orders (objects are allocated
   in execution order; witness Example.c16_example), so the statement is a heap isomorphism:
   state_iso rf rt s s' = bijective renamings rf / rt of function / type addresses under which function
   objects, type objects (fields as lists, methods as finite maps), instances, globals and host slots
   correspond.  sig_scalar: zero values and default field values are nil or numbers (what the compiler
   emits for ZERO; Example.c16_needs_scalar shows that a raw address there would be order dependent). *)
Theorem c16_commute : forall S S' B, wf_sig S -> wf_sig S' ->
  Permutation (stypes S) (stypes S') -> Permutation (smethods S) (smethods S') ->
  Permutation (sfuncs S) (sfuncs S') -> svars S = svars S' -> sig_scalar S ->
  outcome_iso (exec_list init_state (version_of S B)) (exec_list init_state (version_of S' B)).
Proof. exact C16_commute.c16_commute. Qed.
Print Assumptions c16_commute.

(* the same when the package is loaded into a VM that already loaded earlier versions, written in any orders *)
Theorem c16_commute_reload : forall S S' B st, wf_sig S -> wf_sig S' ->
  Permutation (stypes S) (stypes S') -> Permutation (smethods S) (smethods S') ->
  Permutation (sfuncs S) (sfuncs S') -> svars S = svars S' -> sig_scalar S ->
  C16_commute.reach S st ->
  outcome_iso (exec_list st (version_of S B)) (exec_list st (version_of S' B)).
Proof. exact C16_commute.c16_commute_reload. Qed.
Print Assumptions c16_commute_reload.

(* observable consequences: every declared function / method has its object on both sides, holding the body the
   source gives it; calls through corresponding values and through any access path observe the same body and
   receiver; and NO history of later loads, stores, calls and identity tests tells the two VMs apart *)
Theorem c16_commute_fn_bodies : forall S S' B s s', wf_sig S -> wf_sig S' ->
  Permutation (stypes S) (stypes S') -> Permutation (smethods S) (smethods S') ->
  Permutation (sfuncs S) (sfuncs S') -> svars S = svars S' -> sig_scalar S ->
  exec_list init_state (version_of S B) = Some s -> exec_list init_state (version_of S' B) = Some s' ->
  exists rf rt, state_iso rf rt s s' /\
    (forall k, fn_addr s' k = option_map rf (fn_addr s k)) /\
    (forall k, key_ok S k -> exists a,
       fn_addr s k = Some a /\ fn_addr s' k = Some (rf a) /\
       nth_error (funcs s) a = Some (FBody (body_of B k)) /\
       nth_error (funcs s') (rf a) = Some (FBody (body_of B k))).
Proof. exact C16_commute.c16_commute_fn_bodies. Qed.
Print Assumptions c16_commute_fn_bodies.

Theorem c16_commute_run : forall S S' B s s', wf_sig S -> wf_sig S' ->
  Permutation (stypes S) (stypes S') -> Permutation (smethods S) (smethods S') ->
  Permutation (sfuncs S) (sfuncs S') -> svars S = svars S' -> sig_scalar S ->
  exec_list init_state (version_of S B) = Some s -> exec_list init_state (version_of S' B) = Some s' ->
  forall prog h, (forall v, Forall iscalar (prog v)) ->
    option_map snd (run prog s h) = option_map snd (run prog s' h).
Proof. exact C16_commute.c16_commute_run. Qed.
Print Assumptions c16_commute_run.

(* non-vacuity: 2 types, 3 methods, 2 functions, 4 variables (one initialised from a function, one from a
   composite literal, one from a bound method), all three hoisted lists permuted: addresses differ, observations agree *)
Check C16_commute.Example.c16_example.
Check C16_commute.Example.c16_needs_scalar.
