(* C07 -- statements are stack-neutral and call frames are isolated on every path.

   Model/StackCheck.v [check_code ng ns final codes] is a static checker of instruction lists: one
   operand depth per pc on ALL control-flow paths (so every loop body and every branch arm is
   stack-neutral), depth never negative, every branch target inside the list, every LOCAL* operand a
   slot of the frame, every GLOBAL* operand an existing global, every call finding its arguments,
   every exit at depth [final], every FUNC body checked the same way in its own frame.  The theorems
   below say what acceptance by the checker buys in the VM model (Model/VM.v: exec = the dispatch
   loop of do.go, call_fn = call / callReady / mkFunc of vm.go), for every fuel, every growth policy
   of append and every behaviour of the objects outside the modelled fragment that keeps the state
   invariant [st_ok].  The tie to the implementation: the harness runs this very checker (vm_compute)
   on the real compiler output of every generated program and every test-table input (c07-check).

   [st_ok ng s]: at least ng globals; every function object on the heap has a checked body.
   [heap_reason w]: w is one of the two dangling-heap-reference reasons ("func object", "bad array"),
   which are not stack accesses (see Model/StackCheck.v).  These are exactly 2 of the 40 distinct
   RStuck / SStuck diagnostic strings of Model/VM.v; the other 38 (operand underflow of each opcode, "local
   slot", "global index", "FUNC body", "arguments", ...) are what c07_sound excludes
   (Witness/NV_C07C02.v nv_heap_reason_tight lists them).

   SILENT EXCLUSIONS -- what the theorems below do NOT cover although their statements do not say so at
   first sight.  The VM model has a result RUnmod ("outside the modelled fragment") next to RDone / RFail /
   RStuck / RFuel, and every theorem's conclusion is True (or speaks of RStuck / RDone only) for it:
   - seven opcodes are ACCEPTED by check_code (with their operand arithmetic) but are RUnmod "opcode" in the
     model: NEWMAP, STRUCT, NEWSTRUCT, GETOK, DELETE, SETMETHOD, GLOBALSTRUCT (creation of maps and structs,
     comma-ok lookup, delete, method and type declarations).  A run ENDS with RUnmod at the first such
     instruction: the theorems say nothing about what the real VM does from that instruction on -- for a
     program that declares a struct type (GLOBALSTRUCT is top-level code) that is almost everything
     (Witness/NV_C07C02.v nv_c07_unmod).  For such programs only the static half remains: the harness runs
     check_code on the real compiler output (c07-check), and the checker's depth arithmetic for those seven
     opcodes is the hand-written table of Model/StackCheck.v, not backed by a run theorem;
   - operations on values outside the modelled fragment (maps, struct instances, host objects: GET / SET /
     LEN / RANGE / SLICE / APPEND / COPY on them) go through the oracles ext_* where one exists (get, set,
     len, getattr, setattr: covered, under the hypotheses ext_*_ok) and are RUnmod otherwise (range, slice,
     append, copy on a non-slice);
   - natives other than the print family (builtin.print / println, fmt.Print / Println) are RUnmod
     "native function": c07_frame's "any native of the print family" is literal, every other native call
     (len is an opcode; but e.g. the functions of the strings, slices and math packages) ends the modelled run;
   - RFail (a run-time panic: the Go runtime unwinds the frame) and RFuel are not stack accesses and get the
     conclusion True as well. *)
From Coq Require Import ZArith List String Bool.
From GV Require Import GoSpec.GoPrim Gen.ValueOps_gen Model.VM Model.StackCheck Proofs.C07_step Proofs.C07_sound.
Import ListNotations.
Open Scope Z_scope.

Section C07.
  Variable grow : Z -> Z -> Z.
  Variable ext_get : st -> value -> value -> option (res value).
  Variable ext_set : st -> value -> value -> value -> option (res st).
  Variable ext_len : st -> value -> option Z.
  Variable ext_getattr : st -> value -> Z -> option (res (value * st)).
  Variable ext_setattr : st -> value -> Z -> value -> option (res st).
  Variable ng : Z.
  (* maps, structs and host objects neither drop globals nor forge function objects with unchecked bodies *)
  Hypothesis ext_set_ok : forall s r k v s', st_ok ng s -> ext_set s r k v = Some (Ok s') -> st_ok ng s'.
  Hypothesis ext_getattr_ok : forall s r k v s', st_ok ng s -> ext_getattr s r k = Some (Ok (v, s')) -> st_ok ng s'.
  Hypothesis ext_setattr_ok : forall s r k v s', st_ok ng s -> ext_setattr s r k v = Some (Ok s') -> st_ok ng s'.

  Notation exec := (VM.exec grow ext_get ext_set ext_len ext_getattr ext_setattr).
  Notation call_fn := (VM.call_fn grow ext_get ext_set ext_len ext_getattr ext_setattr).
  Notation run := (VM.run grow ext_get ext_set ext_len ext_getattr ext_setattr).

  (* checked code never reaches below the operands of its frame, never names a slot outside its frame or
     a global that does not exist, never runs a placeholder or malformed FUNC -- in its own frame or in
     any callee frame, on any path, for any input state satisfying the invariant *)
  Theorem c07_sound : forall ns final codes fuel slots s w,
    check_code ng ns final codes = true -> zlen slots = ns -> st_ok ng s ->
    exec fuel codes 0 slots [] s = RStuck w -> heap_reason w.
  Proof. exact (sound_thm grow ext_get ext_set ext_len ext_getattr ext_setattr ng ext_set_ok ext_getattr_ok ext_setattr_ok). Qed.

  (* a run that completes leaves exactly the static depth of the exit it took (the end of the list or a
     RETURN) -- with final = Some n exactly n operands: no residual values for n = 0, exactly nrets
     results for a function body -- and the frame still has its ns slots; the invariant is kept *)
  Theorem c07_depth : forall ns final codes fuel slots s slots' ops' s',
    check_code ng ns final codes = true -> zlen slots = ns -> st_ok ng s ->
    exec fuel codes 0 slots [] s = RDone slots' ops' s' ->
    zlen slots' = ns /\ st_ok ng s' /\ (forall n, final = Some n -> zlen ops' = n) /\
    exists pcx, 0 <= pcx <= zlen codes /\ is_exit codes pcx /\ depth_at codes pcx = Some (zlen ops').
  Proof. exact (depth_thm grow ext_get ext_set ext_len ext_getattr ext_setattr ng ext_set_ok ext_getattr_ok ext_setattr_ok). Qed.

  (* VM.run on package-level code (final = Some 0): no values are left above the slots *)
  Theorem c07_run : forall ns codes fuel s,
    check_code ng ns (Some 0) codes = true -> st_ok ng s ->
    match run fuel codes ns s with
    | RDone slots' ops' s' => ops' = [] /\ zlen slots' = ns /\ st_ok ng s'
    | RStuck w => heap_reason w
    | _ => True
    end.
  Proof. exact (run_thm grow ext_get ext_set ext_len ext_getattr ext_setattr ng ext_set_ok ext_getattr_ok ext_setattr_ok). Qed.

  (* frames are isolated: whatever function object is called (any checked script function, variadic or
     not, or a native of the print family), a call that returns has removed exactly its xa arguments and
     pushed exactly the xr requested results; the rest of the caller's operand stack is untouched, the
     caller's slots are not reachable from the callee at all (call_fn does not receive them); a call that
     does not return normally is an error result, never a stack access below the callee's frame *)
  Theorem c07_frame : forall fuel pack fa xa xr pos ops s,
    st_ok ng s -> 0 <= xa <= zlen ops -> 0 <= xr ->
    match call_fn fuel pack fa xa xr pos ops s with
    | COk ops' s' => st_ok ng s' /\ exists results, zlen results = xr /\ ops' = (results ++ skipn (Z.to_nat xa) ops)%list
    | CErr (RStuck w) => heap_reason w
    | CErr _ => True
    end.
  Proof. exact (frame_thm grow ext_get ext_set ext_len ext_getattr ext_setattr ng ext_set_ok ext_getattr_ok ext_setattr_ok). Qed.

End C07.

(* the state before any code ran (natives only on the heap) satisfies the invariant *)
Theorem c07_init : forall ng s,
  ng <= zlen (globals s) -> Forall (fun o => match o with HFunc _ _ _ _ _ _ _ => False | _ => True end) (heap s) -> st_ok ng s.
Proof. exact st_ok_natives. Qed.

Print Assumptions c07_sound.
Print Assumptions c07_depth.
Print Assumptions c07_run.
Print Assumptions c07_frame.
Print Assumptions c07_init.

(* non-vacuity: the real compiler output (optimizer off) of
     func f(a int) (int, int) { s := 0; for i := 0; i < 5; i++ { if i == a { break }; s += i }; return s, a }
     x, y := f(4)
   is accepted, runs to completion in the model without residual operands and with x = 6, y = 4;
   the same code with the second result of "return s, a" dropped is rejected at the RETURN. *)
Definition c07_ex (ret2 : instr) : list instr :=
  let T := mkI (C "codeType") 23 0 0 0 in
  [ mkI c_Func (joinParams 1 2) 3 24 0; T; T; T;
    mkI c_Push 0 0 0 0; mkI c_LocalSet 1 0 0 0; mkI c_Push 0 0 0 0; mkI c_LocalSet 2 0 0 0; mkI c_Jump 12 0 0 0;
    mkI c_LocalGet 2 0 0 0; mkI c_LocalGet 0 0 0 0; mkI c_Eq 0 0 0 0; mkI c_JumpFalse 1 0 0 0; mkI c_Jump 11 0 0 0;
    mkI c_LocalGet 1 0 0 0; mkI c_LocalGet 2 0 0 0; mkI c_Add 0 0 0 0; mkI c_LocalSet 1 0 0 0;
    mkI c_LocalGet 2 0 0 0; mkI c_IncDec 1 0 0 0; mkI c_LocalSet 2 0 0 0;
    mkI c_LocalGet 2 0 0 0; mkI c_Push 5 0 0 0; mkI c_Lt 0 0 0 0; mkI c_JumpTrue (-16) 0 0 0;
    mkI c_LocalGet 1 0 0 0; ret2; mkI c_Return 2 0 0 0;
    mkI c_GlobalFunc 0 0 0 0; mkI c_Push 4 0 0 0; mkI c_GlobalGet 0 0 0 0; mkI c_Call 1 2 0 0;
    mkI c_GlobalSet 2 0 0 0; mkI c_GlobalSet 1 0 0 0 ].

Example c07_witness :
  let good := c07_ex (mkI c_LocalGet 0 0 0 0) in
  let bad := c07_ex (mkI c_Pass 0 0 0 0) in
  let s0 := mkSt [nilV; nilV; nilV] [] [] [] in
  check_code 3 0 (Some 0) good = true /\
  (match run (fun _ n => n) (fun _ _ _ => None) (fun _ _ _ _ => None) (fun _ _ => None) (fun _ _ _ => None)
             (fun _ _ _ _ => None) 1000 good 0 s0 with
   | RDone [] [] s => map Value_Int (tl (globals s)) = [6; 4]
   | _ => False
   end) /\
  check_code 3 0 (Some 0) bad = false /\
  (match check_code_diag 3 0 (Some 0) bad with DBad pc d _ => pc = 27 /\ d = 1 | DOk => False end).
Proof. vm_compute. repeat split; reflexivity. Qed.
