(* C05 -- expressions group by Go's operator precedence and associativity.
   The binding-power table (symbols, negate_rbp ...) is REGENERATED from
   /repo/symbol.go by tools/go2v on every run. *)
From Coq Require Import ZArith List String Bool Lia.
From GV Require Import GoSpec.GoPrec Model.Pratt Model.PrattInst Gen.Tables_gen.
Import ListNotations.
Open Scope string_scope.
Open Scope Z_scope.

(* the generated table orders the binary operators exactly as Go's five precedence levels do,
   every binary operator is handled by ledInfix, unary operators bind tighter than every binary
   operator and looser than the postfix forms (selector, call, index), parentheses parse with a
   binding power below every binary operator *)
Theorem c05_table : table_ok_b = true.
Proof. vm_compute. reflexivity. Qed.
Print Assumptions c05_table.

Theorem c05_table_order : forall o1 o2, In o1 binops -> In o2 binops ->
  (lbp_of o1 < lbp_of o2 <-> go_prec o1 < go_prec o2).
Proof.
  assert (H : forallb (fun o1 => forallb (fun o2 => Bool.eqb (lbp_of o1 <? lbp_of o2) (go_prec o1 <? go_prec o2)) binops) binops = true)
    by (vm_compute; reflexivity).
  intros o1 o2 H1 H2. rewrite forallb_forall in H. specialize (H o1 H1). rewrite forallb_forall in H. specialize (H o2 H2).
  apply eqb_prop in H. rewrite <- !Z.ltb_lt. rewrite H. tauto.
Qed.
Print Assumptions c05_table_order.

From GV Require Import Proofs.C05_pratt Proofs.C05_inst.

(* the Pratt loop, for ANY binding-power table meeting the stated conditions, and token lists of any
   length: whatever it returns flattens back to the input and is grouped by the table's order *)
Theorem c05_pratt_sound : forall lbp infix neg_rbp compl_rbp not_rbp paren_rbp,
  (forall s, infix s = true -> 0 < lbp s) ->
  (forall s, infix s = true -> lbp s <= neg_rbp /\ lbp s <= compl_rbp /\ lbp s <= not_rbp) ->
  forall fuel rbp ts t rest, 0 <= rbp ->
  Pratt.expr lbp infix neg_rbp compl_rbp not_rbp paren_rbp fuel rbp ts = inl (t, rest) ->
  (flatten t ++ rest)%list = ts /\ grouped lbp t /\ ops_ok infix t = true /\
  (forall p, root_prec lbp t = Some p -> rbp < p) /\ cur_lbp lbp rest <= rbp.
Proof. exact pratt_sound. Qed.
Print Assumptions c05_pratt_sound.

(* goatlang's parser (Pratt loop + the table regenerated from symbol.go): the tree returned for a whole
   token list IS the Go grouping of that list -- five precedence levels, left-to-right association
   within a level, unary operators tighter than any binary operator, parentheses overriding *)
Theorem c05_grouping : forall ts t, goat_parse ts = inl (t, []) ->
  flatten t = ts /\ grouped go_prec t /\ ops_ok is_binop t = true.
Proof. exact (grouping_sound c05_table). Qed.
Print Assumptions c05_grouping.

(* and every Go-grouped expression is accepted and returned unchanged (no expression of the core is
   rejected or regrouped), for any size *)
Theorem c05_complete : forall t, grouped go_prec t -> ops_ok is_binop t = true ->
  goat_parse (flatten t) = inl (t, []).
Proof. exact (grouping_complete c05_table). Qed.
Print Assumptions c05_complete.

(* the specification is unambiguous: a token list has at most one Go grouping *)
Theorem c05_unique : forall t1 t2, grouped go_prec t1 -> ops_ok is_binop t1 = true ->
  grouped go_prec t2 -> ops_ok is_binop t2 = true -> flatten t1 = flatten t2 -> t1 = t2.
Proof. exact (grouping_unique_go c05_table). Qed.
Print Assumptions c05_unique.

(* non-vacuity: 1<<3 - 1 and !a == b group as Go groups them *)
Example c05_witness :
  goat_parse [TAtom true "1"; TSym "<<"; TAtom true "3"; TSym "-"; TAtom true "1"]
    = inl (Bin "-" (Bin "<<" (Atom true "1") (Atom true "3")) (Atom true "1"), []) /\
  goat_parse [TSym "!"; TAtom false "a"; TSym "=="; TAtom false "b"]
    = inl (Bin "==" (Un UNot (Atom false "a")) (Atom false "b"), []) /\
  grouped go_prec (Bin "-" (Bin "<<" (Atom true "1") (Atom true "3")) (Atom true "1")).
Proof.
  split; [vm_compute; reflexivity|]. split; [vm_compute; reflexivity|].
  cbn. repeat split; try lia; intros p H; inversion H; try lia.
Qed.
