(* C05 -- expressions group by Go's operator precedence and associativity.
   The binding-power table (symbols, negate_rbp ...) is REGENERATED from
   /repo/symbol.go by tools/go2v on every run. *)
From Coq Require Import ZArith List String Bool Lia.
From GV Require Import GoSpec.GoPrec Model.Pratt Model.PrattInst Gen.Tables_gen.
Import ListNotations.
Open Scope string_scope.
Open Scope Z_scope.

(* the generated table orders the binary operators exactly as Go's five precedence levels do,
   every binary operator is handled by ledInfix, unary operators bind tighter than every binary
   operator and looser than the postfix forms (selector, call, index), parentheses parse with a
   binding power below every binary operator *)
Theorem c05_table : table_ok_b = true.
Proof. vm_compute. reflexivity. Qed.
Print Assumptions c05_table.

Theorem c05_table_order : forall o1 o2, In o1 binops -> In o2 binops ->
  (lbp_of o1 < lbp_of o2 <-> go_prec o1 < go_prec o2).
Proof.
  assert (H : forallb (fun o1 => forallb (fun o2 => Bool.eqb (lbp_of o1 <? lbp_of o2) (go_prec o1 <? go_prec o2)) binops) binops = true)
    by (vm_compute; reflexivity).
  intros o1 o2 H1 H2. rewrite forallb_forall in H. specialize (H o1 H1). rewrite forallb_forall in H. specialize (H o2 H2).
  apply eqb_prop in H. rewrite <- !Z.ltb_lt. rewrite H. tauto.
Qed.
Print Assumptions c05_table_order.

From GV Require Import Proofs.C05_pratt Proofs.C05_inst.

(* the Pratt loop, for ANY binding-power table meeting the stated conditions, and token lists of any
   length: whatever it returns flattens back to the input and is grouped by the table's order *)
Theorem c05_pratt_sound : forall lbp infix neg_rbp compl_rbp not_rbp paren_rbp,
  (forall s, infix s = true -> 0 < lbp s) ->
  (forall s, infix s = true -> lbp s <= neg_rbp /\ lbp s <= compl_rbp /\ lbp s <= not_rbp) ->
  forall fuel rbp ts t rest, 0 <= rbp ->
  Pratt.expr lbp infix neg_rbp compl_rbp not_rbp paren_rbp fuel rbp ts = inl (t, rest) ->
  (flatten t ++ rest)%list = ts /\ grouped lbp t /\ ops_ok infix t = true /\
  (forall p, root_prec lbp t = Some p -> rbp < p) /\ cur_lbp lbp rest <= rbp.
Proof. exact pratt_sound. Qed.
Print Assumptions c05_pratt_sound.

(* goatlang's parser (Pratt loop + the table regenerated from symbol.go): the tree returned for a whole
   token list IS the Go grouping of that list -- five precedence levels, left-to-right association
   within a level, unary operators tighter than any binary operator, parentheses overriding *)
Theorem c05_grouping : forall ts t, goat_parse ts = inl (t, []) ->
  flatten t = ts /\ grouped go_prec t /\ ops_ok is_binop t = true.
Proof. exact (grouping_sound c05_table). Qed.
Print Assumptions c05_grouping.

(* and every Go-grouped expression is accepted and returned unchanged (no expression of the core is
   rejected or regrouped), for any size *)
Theorem c05_complete : forall t, grouped go_prec t -> ops_ok is_binop t = true ->
  goat_parse (flatten t) = inl (t, []).
Proof. exact (grouping_complete c05_table). Qed.
Print Assumptions c05_complete.

(* the specification is unambiguous: a token list has at most one Go grouping *)
Theorem c05_unique : forall t1 t2, grouped go_prec t1 -> ops_ok is_binop t1 = true ->
  grouped go_prec t2 -> ops_ok is_binop t2 = true -> flatten t1 = flatten t2 -> t1 = t2.
Proof. exact (grouping_unique_go c05_table). Qed.
Print Assumptions c05_unique.

(* non-vacuity: 1<<3 - 1 and !a == b group as Go groups them *)
Example c05_witness :
  goat_parse [TAtom true "1"; TSym "<<"; TAtom true "3"; TSym "-"; TAtom true "1"]
    = inl (Bin "-" (Bin "<<" (Atom true "1") (Atom true "3")) (Atom true "1"), []) /\
  goat_parse [TSym "!"; TAtom false "a"; TSym "=="; TAtom false "b"]
    = inl (Bin "==" (Un UNot (Atom false "a")) (Atom false "b"), []) /\
  grouped go_prec (Bin "-" (Bin "<<" (Atom true "1") (Atom true "3")) (Atom true "1")).
Proof.
  split; [vm_compute; reflexivity|]. split; [vm_compute; reflexivity|].
  cbn. repeat split; try lia; intros p H; inversion H; try lia.
Qed.

(* ---- the table is CLOSED over Go's binary operators ---------------------------------------------------
   c05_table_order speaks about the operators of `binops`, the token alphabet of the Pratt theorems.  This
   theorem makes sure nothing escapes that alphabet: every symbol of the table regenerated from symbol.go
   that the Go specification lists as a binary operator (go_prec s > 0; &^ included) is one of `binops`
   and is parsed by the generic infix led whose loop Model/Pratt.v transcribes (ledInfix), and conversely
   every operator of `binops` is in the table with that led.  A new operator token with its own led or
   level (e.g. a dedicated &^ at the additive level) breaks this obligation. *)
Theorem c05_table_closed :
  (forall s lbp nud led, In (s, (lbp, nud, led)) symbols -> 0 < go_prec s ->
     In s binops /\ led = "ledInfix"%string) /\
  (forall o, In o binops -> exists lbp nud, In (o, (lbp, nud, "ledInfix"%string)) symbols).
Proof.
  split.
  - assert (H : forallb (fun e => let '(s, (lbp, nud, led)) := e in
                  if 0 <? go_prec s then existsb (String.eqb s) binops && String.eqb led "ledInfix" else true) symbols = true)
      by (vm_compute; reflexivity).
    intros s lbp nud led Hin Hp. rewrite forallb_forall in H. specialize (H _ Hin). cbn beta iota zeta in H.
    apply Z.ltb_lt in Hp. rewrite Hp in H. apply andb_true_iff in H. destruct H as [H1 H2].
    split; [|apply String.eqb_eq; exact H2].
    apply existsb_exists in H1. destruct H1 as (x & Hx & E). apply String.eqb_eq in E. subst x. exact Hx.
  - assert (H : forallb (fun o => existsb (fun e => let '(s, (lbp, nud, led)) := e in String.eqb s o && String.eqb led "ledInfix") symbols) binops = true)
      by (vm_compute; reflexivity).
    intros o Ho. rewrite forallb_forall in H. specialize (H _ Ho). apply existsb_exists in H.
    destruct H as ([s [[lbp nud] led]] & Hin & E). apply andb_true_iff in E. destruct E as [E1 E2].
    apply String.eqb_eq in E1. apply String.eqb_eq in E2. subst. exists lbp, nud. exact Hin.
Qed.
Print Assumptions c05_table_closed.
