(* C05 -- expressions group by Go's operator precedence and associativity.
   The binding-power table (symbols, negate_rbp ...) is REGENERATED from
   /repo/symbol.go by tools/go2v on every run. *)
From Coq Require Import ZArith List String Bool.
From GV Require Import GoSpec.GoPrec Model.Pratt Model.PrattInst Gen.Tables_gen.
Import ListNotations.
Open Scope string_scope.
Open Scope Z_scope.

(* the generated table orders the binary operators exactly as Go's five precedence levels do,
   every binary operator is handled by ledInfix, unary operators bind tighter than every binary
   operator and looser than the postfix forms (selector, call, index), parentheses parse with a
   binding power below every binary operator *)
Theorem c05_table : table_ok_b = true.
Proof. vm_compute. reflexivity. Qed.
Print Assumptions c05_table.

Theorem c05_table_order : forall o1 o2, In o1 binops -> In o2 binops ->
  (lbp_of o1 < lbp_of o2 <-> go_prec o1 < go_prec o2).
Proof.
  assert (H : forallb (fun o1 => forallb (fun o2 => Bool.eqb (lbp_of o1 <? lbp_of o2) (go_prec o1 <? go_prec o2)) binops) binops = true)
    by (vm_compute; reflexivity).
  intros o1 o2 H1 H2. rewrite forallb_forall in H. specialize (H o1 H1). rewrite forallb_forall in H. specialize (H o2 H2).
  apply eqb_prop in H. rewrite <- !Z.ltb_lt. rewrite H. tauto.
Qed.
Print Assumptions c05_table_order.
