(* C02 -- the bytecode optimizer is observationally transparent.
   The rule table (peephole_rules: patterns, side conditions, operand maps, rule
   order, kept Pos) is REGENERATED from /repo/compiler.go doOptimize by go2v on
   every run; Model/Peephole.v is the generic window matcher (tie: correspondence
   with the real doOptimize through hook VerifOptimize); Model/VM.v step1 is the
   transcription of the dispatch loop of do.go (tie: run-level correspondence). *)
From Coq Require Import ZArith List String Bool.
From GV Require Import GoSpec.GoPrim Gen.ValueOps_gen Gen.Tables_gen Model.PeepTypes Model.VM Model.Peephole Gen.Steps_gen Proofs.C02_rules Proofs.Steps_agree.
From GV Require Proofs.C02_fixpoint.
Import ListNotations.
Open Scope Z_scope.

Section C02.
  (* every growth policy and every behaviour of objects outside the modelled fragment (maps, structs,
     host objects) -- as long as a container uses its key only through the key's payload *)
  Variable grow : Z -> Z -> Z.
  Variable ext_get : st -> value -> value -> option (res value).
  Variable ext_set : st -> value -> value -> value -> option (res st).
  Variable ext_len : st -> value -> option Z.
  Variable ext_getattr : st -> value -> Z -> option (res (value * st)).
  Variable ext_setattr : st -> value -> Z -> value -> option (res st).
  Hypothesis ext_get_key : forall s r k k', vnum k = vnum k' -> vval k = vval k' -> ext_get s r k = ext_get s r k'.
  Hypothesis ext_set_key : forall s r k k' v, vnum k = vnum k' -> vval k = vval k' -> ext_set s r k v = ext_set s r k' v.

  (* for every rule of the generated table, every matching window, every frame state (locals, operand
     stack, globals, heap, output, backtrace): executing the window instruction by instruction and
     executing the fused instruction give the same STEP RESULT -- same locals, operand stack, heap, globals,
     output, same call request, same failure message and state -- under the rule's guard.
     What "same" means: sres_equiv a b is  a = b  up to  SJump 0 ~ SNext  (only used by JUMP 0 -> PASS).
     It is strict otherwise: failure messages, states, even the diagnostic strings of SStuck are compared
     (the coarser relation that identifies all SStuck is sres_same, used by c02_steps_from_source only).
     But a step result carries NO source position: "same failure" does not compare the error POSITION.  The
     fused instruction carries the position of the LAST window instruction, so when an EARLIER instruction
     of the window fails (GETATTR in LOCALGET; GETATTR; CALL) the unoptimized and the optimized run report
     different positions although this theorem holds -- that is property C20 (c20_fuse_same_report,
     c20_fuse_early_failure_refuted), not this one.
     The guard (Proofs/C02_rules.v [guard]; constantly true for 8 of the 16 rules) and what happens where it is FALSE
     although the optimizer fuses all the same (the optimizer never looks at run-time values):
     - LOCALINCDEC: the slot holds a number.  On a string / bool / nil slot the two sides DIFFER (the window
       re-tags the result through LOCALSET, the fused instruction does not: Witness/NV_C07C02.v
       remark_c02_guard_false_differs); typed source never applies ++ / += to such a local, but that is not
       proved here.
     - FASTSET, FASTSETATTR, FASTSETINT: the operand stack is not empty.  On an empty stack both sides are
       SStuck with different diagnostic strings (nothing else differs); compiled code never underflows (C07).
     - FASTGETINT, FASTSETINT: no guard any more.  Until /repo commit a70e696 the fused instruction built its key
       with Int() (int32) where PUSH gives an untyped constant, and this theorem carried the guard "the constant
       fits int32"; that guard marked a GENUINE difference (on a local map[uint32]int a key above MaxInt32 was
       wrapped with the optimizer on), which is fixed: both sides now use the key PUSH pushes.  Lesson recorded in
       DESIGN.md: a guard the optimizer itself does not check is a finding, not a side condition.
     - FASTCALLATTR: both CALL operands are < 2^16 (they are packed into the halves of one operand); a call
       with more than 65535 arguments or results would be mis-encoded.
     - PUSH n; ADD / PUSH n; SUB -> INCDEC: sign conditions on n that keep the proof free of floating-point
       reasoning.  The guard is only SUFFICIENT here: for a negative n > -2^31 on a float64 or untyped operand
       the two sides are still equal (Proofs/C02_rules.v c02_rule_sound_ieee, which relies on Coq's IEEE-754
       specification of primitive floats and is therefore not restated in this file; instance:
       nv_c02_guard_incdec_false).  For a constant n <= -2^31 nothing is proved.  PUSH 0; SUB (where
       -0.0 - 0 = -0.0 but incDec(0) = +0.0) is not fused at all: the generated rule has the side condition
       n <> 0, so rule_matches is false there (remark_c02_guard_false_differs). *)
  Theorem c02_rules : forall r, In r peephole_rules ->
    forall w, List.length w = rule_len r -> rule_matches r w = true ->
    forall codes pc pc' slots ops s, guard r w slots ops = true ->
      sres_equiv (run_window grow ext_get ext_set ext_len ext_getattr ext_setattr codes pc w slots ops s)
                 (step1 grow ext_get ext_set ext_len ext_getattr ext_setattr codes pc' (fused r w) slots ops s).
  Proof. exact (c02_rule_sound grow ext_get ext_set ext_len ext_getattr ext_setattr). Qed.

  (* the guards are satisfiable for every rule *)
  Theorem c02_guards_satisfiable : forall r, In r peephole_rules ->
    exists w slots ops, List.length w = rule_len r /\ rule_matches r w = true /\ guard r w slots ops = true.
  Proof. exact c02_guard_satisfiable. Qed.
End C02.
Print Assumptions c02_rules.
Print Assumptions c02_guards_satisfiable.

(* what the optimizer does to a whole instruction list: it copies every instruction that starts no
   window and replaces each matched window (first matching rule wins, left to right) by its fused
   instruction -- nothing else is added, dropped or reordered *)
Theorem c02_optimizer_shape : forall code, opt_rel peephole_rules code (do_optimize peephole_rules code).
Proof. exact do_optimize_rel'. Qed.
Print Assumptions c02_optimizer_shape.

(* the LINK between the two: every window the optimizer replaces (constructor opt_fuse of opt_rel:
   first_match peephole_rules code = Some r on the remaining suffix code; the window is the first rule_len r
   instructions of it, the replacement fused r code) satisfies every premise of c02_rules except possibly
   `guard` -- the rule is in the table, the window has exactly the rule's length, the rule matches the window
   alone, and fusing the window alone gives the instruction the optimizer emits (no rule of the generated
   table looks beyond its own window: rule_closed, evaluated on the regenerated table) -- so that, under the
   guard, every fusion step of the optimizer is an instance of c02_rules.
   NOT proved anywhere: the lifting from steps to whole RUNS of optimized vs unoptimized code.  For arbitrary
   code it is false (do_optimize shortens the list without touching relative jump operands; the compiler
   optimizes each block before it measures jump distances: Witness/NV_C07C02.v remark_c02_not_whole_program);
   whole runs are compared by the run-level correspondence only. *)
Theorem c02_shape_meets_rules : forall grow ext_get ext_set ext_len ext_getattr ext_setattr,
  (forall s r k k', vnum k = vnum k' -> vval k = vval k' -> ext_get s r k = ext_get s r k') ->
  (forall s r k k' v, vnum k = vnum k' -> vval k = vval k' -> ext_set s r k v = ext_set s r k' v) ->
  forall code r, first_match peephole_rules code = Some r ->
  let w := firstn (rule_len r) code in
  In r peephole_rules /\ List.length w = rule_len r /\ rule_matches r w = true /\ fused r w = fused r code /\
  forall codes pc pc' slots ops s, guard r w slots ops = true ->
    sres_equiv (run_window grow ext_get ext_set ext_len ext_getattr ext_setattr codes pc w slots ops s)
               (step1 grow ext_get ext_set ext_len ext_getattr ext_setattr codes pc' (fused r code) slots ops s).
Proof. exact shape_meets_rules. Qed.
Print Assumptions c02_shape_meets_rules.

(* the dispatch loop the rule theorem talks about IS what /repo/do.go says, for the opcodes go2v can
   translate (Gen/Steps_gen.v is regenerated from the `exec` switch of do.go on every run): the hand
   transcription step1 and the generated step_gen give the same step result (the text of the
   "stuck" diagnostic for an operand stack shorter than the instruction needs is not compared).
   An edit of one of these cases in do.go changes step_gen and breaks this theorem. *)
Theorem c02_steps_from_source : forall grow ext_get ext_set ext_len ext_getattr ext_setattr codes pc i slots ops s r,
  step_gen i slots ops s = Some r ->
  sres_same r (step1 grow ext_get ext_set ext_len ext_getattr ext_setattr codes pc i slots ops s).
Proof. exact steps_agree. Qed.
Print Assumptions c02_steps_from_source.

(* ... and the translated set covers the arithmetic, comparison, local/global and jump instructions that
   the windows of the rules consist of (calls, containers and attributes stay hand-transcribed) *)
Theorem c02_steps_cover : forall name, In name
  ["codePush"; "codePop"; "codeAdd"; "codeSub"; "codeMul"; "codeDiv"; "codeMod"; "codeLt"; "codeGt"; "codeLte"; "codeGte";
   "codeEq"; "codeNeq"; "codeBitAnd"; "codeBitOr"; "codeBitXor"; "codeBitLsh"; "codeBitRsh"; "codeIncDec"; "codeLocalIncDec";
   "codeConvert"; "codeCast"; "codeNegate"; "codeBitComplement"; "codeNot"; "codeZero"; "codeAnd"; "codeOr";
   "codeGlobalSet"; "codeGlobalZero"; "codeGlobalGet"; "codeConst"; "codeLocalGet"; "codeLocalSet"; "codeLocalZero";
   "codeReturn"; "codeJump"; "codeJumpFalse"; "codeJumpTrue"; "codeLocalAdd"; "codeLocalSub"; "codeLocalMul"; "codeLocalDiv"; "codePass"]%string ->
  In name step_gen_opcodes /\
  forall i slots ops s, icode i = C name -> step_gen i slots ops s <> None.
Proof. exact steps_cover. Qed.
Print Assumptions c02_steps_cover.

(* ---- re-optimising optimised code changes nothing ---------------------------------------------------
   The compiler optimises inner blocks first, computes jump offsets and function lengths from their
   OPTIMISED length, and then runs the optimiser again over the enclosing code; this is only sound if the
   optimiser has reached a fixpoint after its optimize_passes (= 2, regenerated) passes.  General theorem,
   for ANY rule table: if every rule has a non-empty pattern and side conditions that only read the window
   (rules_wf), and there is no chain of n+1 rules each feeding the next (the fused opcode of one occurs in
   the pattern of the next: no_chain n), then n passes reach a fixpoint on EVERY instruction list.
   chain_free is decidable and is evaluated on the table regenerated from compiler.go on every run: a new
   rule that feeds an existing one (e.g. PUSH;INCDEC -> PUSH or INCDEC;INCDEC -> INCDEC, which make a third
   pass change the code: examples b1 and b2 in Proofs/C02_fixpoint.v) breaks c02_reoptimize_stable. *)
Theorem c02_fixpoint_general : forall n rules, C02_fixpoint.chain_free n rules = true ->
  forall code, do_optimize rules (iter_opt n rules code) = iter_opt n rules code.
Proof. exact C02_fixpoint.fixpoint_after_n. Qed.
Print Assumptions c02_fixpoint_general.

Theorem c02_reoptimize_stable : forall code,
  do_optimize peephole_rules (iter_opt optimize_passes peephole_rules code) = iter_opt optimize_passes peephole_rules code.
Proof. exact C02_fixpoint.c02_reoptimize_stable. Qed.
Print Assumptions c02_reoptimize_stable.

Theorem c02_optimize_idempotent : forall on code, optimize on (optimize on code) = optimize on code.
Proof. exact C02_fixpoint.c02_optimize_idempotent. Qed.
Print Assumptions c02_optimize_idempotent.

(* two passes are needed: after one pass the generated table is not yet at a fixpoint *)
Check C02_fixpoint.one_pass_not_fixpoint.
