(* C11 -- slices alias, grow and copy as Go slices do.

   GoSpec/GoSlice.v      Go's slices: store of arrays, descriptors, index/set/reslice/append/copy/make
   GoSpec/GoSliceHist.v  the Go meaning of a history of slice statements over typed variables
                         (go_step_res / go_run; the capacity of a growing append is a free choice)
   Model/Slice.v         transcription of goatlang's slice layer (value.go sliceT & nil handling,
                         do.go NEWSLICE MAKE SLICE APPEND COPY GET SET LEN), tie: `harness c11-corr`
   Proofs/C11_slice.v    Inv (representation invariant), abs (abstraction to the Go-side state),
                         hist_ok / hist_typed (side conditions on a history), TInv (typing invariant)

   Scope of the universally quantified theorems: ALL histories over ANY pool of variables, EVERY
   capacity oracle, element types with a scalar tag ([scalar]: the numeric types, bool, string).
   Excluded by [op_nilsafe] and shown as a counterexample in Proofs (finding F1): append of no value
   to a nil Value.  Not covered: slices of reference types (their unwritten cells Value{} are not
   fixpoints of assign).

   How to read "as Go does" in the theorems below -- three limits of the comparison:
   - PANICS.  The result type `res` has a SINGLE constructor Panic (no message, no kind).  "Same panic"
     therefore means only: the model panics IF AND ONLY IF Go panics (and then neither changes the state);
     which run-time error it is (index out of range vs slice bounds out of range vs makeslice: len out of
     range) is not compared.
   - NIL vs EMPTY.  The abstraction `abs` maps a variable to (element type, descriptor): a nil Value AND a
     non-nil Value whose data is the nil descriptor are both Go's nil (gdata (GNil _) = SNil), and the
     refinement statements compare abstract states.  So whether `s == nil` holds after a history is NOT
     part of c11_refine (g_isnil is not in the abstract state); the one place where goatlang and Go are
     known to differ on it is finding F1 (op_nilsafe).
   - ELEMENT CONVERSION.  The Go-side history semantics (GoSpec/GoSliceHist.v) converts a stored value to
     the element type with assign_to t v := Value_assign v t -- the SAME generated function the model uses.
     The refinement therefore does not check the conversion itself (it is identical on both sides by
     construction); what Value_assign does is property C04 (c04_assign) and the first three conjuncts of
     c11_elemty. *)
From Coq Require Import ZArith List Bool.
From GV Require Import GoSpec.GoPrim GoSpec.GoSlice GoSpec.GoSliceHist Gen.ValueOps_gen Model.Slice
  Proofs.C11_goslice Proofs.C11_slice.
Import ListNotations.
Open Scope Z_scope.

(* the invariant holds for a pool of nil variables and is kept by every statement *)
Theorem c11_inv :
  (forall n, Inv ([], repeat (GNil (fn_sliceType TypeInt32)) n)) /\
  (forall s o, Inv s -> op_wf (length (snd s)) o -> Inv (step s o) /\ length (snd (step s o)) = length (snd s)).
Proof. exact (conj inv_init inv_step). Qed.

(* REFINEMENT.  Every statement of every history does to the abstract state exactly what Go does
   (same result or same panic, for some capacity choice Go is free to make), hence whole histories
   do; reads, len and range return what Go's index / len / range return. *)
Theorem c11_refine :
  (forall s o, Inv s -> op_wf (length (snd s)) o -> op_nilsafe s o ->
     exists cap, abs_res (step_res s o) = go_step_res cap (abs s) o) /\
  (forall os s, Inv s -> hist_ok s os -> go_run (abs s) os (abs (run s os))) /\
  (forall st g k, Value_Get st g k = index st (gdata g) (Value_Int k)) /\
  (forall g, Value_Len g = slen (gdata g)) /\
  (forall st g, wf_slice st (gdata g) ->
     map snd (Value_Range st g) = cells st (gdata g) /\
     map fst (Value_Range st g) = map (fun n => fn_Int (Z.of_nat n)) (seq 0 (Value_Len g))) /\
  (forall st g n, range_next st g n =
     match index st (gdata g) (Z.of_nat n) with Ok v => Some (fn_Int (Z.of_nat n), v) | _ => None end).
Proof.
  exact (conj refine_step (conj refine_run (conj get_refines (conj Value_Len_data (conj range_refines range_next_refines))))).
Qed.

(* ALIASING.  h := g[i:j]; h[k] = v is seen as g[i+k] (nothing else of g changes), and
   g[i+k] = v is seen as h[k] *)
Theorem c11_alias :
  (forall st g i j h k v st' kk,
     wf_slice st (gdata g) -> Value_Slice g i j = Ok h -> Value_Set st h k v = Ok st' ->
     Value_Int kk = i + Value_Int k -> i + Value_Int k < Z.of_nat (Value_Len g) ->
     elemty h = elemty g /\
     Value_Get st' g kk = Ok (Value_assign v (elemty g)) /\
     (forall m, Value_Int m <> Value_Int kk -> Value_Get st' g m = Value_Get st g m)) /\
  (forall st g i j h k v st' kk,
     wf_slice st (gdata g) -> Value_Slice g i j = Ok h -> 0 <= Value_Int k < j - i ->
     Value_Int kk = i + Value_Int k -> Value_Set st g kk v = Ok st' ->
     Value_Get st' h k = Ok (Value_assign v (elemty g)) /\
     (forall m, Value_Int m <> Value_Int k -> Value_Get st' h m = Value_Get st h m)).
Proof. exact (conj sub_write_visible parent_write_visible). Qed.

(* APPEND, for every growth oracle.  Within the capacity: same array and offset, exactly the cells
   after the old elements receive the converted values (so every slice covering them sees them).
   Beyond the capacity: a new array, no existing array changes, every existing slice keeps its
   elements, the result holds the old elements followed by the converted values. *)
Theorem c11_append : forall grow,
  (forall st t a o l c items,
     store_ok st -> wf_slice st (SMk a o l c) -> scalar t -> (l + length items <= c)%nat ->
     Value_Append grow st (GSl t (SMk a o l c)) items 0 =
       (arr_write st a (o + l) (map (assign_to t) items), GSl t (SMk a o (l + length items) c)) /\
     (forall b i, cell (arr_write st a (o + l) (map (assign_to t) items)) b i =
                  if (b =? a)%nat && ((o + l <=? i)%nat && (i <? o + l + length items)%nat)
                  then nth_error (map (assign_to t) items) (i - (o + l)) else cell st b i)) /\
  (forall st t d items,
     store_ok st -> wf_slice st d -> scalar t -> (scap d < slen d + length items)%nat ->
     let r := Value_Append grow st (GSl t d) items 0 in
     (forall b, (b < length st)%nat -> array (fst r) b = array st b) /\
     (forall s, wf_slice st s -> cells (fst r) s = cells st s) /\
     (exists c', snd r = GSl t (SMk (length st) 0 (slen d + length items) c') /\ (slen d + length items <= c')%nat) /\
     cells (fst r) (gdata (snd r)) = (cells st d ++ map (assign_to t) items)%list).
Proof. exact (fun grow => conj (append_within_capacity grow) (append_beyond_capacity grow)). Qed.

(* COPY moves n = min(len(dst), len(src)) elements: the first n elements of dst become the first n
   source values as they were before the copy (overlapping ranges included); the count for a slice
   source is min of the two lengths, for a string source min with the number of bytes *)
Theorem c11_copy :
  (forall st a b, wf_slice st (gdata a) ->
     let n := Nat.min (Value_Len a) (length (csrc_vals st b)) in
     snd (code_copy st a b) = n /\
     cells (fst (code_copy st a b)) (gdata a) = (firstn n (csrc_vals st b) ++ skipn n (cells st (gdata a)))%list) /\
  (forall st g, wf_slice st (gdata g) -> length (csrc_vals st (CSlice g)) = Value_Len g) /\
  (forall st s, length (csrc_vals st (CStr s)) = length s).
Proof. exact (conj copy_moves_min (conj csrc_len_slice csrc_len_str)). Qed.

(* BOUNDS.  Index and element write outside 0 <= k < len, slice bounds outside 0 <= i <= j <= cap
   (negative run-time operands included; omitted upper bound = len), negative make length: a panic,
   never a value; inside the bounds: never a panic.
   Conjunct 2 (a read inside the bounds yields a value) needs wf_slice: the cell must exist in the store.
   Conjunct 4 (a write inside the bounds does not panic) has NO wf_slice premise and needs none: `set`
   (GoSpec/GoSlice.v, shared by model and spec) decides by the descriptor's length alone, and writing
   through a descriptor that points outside the store is a silent no-op there, not a panic.  So for an
   ILL-FORMED descriptor conjunct 4 says less than it seems (Go would fault on the array access); such
   descriptors do not arise: Inv (c11_inv) keeps every variable's descriptor wf_slice. *)
Theorem c11_bounds :
  (forall st g k, ~ (0 <= Value_Int k < Z.of_nat (Value_Len g)) -> Value_Get st g k = Panic) /\
  (forall st g k, wf_slice st (gdata g) -> 0 <= Value_Int k < Z.of_nat (Value_Len g) -> exists v, Value_Get st g k = Ok v) /\
  (forall st g k v, ~ (0 <= Value_Int k < Z.of_nat (Value_Len g)) -> Value_Set st g k v = Panic) /\
  (forall st g k v, 0 <= Value_Int k < Z.of_nat (Value_Len g) -> exists st', Value_Set st g k v = Ok st') /\
  (forall g i j, ~ (0 <= i <= j /\ j <= Z.of_nat (gcapn g)) -> Value_Slice g i j = Panic) /\
  (forall g i j, 0 <= i <= j /\ j <= Z.of_nat (gcapn g) ->
     exists h, Value_Slice g i j = Ok h /\ Value_Len h = (Z.to_nat j - Z.to_nat i)%nat /\ elemty h = elemty g) /\
  (forall r a b,
     let i := Value_Int a in
     let j := if vt b =? TypeNil then Z.of_nat (Value_Len r) else Value_Int b in
     ~ (0 <= i <= j /\ j <= Z.of_nat (gcapn r)) -> code_slice r a b = Panic) /\
  (forall st t n, Value_Int n < 0 -> code_make st t n = Panic).
Proof.
  exact (conj get_out (conj get_in (conj set_out_of_range (conj set_in_range (conj slice_out (conj slice_in
        (conj code_slice_out make_out))))))).
Qed.

(* NIL.  A nil slice has length 0, ranges over nothing, cannot be indexed, copies nothing; APPEND
   on it allocates a new array holding the values converted to the DECLARED element type and
   touches nothing that existed; s[0:0] is the only slice expression in range. *)
Theorem c11_nil : forall t,
  (Value_Len (GNil t) = 0%nat /\ code_len (GNil t) = fn_Int 0) /\
  (forall st, Value_Range st (GNil t) = [] /\ forall n, range_next st (GNil t) n = None) /\
  (forall st k v, Value_Get st (GNil t) k = Panic /\ Value_Set st (GNil t) k v = Panic) /\
  (forall grow st items,
     code_append grow st (GNil t) items =
     ((st ++ [map (assign_to (Type_value t)) items])%list,
      GSl (Type_value t) (SMk (length st) 0 (length items) (length items)))) /\
  (forall i j, Value_Slice (GNil t) i j = if (i =? 0) && (j =? 0) then Ok (GSl (Type_value t) SNil) else Panic) /\
  (forall st b, code_copy st (GNil t) b = (st, 0%nat)) /\
  (forall t0, 0 <= t0 -> Type_value (fn_sliceType t0) = t0).
Proof.
  intro t.
  exact (conj (nil_len t) (conj (fun st => nil_range st t) (conj (fun st k v => nil_index st t k v)
        (conj (fun grow st items => nil_append grow st t items) (conj (nil_reslice t)
        (conj (fun st b => proj1 (nil_copy st t b (GNil t))) value_type_sliceType)))))).
Qed.

(* ELEMENT TYPE.  What assign guarantees (C04): a value Go's type checker accepts for a []T -- a T,
   or an untyped constant when T is numeric -- is stored as a T; whatever is stored is never an
   untyped constant; stored values are fixpoints of assign.  Hence, after ANY history whose stored
   values are type-correct ([hist_typed]: literal elements, s[i] = v, append arguments, spread and
   copy sources of the same element type, string spreads and string copies into []uint8), every element of every
   variable has exactly the variable's element type or is a cell no statement wrote ([tcell];
   see finding F2); and after any history at all no element is an untyped constant. *)
Theorem c11_elemty :
  (forall t v, compat t v -> vt (Value_assign v t) = t) /\
  (forall t v, scalar t -> sok (Value_assign v t)) /\
  (forall t v, scalar t -> sok v -> Value_assign v t = v) /\
  (forall os s aty, Inv s -> TInv aty s -> hist_typed s os ->
     forall x, (x < length (snd (run s os)))%nat ->
     Forall (tcell (elemty (pget (snd (run s os)) x))) (cells (fst (run s os)) (gdata (pget (snd (run s os)) x)))) /\
  (forall os s, Inv s -> hist_ok s os ->
     forall x, Forall sok (cells (fst (run s os)) (gdata (pget (snd (run s os)) x)))) /\
  (forall n, TInv [] ([], repeat (GNil (fn_sliceType TypeInt32)) n)) /\
  (* append(bytes, "s"...) spreads the bytes of s as uint8 values, for every string *)
  (forall st s, spread_items st (SpStr s) = map fn_Byte s /\
                Forall (fun v => vt v = TypeUint8) (spread_items st (SpStr s))).
Proof.
  exact (conj assign_compat (conj assign_sok (conj sok_fix (conj elemty_run (conj stored_run
        (conj tinv_init spread_string_bytes)))))).
Qed.

Print Assumptions c11_inv.
Print Assumptions c11_refine.
Print Assumptions c11_alias.
Print Assumptions c11_append.
Print Assumptions c11_copy.
Print Assumptions c11_bounds.
Print Assumptions c11_nil.
Print Assumptions c11_elemty.

(* non-vacuity: a := []int{1,2,3,4}; b := a[1:3]; b[0] = 20 (seen through a); c := append(b, 99)
   (in place: a[3] = 99); d := append(a, 7) (new array, a untouched); copy(a[1:], a) (overlapping) *)
Example c11_witness :
  let i32 n := mkValue TypeInt32 (Zn n) PNone in
  let un n := mkValue untypedInt (Zn n) PNone in
  let nl := mkValue TypeNil (Zn 0) PNone in
  let s0 : state := ([], repeat (GNil (fn_sliceType TypeInt32)) 5) in
  let os := [OLit 0 TypeInt32 [un 1; un 2; un 3; un 4]; OSlice 1 0 (un 1) (un 3); OSet 1 (un 0) (un 20);
             OAppend 2 1 [un 99] SpN 8; OAppend 3 0 [un 7] SpN 8; OSlice 4 0 (un 1) nl; OCopy 4 0] in
  let s := run s0 os in
  cells (fst s) (gdata (pget (snd s) 0)) = [i32 1; i32 1; i32 20; i32 3] /\
  cells (fst s) (gdata (pget (snd s) 2)) = [i32 1; i32 20; i32 3] /\
  cells (fst s) (gdata (pget (snd s) 3)) = [i32 1; i32 20; i32 3; i32 99; i32 7] /\
  hist_ok s0 os /\ hist_typed s0 os.
Proof.
  vm_compute.
  repeat match goal with
  | |- _ /\ _ => split
  | |- True => exact I
  | |- Forall _ [] => constructor
  | |- Forall _ (_ :: _) => constructor
  | |- _ \/ _ => right; split; [reflexivity|right; left; reflexivity]
  | |- _ -> _ => intro; discriminate
  | |- le _ _ => repeat constructor
  | |- _ = _ => reflexivity
  end.
Qed.
