(* C19 -- the embedding API passes values faithfully in both directions.
   Statements only; proofs are in Proofs/C19_roundtrip.v and Proofs/C19_adapter.v.
   Part 1 is stated over the constructor / accessor definitions REGENERATED from
   /repo/value.go by tools/go2v on every run (Gen/ValueOps_gen.v).  Parts 2-6 are
   stated over Model/Call.v, the transcription of NewFunc / newMethod / mkFunc /
   call / callReady / VM.Func (tie: correspondence c19-corr on every run).
   Stacks are lists with the top at the end; [lo] is whatever lies below the call. *)
From Coq Require Import ZArith List Bool Floats.
From GV Require Import GoSpec.GoPrim Gen.ValueOps_gen Model.Call Proofs.C19_roundtrip Proofs.C19_adapter.
Import ListNotations.
Open Scope Z_scope.

(* 1. every value of a constructor's domain reads back unchanged through the matching accessor.
   Precisely:
   - integers and booleans: for every value in the range of the Go parameter type;
   - float64: for every payload of the form [Fn f] (every Go float64 is one).  fn_Float64 takes a [num];
     on the model's other representation [Zn z] ("a float64 holding the integer z") the constructor
     normalises the payload to Fn, so the round trip is the identity only up to num_same there
     (Witness/NV_C19.v remark_c19_roundtrip_float_Zn) -- not claimed here;
   - strings: the conjunct is about the PAYLOAD: the value String(s) holds the payload PStr s and the
     payload reads back as s (as_str); there is no generated accessor Value_String in the statement, the
     host-side reading v.String() is the printing function of C14. *)
Theorem c19_roundtrip :
  (forall x, in_range I32 x = true -> Value_Int32 (fn_Int32 x) = x) /\
  (forall x, in_range U32 x = true -> Value_Uint32 (fn_Uint32 x) = x) /\
  (forall x, in_range I8 x = true -> Value_Int8 (fn_Int8 x) = x) /\
  (forall x, in_range U8 x = true -> Value_Byte (fn_Byte x) = x) /\
  (forall x, in_range U8 x = true -> Value_Uint8 (fn_Uint8 x) = x) /\
  (forall b, Value_Bool (fn_Bool b) = b) /\
  (forall f, Value_Float64 (fn_Float64 (Fn f)) = Fn f) /\
  (forall s, vval (fn_String s) = PStr s /\ as_str (vval (fn_String s)) = Ok s).
Proof. exact roundtrip_all. Qed.

(* Int(v int) / Uint(v uint) keep 32 bits: identity exactly on the int32 / uint32 sub-domain,
   two's-complement truncation outside it (for EVERY integer x, in particular every int64) *)
Theorem c19_roundtrip_wide :
  (forall x, Value_Int (fn_Int x) = wrap I32 x) /\
  (forall x, in_range I32 x = true -> Value_Int (fn_Int x) = x) /\
  (forall x, Value_Uint (fn_Uint x) = wrap U32 x) /\
  (forall x, in_range U32 x = true -> Value_Uint (fn_Uint x) = x) /\
  (forall x, Value_Int32 (fn_Int x) = wrap I32 x) /\
  (forall x, Value_Uint32 (fn_Uint x) = wrap U32 x) /\
  (forall x, in_range I32 x = true -> Value_Int (fn_Int32 x) = x) /\
  (forall x, in_range U32 x = true -> Value_Uint (fn_Uint32 x) = x).
Proof. exact roundtrip_wide. Qed.

Theorem c19_tags :
  (forall x, vt (fn_Int x) = TypeInt32) /\ (forall x, vt (fn_Int32 x) = TypeInt32) /\
  (forall x, vt (fn_Uint x) = TypeUint32) /\ (forall x, vt (fn_Uint32 x) = TypeUint32) /\
  (forall x, vt (fn_Int8 x) = TypeInt8) /\ (forall x, vt (fn_Byte x) = TypeUint8) /\
  (forall x, vt (fn_Uint8 x) = TypeUint8) /\ (forall n, vt (fn_Float64 n) = TypeFloat64) /\
  (forall b, vt (fn_Bool b) = TypeBool) /\ (forall s, vt (fn_String s) = TypeString) /\
  vt fn_Nil = TypeNil.
Proof. exact rt_tags. Qed.

(* 2. the six NewFunc forms: run on lo ++ args with |args| = argc, the adapter calls the callback
   with exactly args, in order, and leaves lo ++ results; nothing below the arguments is touched.
   (The two argument-less forms do not pop anything, whatever argc says.)  Variadic form: the
   callback gets the argc-1 fixed arguments and the spread items of the packed slice. *)
Theorem c19_adapter : forall argc rets lo,
  (forall f st, Body (NewFunc argc rets (N00 f)) st = (_ <~ f ;; Good st)) /\
  (forall f st, Body (NewFunc argc rets (N01 f)) st = (v <~ f ;; Good (st ++ [v]))) /\
  (forall f args, slen args = argc ->
     Body (NewFunc argc rets (NN0 f)) (lo ++ args) = (_ <~ f args ;; Good lo)) /\
  (forall f args, slen args = argc ->
     Body (NewFunc argc rets (NN1 f)) (lo ++ args) = (v <~ f args ;; Good (lo ++ [v]))) /\
  (forall f args, slen args = argc ->
     Body (NewFunc argc rets (NNM f)) (lo ++ args) = (vs <~ f args ;; Good (lo ++ vs))) /\
  (forall f fixed et items, slen fixed = argc - 1 ->
     Body (NewFunc argc rets (NNV f)) (lo ++ fixed ++ [CPack et items]) =
       (vs <~ f fixed items ;; Good (lo ++ vs))).
Proof.
  exact (fun argc rets lo =>
    conj (adapter_N00 argc rets) (conj (adapter_N01 argc rets)
    (conj (fun f args => adapter_NN0 argc rets f lo args) (conj (fun f args => adapter_NN1 argc rets f lo args)
    (conj (fun f args => adapter_NNM argc rets f lo args)
          (fun f fixed et items => adapter_NNV_pack argc rets f lo fixed et items)))))).
Qed.

(* the function value carries the declared arity; only the variadic form with argc >= 1 is variadic *)
Theorem c19_fields : forall argc rets n, 0 <= argc ->
  Args (NewFunc argc rets n) = argc /\ Rets (NewFunc argc rets n) = rets /\
  VariadicType (NewFunc argc rets n) = 0 /\
  Variadic (NewFunc argc rets n) = match n with NNV _ => 0 <? argc | _ => false end.
Proof. exact native_fields. Qed.

(* 3. call / callReady.  [deliver lo outs xRets]: fewer results than requested is the error
   "incorrect returns", otherwise lo followed by the FIRST xRets results. *)
Theorem c19_call :
  (* wrong argument count: "incorrect args", the function is not run *)
  (forall st ft xArgs xRets, xArgs <> Args ft -> callReady st ft xArgs xRets = Fail EIncorrectArgs) /\
  (* a function that turns lo ++ args into lo ++ outs *)
  (forall lo args outs ft xRets, Body ft (lo ++ args) = Good (lo ++ outs) -> slen args = Args ft -> 0 <= xRets ->
     callReady (lo ++ args) ft (Args ft) xRets =
       if slen outs <? xRets then Fail EIncorrectReturns else Good (lo ++ firstn (Z.to_nat xRets) outs)) /\
  (* non-variadic functions: call = callReady *)
  (forall st ft xArgs xRets, Variadic ft = false -> call st ft xArgs xRets = callReady st ft xArgs xRets) /\
  (* variadic functions, at least one surplus argument: they become ONE slice of the declared element type *)
  (forall lo fixed extra ft xRets, Variadic ft = true -> slen fixed = Args ft - 1 -> 1 <= slen extra ->
     call (lo ++ fixed ++ extra) ft (slen fixed + slen extra) xRets =
     callReady (lo ++ fixed ++ [pack (Type_value (VariadicType ft)) extra]) ft (Args ft) xRets) /\
  (* variadic functions, no surplus argument: the variadic parameter is the NIL slice of the declared
     variadic type (a value without object part; nothing is built) *)
  (forall lo fixed ft xRets, Variadic ft = true -> slen fixed = Args ft - 1 ->
     call (lo ++ fixed) ft (slen fixed) xRets =
     callReady (lo ++ fixed ++ [CVal (mkValue (VariadicType ft) (Zn 0) PNone)]) ft (Args ft) xRets) /\
  (* too few arguments for the fixed part: an error *)
  (forall st ft xArgs xRets, Variadic ft = true -> xArgs < Args ft - 1 -> call st ft xArgs xRets = Fail (ERuntime 2)).
Proof.
  exact (conj callReady_args (conj callReady_good (conj call_fixed (conj call_variadic (conj call_variadic_none call_variadic_few))))).
Qed.

(* end to end for natives: script arguments -> callback -> script results *)
Theorem c19_native_call :
  (forall argc rets n lo args xRets,
     Variadic (NewFunc argc rets n) = false -> slen args = argc -> 0 <= xRets ->
     call (lo ++ args) (NewFunc argc rets n) argc xRets = (outs <~ lift n args ;; deliver lo outs xRets)) /\
  (forall argc rets n st xArgs xRets,
     Variadic (NewFunc argc rets n) = false -> 0 <= argc -> xArgs <> argc ->
     call st (NewFunc argc rets n) xArgs xRets = Fail EIncorrectArgs) /\
  (forall argc rets f lo fixed extra xRets, slen fixed = argc - 1 -> 0 <= xRets ->
     call (lo ++ fixed ++ extra) (NewFunc argc rets (NNV f)) (slen fixed + slen extra) xRets =
       (outs <~ f fixed (map (assign_cell 0) extra) ;; deliver lo outs xRets)) /\
  (forall argc rets f lo fixed et items xRets, slen fixed = argc - 1 -> 0 <= xRets ->
     callReady (lo ++ fixed ++ [CPack et items]) (NewFunc argc rets (NNV f)) argc xRets =
       (outs <~ f fixed items ;; deliver lo outs xRets)).
Proof. exact (conj native_call (conj native_call_wrong (conj variadic_call variadic_spread))). Qed.

(* 4. VM.Func: a success has exactly xRets results, and they are the first xRets results of the
   callee on exactly params; a wrong parameter count or a non-function is an error *)
Theorem c19_func : forall env,
  (forall fnc xRets params rs, vm_func env fnc xRets params = Good rs -> slen rs = xRets) /\
  (forall h ft g xRets params, env h = Some ft -> Variadic ft = false -> frame_ok ft (Args ft) g ->
     slen params = Args ft -> 0 <= xRets ->
     vm_func env (CFn h) xRets params =
       (outs <~ g params ;; if slen outs <? xRets then Fail EIncorrectReturns
                            else Good (firstn (Z.to_nat xRets) outs))) /\
  (forall h argc rets f xRets fixed extra, env h = Some (NewFunc argc rets (NNV f)) ->
     slen fixed = argc - 1 -> 0 <= xRets ->
     vm_func env (CFn h) xRets (fixed ++ extra) =
       (outs <~ f fixed (map (assign_cell 0) extra) ;;
        if slen outs <? xRets then Fail EIncorrectReturns else Good (firstn (Z.to_nat xRets) outs))) /\
  (forall h ft xRets params, env h = Some ft -> Variadic ft = false -> slen params <> Args ft ->
     vm_func env (CFn h) xRets params = Fail EIncorrectArgs) /\
  (forall fnc xRets params, match fnc with CFn h => env h = None | _ => True end ->
     vm_func env fnc xRets params = Fail (ERuntime 4)).
Proof.
  exact (fun env => conj (vm_func_len env) (conj (vm_func_fixed env) (conj (vm_func_variadic_native env)
        (conj (vm_func_wrong_args env) (vm_func_not_func env))))).
Qed.

(* natives have the frame property that c19_func asks for, unconditionally; script functions have it
   PROVIDED the body leaves exactly [rets] values whenever it succeeds (second premise: an assumption on
   `code`, not derived from the compiler here).  The premise is
   needed: a body leaving fewer values makes mkFunc take cells of the caller, and then no g gives frame_ok
   (Witness/NV_C19.v remark_c19_frames_needs_rets). *)
Theorem c19_frames :
  (forall argc rets n, frame_ok (NewFunc argc rets n) argc (lift n)) /\
  (forall args rets atys rtys code, 0 <= args -> (forall a outs, code a = Good outs -> slen outs = rets) ->
     frame_ok (script_fn args rets atys rtys code) (Args (script_fn args rets atys rtys code))
       (fun a => outs <~ code (assign_zip atys a) ;; Good (assign_zip rtys outs))).
Proof. exact (conj native_frame script_frame). Qed.

(* 5. a bound method is the underlying function with the receiver inserted below the arguments.
   Conjunct 1 (non-variadic underlying function): for EVERY argument list, right or wrong in number.
   Conjuncts 2, 3, 4 (variadic underlying function with >= 2 parameters): for argument lists that supply at
   least the fixed parameters (slen fixed = Args f - 2, then any surplus, possibly empty): the method builds
   the variadic parameter exactly as the function does (conjunct 3, at least one surplus argument: one
   slice of the declared element type; conjunct 4, none: the nil slice of the declared variadic type).
   NOT covered: a variadic method called with FEWER arguments than its fixed parameters (the error case;
   for plain functions that is c19_call conjunct 6), and a variadic f with Args f = 1 (receiver-only). *)
Theorem c19_method :
  (forall obj f lo args xRets, Variadic f = false -> 1 <= Args f ->
     call (lo ++ args) (newMethod obj f) (slen args) xRets =
     call (lo ++ [obj] ++ args) f (slen args + 1) xRets) /\
  (forall obj f lo fixed extra xRets, Variadic f = true -> 2 <= Args f -> slen fixed = Args f - 2 ->
     call (lo ++ fixed ++ extra) (newMethod obj f) (slen fixed + slen extra) xRets =
     call (lo ++ [obj] ++ fixed ++ extra) f (slen fixed + slen extra + 1) xRets) /\
  (forall obj f lo fixed extra xRets, Variadic f = true -> 2 <= Args f -> slen fixed = Args f - 2 ->
     1 <= slen extra ->
     call (lo ++ fixed ++ extra) (newMethod obj f) (slen fixed + slen extra) xRets =
     callReady (lo ++ [obj] ++ fixed ++ [pack (Type_value (VariadicType f)) extra]) f (Args f) xRets) /\
  (forall obj f lo fixed xRets, Variadic f = true -> 2 <= Args f -> slen fixed = Args f - 2 ->
     call (lo ++ fixed) (newMethod obj f) (slen fixed) xRets =
     callReady (lo ++ [obj] ++ fixed ++ [CVal (mkValue (VariadicType f) (Zn 0) PNone)]) f (Args f) xRets).
Proof.
  exact (conj method_call (conj method_call_variadic (conj method_call_variadic_packed method_call_variadic_none))).
Qed.

(* 6. errors surface: raised by the callback itself, raised by the callee of VM.Func, and raised
   inside a script function that a native called through VM.Func (slices.SortFunc's shape).
   Conjunct 4: the nested native's closure captured the function table env (in which the inner function
   hin lives); the table env2 in which the OUTER native is registered and called is ANY table (env2 = env
   is the special case of the first version, whose premise `env hout = Some (NewFunc .. (nestedX env ..))`
   was self-referential in env and, axiom-free, dischargeable by conversion only). *)
Theorem c19_error :
  (forall argc rets n lo args xRets e, Variadic (NewFunc argc rets n) = false -> slen args = argc -> 0 <= xRets ->
     lift n args = Fail e -> call (lo ++ args) (NewFunc argc rets n) argc xRets = Fail e) /\
  (forall argc rets f lo fixed extra xRets e, slen fixed = argc - 1 -> 0 <= xRets ->
     f fixed (map (assign_cell 0) extra) = Fail e ->
     call (lo ++ fixed ++ extra) (NewFunc argc rets (NNV f)) (slen fixed + slen extra) xRets = Fail e) /\
  (forall env h ft xRets params e, env h = Some ft -> Variadic ft = false -> slen params = Args ft ->
     Body ft params = Fail e -> vm_func env (CFn h) xRets params = Fail e) /\
  (forall env env2 hin k sel hout argc rets n lo args xRets e inner,
     env hin = Some inner -> Variadic inner = false -> slen (sel args) = Args inner ->
     Body inner (sel args) = Fail e ->
     (exists c, n = nested0 env hin k sel c) \/ (exists c, n = nested1 env hin k sel c) \/
     (exists c, n = nestedM env hin k sel c) ->
     slen args = argc -> 0 <= xRets ->
     call (lo ++ args) (NewFunc argc rets n) argc xRets = Fail e /\
     (env2 hout = Some (NewFunc argc rets n) -> vm_func env2 (CFn hout) xRets args = Fail e)).
Proof.
  exact (conj native_raise (conj variadic_raise (conj vm_func_fail
        (fun env env2 hin k sel => nested_error env hin k sel env2)))).
Qed.

Print Assumptions c19_roundtrip.
Print Assumptions c19_roundtrip_wide.
Print Assumptions c19_tags.
Print Assumptions c19_adapter.
Print Assumptions c19_fields.
Print Assumptions c19_call.
Print Assumptions c19_native_call.
Print Assumptions c19_func.
Print Assumptions c19_frames.
Print Assumptions c19_method.
Print Assumptions c19_error.

(* non-vacuity: Int truncates outside int32; a 2-argument native called through VM.Func with two
   requested results out of three; a variadic native; a bound variadic ...float64 method (its
   underlying function answers the receiver and the packed slice): the untyped surplus argument 3
   arrives as float64 3; without surplus argument the variadic parameter is the nil []float64 *)
Example c19_witness :
  Value_Int (fn_Int 4294967298) = 2 /\ Value_Int (fn_Int (-5)) = -5 /\ Value_Uint (fn_Uint (-1)) = 4294967295 /\
  (let i x := CVal (fn_Int32 x) in
   let f := NewFunc 2 3 (NNM (fun a => Good (rev a ++ [i 9]))) in
   let v := NewFunc 2 1 (NNV (fun a va => Good [i (slen a); i (slen va)])) in
   let env := fun h : Z => if h =? 1 then Some f else if h =? 2 then Some v else None in
   vm_func env (CFn 1) 2 [i 6; i 7] = Good [i 7; i 6] /\
   vm_func env (CFn 1) 4 [i 6; i 7] = Fail EIncorrectReturns /\
   vm_func env (CFn 1) 0 [i 6] = Fail EIncorrectArgs /\
   vm_func env (CFn 2) 2 [i 6; i 7; i 8; i 9] = Good [i 1; i 3] /\
   vm_func env (CFn 2) 1 [] = Fail (ERuntime 2)) /\
  (let u := CVal (mkValue untypedInt (Zn 3) PNone) in
   let obj := CVal (mkValue TypeStruct (Zn 0) (PRef 1)) in
   let m := mkFuncT 2 2 true (fn_sliceType TypeFloat64) (fun st => Good st) in
   call [u] (newMethod obj m) 1 2 = Good [obj; CPack TypeFloat64 [CVal (fn_Float64 (Zn 3))]] /\
   call [obj; u] m 2 2 = call [u] (newMethod obj m) 1 2 /\
   call [] (newMethod obj m) 0 2 = Good [obj; CVal (mkValue (fn_sliceType TypeFloat64) (Zn 0) PNone)] /\
   call [obj] m 1 2 = call [] (newMethod obj m) 0 2).
Proof. vm_compute. repeat split; reflexivity. Qed.
