(* C14 -- printed values look as Go prints them, and printing always terminates.
   Spec: GoSpec/GoFmt.v ([go_fmt], Go's %v; struct references `&{F:v ...}` = Go's %+v).
   Model: Model/Print.v, transcription of Value.String / safeStr / SafeStr and of vaSprint,
   fmt.Print/Println/Sprint (tie: correspondence `c14-corr` through the host API on every run).
   [ff] = fmt.Sprint on a float64 (strconv shortest representation), shared by model and spec.
   Values live in a heap (addr -> option object) that may be cyclic; [repr h v g] says that
   the goatlang value v in heap h represents the Go value g. *)
From Coq Require Import ZArith List Bool Floats String.
From GV Require Import GoSpec.GoPrim GoSpec.GoFmt Gen.ValueOps_gen Model.Print Proofs.C14_print.
Import ListNotations.
Open Scope Z_scope.

(* decimal rendering of integers: reading back what was printed gives the number
   (so the rendering is a well-formed numeral and injective) *)
Theorem c14_decimal : forall z, parse_dec (print_Z z) = Some z.
Proof. exact parse_print_Z. Qed.

Section C14.
  Variable ff : float -> bytes.

  (* termination is by construction: string_top / safe_str / safe_str_leaf are total, fuel-free
     functions that do not recurse through the heap.  On every well-formed heap -- tags consistent
     with payloads, no dangling reference; cycles allowed -- the rendering is a string (no panic,
     nothing unmodelled), for single values and for Println of any operand list.
     wf_value (Proofs/C14_print.v) covers: nil, booleans, the integer tags, float64, strings, and slice /
     map / struct values that are nil or refer to an object of the heap.  It EXCLUDES function values
     (TypeFunc) and host objects (TypeObject): their rendering (an address / the host's String method) is
     not modelled and this theorem says nothing about operands that are or contain one. *)
  Theorem c14_total : forall h,
    wf_heap h ->
    (forall v, wf_value h v -> exists s, string_top ff h v = Ok s) /\
    (forall vs, Forall (wf_value h) vs -> exists s, fmt_Println ff h vs = Ok s).
  Proof. exact (fun h W => conj (fun v => total_on_wf ff h v W) (fun vs => println_total ff h vs W)). Qed.

  (* the rendering dereferences at most two levels of references: it is the same in any two heaps
     that agree on the object of v and on the objects its elements refer to *)
  Theorem c14_depth_bound : forall h h' v,
    (forall a, In a (reach1 v ++ reach2 h v) -> h a = h' a) ->
    string_top ff h v = string_top ff h' v.
  Proof. exact (depth_bound ff). Qed.

  (* booleans, integers of each width (int8, uint8, int32, uint32: all values, including
     uint32 >= 2^31) and strings print as Go prints them.
     The float conjunct is PARAMETRIC / definitional: model and spec share the formatter [ff] (a Section
     variable standing for strconv's shortest representation), so `string_top ... (Fn f) = go_fmt (GFloat f)`
     holds for every ff, by unfolding both sides to `ff f`.  It says that goatlang hands the float64 to fmt
     unchanged (no rounding, no own formatting); it says NOTHING about how a float is formatted.  The actual
     formatting is compared with the Go toolchain by the correspondence c14-corr only. *)
  Theorem c14_scalars : forall h,
    (forall b : bool, string_top ff h (mkValue TypeBool (Zn (if b then 1 else 0)) PNone) = Ok (go_fmt ff (GBool b))) /\
    (forall t z, bits t <= 32 -> in_range t z = true ->
       string_top ff h (mkValue (tag_of t) (Zn z) PNone) = Ok (go_fmt ff (GInt z))) /\
    (forall f, string_top ff h (mkValue TypeFloat64 (Fn f) PNone) = Ok (go_fmt ff (GFloat f))) /\
    (forall s, string_top ff h (mkValue TypeString (Zn 0) (PStr s)) = Ok (go_fmt ff (GStr s))).
  Proof. exact (scalars_correct ff). Qed.

  (* every operand of nesting depth <= 2 (scalars; slices, single-entry/empty/nil maps of scalars;
     slices and maps of those; struct references whose fields have depth <= 1) prints as Go prints it,
     in any heap that represents it.
     What [repr] (Proofs/C14_print.v) does NOT relate, so that the theorem is silent about it:
     - the Go value GNil (nil interface / nil pointer): no goatlang value represents it -- see
       c14_nil_refuted below for what goatlang prints there;
     - maps with two or more entries (Go sorts the keys; not modelled), struct references nested inside a
       slice or map (Go prints an address), function and host values. *)
  Theorem c14_nested : forall h v g,
    repr_top h v g -> (depth_top g <= 2)%nat -> string_top ff h v = Ok (go_fmt_top ff g).
  Proof. exact (nested_correct ff). Qed.

  (* Println: operands separated by exactly one space, newline appended: Go's fmt.Println rule
     (go_println).  Print of ONE operand = the operand (go_print1).
     The Sprint conjunct states the MODEL's rule -- always one space between operands
     (join_sp (map go_fmt_top gs)) -- which is goatlang's vaSprint, NOT Go's fmt.Sprint: Go's Sprint (and
     Print) add a space between two operands only when neither is a string (fmt.Sprint("a","b") = "ab",
     goatlang prints "a b").  So for >= 2 operands that conjunct describes goatlang's behaviour against its
     own rule, and agrees with Go only when no two adjacent operands include a string; for one operand it
     is Go's result. *)
  Theorem c14_println : forall h vs gs,
    Forall2 (fun v g => repr_top h v g /\ (depth_top g <= 2)%nat) vs gs ->
    fmt_Println ff h vs = Ok (go_println ff gs) /\
    fmt_Sprint ff h vs = Ok (join_sp (map (go_fmt_top ff) gs)) /\
    (forall v g, vs = [v] -> gs = [g] -> fmt_Print ff h vs = Ok (go_print1 ff g)).
  Proof. exact (println_correct ff). Qed.
End C14.

(* KNOWN FINDING (refutation of the property beyond depth 2): [][][]int{{{1}}} prints [[...]],
   Go prints [[[1]]] *)
Theorem c14_deep_refuted : forall ff, exists h v g,
  repr_top h v g /\ depth_top g = 3%nat /\ string_top ff h v <> Ok (go_fmt_top ff g).
Proof. exact deep_refuted. Qed.

(* second disagreement: a nil interface / nil struct pointer prints nil, Go prints <nil> *)
Theorem c14_nil_refuted : forall ff h,
  string_top ff h (mkValue TypeNil (Zn 0) PNone) = Ok (bs "nil") /\
  (forall t, Type_base t = TypeStruct -> string_top ff h (mkValue t (Zn 0) PNone) = Ok (bs "nil")) /\
  go_fmt ff GNil = bs "<nil>" /\ bs "nil" <> bs "<nil>".
Proof. exact nil_refuted. Qed.

Print Assumptions c14_decimal.
Print Assumptions c14_total.
Print Assumptions c14_depth_bound.
Print Assumptions c14_scalars.
Print Assumptions c14_nested.
Print Assumptions c14_println.
Print Assumptions c14_deep_refuted.
Print Assumptions c14_nil_refuted.

(* non-vacuity: a slice containing itself lives in a well-formed heap and prints [[...]];
   [][]int{{1 2} {}} prints [[1 2] []]; -128 prints "-128" *)
Example c14_witness : forall ff,
  wf_heap cyc_heap /\
  string_top ff cyc_heap (mkValue 394297472 (Zn 0) (PRef 1)) = Ok (bs "[[...]]") /\
  string_top ff (heap_of [(1, OSlice [mkValue 6016 (Zn 0) (PRef 2); mkValue 6016 (Zn 0) (PRef 3)]);
                          (2, OSlice [mkValue TypeInt32 (Zn 1) PNone; mkValue TypeInt32 (Zn 2) PNone]);
                          (3, OSlice [])])
             (mkValue 1540224 (Zn 0) (PRef 1)) = Ok (bs "[[1 2] []]") /\
  print_Z (-128) = bs "-128".
Proof. intros ff. split; [exact cyc_wf|]. vm_compute. repeat split. Qed.
