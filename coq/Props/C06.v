(* C06 -- break, continue and return always reach the target Go specifies.

   GoSpec/GoCtl.v : control skeletons (emit / if-else chains with init / for with any of init, cond,
     post / range / switch tagged or tagless, multi-value cases, default anywhere / break / continue /
     return) and Go's semantics as a fuelled big-step evaluator; every call result (conditions, range
     lengths, switch tags) comes from an arbitrary oracle that may depend on the whole history.
   Model/Ctl.v : transcription of compiler.go's cases "if", "switch", "for", "range", "break",
     "continue", "return", "block" (placeholders + rewriting loops, relative offsets, slot counter) and of
     do.go's JUMP, JUMPFALSE, JUMPTRUE, OR, RANGE, ITER, RETURN; one abstract instruction per real one
     (tie: Model/CorrC06.v against the real compiler and VM, optimizer off, on every run).
   Optimizer on is property C02. *)
From Coq Require Import ZArith List Bool.
From GV Require Import GoSpec.GoCtl Model.Ctl Proofs.C06_base Proofs.C06_ctl Proofs.C06_main Proofs.C06_wf.
Import ListNotations.
Open Scope Z_scope.

(* Main theorem.  For EVERY skeleton b (any nesting, any placement of break / continue / return; even
   ill-formed ones), EVERY oracle, every history tr0 and every content of the local slots: if Go's
   semantics finishes the function body normally with trace tr', the machine running compile_ctl b from
   pc 0 runs off the end of the code (Finished: the pc reached len code or beyond -- `len C <= pc`, not
   necessarily pc = len C) with trace tr' and an empty operand stack; if Go's semantics executes
   a return with trace tr', the machine executes a RETURN instruction with trace tr'.  The trace lists
   every emit, every condition evaluated, every range expression and every switch tag in order, so equal
   traces mean: every case, else branch and loop body ran exactly when Go runs it, and the oracle was
   consulted at the same points with the same history.
   The premise is that Go's evaluator TERMINATES within some fuel: when it diverges (exec_block = None for
   every fuel, e.g. `for {}`) the theorem says nothing about the machine (in particular not that it diverges
   too, nor that its trace prefixes agree).  A body that ends in Brk / Cont (not a valid Go function body)
   gets the conclusion True. *)
Theorem c06_skeleton : forall (orc : oracle) (b : block) (fuel : nat) (tr0 : trace) (s0 : nat -> sval)
                              (out : outcome) (tr' : trace),
  exec_block orc fuel b tr0 = Some (out, tr') ->
  match out with
  | Normal => exists mfuel, run orc mfuel (compile_ctl b) (mkCfg 0 tr0 [] s0) = Finished tr' []
  | Ret => exists mfuel p, run orc mfuel (compile_ctl b) (mkCfg 0 tr0 [] s0) = Ret_at p tr' []
  | Brk | Cont => True
  end.
Proof. exact skeleton_ok. Qed.
Print Assumptions c06_skeleton.

(* The generalised statement the induction goes through (statement level): a statement compiled at slot
   counter L and carried by any program C at any position p -- with its BREAK / CONTINUE placeholders
   rewritten by the enclosing constructs into jumps to bt / ct -- drives the machine, from any operand
   stack and slots, to: the end of its code (Normal), exactly bt (Brk), exactly ct (Cont), or a RETURN
   instruction (Ret); the operand stack is restored and slots below L are untouched. *)
Theorem c06_statement : forall (orc : oracle) (fuel : nat) (s : stmt) (tr : trace) (out : outcome) (tr' : trace),
  exec orc fuel s tr = Some (out, tr') ->
  forall (C : code) (p : Z) (L : nat) (bt ct : option Z) (stk : list sval) (sl : nat -> sval),
  0 <= p -> carries C p (compile L s) bt ct ->
  post_ok orc C p (p + len (compile L s)) tr stk sl L bt ct out tr'.
Proof. exact (fun orc fuel => proj1 (all_ok orc fuel)). Qed.
Print Assumptions c06_statement.

(* The rewriting loops: a block whose placeholders were rewritten by a loop / switch is carried with the
   targets that construct designates (rw_ok: the operand written at index n is target - position - 1, or
   the placeholder is left alone and keeps the outer target). *)
Theorem c06_rewrite : forall (c C : code) (p n0 : Z) (brk cnt : Z -> option Z) (bt ct bt' ct' : option Z),
  carries C p (rewrite brk cnt n0 c) bt ct ->
  rw_ok brk n0 p bt bt' -> rw_ok cnt n0 p ct ct' ->
  carries C p c bt' ct'.
Proof. exact carries_rewrite. Qed.
Print Assumptions c06_rewrite.

(* a skeleton the Go compiler accepts (break only inside for / range / switch, continue only inside a loop)
   leaves no placeholder opcode in the compiled function: each one is rewritten by its construct *)
Theorem c06_wf_no_placeholder : forall (b : block), wf_block false false b = true ->
  forall i, In i (compile_ctl b) -> i <> CBreak /\ i <> CContinue.
Proof. exact wf_no_placeholder. Qed.
Print Assumptions c06_wf_no_placeholder.

(* switch cases never fall through -- COROLLARIES of c06_skeleton for the FIRST guard of the FIRST case only:
   if that guard holds (tagless) / equals the tag (tagged) and Go runs that case's block to a normal end, the
   machine finishes with the same trace -- so no later guard, no other case and not the default contributed an
   event.  Any other case / guard is covered by c06_skeleton itself (equal traces), not by these two. *)
Theorem c06_no_fallthrough : forall (orc : oracle) g gs body cs dpos dflt fuel tr0 s0 tr',
  o_cond orc tr0 g = true ->
  exec_block orc fuel body (EvCond g :: tr0) = Some (Normal, tr') ->
  exists mf, run orc mf (compile_ctl (BCons (Switch None (CCons g gs body cs) dpos dflt) BNil)) (mkCfg 0 tr0 [] s0)
             = Finished tr' [].
Proof. exact no_fallthrough. Qed.
Print Assumptions c06_no_fallthrough.

Theorem c06_no_fallthrough_tagged : forall (orc : oracle) k g gs body cs dpos dflt fuel tr0 s0 tr',
  o_tag orc tr0 k = g ->
  exec_block orc fuel body (EvTag k :: tr0) = Some (Normal, tr') ->
  exists mf, run orc mf (compile_ctl (BCons (Switch (Some k) (CCons g gs body cs) dpos dflt) BNil)) (mkCfg 0 tr0 [] s0)
             = Finished tr' [].
Proof. exact no_fallthrough_tagged. Qed.
Print Assumptions c06_no_fallthrough_tagged.

(* The default clause.  The position of the default clause does not influence the generated code: MODELLING
   ASSUMPTION, tied only by the instruction-for-instruction correspondence (Model/CorrC06.v).  The field dpos
   of Switch is read neither by GoSpec/GoCtl.v (exec) nor by Model/Ctl.v (compile), so an equation "the same
   for every dpos" holds by reflexivity and is NOT stated as a theorem (it was, as c06_default_position, until
   the audit).  What is proved about the default: compile places its block after the code of all cases
   (definition of compile, Model/Ctl.v) and the machine enters it when no guard of any case holds, wherever
   it is written -- another corollary of c06_skeleton: no_match evaluates all guards of all cases top to
   bottom (Proofs/C06_main.v; None as soon as one holds) and gives the trace at which Go starts the default.
   That the default is NOT entered when some guard holds is again c06_skeleton (equal traces), and
   c06_no_fallthrough for the first guard. *)
Theorem c06_default_entered : forall (orc : oracle) tag cs dpos dflt fuel tr0 s0 tr2 tr',
  no_match orc (option_map (o_tag orc tr0) tag) cs (match tag with Some k => EvTag k :: tr0 | None => tr0 end) = Some tr2 ->
  exec_block orc fuel dflt tr2 = Some (Normal, tr') ->
  exists mf, run orc mf (compile_ctl (BCons (Switch tag cs dpos dflt) BNil)) (mkCfg 0 tr0 [] s0) = Finished tr' [].
Proof. exact default_entered. Qed.
Print Assumptions c06_default_entered.

(* non-vacuity: `for { switch { default: break }; emit(1); break }` emits 1 and ends (the break in the
   default leaves the switch only); with return instead of the last break the function returns *)
Definition any_oracle : oracle := mkOracle (fun _ _ => true) (fun _ _ => 2%nat) (fun _ _ => 0).
Example c06_witness :
  let b := blk [For None None None (blk [Switch None (css []) 0 (blk [Break]); Emit 1; Break])] in
  exec_block any_oracle 20 b [] = Some (Normal, [EvEmit 1]) /\
  run any_oracle 100 (compile_ctl b) (init_cfg) = Finished [EvEmit 1] [] /\
  compile_ctl b = [CJump 0; CPush 1; CGet FEmit; CCall 1 0; CJump 1; CJump (-6)].
Proof. vm_compute. repeat split. Qed.

(* continue inside a switch inside a range runs the next iteration; return inside nested loops leaves *)
Example c06_witness2 :
  let b := blk [Range 7 (blk [Switch (Some 3) (css [(0, [1], blk [Emit 1; Continue])]) 1 (blk [Emit 2]); Emit 3]);
                For (Some 4) (Some 5) (Some 6) (blk [For None None None (blk [Return])]); Emit 9] in
  exec_block any_oracle 50 b [] = Some (Ret, rev [EvRange 7; EvTag 3; EvEmit 1; EvTag 3; EvEmit 1; EvEmit 4; EvCond 5]) /\
  exists p, run any_oracle 200 (compile_ctl b) init_cfg = Ret_at p (rev [EvRange 7; EvTag 3; EvEmit 1; EvTag 3; EvEmit 1; EvEmit 4; EvCond 5]) [].
Proof. vm_compute. split; [reflexivity | eexists; reflexivity]. Qed.
