(* C12 -- struct fields are independent, typed, and shared through references:
   full functional correctness of the robin-hood field table (Model/IntMap.v, a
   transcription of /repo/intmap.go tied cell-by-cell to the implementation by the
   VerifIntMap correspondence on every run). V = stored values; assignV new old =
   new.assign(old.t). *)
From Coq Require Import ZArith List Bool.
From GV Require Import Model.IntMap Proofs.C12_intmap.
Import ListNotations.

Section C12.
  Context {V : Type} (vzero : V) (assignV : V -> V -> V).
  Notation imap := (@imap V).

  (* a fresh table satisfies the invariant and is empty, for every requested capacity *)
  Theorem c12_new : forall alloc, Inv vzero (newIntMap vzero alloc) /\
    (forall k, find vzero (newIntMap vzero alloc) k = None) /\ len (newIntMap vzero alloc) = 0.
  Proof.
    intros alloc. split; [exact (inv_new vzero assignV alloc)|].
    split; [intro k; exact (proj1 (new_empty vzero assignV alloc k)) | exact (proj2 (new_empty vzero assignV alloc 0%Z))].
  Qed.

  (* the probing loops never exhaust their budget: the Go `for {}` loops terminate *)
  Theorem c12_budget : forall (m : imap) k, Inv vzero m -> exists r, get vzero m k = Some r.
  Proof. exact (get_total vzero assignV). Qed.

  (* Set: the key now holds the value, every other key is untouched, the invariant is kept -- across every
     growth threshold and collision pattern (all keys, all histories) *)
  Theorem c12_set : forall (m : imap) k v, Inv vzero m ->
    exists m', set vzero m k v = Some m' /\ Inv vzero m' /\
      find vzero m' k = Some v /\ (forall k', k' <> k -> find vzero m' k' = find vzero m k') /\
      len m' = (if find vzero m k then len m else S (len m)).
  Proof. exact (set_spec vzero assignV). Qed.

  (* Assign (field store): only an existing field changes, and it keeps its declared type *)
  Theorem c12_assign : forall (m : imap) k v, Inv vzero m ->
    exists m', assign vzero assignV m k v = Some m' /\ Inv vzero m' /\
      find vzero m' k = option_map (assignV v) (find vzero m k) /\
      (forall k', k' <> k -> find vzero m' k' = find vzero m k') /\ len m' = len m.
  Proof. exact (assign_spec vzero assignV). Qed.

  (* Delete (backward shift) removes exactly that key *)
  Theorem c12_delete : forall (m : imap) k, Inv vzero m ->
    exists m', delete vzero m k = Some m' /\ Inv vzero m' /\
      find vzero m' k = None /\ (forall k', k' <> k -> find vzero m' k' = find vzero m k') /\
      len m' = (if find vzero m k then len m - 1 else len m).
  Proof. exact (delete_spec vzero assignV). Qed.

  Theorem c12_len : forall (m : imap), Inv vzero m ->
    exists keys, NoDup keys /\ length keys = len m /\ forall k, In k keys <-> find vzero m k <> None.
  Proof. exact (len_spec vzero assignV). Qed.
End C12.
Print Assumptions c12_new.
Print Assumptions c12_budget.
Print Assumptions c12_set.
Print Assumptions c12_assign.
Print Assumptions c12_delete.
Print Assumptions c12_len.

(* non-vacuity: 20 colliding keys cross the first growth threshold (16 -> 32 cells) and every one is found *)
Example c12_witness :
  let ks := map (fun i => Z.of_nat (16 * i + 3)) (seq 0 20) in
  let m := fold_left (fun m k => match m with Some m => set 0%Z m k (k + 1)%Z | None => None end) ks (Some (newIntMap 0%Z 0)) in
  match m with
  | Some m => size m = 32 /\ len m = 20 /\ map (fun k => find 0%Z m k) ks = map (fun k => Some (k + 1)%Z) ks
  | None => False
  end.
Proof. vm_compute. repeat split; reflexivity. Qed.
