(* C10 -- script maps behave like Go maps under any history of operations.
   Model/OMap.v transcribes stringMap/numericMap of value.go (tie: correspondence
   through the host-side Value API on every run).  K = key type with a sound and
   complete boolean equality (byte strings, or the numeric payload). *)
From Coq Require Import ZArith List Bool Permutation.
From GV Require Import Model.OMap Proofs.C10_omap.
Import ListNotations.

Section C10.
  Context {K V : Type} (keqb : K -> K -> bool) (keqb_spec : forall a b, keqb a b = true <-> a = b).
  Context (assignV : V -> Z -> V) (zeroV : Z -> V).

  (* lookups see the latest write; a missing key gives the zero value of the element type and ok = false;
     other keys are untouched; len counts live keys; values are converted to the element type.
     Conjuncts 1-5 hold for EVERY map record (no invariant needed: get / set / delete work on the data list
     only); conjunct 6 (len after delete) needs Inv, namely that the data list has no duplicate key. *)
  Theorem c10_refine :
    (forall m k v, get keqb zeroV (set keqb assignV m k v) k = (assignV v (vtype m), true)) /\
    (forall m k k' v, k' <> k -> get keqb zeroV (set keqb assignV m k v) k' = get keqb zeroV m k') /\
    (forall (m : @omap K V) k order, get keqb zeroV (delete keqb m k order) k = (zeroV (vtype m), false)) /\
    (forall (m : @omap K V) k k' order, k' <> k -> get keqb zeroV (delete keqb m k order) k' = get keqb zeroV m k') /\
    (forall m k v, len (set keqb assignV m k v) = if mem keqb k (data m) then len m else S (len m)) /\
    (forall (m : @omap K V) k order, Inv keqb m -> len (delete keqb m k order) = if mem keqb k (data m) then len m - 1 else len m).
  Proof.
    exact (conj (get_set_same keqb keqb_spec assignV zeroV) (conj (get_set_other keqb keqb_spec assignV zeroV)
          (conj (get_delete_same keqb zeroV) (conj (get_delete_other keqb keqb_spec zeroV)
          (conj (len_set keqb assignV) (len_delete keqb keqb_spec)))))).
  Qed.

  (* the representation invariant -- every live key is listed exactly once -- holds for literals and is
     preserved by every operation, whatever order maps.Keys returns at a compaction *)
  Theorem c10_inv :
    (forall vt ps, NoDup (map fst ps) -> Inv keqb (new_map keqb assignV vt ps)) /\
    (forall os m, Inv keqb m -> ops_ok keqb assignV m os -> Inv keqb (apply_all keqb assignV m os)).
  Proof. exact (conj (inv_new keqb keqb_spec assignV) (inv_apply_all keqb keqb_spec assignV)). Qed.

  (* Go's range contract, for ANY loop body performing any map operations between visits (no premise on the
     body), over the snapshot keys m taken when the loop starts, with fuel S (length (keys m)) (always
     enough: each visit shortens the snapshot):
       1. each key is visited at most once;
       2. a key live in EVERY state of the loop is visited;
       3. a visited key is live in SOME state of the loop -- this conjunct alone is weak (it does not say
          WHICH state); the sharp form "the i-th visited key is live in the i-th state, i.e. at the moment
          it is visited" is c10_range_live below;
       4. nothing outside the start snapshot is visited (keys inserted during the loop are never visited:
          Go allows either). *)
  Theorem c10_range : forall m body, Inv keqb m ->
    let fuel := S (length (keys m)) in
    let vs := fst (range_loop keqb assignV fuel m (keys m) body) in
    NoDup vs /\
    (forall k, (forall s, In s (states keqb assignV fuel m (keys m) body) -> live keqb s k) -> In k vs) /\
    (forall k, In k vs -> exists s, In s (states keqb assignV fuel m (keys m) body) /\ live keqb s k) /\
    (forall k, In k vs -> In k (keys m)).
  Proof. exact (range_contract keqb assignV). Qed.

  (* never a deleted key: the i-th visited key is live in the i-th state of the loop (the state in which it
     is visited), for any fuel, snapshot r and body *)
  Theorem c10_range_live : forall fuel m r body vs mf,
    range_loop keqb assignV fuel m r body = (vs, mf) ->
    Forall2 (fun k s => live keqb s k) vs (firstn (length vs) (states keqb assignV fuel m r body)).
  Proof. exact (range_visits_live keqb assignV). Qed.
End C10.
Print Assumptions c10_refine.
Print Assumptions c10_inv.
Print Assumptions c10_range.
Print Assumptions c10_range_live.

(* non-vacuity, and the history that used to fail (delete then re-insert before compaction):
   the key is visited once *)
Example c10_witness :
  let m0 := new_map Z.eqb (fun v _ => v) 0%Z [(1%Z, 10%Z); (2%Z, 20%Z); (3%Z, 30%Z)] in
  let m1 := set Z.eqb (fun v _ => v) (delete Z.eqb m0 1%Z []) 1%Z 50%Z in
  fst (range Z.eqb (fun v _ => v) m1 (fun _ => [])) = [1%Z; 2%Z; 3%Z] /\ len m1 = 3.
Proof. vm_compute. split; reflexivity. Qed.

(* ---- the instructions that reach the map: GET, SET and the peephole-fused FASTGET / FASTSET / FASTGETINT /
   FASTSETINT.  The dispatch cases of do.go are translated by tools/go2v on every run (Gen/Steps_gen.v
   step_gen_obj; Value.Get / Value.Set themselves are obj_get / obj_set of Model/VM.v, whose map part is the
   oracle ext_get / ext_set that Model/OMap.v instantiates and the correspondence ties to value.go):
   every one of the six cases does exactly one Get (one Set) on the operand the plain form would use and pushes
   its result (a fast path added around the call -- the C10-5 seeded change -- is a translation failure, i.e.
   a broken obligation), and all six cases are in the translated set. *)
From Coq Require Import String.
From GV Require GoSpec.GoPrim Model.VM Gen.Tables_gen Gen.Steps_gen Proofs.Steps_agree.
Theorem c10_get_set_from_source : forall grow ext_get ext_set ext_len ext_getattr ext_setattr codes pc i slots ops s r,
  Steps_gen.step_gen_obj ext_get ext_set i slots ops s = Some r ->
  Steps_agree.sres_same r (VM.step1 grow ext_get ext_set ext_len ext_getattr ext_setattr codes pc i slots ops s).
Proof. exact Steps_agree.steps_agree_obj. Qed.
Print Assumptions c10_get_set_from_source.
Theorem c10_get_set_cover : forall name,
  In name ["codeGet"; "codeSet"; "codeFastGet"; "codeFastSet"; "codeFastGetInt"; "codeFastSetInt"]%string ->
  In name Steps_gen.step_gen_obj_opcodes /\
  forall ext_get ext_set i slots ops s, VM.icode i = VM.C name -> Steps_gen.step_gen_obj ext_get ext_set i slots ops s <> None.
Proof. exact Steps_agree.steps_cover_obj. Qed.
Print Assumptions c10_get_set_cover.
