(* C15 -- packages initialise once each, dependencies first, for any import graph.
   Model/Loader.v transcribes the two loops of loadImports (discovery worklist, ordering
   loop) over an abstract file system `imports`; tie: correspondence with Load on
   in-memory file trees (exact order of the packages' top-level code) on every run. *)
From Coq Require Import List String Bool PeanoNat.
From GV Require Import Model.Loader Proofs.C15_loader.
Import ListNotations.
Open Scope string_scope.

Section C15.
  Variable imports : string -> option (list string).
  (* the reachable part of the import graph is finite *)
  Variable universe : list string.
  Hypothesis universe_ok : forall top p, reach imports top p -> In p universe.

  (* the discovery worklist terminates within its budget (the Go loop terminates) *)
  Theorem c15_terminates : forall top b, budget imports universe <= b -> load imports b top <> LoadFuel.
  Proof. exact (c15_no_fuel imports universe universe_ok). Qed.

  (* whatever order is produced lists exactly the packages reachable from the top package, each once,
     every package after all the packages it imports *)
  Theorem c15_order : forall top b l, budget imports universe <= b ->
    load imports b top = LoadOk l -> valid_order imports top l.
  Proof. exact (C15_loader.c15_order imports universe universe_ok). Qed.

  (* an import cycle among the reachable packages is an error -- never a wrong order *)
  Theorem c15_cycle : forall top b, budget imports universe <= b -> cyclic imports top -> load imports b top = LoadCycle.
  Proof. exact (C15_loader.c15_cycle imports universe universe_ok). Qed.

  (* and every acyclic graph loads *)
  Theorem c15_acyclic : forall top b, budget imports universe <= b -> ~ cyclic imports top ->
    exists l, load imports b top = LoadOk l.
  Proof. exact (C15_loader.c15_acyclic imports universe universe_ok). Qed.
End C15.
Print Assumptions c15_terminates.
Print Assumptions c15_order.
Print Assumptions c15_cycle.
Print Assumptions c15_acyclic.

(* non-vacuity: a diamond with a duplicate import and a native package; a two-cycle below main *)
Example c15_witness :
  let g1 := fun p => if String.eqb p "main" then Some ["b"; "a"; "b"; "fmt"] else if String.eqb p "b" then Some ["a"; "c"]
            else if String.eqb p "a" then Some ["c"] else if String.eqb p "c" then Some [] else None in
  let g2 := fun p => if String.eqb p "main" then Some ["a"] else if String.eqb p "a" then Some ["b"]
            else if String.eqb p "b" then Some ["a"] else None in
  load g1 20 "main" = LoadOk ["c"; "a"; "b"; "fmt"; "main"] /\ load g2 20 "main" = LoadCycle.
Proof. vm_compute. split; reflexivity. Qed.
