(* C15 -- packages initialise once each, dependencies first, for any import graph.
   Model/Loader.v transcribes the two loops of loadImports (discovery worklist, ordering
   loop) over an abstract file system `imports`; tie: correspondence with Load on
   in-memory file trees (exact order of the packages' top-level code) on every run. *)
From Coq Require Import List String Bool PeanoNat.
From GV Require Import Model.Loader Proofs.C15_loader.
Import ListNotations.
Open Scope string_scope.

Section C15.
  Variable imports : string -> option (list string).
  (* the part of the import graph reachable from the top package is finite: `universe` lists it
     (a premise about THIS top: `reach imports top top` holds for every top, so no finite list can
     cover all tops at once -- an earlier version of this file quantified the premise over all tops,
     which no universe satisfies; found by the C03 sub-agent, see DESIGN.md) *)
  Variable universe : list string.
  Variable top : string.
  Hypothesis universe_ok : forall p, reach imports top p -> In p universe.

  (* the discovery worklist terminates within its budget (the Go loop terminates) *)
  Theorem c15_terminates : forall b, budget imports universe <= b -> load imports b top <> LoadFuel.
  Proof. intros b. exact (c15_no_fuel imports universe top b universe_ok). Qed.

  (* whatever order is produced lists exactly the packages reachable from the top package, each once,
     every package after all the packages it imports *)
  Theorem c15_order : forall b l, budget imports universe <= b ->
    load imports b top = LoadOk l -> valid_order imports top l.
  Proof. intros b l. exact (C15_loader.c15_order imports universe top b l universe_ok). Qed.

  (* an import cycle among the reachable packages is an error -- never a wrong order *)
  Theorem c15_cycle : forall b, budget imports universe <= b -> cyclic imports top -> load imports b top = LoadCycle.
  Proof. intros b. exact (C15_loader.c15_cycle imports universe top b universe_ok). Qed.

  (* and every acyclic graph loads *)
  Theorem c15_acyclic : forall b, budget imports universe <= b -> ~ cyclic imports top ->
    exists l, load imports b top = LoadOk l.
  Proof. intros b. exact (C15_loader.c15_acyclic imports universe top b universe_ok). Qed.

  (* the code that then runs (Model/Loader.v run_events: the packages' code concatenated in list order, nf p
     files of top-level code and the init calls per package): no piece of code of an imported package q runs
     after any piece of code of its importer p, and each reachable package's code runs exactly once *)
  Theorem c15_events : forall b l nf, budget imports universe <= b -> load imports b top = LoadOk l ->
    forall p q, In p l -> edge imports p q ->
    forall pre post, run_events nf l = (pre ++ p :: post)%list -> ~ In q post.
  Proof.
    intros b l nf Hb Hl. exact (C15_loader.c15_events imports top l nf (C15_loader.c15_order imports universe top b l universe_ok Hb Hl)).
  Qed.
  Theorem c15_events_once : forall b l nf, budget imports universe <= b -> load imports b top = LoadOk l ->
    forall p, reach imports top p -> count_occ string_dec (run_events nf l) p = S (nf p).
  Proof.
    intros b l nf Hb Hl p Hr.
    pose proof (C15_loader.c15_order imports universe top b l universe_ok Hb Hl) as HV.
    apply (C15_loader.c15_events_once imports top l nf HV). destruct HV as (_ & Hiff & _). apply Hiff; exact Hr.
  Qed.
End C15.
Print Assumptions c15_events.
Print Assumptions c15_events_once.
Print Assumptions c15_terminates.
Print Assumptions c15_order.
Print Assumptions c15_cycle.
Print Assumptions c15_acyclic.

(* the premise is satisfiable: every graph given by a finite association list has such a universe for
   every top (the top itself plus every package mentioned anywhere in the list) *)
Definition graph_of (g : list (string * list string)) (p : string) : option (list string) :=
  (fix find (l : list (string * list string)) := match l with [] => None | (k, v) :: r => if String.eqb k p then Some v else find r end) g.
Definition mentioned (g : list (string * list string)) : list string :=
  List.concat (map (fun kv => fst kv :: snd kv) g).
Theorem c15_premise_satisfiable : forall g top p, reach (graph_of g) top p -> In p (top :: mentioned g).
Proof.
  intros g top p H. induction H as [|a b Hr IH He].
  - left; reflexivity.
  - right. destruct He as (imps & Hi & Hb). unfold mentioned.
    clear IH Hr. revert Hi. unfold graph_of. induction g as [|[k v] r IHg]; [discriminate|].
    destruct (String.eqb k a) eqn:E; intros Hi.
    + inversion Hi; subst. cbn [map List.concat fst snd]. right. apply in_or_app. left. exact Hb.
    + cbn [map List.concat fst snd]. right. apply in_or_app. right. apply IHg. exact Hi.
Qed.
Print Assumptions c15_premise_satisfiable.

(* non-vacuity: a diamond with a duplicate import and a native package; a two-cycle below main *)
Example c15_witness :
  let g1 := fun p => if String.eqb p "main" then Some ["b"; "a"; "b"; "fmt"] else if String.eqb p "b" then Some ["a"; "c"]
            else if String.eqb p "a" then Some ["c"] else if String.eqb p "c" then Some [] else None in
  let g2 := fun p => if String.eqb p "main" then Some ["a"] else if String.eqb p "a" then Some ["b"]
            else if String.eqb p "b" then Some ["a"] else None in
  load g1 20 "main" = LoadOk ["c"; "a"; "b"; "fmt"; "main"] /\ load g2 20 "main" = LoadCycle /\
  run_events (fun p => if String.eqb p "a" then 2 else 1) ["c"; "a"; "main"] = ["c"; "c"; "a"; "a"; "a"; "main"; "main"].
Proof. vm_compute. repeat split; reflexivity. Qed.
