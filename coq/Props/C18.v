(* C18 -- incremental evaluation equals whole-program evaluation.
   Feeding a program to one VM a top-level statement (or chunk of statements) at a time through
   successive Eval calls against evaluating the whole program in a single call.

   Model/Incr.v: top-level statements as interaction trees over the compiler's interface to the
   shared Globals lookup / values, the Imports map and the top-level slots; Eval = compile + run
   (Model/VM.v [exec]).  Ties to the code: c18-corr (compiled code of the single call = chunk codes
   assembled, chunk codes satisfy closedb / slots_okb) and the metamorphic check c18-script. *)
From Coq Require Import ZArith List String Ascii Bool.
From GV Require Import GoSpec.GoPrim Gen.ValueOps_gen Model.Lookup Model.VM Model.Incr
                       Proofs.C18_step Proofs.C18_seq Proofs.C18_slots Proofs.C18_run Proofs.C18_compile Proofs.C18_witness.
Import ListNotations.
Open Scope Z_scope.

(* ---- compile time ---- *)

(* one compile of p1 ++ p2 = the compile of p1 followed by the compile of p2 from the state it left:
   same Globals interning (keys get the same indices: they are interned in the same order), same
   compile-time writes, same imports, and the code of p1 followed by the code of p2 (the latter with
   its top-level slots numbered after those of p1) *)
Theorem c18_compile : forall p1 p2 b g,
  compile_top (p1 ++ p2) b g =
  match compile_top p1 b g with
  | (None, g1) => (None, g1)
  | (Some (c1, b1), g1) =>
      match compile_top p2 b1 g1 with
      | (None, g2) => (None, g2)
      | (Some (c2, b2), g2) => (Some ((c1 ++ c2)%list, b2), g2)
      end
  end.
Proof. exact compile_top_app. Qed.

(* every cutting cs of the program List.concat cs: compiling the chunks one Eval after the other
   (fresh Locals each time: slot base 0) leaves Globals / Imports exactly as the single compile does,
   and the single compile's code is the chunks' codes assembled: chunk k's code with its top-level
   slots renumbered by the slots of the chunks before it ([shift_code]); a compile error in a chunk
   is a compile error of the whole, with the same state left behind *)
Theorem c18_compile_chunks : forall cs, Forall (Forall wf_stmt) cs -> forall b g,
  compile_top (List.concat cs) b g =
  match compile_chunks cs g with
  | (None, g') => (None, g')
  | (Some chs, g') => (Some (assemble b chs, b + total_slots chs), g')
  end.
Proof. exact compile_chunks_concat. Qed.

(* the compile-time reads: the compiler sees the global values only through view_type / view_int at
   the indices it reads; if two states (before / after the run of an earlier chunk) agree there, the
   later chunks compile to the same code, intern the same keys and leave states that still agree *)
Theorem c18_compiletime_reads : forall S cs g g', csim S g g' -> Forall S (chunks_reads cs g) ->
  fst (compile_chunks cs g') = fst (compile_chunks cs g) /\
  csim S (snd (compile_chunks cs g)) (snd (compile_chunks cs g')).
Proof. exact compile_chunks_agree. Qed.

Section C18.
  (* Go's append growth policy and the objects outside the modelled fragment: arbitrary *)
  Variable grow : Z -> Z -> Z.
  Variable ext_get : st -> value -> value -> option (res value).
  Variable ext_set : st -> value -> value -> value -> option (res st).
  Variable ext_len : st -> value -> option Z.
  Variable ext_getattr : st -> value -> Z -> option (res (value * st)).
  Variable ext_setattr : st -> value -> Z -> value -> option (res st).
  Notation exec := (VM.exec grow ext_get ext_set ext_len ext_getattr ext_setattr).
  Notation run := (VM.run grow ext_get ext_set ext_len ext_getattr ext_setattr).
  Notation run_seq := (Incr.run_seq grow ext_get ext_set ext_len ext_getattr ext_setattr).
  Notation incr_hyps := (Incr.incr_hyps grow ext_get ext_set ext_len ext_getattr ext_setattr).
  Notation eval1 := (Incr.eval1 grow ext_get ext_set ext_len ext_getattr ext_setattr true).
  Notation eval_seq := (Incr.eval_seq grow ext_get ext_set ext_len ext_getattr ext_setattr true).

  (* ---- run time ---- *)

  (* more fuel never changes an answer *)
  Theorem c18_exec_fuel : forall f f' codes pc sl ops s r,
    exec f codes pc sl ops s = r -> r <> RFuel -> (f <= f')%nat -> exec f' codes pc sl ops s = r.
  Proof. exact (exec_mono grow ext_get ext_set ext_len ext_getattr ext_setattr). Qed.

  (* sequential composition: for CLOSED blocks c1, c2 (closedb: every jump of a top-level instruction
     lands on a top-level instruction of the block or exactly at its end, no top-level RETURN, function
     bodies complete) running c1 ++ c2 is running c1, then c2 from the slots / operands / state c1 left;
     a failure of c1 is the failure of c1 ++ c2 *)
  Theorem c18_exec_seq : forall c1 c2, closedb c1 = true -> closedb c2 = true ->
    forall f1 sl ops s,
    match exec f1 c1 0 sl ops s with
    | RFuel => True
    | RDone sl1 ops1 s1 =>
        forall f2 r, exec f2 c2 0 sl1 ops1 s1 = r -> r <> RFuel ->
        exists f', exec f' (c1 ++ c2) 0 sl ops s = r
    | r => exec f1 (c1 ++ c2) 0 sl ops s = r
    end.
  Proof. exact (exec_seq grow ext_get ext_set ext_len ext_getattr ext_setattr). Qed.

  (* renumbering the top-level slots keeps a block closed *)
  Theorem c18_closed_shift : forall b c, closedb (shift_code b O c) = closedb c.
  Proof. exact closedb_shift. Qed.

  (* the top-level slots: a closed block whose slot operands lie in [0, n) (slots_okb), run on its own n
     slots, against the renumbered block run on a shared slot array pre ++ sl ++ post (fewer than
     slot_limit = 2^15 slots: joinParams packs slot numbers into 16 bits): same answer, the block's slots
     end up the same, the other slots are untouched *)
  Theorem c18_exec_shift : forall c n, closedb c = true -> slots_okb c n = true ->
    forall pre post, zlen pre + n < slot_limit ->
    forall f pc sl ops s, top_or_end c pc = true -> zlen sl = n ->
      exec f (shift_code (zlen pre) O c) pc (pre ++ sl ++ post)%list ops s =
        map_slots (fun x => (pre ++ x ++ post)%list) (exec f c pc sl ops s) /\
      (forall sl' ops' s', exec f c pc sl ops s = RDone sl' ops' s' -> zlen sl' = n).
  Proof. exact (exec_shift grow ext_get ext_set ext_len ext_getattr ext_setattr). Qed.

  (* the runs of the chunks one after the other -- each on fresh nil slots and an empty operand stack,
     as successive Evals do, stopping at the first chunk that fails -- against ONE run of the assembled
     code on one slot array: same operands left, same globals / heap / output; or the same failure.
     chunk_okb = closedb && slots_okb: decidable, checked on real chunk code by c18-corr *)
  Theorem c18_run : forall cs fuel s r,
    Forall (fun ch => chunk_okb ch = true) cs -> total_slots cs < slot_limit ->
    run_seq fuel cs s = r -> observable r ->
    exists fuel', same_outcome r (run fuel' (assemble 0 cs) (total_slots cs) s).
  Proof. exact (run_chunks grow ext_get ext_set ext_len ext_getattr ext_setattr). Qed.

  (* ---- Eval ---- *)

  (* for every cutting cs of the program List.concat cs on which every chunk evaluates (incr_hyps: the
     named hypotheses chunk_okb, no_leftover, globals_len, reads_stable, writes_invisible along the
     session): the single Eval succeeds, ends in the same machine state as the session of successive
     Evals (same interning table, imports, globals, heap, output) and returns what the last chunk's
     Eval returns *)
  Theorem c18_eval : forall cs fuel m,
    Forall (Forall wf_stmt) cs -> cs <> [] -> incr_hyps fuel m cs ->
    (forall chs g, compile_chunks cs (cstate_of m) = (Some chs, g) -> total_slots chs < slot_limit) ->
    exists fuel' rets,
      eval1 fuel' m (List.concat cs) = (EOk rets, snd (eval_seq fuel m cs)) /\
      last (fst (eval_seq fuel m cs)) ECompileErr = EOk rets /\
      Forall is_ok (fst (eval_seq fuel m cs)).
  Proof. exact (eval_incremental_whole grow ext_get ext_set ext_len ext_getattr ext_setattr). Qed.

  (* when a chunk fails while running (after the chunks before it ran): the single call fails with the
     same error in the same state, and does NOT run the remaining chunks -- the session of successive
     Evals does (eval_seq goes on: see c18_session_goes_on) *)
  Theorem c18_eval_fail : forall cs fuel m chs gN msg pos s',
    Forall (Forall wf_stmt) cs -> compile_chunks cs (cstate_of m) = (Some chs, gN) ->
    Forall (fun ch => chunk_okb ch = true) chs -> total_slots chs < slot_limit ->
    run_seq fuel chs (set_globals (m_vm m) (c_vals gN)) = RFail msg pos s' ->
    exists fuel', eval1 fuel' m (List.concat cs) = (ERunErr msg pos, mkM (c_lk gN) (c_imps gN) s').
  Proof. exact (eval_whole_stops grow ext_get ext_set ext_len ext_getattr ext_setattr). Qed.

  (* when a chunk does not compile, the single call runs NOTHING (the chunks before it included);
     what the compiler interned / wrote before the error stays *)
  Theorem c18_eval_compile_error : forall cs fuel m g',
    Forall (Forall wf_stmt) cs -> compile_chunks cs (cstate_of m) = (None, g') ->
    eval1 fuel m (List.concat cs) = (ECompileErr, mkM (c_lk g') (c_imps g') (set_globals (m_vm m) (c_vals g'))).
  Proof. exact (eval_whole_compile_error grow ext_get ext_set ext_len ext_getattr ext_setattr). Qed.
End C18.
Print Assumptions c18_compile.
Print Assumptions c18_compile_chunks.
Print Assumptions c18_compiletime_reads.
Print Assumptions c18_exec_fuel.
Print Assumptions c18_exec_seq.
Print Assumptions c18_closed_shift.
Print Assumptions c18_exec_shift.
Print Assumptions c18_run.
Print Assumptions c18_eval.
Print Assumptions c18_eval_fail.
Print Assumptions c18_eval_compile_error.

(* ---- witnesses (vm_compute) ---- *)
Open Scope string_scope.
(* non-vacuity: type T int32; x := 7; y := T(2): the modes agree (the conversion is chosen from a
   value written at COMPILE time of the earlier statement) *)
Example c18_witness_agree :
  let p := [s_type_basic "T" 23; s_define_int "x" 7; s_define_call "y" "T" 2] in
  w_whole p = ([EOk []], [vType 23; vInt32 7; vInt32 2], ["main.T"; "main.x"; "main.y"]) /\
  w_incr [[s_type_basic "T" 23]; [s_define_int "x" 7]; [s_define_call "y" "T" 2]] =
    ([EOk []; EOk []; EOk []], [vType 23; vInt32 7; vInt32 2], ["main.T"; "main.x"; "main.y"]).
Proof. vm_compute. split; reflexivity. Qed.

(* FINDING (reads_stable is necessary): a name bound to a type value by RUN-time code.
   type T int32; U := T; y := U(3) -- the single call compiles U(3) as a call (U is nil at compile
   time) and fails at run time; cut before the last statement, U already holds the type value when
   U(3) is compiled: a conversion, y = 3 *)
Example c18_reads_diverge :
  let t1 := s_type_basic "T" 23 in let t2 := s_define_name "U" "T" in let t3 := s_define_call "y" "U" 3 in
  fst (fst (w_whole [t1; t2; t3])) = [ERunErr "interface conversion" 0] /\
  w_incr [[t1; t2]; [t3]] = ([EOk []; EOk []], [vType 23; vType 23; vInt32 3], ["main.T"; "main.U"; "main.y"]).
Proof. vm_compute. split; reflexivity. Qed.

(* FINDING (writes_invisible is necessary): a type declared by a LATER statement is written at compile
   time, i.e. before an earlier statement of the same call runs.   x := T; type T int32 *)
Example c18_writes_diverge :
  let u1 := s_define_name "x" "T" in let t1 := s_type_basic "T" 23 in
  w_whole [u1; t1] = ([EOk []], [vType 23; vType 23], ["main.T"; "main.x"]) /\
  w_incr [[u1]; [t1]] = ([EOk []; EOk []], [vType 23; mkValue 0 (Zn 0) PNone], ["main.T"; "main.x"]).
Proof. vm_compute. split; reflexivity. Qed.

(* the session goes on after a failing chunk, the single call does not:  y := nofn(1); x := 5 *)
Example c18_session_goes_on :
  let a := s_define_call "y" "nofn" 1 in let b := s_define_int "x" 5 in
  w_whole [a; b] = ([ERunErr "interface conversion" 0], [mkValue 0 (Zn 0) PNone; mkValue 0 (Zn 0) PNone; mkValue 0 (Zn 0) PNone],
                    ["main.nofn"; "main.y"; "main.x"]) /\
  w_incr [[a]; [b]] = ([ERunErr "interface conversion" 0; EOk []],
                       [mkValue 0 (Zn 0) PNone; mkValue 0 (Zn 0) PNone; vInt32 5], ["main.nofn"; "main.y"; "main.x"]).
Proof. vm_compute. split; reflexivity. Qed.

(* the Imports map must be the host's shared map (cli.go): with a fresh map per call an import does
   not survive its Eval, and `strings.X` in the next chunk is an attribute of an unknown global *)
Example c18_imports_shared :
  let a := s_import "strings" in let b := s_define_member "x" "strings" "Repeat" in
  let m := mkM (fst (index new_lookup "strings.Repeat")) [] (mkSt [vInt32 9] [] [] []) in
  fst (Incr.eval_seq w_grow w_get w_set w_len w_ga w_sa true 100 m [[a]; [b]]) = [EOk []; EOk []] /\
  fst (w_eval1 true 100 m [a; b]) = EOk [] /\
  exists r, fst (Incr.eval_seq w_grow w_get w_set w_len w_ga w_sa false 100 m [[a]; [b]]) = [EOk []; EAbort r].
Proof. vm_compute. repeat split; eexists; reflexivity. Qed.


(* non-vacuity of c18_eval: its hypotheses hold along the session of the first witness, one statement per Eval *)
Example c18_hyps_witness :
  Incr.incr_hyps w_grow w_get w_set w_len w_ga w_sa 50 w_m0
    [[s_type_basic "T" 23]; [s_define_int "x" 7]; [s_define_call "y" "T" 2]] /\
  (forall chs g, compile_chunks [[s_type_basic "T" 23]; [s_define_int "x" 7]; [s_define_call "y" "T" 2]] (cstate_of w_m0) = (Some chs, g) ->
                 total_slots chs < slot_limit).
Proof. exact hyps_witness. Qed.
