(* C09 -- calls deliver arguments and results in order and with their declared types.
   Statements only; proofs are in Proofs/C09_call.v, C09_frame.v, C09_method.v.
   They are about [call_fn] / [exec] of Model/VM.v, the transcription of vm.go (call,
   callReady, mkFunc) and do.go (exec), for EVERY oracle of the unmodelled objects, fuel,
   heap, argument list and stack contents below the arguments.  Operand stacks have their
   top at the head: a caller that pushed [args] (first argument first) above [lo] holds
   [rev args ++ lo].  Vocabulary (Proofs/C09_call.v):
     assign_zip vs ts      = v_i.assign(t_i) position by position;
     entry_slots a t n k   = assign_zip a t ++ (n - k) nil cells  (the callee's slots on entry);
     typed_results         = the top nrets values the body left, assigned the result types;
     finish ... lo r       = what callReady/mkFunc make of the body's outcome r:
                             fewer values than declared -> stuck (hazard of property C03),
                             fewer than xRets -> "incorrect returns",
                             else the first xRets typed results on top of lo;
     wf_func k r types     = 0 <= k, 0 <= r, one type per parameter and per result. *)
From Coq Require Import ZArith String List Bool Floats.
From GV Require Import GoSpec.GoPrim Gen.ValueOps_gen Gen.Tables_gen Model.VM
  Model.CorrVM Proofs.C04_ops Proofs.C09_call Proofs.C09_frame.
From GV Require Model.Call Proofs.C19_adapter Proofs.C09_method.
Import ListNotations.
Open Scope Z_scope.

(* 1. A call with the declared number of arguments -- CALL / FASTCALL of a non-variadic function,
   or CALLVARIADIC (= callReady) of any function -- runs the body on slots = the arguments
   assigned to the parameter types in order, then nil cells, and an EMPTY operand stack (the
   callee cannot see [lo]); its outcome is [finish]: results typed, first xRets of them on top
   of the untouched [lo].  Any other argument count: "incorrect args", body not run.  Fewer
   results than requested: "incorrect returns".  A success is never misaligned: exactly xRets
   values above [lo].  A body that leaves exactly the declared results has every one typed. *)
Theorem c09_call :
  forall grow ext_get ext_set ext_len ext_getattr ext_setattr
         fuel pack fa xRets pos args lo s nargs nrets variadic vtype nslots types body,
  hget s fa = Some (HFunc nargs nrets variadic vtype nslots types body) ->
  variadic && pack = false ->
  zlen args = nargs ->
  call_fn grow ext_get ext_set ext_len ext_getattr ext_setattr (S fuel) pack fa nargs xRets pos (rev args ++ lo)%list s =
    finish nargs nrets xRets pos types lo
      (exec grow ext_get ext_set ext_len ext_getattr ext_setattr fuel body 0
            (entry_slots args types nslots nargs) [] (push_bt s pos)) /\
  (forall xArgs ops, xArgs <> nargs ->
     call_fn grow ext_get ext_set ext_len ext_getattr ext_setattr (S fuel) pack fa xArgs xRets pos ops s =
       CErr (RFail "incorrect args" pos s)) /\
  (forall sl rops s2, nrets <= zlen rops -> zlen rops < xRets ->
     finish nargs nrets xRets pos types lo (RDone sl rops s2) = CErr (RFail "incorrect returns" pos (pop_bt s2))) /\
  (wf_func nargs nrets types -> 0 <= xRets -> forall ops' s',
     call_fn grow ext_get ext_set ext_len ext_getattr ext_setattr (S fuel) pack fa nargs xRets pos (rev args ++ lo)%list s = COk ops' s' ->
     exists res, ops' = (res ++ lo)%list /\ zlen res = xRets) /\
  (forall results, zlen results = nrets ->
     typed_results nargs nrets types results = assign_zip results (skipn (Z.to_nat nargs) types)).
Proof.
  exact (fun grow ext_get ext_set ext_len ext_getattr ext_setattr
             fuel pack fa xRets pos args lo s nargs nrets variadic vtype nslots types body H HV HA =>
    conj (call_exact grow ext_get ext_set ext_len ext_getattr ext_setattr fuel pack fa xRets pos args lo s nargs nrets variadic vtype nslots types body H HV HA)
   (conj (fun xArgs ops Hne => call_wrong_args grow ext_get ext_set ext_len ext_getattr ext_setattr fuel pack fa xArgs xRets pos ops s nargs nrets variadic vtype nslots types body H HV Hne)
   (conj (fun sl rops s2 => finish_few nargs nrets xRets pos types lo sl rops s2)
   (conj (fun W Hx ops' s' => call_aligned grow ext_get ext_set ext_len ext_getattr ext_setattr fuel pack fa xRets pos args lo s nargs nrets variadic vtype nslots types body ops' s' H HV HA W Hx)
         (typed_results_exact nargs nrets types))))).
Qed.

(* 2. Typing of the parameters: slot i holds argument i assigned to declared type i, the other slots are
   nil; and (C04) assign turns an untyped constant into the declared numeric type, nil into the
   declared nillable tag, and leaves every typed value as it is.  The same [Value_assign] types
   the results (typed_results / assign_zip above). *)
Theorem c09_param_types :
  (forall args types nslots nargs i a t,
     nth_error args i = Some a -> nth_error types i = Some t ->
     nth_error (entry_slots args types nslots nargs) i = Some (Value_assign a t)) /\
  (forall args types nslots nargs i,
     zlen args = nargs -> nargs <= zlen types -> nargs <= i < nslots ->
     nth_error (entry_slots args types nslots nargs) (Z.to_nat i) = Some nilV) /\
  (forall a t,
     (forall ty c, a = Untyped c -> t = tag_of ty -> typed ty = true -> in_range ty c = true ->
        Value_assign a t = V ty c) /\
     (forall c, a = Untyped c -> t = TypeFloat64 -> Value_assign a t = F (float_of_Z c)) /\
     (a = nilV -> nillableMin <= t -> Value_assign a t = mkValue t (Zn 0) PNone) /\
     (vt a <> untypedInt -> vt a <> TypeNil -> Value_assign a t = a)).
Proof. exact (conj entry_slot (conj entry_slot_local assign_cases)). Qed.

(* 3. Variadic functions.  CALL with at least one surplus argument: the surplus arguments become ONE new
   slice appended to the heap, element type the declared one, cells the surplus arguments assigned to it
   in order; the call then is the exact-count call with that slice as last argument.  CALL without surplus
   arguments: the last argument is the NIL slice of the declared variadic type (tag vtype, no object
   part: xs == nil holds in the callee) and the heap is untouched: the exact-count call runs on the very
   same state.  Fewer arguments than fixed parameters: an error.  CALLVARIADIC (pack = false): the spread
   slice value itself is the last parameter. *)
Theorem c09_variadic :
  forall grow ext_get ext_set ext_len ext_getattr ext_setattr
         fuel fa xRets pos s nargs nrets vtype nslots types body,
  hget s fa = Some (HFunc nargs nrets true vtype nslots types body) ->
  (forall fixed extra lo, zlen fixed = nargs - 1 -> 1 <= zlen extra ->
     let e := Type_value vtype in
     let cells := map (fun a => Value_assign a e) extra in
     let s1 := fst (new_slice s e cells) in
     let sv := snd (new_slice s e cells) in
     call_fn grow ext_get ext_set ext_len ext_getattr ext_setattr (S fuel) true fa (zlen fixed + zlen extra) xRets pos
             (rev extra ++ rev fixed ++ lo)%list s =
       call_fn grow ext_get ext_set ext_len ext_getattr ext_setattr (S fuel) false fa nargs xRets pos
             (rev (fixed ++ [sv]) ++ lo)%list s1 /\
     sv = refV (fn_sliceType e) (zlen (heap s) + 1) /\
     heap s1 = (heap s ++ [HArr cells; HSlice e (zlen (heap s)) 0 (zlen extra) (zlen extra)])%list) /\
  (forall fixed lo, zlen fixed = nargs - 1 ->
     call_fn grow ext_get ext_set ext_len ext_getattr ext_setattr (S fuel) true fa (zlen fixed) xRets pos
             (rev fixed ++ lo)%list s =
       call_fn grow ext_get ext_set ext_len ext_getattr ext_setattr (S fuel) false fa nargs xRets pos
             (rev (fixed ++ [mkValue vtype (Zn 0) PNone]) ++ lo)%list s) /\
  (forall xArgs ops, xArgs < nargs - 1 ->
     call_fn grow ext_get ext_set ext_len ext_getattr ext_setattr (S fuel) true fa xArgs xRets pos ops s =
       CErr (RFail "runtime error" pos s)) /\
  (forall fixed sv lo, zlen fixed = nargs - 1 -> zlen types >= nargs ->
     vt sv <> untypedInt -> vt sv <> TypeNil ->
     call_fn grow ext_get ext_set ext_len ext_getattr ext_setattr (S fuel) false fa nargs xRets pos
             (rev (fixed ++ [sv]) ++ lo)%list s =
       finish nargs nrets xRets pos types lo
         (exec grow ext_get ext_set ext_len ext_getattr ext_setattr fuel body 0
               (entry_slots (fixed ++ [sv]) types nslots nargs) [] (push_bt s pos)) /\
     nth_error (entry_slots (fixed ++ [sv]) types nslots nargs) (Z.to_nat (nargs - 1)) = Some sv /\
     heap (push_bt s pos) = heap s).
Proof.
  exact (fun grow ext_get ext_set ext_len ext_getattr ext_setattr fuel fa xRets pos s nargs nrets vtype nslots types body H =>
    conj (fun fixed extra lo HF HE => call_variadic_pack grow ext_get ext_set ext_len ext_getattr ext_setattr fuel fa xRets pos fixed extra lo s nargs nrets vtype nslots types body H HF HE)
   (conj (fun fixed lo HF => call_variadic_none grow ext_get ext_set ext_len ext_getattr ext_setattr fuel fa xRets pos fixed lo s nargs nrets vtype nslots types body H HF)
   (conj (fun xArgs ops HX => call_variadic_few grow ext_get ext_set ext_len ext_getattr ext_setattr fuel fa xArgs xRets pos ops s nargs nrets vtype nslots types body H HX)
         (fun fixed sv lo HF HT H1 H2 => call_spread grow ext_get ext_set ext_len ext_getattr ext_setattr fuel fa xRets pos fixed sv lo s nargs nrets vtype nslots types body H HF HT H1 H2)))).
Qed.

(* 4. Every recursion depth.  Frame isolation for the mutual fixpoint exec / call_fn at EVERY fuel
   (fuel bounds instructions + calls, hence the nesting depth): running any code, or any call, with
   [lo] below its operands gives the same outcome with [lo] carried along untouched ([lift_r lo] /
   [lift_c lo] append lo to the operands of a success and leave errors alone) -- unless the run on the
   short stack is stuck (an operand access below its own operands).  And from the caller's
   side: a call of a script function with all its xArgs arguments present answers
   [COk (results ++ lo)] or an error that does not depend on [lo], with no exception. *)
Theorem c09_depth :
  forall grow ext_get ext_set ext_len ext_getattr ext_setattr fuel,
  (forall codes pc slots ops s lo,
     (forall w, exec grow ext_get ext_set ext_len ext_getattr ext_setattr fuel codes pc slots ops s <> RStuck w) ->
     exec grow ext_get ext_set ext_len ext_getattr ext_setattr fuel codes pc slots (ops ++ lo)%list s =
       lift_r lo (exec grow ext_get ext_set ext_len ext_getattr ext_setattr fuel codes pc slots ops s)) /\
  (forall pack fa xArgs xRets pos ops s lo,
     (forall w, call_fn grow ext_get ext_set ext_len ext_getattr ext_setattr fuel pack fa xArgs xRets pos ops s <> CErr (RStuck w)) ->
     call_fn grow ext_get ext_set ext_len ext_getattr ext_setattr fuel pack fa xArgs xRets pos (ops ++ lo)%list s =
       lift_c lo (call_fn grow ext_get ext_set ext_len ext_getattr ext_setattr fuel pack fa xArgs xRets pos ops s)) /\
  (forall pack fa xArgs xRets pos args lo s nargs nrets variadic vtype nslots types body,
     hget s fa = Some (HFunc nargs nrets variadic vtype nslots types body) ->
     (variadic = true -> 1 <= nargs) ->
     zlen args = xArgs ->
     call_fn grow ext_get ext_set ext_len ext_getattr ext_setattr fuel pack fa xArgs xRets pos (rev args ++ lo)%list s =
       lift_c lo (call_fn grow ext_get ext_set ext_len ext_getattr ext_setattr fuel pack fa xArgs xRets pos (rev args) s)).
Proof.
  exact (fun grow ext_get ext_set ext_len ext_getattr ext_setattr fuel =>
    conj (exec_frame_ns grow ext_get ext_set ext_len ext_getattr ext_setattr fuel)
   (conj (call_frame_ns grow ext_get ext_set ext_len ext_getattr ext_setattr fuel)
         (call_args_frame grow ext_get ext_set ext_len ext_getattr ext_setattr fuel))).
Qed.

(* the function objects FUNC builds (compiled code has 0 <= results, 0 <= body length) are well formed,
   and a variadic one has at least the slice parameter: the side conditions above hold for them *)
Theorem c09_func_wf :
  forall grow ext_get ext_set ext_len ext_getattr ext_setattr codes pc i slots ops s sl' ops' s' d,
  icode i = c_Func -> 0 <= snd (splitParams (iA i)) -> 0 <= iC i ->
  step1 grow ext_get ext_set ext_len ext_getattr ext_setattr codes pc i slots ops s = SJump d sl' ops' s' ->
  exists nargs nrets variadic vtype nslots types body,
    ops' = refV TypeFunc (zlen (heap s)) :: ops /\
    heap s' = (heap s ++ [HFunc nargs nrets variadic vtype nslots types body])%list /\
    wf_func nargs nrets types /\ (variadic = true -> 1 <= nargs).
Proof. exact func_wf. Qed.

(* 5. Bound methods (Model/Call.v: top of the stack at the END of the list; Model/VM.v has no struct
   objects).  The method value made when the attribute was read keeps [obj]; calling it -- at once or
   later, on any stack [lo ++ args] -- runs the body of the script function with [obj] as parameter 0
   and the arguments after it, each assigned its declared type, and delivers the typed results on [lo];
   a wrong argument count is "incorrect args".  (Variadic methods: theorem c19_method.) *)
Theorem c09_method :
  forall nargs rets atys rtys code, 1 <= nargs ->
  (forall a outs, code a = Call.Good outs -> Call.slen outs = rets) ->
  let f := C19_adapter.script_fn nargs rets atys rtys code in
  (forall obj lo args xRets, Call.slen args = nargs - 1 -> 0 <= xRets ->
     Call.call (lo ++ args)%list (Call.newMethod obj f) (Call.slen args) xRets =
       Call.cbind (code (Call.assign_zip atys (obj :: args)))
                  (fun outs => C19_adapter.deliver lo (Call.assign_zip rtys outs) xRets)) /\
  (forall obj lo args xRets, Call.slen args <> nargs - 1 ->
     Call.call (lo ++ args)%list (Call.newMethod obj f) (Call.slen args) xRets = Call.Fail Call.EIncorrectArgs).
Proof.
  exact (fun nargs rets atys rtys code Hn Hc =>
    conj (C09_method.method_script nargs rets atys rtys code Hn Hc)
         (C09_method.method_script_wrong nargs rets atys rtys code Hn)).
Qed.

Print Assumptions c09_call.
Print Assumptions c09_param_types.
Print Assumptions c09_variadic.
Print Assumptions c09_depth.
Print Assumptions c09_func_wf.
Print Assumptions c09_method.

(* non-vacuity.  (a) f(p0 float64, p1 uint8) (uint8, float64) { return p1, p0 } called with the untyped
   constants 3 and 7 above an unrelated operand: the results arrive as uint8 7 and float64 3.0 on top of
   it; one argument: "incorrect args"; three results requested: "incorrect returns".
   (b) g(base int, xs ...float64) int { return len(xs) } called with 1, 2, 3, 4: one new slice of three
   float64 cells; called with 1 alone: len 0 and the heap is unchanged (nothing allocated);
   h(xs ...float64) []float64 { return xs } called without arguments answers the nil []float64.
   (c) the code the compiler emits for
   func sum(n int) int { if n == 0 { return 0 }; return n + sum(n-1) };  fmt.Println(sum(3000))
   run by the model: 3000 nested frames, prints 4501500. *)
Example c09_witness :
  let grow := fun _ n : Z => n in
  let eg := fun (_ : st) (_ _ : value) => @None (res value) in
  let es := fun (_ : st) (_ _ _ : value) => @None (res st) in
  let el := fun (_ : st) (_ : value) => @None Z in
  let ega := fun (_ : st) (_ : value) (_ : Z) => @None (res (value * st)) in
  let esa := fun (_ : st) (_ : value) (_ : Z) (_ : value) => @None (res st) in
  let I c a := mkI c a 0 0 0 in
  let f := HFunc 2 2 false 0 3 [TypeFloat64; TypeUint8; TypeUint8; TypeFloat64]
             [I c_LocalGet 1; I c_LocalGet 0; I c_Return 0] in
  let gv := HFunc 2 1 true (fn_sliceType TypeFloat64) 2 [TypeInt32; fn_sliceType TypeFloat64; TypeInt32]
             [I c_LocalGet 1; I c_Len 0; I c_Return 0] in
  let hv := HFunc 1 1 true (fn_sliceType TypeFloat64) 1 [fn_sliceType TypeFloat64; fn_sliceType TypeFloat64]
             [I c_LocalGet 0; I c_Return 0] in
  let s := mkSt [] [f; gv; hv] [] [] in
  let lo := [fn_String [98]] in
  call_fn grow eg es el ega esa 10 true 0 2 2 77 (rev [Untyped 3; Untyped 7] ++ lo)%list s =
    COk ([F (float_of_Z 3); V U8 7] ++ lo)%list s /\
  call_fn grow eg es el ega esa 10 true 0 1 2 77 (rev [Untyped 3] ++ lo)%list s = CErr (RFail "incorrect args" 77 s) /\
  call_fn grow eg es el ega esa 10 true 0 2 3 77 (rev [Untyped 3; Untyped 7] ++ lo)%list s = CErr (RFail "incorrect returns" 77 s) /\
  call_fn grow eg es el ega esa 10 true 1 4 1 77 (rev [Untyped 1; Untyped 2; Untyped 3; Untyped 4] ++ lo)%list s =
    COk (fn_Int 3 :: lo)
        (mkSt [] [f; gv; hv; HArr [F (float_of_Z 2); F (float_of_Z 3); F (float_of_Z 4)]; HSlice TypeFloat64 3 0 3 3] [] []) /\
  call_fn grow eg es el ega esa 10 true 1 1 1 77 (rev [Untyped 1] ++ lo)%list s = COk (fn_Int 0 :: lo) s /\
  call_fn grow eg es el ega esa 10 true 2 0 1 77 lo s =
    COk (mkValue (fn_sliceType TypeFloat64) (Zn 0) PNone :: lo) s /\
  CorrVM.run_rcase (CorrVM.CRun
    [mkI c_Func (joinParams 1 1) 1 12 0; I c_Pass TypeInt32; I c_Pass TypeInt32;
     I c_LocalGet 0; I c_Push 0; I c_Eq 0; I c_JumpFalse 2; I c_Push 0; I c_Return 1;
     I c_LocalGet 0; I c_LocalGet 0; I c_IncDec (-1); mkI c_FastCall 0 1 1 0; I c_Add 0; I c_Return 1;
     I c_GlobalFunc 0;
     I c_Push 3000; mkI c_FastCall 0 1 1 0; mkI c_FastCall 2 1 0 0]
    0 3 [(2, CorrVM.GNative "fmt.Println")] [52;53;48;49;53;48;48;10] true 0) = 0.
Proof. vm_compute. repeat split; reflexivity. Qed.
