(* C13 -- strings are immutable UTF-8 byte sequences with Go's operations.
   A string is a byte list; Model/Str.v transcribes value.go (stringT, Value.convert),
   do.go (codeGet, codeLen, codeSlice, codeRange/codeIter, codeCopy) and token.go
   (Char, Unquote); comparison and concatenation are the generated Value_op* of
   Gen/ValueOps_gen.v; GoSpec/Utf8.v specifies Go's UTF-8 decoding and range statement.
   Ties: `harness c13-corr` (model vs implementation, spec vs the Go runtime) and
   `harness c13-script` (scripts vs the Go toolchain) on every run.
   [bytes s] = every element is in 0..255; [blen] = length as Z. *)
From Coq Require Import ZArith List Bool Sorted.
From GV Require Import GoSpec.GoPrim GoSpec.Utf8 Gen.ValueOps_gen Model.Str Proofs.C13_utf8 Proofs.C13_str.
Import ListNotations.
Open Scope Z_scope.

(* ---- the specification GoSpec/Utf8.v is coherent ------------------------------------------- *)

(* decoding inverts encoding for EVERY Unicode scalar value, whatever follows *)
Theorem c13_utf8_decode_encode : forall r rest, valid_rune r ->
  decode_rune (utf8_encode r ++ rest)%list = (r, length (utf8_encode r)).
Proof. exact decode_encode_app. Qed.

(* decoding accepts only shortest-form encodings of scalar values: any other input
   (overlong, surrogate, > U+10FFFF, stray continuation, truncated) gives exactly (U+FFFD, 1) *)
Theorem c13_utf8_decode_canonical : forall s r w, bytes s -> s <> [] -> decode_rune s = (r, w) ->
  (r = RuneError /\ w = 1%nat) \/ (valid_rune r /\ firstn w s = utf8_encode r).
Proof. exact decode_canonical. Qed.

(* range: offsets strictly increasing and inside the string; widths in 1..4 and summing to the
   length; and the full characterisation: the first offset is 0, each rune is the decoding of the
   suffix at its offset, the next offset is offset + width, the last one ends at len(s) -- and
   go_range is the only list with that property *)
Theorem c13_utf8_range : forall s,
  StronglySorted Z.lt (map fst (go_range s)) /\
  Forall (fun p => 0 <= fst p < Z.of_nat (length s)) (go_range s) /\
  sum_nat (go_widths s) = length s /\ Forall (fun w => 1 <= w <= 4)%nat (go_widths s) /\
  range_chain s 0 (go_range s) /\ (forall l, range_chain s 0 l -> l = go_range s).
Proof.
  exact (fun s => conj (go_range_offsets_sorted s) (conj (go_range_offsets_bounds s)
        (conj (proj1 (go_widths_sum s)) (conj (proj2 (go_widths_sum s))
        (conj (go_range_chain s) (fun l H => range_chain_unique s 0 l H _ (go_range_chain s))))))).
Qed.

(* a single encoded rune ranges to itself at offset 0; []rune(string(rs)) = rs *)
Theorem c13_utf8_range_encode :
  (forall r, valid_rune r -> go_range (utf8_encode r) = [(0, r)]) /\
  (forall r, ~ valid_rune r -> go_range (utf8_encode r) = [(0, RuneError)]) /\
  (forall rs, Forall valid_rune rs -> go_runes (encode_runes rs) = rs).
Proof.
  exact (conj go_range_encode (conj (fun r H => eq_trans (f_equal go_range (encode_invalid r H)) eq_refl) go_runes_encode)).
Qed.

(* ---- goatlang's string operations ------------------------------------------------------------- *)

(* s[k]: for any key value k (i = k.Int()): in range -> the i-th byte, tagged uint8 (3), through
   Value.Get and codeGet; out of range (negative included) -> run-time panic.  len(s) is the byte count. *)
Theorem c13_index : forall s k,
  (forall b, 0 <= Value_Int k -> nth_error s (Z.to_nat (Value_Int k)) = Some b ->
     Value_Get (fn_String s) k = Ok (mkValue 3 (Zn b) PNone, true) /\
     code_get (fn_String s) k = Ok (mkValue 3 (Zn b) PNone)) /\
  (0 <= Value_Int k < blen s -> exists b, nth_error s (Z.to_nat (Value_Int k)) = Some b) /\
  (~ (0 <= Value_Int k < blen s) ->
     Value_Get (fn_String s) k = Panic /\ code_get (fn_String s) k = Panic).
Proof. exact index_thm. Qed.

(* the index values hosts and scripts pass denote their integer *)
Theorem c13_index_keys : forall i, in_range I32 i = true ->
  Value_Int (fn_Int32 i) = i /\ Value_Int (fn_newUntypedInt i) = i /\ Value_Int (fn_Int i) = i.
Proof. exact index_keys. Qed.

Theorem c13_len : forall s, Value_Len (fn_String s) = Ok (blen s) /\
  (in_range I32 (blen s) = true -> code_len (fn_String s) = Ok (mkValue 23 (Zn (blen s)) PNone)).
Proof. exact len_thm. Qed.

(* s[i:j]: cutting s = a ++ m ++ c at i = len a, j = len a + len m gives exactly m (every in-range
   pair of bounds is of this form); any other bounds panic; an omitted upper bound (nil) means len(s).
   The result is a new value: the operand s is an argument of a pure function and cannot change
   (re-read after every operation by the correspondence and by the differential). *)
Theorem c13_slice :
  (forall a m c : list Z, Value_Slice (fn_String (a ++ m ++ c)) (blen a) (blen a + blen m) = Ok (fn_String m)) /\
  (forall (s : list Z) i j, 0 <= i <= j -> j <= blen s ->
     exists a m c, s = (a ++ m ++ c)%list /\ blen a = i /\ blen m = j - i) /\
  (forall s i j, ~ (0 <= i <= j /\ j <= blen s) -> Value_Slice (fn_String s) i j = Panic) /\
  (forall (a m c : list Z) ka kb, Value_Int ka = blen a -> Value_Int kb = blen a + blen m -> vt kb <> 0 ->
     code_slice (fn_String (a ++ m ++ c)) ka kb = Ok (fn_String m)) /\
  (forall (a m : list Z) ka, Value_Int ka = blen a -> code_slice (fn_String (a ++ m)) ka fn_Nil = Ok (fn_String m)) /\
  (forall s ka kb, vt kb <> 0 -> ~ (0 <= Value_Int ka <= Value_Int kb /\ Value_Int kb <= blen s) ->
     code_slice (fn_String s) ka kb = Panic) /\
  (forall s ka, ~ (0 <= Value_Int ka <= blen s) -> code_slice (fn_String s) ka fn_Nil = Panic).
Proof.
  exact (conj slice_thm (conj (@split3 Z) (conj slice_out_thm (conj code_slice_thm
        (conj code_slice_nil_thm (conj code_slice_out_thm code_slice_nil_out_thm)))))).
Qed.

(* strings are immutable: Set on a string object panics *)
Theorem c13_immutable : forall s k x, Value_Set (fn_String s) k x = Panic.
Proof. exact set_thm. Qed.

(* `for i, r := range s` (codeRange + codeIter driving stringT.Range's closure) visits exactly
   Go's (byte offset, rune) pairs, in order, then stops; both are tagged int32 (23) *)
Theorem c13_range : forall s,
  code_range_string s = map (fun p => (fn_Int (fst p), fn_Int32 (snd p))) (go_range s) /\
  snd (fst (iter_next (mkIter (map snd (go_range s)) (map fst (go_range s)) (length (go_range s))))) = false /\
  (forall p, in_range I32 (fst p) = true ->
     (fn_Int (fst p), fn_Int32 (snd p)) = (mkValue 23 (Zn (fst p)) PNone, mkValue 23 (Zn (snd p)) PNone)).
Proof. exact (fun s => conj (range_thm s) (conj (range_end_thm s) range_pair_val)). Qed.

(* conversions: []byte(s) has one uint8 element per byte; string([]byte(s)) = s; []byte(string(b)) = b;
   string(s) = s; string(r) of any numeric value (tags untyped 1, uint8 3, int8 19, uint32 7, int32 23)
   is the UTF-8 encoding of r, U+FFFD for non-scalar values; that string ranges back to r at offset 0 *)
Theorem c13_conv :
  (forall s, convert_to_slice (fn_String s) = Ok (fn_sliceType TypeUint8, map (fun b => mkValue 3 (Zn b) PNone) s)) /\
  (forall s, bytes s -> forall t l, convert_to_slice (fn_String s) = Ok (t, l) -> convert_data_to_string l = fn_String s) /\
  (forall b, bytes b -> convert_to_slice (convert_data_to_string (map fn_Byte b)) = Ok (fn_sliceType TypeUint8, map fn_Byte b)) /\
  (forall s, convert_to_string (fn_String s) = Ok (fn_String s)) /\
  (forall t r, Z.land t 3 <> 0 -> t <> 64 -> 0 <= t -> in_range I32 r = true ->
     convert_to_string (mkValue t (Zn r) PNone) = Ok (fn_String (utf8_encode r))) /\
  Forall (fun t => Z.land t 3 <> 0 /\ t <> 64 /\ 0 <= t) [1; 3; 19; 7; 23] /\
  (forall r, go_range (utf8_encode r) = [(0, if valid_runeb r then r else RuneError)]).
Proof.
  exact (conj to_bytes_thm (conj conv_roundtrip_string (conj conv_roundtrip_bytes (conj conv_string_id
        (conj conv_rune_thm (conj numeric_tags rune_string_range)))))).
Qed.

(* copy(dst, s) writes the first min(len dst, len s) bytes of s over dst and keeps dst's length *)
Theorem c13_copy : forall dst s,
  code_copy_string dst (fn_String s) =
    Ok (map (fun b => mkValue 3 (Zn b) PNone) (firstn (length dst) s) ++ skipn (length s) dst)%list /\
  length (go_copy dst (map fn_Byte s)) = length dst.
Proof. exact (fun dst s => conj (copy_thm dst s) (copy_length dst _)). Qed.

(* comparison: <, <=, ==, != on strings are decided by bytes_ltb / bytes_eqb; bytes_ltb is exactly the
   lexicographic order on bytes (proper prefix, or smaller byte at the first difference); it is a
   strict total order (irreflexive, transitive, exactly one of <, =, > holds); <= is "not >";
   == is equality of the byte sequences *)
Theorem c13_cmp :
  (forall s t, Value_opLt (fn_String s) (fn_String t) = Ok (fn_Bool (bytes_ltb s t)) /\
               Value_opLte (fn_String s) (fn_String t) = Ok (fn_Bool (bytes_leb s t)) /\
               Value_opEq (fn_String s) (fn_String t) = Ok (fn_Bool (bytes_eqb s t)) /\
               Value_opNeq (fn_String s) (fn_String t) = Ok (fn_Bool (negb (bytes_eqb s t)))) /\
  (forall s t, bytes_ltb s t = true <->
     exists p, (exists c t', s = p /\ t = (p ++ c :: t')%list) \/
               (exists a b s' t', s = (p ++ a :: s')%list /\ t = (p ++ b :: t')%list /\ a < b)) /\
  (forall s, bytes_ltb s s = false) /\
  (forall s t u, bytes_ltb s t = true -> bytes_ltb t u = true -> bytes_ltb s u = true) /\
  (forall s t, (bytes_ltb s t = true /\ bytes_eqb s t = false /\ bytes_ltb t s = false) \/
               (bytes_ltb s t = false /\ bytes_eqb s t = true /\ bytes_ltb t s = false) \/
               (bytes_ltb s t = false /\ bytes_eqb s t = false /\ bytes_ltb t s = true)) /\
  (forall s t, bytes_leb s t = negb (bytes_ltb t s)) /\
  (forall s t, bytes_eqb s t = true <-> s = t) /\
  (fn_Bool true = mkValue 32 (Zn 1) PNone /\ fn_Bool false = mkValue 32 (Zn 0) PNone).
Proof.
  exact (conj cmp_values (conj (fun s t => bytes_ltb_lex s t) (conj bytes_ltb_irrefl (conj bytes_ltb_trans
        (conj bytes_trichotomy (conj bytes_leb_not_gt (conj bytes_eqb_eq bool_vals))))))).
Qed.

(* concatenation: s + t is a new string with the bytes of s followed by those of t *)
Theorem c13_concat : forall s t, Value_opAdd (fn_String s) (fn_String t) = Ok (fn_String (s ++ t)).
Proof. exact concat_thm. Qed.

(* literals: goatlang's own part is the glue around strconv.  For any behaviour of strconv.Unquote /
   strconv.UnquoteChar: a character literal q body q hands exactly body and quote '\'' (39) to
   UnquoteChar and pushes its value as an untyped constant (a dropped error gives 0); a string literal
   (quoted or raw) denotes exactly Unquote of its full text.  That Unquote/UnquoteChar give every
   spelling Go's meaning is covered by the differential (c13-script: every escape form). *)
Section C13Lit.
  Variable unquote : list Z -> option (list Z).
  Variable unquoteChar : list Z -> Z -> option (Z * bool * list Z).
  Theorem c13_lit :
    (forall body q1 q2, token_Char unquoteChar (q1 :: body ++ [q2]) =
       Ok (match unquoteChar body 39 with Some (v, _, _) => v | None => 0 end)) /\
    (forall body q1 q2 v m tl, unquoteChar body 39 = Some (v, m, tl) ->
       compile_char unquoteChar (q1 :: body ++ [q2]) = Ok (mkValue 1 (Zn v) PNone)) /\
    (forall text, compile_string unquote text =
       match unquote text with Some s => Ok (mkValue 64 (Zn 0) (PStr s)) | None => Panic end).
  Proof. exact (conj (char_glue unquoteChar) (conj (char_value unquoteChar) (string_glue unquote))). Qed.
End C13Lit.

Print Assumptions c13_utf8_decode_encode.
Print Assumptions c13_utf8_decode_canonical.
Print Assumptions c13_utf8_range.
Print Assumptions c13_utf8_range_encode.
Print Assumptions c13_index.
Print Assumptions c13_index_keys.
Print Assumptions c13_len.
Print Assumptions c13_slice.
Print Assumptions c13_immutable.
Print Assumptions c13_range.
Print Assumptions c13_conv.
Print Assumptions c13_copy.
Print Assumptions c13_cmp.
Print Assumptions c13_concat.
Print Assumptions c13_lit.

(* non-vacuity: "h\xc3\xa9\xffz\xed\xa0\x80" -- ASCII, a 2-byte rune, a stray byte, a surrogate encoding *)
Example c13_witness :
  let s := [104; 195; 169; 255; 122; 237; 160; 128] in
  go_range s = [(0, 104); (1, 233); (3, 65533); (4, 122); (5, 65533); (6, 65533); (7, 65533)] /\
  code_get (fn_String s) (fn_Int32 2) = Ok (mkValue 3 (Zn 169) PNone) /\
  code_get (fn_String s) (fn_Int32 8) = Panic /\
  code_slice (fn_String s) (fn_newUntypedInt 1) (fn_newUntypedInt 3) = Ok (fn_String [195; 169]) /\
  code_slice (fn_String s) (fn_newUntypedInt 5) fn_Nil = Ok (fn_String [237; 160; 128]) /\
  code_slice (fn_String s) (fn_newUntypedInt 3) (fn_Int32 (-1)) = Panic /\
  convert_to_string (fn_Int32 233) = Ok (fn_String [195; 169]) /\
  Value_opLt (fn_String [195; 169]) (fn_String [122]) = Ok (fn_Bool false).
Proof. vm_compute. repeat split; reflexivity. Qed.

(* FINDING (open, reported by the differential group "rune-slice conversion"): conversions between
   strings and []rune are NOT Go's.  Value.convert has a single TypeSlice case (the element type of
   `[]T(s)` is dropped by compiler.go's convMap "[]") that always yields the BYTES of the string, and the
   TypeString case truncates every element of any slice to a byte.  Witness on the faithful model:
   string([]rune{233, 19990}) gives the two bytes E9 16 where Go gives the five bytes of "\195\169\228\184\150",
   whose runes are 233 and 19990.  c13_conv is therefore stated for []byte only. *)
Example c13_finding_rune_slice :
  convert_data_to_string [fn_Int32 233; fn_Int32 19990] = fn_String [233; 22] /\
  encode_runes [233; 19990] = [195; 169; 228; 184; 150] /\
  go_runes [195; 169; 228; 184; 150] = [233; 19990].
Proof. vm_compute. repeat split; reflexivity. Qed.
