(* C03 -- no input can take the embedding host down.
   (a) containment: Model/Host.v models Eval / Load / Call / Func with the glue and every recover handler
       exact (including loadImports' deferred recover, the nil-fs guard of rawLoadPackage, the nil-safe
       token.String and newPos' clamp16) and the stage bodies chosen by an adversary; no panic escapes under
       the few remaining invariants of the stage bodies (entry_hyps), none of which concerns the source text's
       imports, the file system, nil operands or the size of line numbers any more.
   (b) termination of the front end: the theorems that exist in other packages collected, plus the Pratt
       loop for arbitrary token lists, the loader worklist, the peephole budget and the cursor discipline of
       the parser loops.
   (c) recursion depth: the Go stack depth of the expression parser is bounded by the number of tokens and
       a nest of n parentheses really needs n frames. *)
From Coq Require Import ZArith List String Bool Lia PeanoNat.
From GV Require Import GoSpec.GoPrec Model.Pratt Model.PrattInst Model.Loader Model.Lookup Model.IntMap
  Model.PeepTypes Model.VM Model.Peephole Model.Host Model.Cursor Gen.Tables_gen
  Proofs.C08_lookup Proofs.C12_intmap Proofs.C03_host Proofs.C03_term Proofs.C03_cursor.
Import ListNotations.
Open Scope string_scope.

(* ==== (a) containment ================================================================================ *)

(* for every entry point, every combination of options, every source (whatever it imports, whatever operands
   it leaves out, however many lines it has), every file system (nil or not) and every behaviour of the stage
   bodies that respects entry_hyps: no panic escapes.  entry_hyps is
     Eval:  the text/scanner loop does not panic; the positions stamped on the code that runs / is dumped
            carry indices lookup.Index returned, no key of the globals is empty, and the operands
            instruction.String hands to lookup.Key are valid (only when WithCodeDump is on)
     Load:  the same (reading the argument package needs no hypothesis any more: loadPackage / loadFile run under
            recoverLoad since 8db5477, a panic there is "error in load: ...")
     Call / Func: the positions of the code that was running when a panic was raised are stamped as above *)
Theorem c03_contain : forall (unq : string -> bool) (e : entry),
  entry_hyps e -> forall w, entry_model unq e <> Escape w.
Proof. exact contain_neq. Qed.
Print Assumptions c03_contain.

(* the loader on its own needs NO hypothesis: an import path strconv.Unquote rejects, a nil node, a nil
   fs.FS, a panic while reading an imported package -- loadImports returns *)
Theorem c03_loader_contained : forall unq sys_is_nil topPkg top fb w,
  load_imports_model unq sys_is_nil topPkg top fb <> SEscape w.
Proof. exact load_imports_never_escapes. Qed.
Print Assumptions c03_loader_contained.

(* every error Eval returns starts with one of the stage prefixes *)
Theorem c03_prefix : forall unq sys_is_nil o a p,
  eval_model unq sys_is_nil o a = Err p -> exists st, In (p, st) eval_prefixes.
Proof. exact eval_prefix. Qed.
Print Assumptions c03_prefix.

(* and so does every error Load returns (values left on the stack are "error in run: unexpected returns") *)
Theorem c03_prefix_load : forall unq sys_is_nil pkg o a p,
  load_model unq sys_is_nil pkg o a = Err p -> exists st, In (p, st) load_prefixes.
Proof. exact load_prefix. Qed.
Print Assumptions c03_prefix_load.

(* an entry point that does not return: EITHER the run stage of THIS entry was handed a behaviour that does
   not return (the script itself; for Eval also the script of an imported package), OR loadImports -- applied
   to the tokens, the tree, the nil-fs flag and the file system of THIS entry -- ran out of its discovery budget.
   That the stage is SRun or SLoad holds by the types of the adversary alone (scanner, parser and compiler
   behaviours have no "does not return" constructor: a modelling decision, see c03_terminates_* for what is
   proved about those stages); the content of the theorem is the link to the entry's own components.
   Call and Func never hang in the loader. *)
Theorem c03_hang : forall unq e s, entry_model unq e = Hang s ->
  (s = SRun /\ match e with
               | EEval _ _ a => ea_rimp a = RHang \/ ea_run a = RHang
               | ELoad _ _ _ a => la_run a = RHang
               | ECall _ b | EFunc _ b => b = FnHang
               end) \/
  (s = SLoad /\ match e with
     | EEval n _ a => exists toks tree, tokenize_model (ea_scan a) = SOk toks /\ parse_model toks (ea_parse a) = SOk tree /\
                        load_imports_model unq n "" tree (ea_files a) = SHang
     | ELoad n p _ a => exists nodes, la_top a = TopRet nodes /\
                        load_imports_model unq n p (TNode "_" "_" nodes) (la_files a) = SHang
     | _ => False
     end).
Proof. exact hang_stage. Qed.
Print Assumptions c03_hang.

(* ... and loadImports does not return only when the file system is not nil, the top package imports
   something, the file behaviour is FRet and the worklist of Model/Loader.v exhausts the budget that FRet
   carries.  The budget is chosen by the adversary (Go's loop has no budget: the model's LoadFuel stands for
   "the discovery never ends"); this theorem does not say the budget is ever sufficient.  What is proved about
   sufficiency is c03_terminates_load below: on an import graph whose reachable part U is finite, any budget
   >= 2 + weight imports U is enough -- so with such a budget the premise here is false. *)
Theorem c03_hang_load : forall unq nilfs topPkg top fb, load_imports_model unq nilfs topPkg top fb = SHang ->
  exists p ps imports nodes budget, nilfs = false /\ top_imports unq (kids_of top) = Some (p :: ps) /\
    fb = FRet imports nodes budget /\
    load (fun q => if String.eqb q topPkg then Some (p :: ps) else imports q) budget topPkg = LoadFuel.
Proof. exact load_imports_hang. Qed.
Print Assumptions c03_hang_load.

(* ---- invariants of the glue that are PROVED ---------------------------------------------------------- *)

(* the token list handed to parse is never empty and ends with (eof): the first p.Next() succeeds, so
   p.Token is non-nil whenever parse's recover handler runs *)
Theorem c03_inv_tokens : forall sb l, tokenize_model sb = SOk l ->
  l <> [] /\ last l eof = eof /\ forall pb w, parse_model l pb <> SEscape w.
Proof. exact inv_tokens. Qed.
Print Assumptions c03_inv_tokens.

(* newPos / pos.info for ARBITRARY file index, function index, line and column: each field is clamped to 16
   bits and read back unchanged; nothing spills into the neighbouring field *)
Theorem c03_inv_pos_roundtrip : forall fi fu line col : Z,
  pos_file (new_pos fi fu line col) = clamp16 fi /\ pos_func (new_pos fi fu line col) = clamp16 fu /\
  ((0 <= fi < 65536)%Z -> clamp16 fi = fi) /\ ((0 <= fu < 65536)%Z -> clamp16 fu = fu).
Proof. exact pos_roundtrip. Qed.
Print Assumptions c03_inv_pos_roundtrip.

(* so a stamped position always prints: the clamped indices are inside the key table *)
Theorem c03_inv_pos_string : forall keys p, keys_ok keys -> stamped keys p -> pos_string_ok keys p = true.
Proof. exact stamped_ok. Qed.
Print Assumptions c03_inv_pos_string.

(* btErr (the handler of VM.run and VM.Func) is total: for ANY frame.N (negative, inside, at or beyond the end
   of the code) and ANY line / column numbers -- PROVIDED the VM state satisfies vmstate_ok (Model/Host.v):
   the key table is keys_ok, every position stamped on the code is `stamped` (carries indices lookup.Index
   returned, or is zero) and every backtrace entry is zero or a stamped position.  So not "any backtrace":
   any backtrace whose entries were pushed from stamped code. *)
Theorem c03_inv_bterr_total : forall s, vmstate_ok s -> bt_err_ok (vkeys s) (vcodes s) (vN s) (vbt s) = true.
Proof. exact bt_err_total. Qed.
Print Assumptions c03_inv_bterr_total.

(* loadImports returns the top package at least: Eval's pkgs[:len(pkgs)-1] and pkgs[len(pkgs)-1:] are in range *)
Theorem c03_inv_pkgs_nonempty : forall imports budget top order, load imports budget top = LoadOk order -> order <> [].
Proof. exact load_nonempty. Qed.
Print Assumptions c03_inv_pkgs_nonempty.

(* treeDump's s[3:len(s)-1]: a package tree handed on by loadImports has at least one child (or is the
   synthetic (_ (package _ name))) and the text "_", so its rendering has at least 4 bytes -- nil operands
   included (they print "<nil>") *)
Theorem c03_inv_tree_dump : forall pkg t, raw_tree_ok t -> dump_one_ok (fix_empty pkg t) = true.
Proof. exact fix_empty_ok. Qed.
Print Assumptions c03_inv_tree_dump.

(* Func's vm.stack[len(vm.stack)-xRets:] lies inside the deferred recover: Func and Call never let a panic
   escape, whatever result count is requested (0, 5, negative) *)
Theorem c03_inv_func : forall x b, func_beh_ok b -> forall w, func_model x b <> Escape w.
Proof. exact func_contained_neq. Qed.
Print Assumptions c03_inv_func.

(* ---- the inputs that used to escape (fixed in /repo: bc98689 371cd14 47eb9a0 29c9c35 6607b34 8db5477) ---- *)

Definition quiet_adv (stmts : list tree) : eval_adv :=
  mkEvalAdv (ScanOk []) (PRet stmts) (FRet (fun _ => None) (fun _ => []) 100)
            (CRet ["nil"] []) RRet (CRet ["nil"] []) RRet.
Definition unq_go (s : string) : bool := negb (String.eqb s """\400""").

(* import (x "\400") : the panic of Unquote is recovered inside loadImports *)
Example c03_fixed_unquote :
  eval_model unq_go false (mkOpt false false false)
    (quiet_adv [TNode "import" "import" [TNode "(name)" "x" []; TNode "(string)" """\400""" []]])
  = Err "error in loadImports: ".
Proof. vm_compute. reflexivity. Qed.

(* Eval(nil, ...) with an import: the package counts as missing, the evaluation goes on *)
Example c03_fixed_nil_fs :
  eval_model unq_go true (mkOpt true true false)
    (quiet_adv [TNode "import" "import" [TNode "(name)" "fmt" []; TNode "(string)" """fmt""" []]])
  = Ok.
Proof. vm_compute. reflexivity. Qed.

(* x /;  with WithTreeDump: the missing operand prints <nil> *)
Example c03_fixed_nil_child :
  eval_model unq_go false (mkOpt true false false) (quiet_adv [TNode "/" "/" [TNode "(name)" "x" []; TNil]]) = Ok /\
  tstr (TNode "" "_" [TNode "/" "/" [TNode "(name)" "x" []; TNil]]) = "(_ (/ x <nil>))".
Proof. vm_compute. split; reflexivity. Qed.

(* a statement on line 65537, or 10^9, column 10^6, with more than 65536 globals: every field stays in place *)
Example c03_fixed_pos_clamp :
  let keys := (List.repeat "k" 65 ++ ["#eval"; "#"])%list in
  let p := new_pos 65 66 65537 1 in
  let q := new_pos 65 66 1000000000 1000000 in
  pos_func p = 66%Z /\ pos_file q = 65%Z /\ pos_func q = 66%Z /\ pos_string_ok keys p = true /\
  run_model (RPanic (mkVmstate keys [p; q] 1 [q])) = SErr /\
  code_dump_ok true keys [mkDins p []; mkDins q []] = true /\
  pos_file (new_pos 70000 66 1 1) = 65535%Z.
Proof. vm_compute. repeat split; reflexivity. Qed.

(* Load of a package whose file says `*package`: rawLoadPackage's first.Tokens[0] panics, recoverLoad returns it *)
Example c03_fixed_package_clause :
  forall o files comp run rets, load_model unq_go false "pkg" o (mkLoadAdv TopPanic files comp run rets) = Err "error in load: ".
Proof. reflexivity. Qed.

(* Load of a package whose top-level code leaves a value: a run error *)
Example c03_load_prefixed :
  load_model unq_go false "main" (mkOpt false false false)
    (mkLoadAdv (TopRet [TNode "(int)" "42" []]) FErr (CRet ["nil"] []) RRet 1)
  = Err "error in run: ".
Proof. vm_compute. reflexivity. Qed.

(* ==== (b) termination of the front end ============================================================== *)

(* the Pratt expression loop: for ANY token list, ANY binding-power table and ANY right binding power, the
   budget |tokens|+1 is not exhausted (C05 proves completeness, i.e. this for the accepted inputs only) *)
Theorem c03_terminates_pratt : forall lbp infix neg_rbp compl_rbp not_rbp paren_rbp fuel rbp ts,
  (List.length ts < fuel)%nat ->
  Pratt.expr lbp infix neg_rbp compl_rbp not_rbp paren_rbp fuel rbp ts <> inr PErrFuel.
Proof. exact pratt_terminates. Qed.
Print Assumptions c03_terminates_pratt.

Theorem c03_terminates_parse_expr : forall ts, goat_parse ts <> inr PErrFuel.
Proof. exact goat_parse_terminates. Qed.
Print Assumptions c03_terminates_parse_expr.

(* every successful (sub)expression consumes a token: the statement loops that call Expression make progress *)
Theorem c03_expr_consumes : forall lbp infix neg_rbp compl_rbp not_rbp paren_rbp fuel rbp ts t rest,
  Pratt.expr lbp infix neg_rbp compl_rbp not_rbp paren_rbp fuel rbp ts = inl (t, rest) ->
  (List.length rest < List.length ts)%nat.
Proof. exact expr_consumes. Qed.
Print Assumptions c03_expr_consumes.

(* the loader's discovery worklist: for every list U that contains the top package and is closed under
   imports (the packages reachable from it: finitely many on any file tree), 2 + the number of import entries
   of U iterations suffice.  Stated and proved here on Model/Loader.v, independently of C15 (C15's theorems
   assume the analogous closure, per top package, as a premise; this one is self-contained).  The theorem is
   conditional on the budget: it does not say Go's (budget-less) loop is run with one, only that the loop's
   length is bounded by that number on such a graph. *)
Theorem c03_terminates_load : forall (imports : string -> option (list string)) (U : list string),
  (forall q l x, In q U -> imports q = Some l -> In x l -> In x U) ->
  forall top fuel, In top U -> (S (S (weight imports U)) <= fuel)%nat -> load imports fuel top <> LoadFuel.
Proof. exact load_no_fuel. Qed.
Print Assumptions c03_terminates_load.

(* the compiler's scope table: the recursive renamers shadow / unshadow (C08) *)
Theorem c03_terminates_lookup : forall m k f, (chain_fuel m <= f)%nat ->
  shadow f m k = shadow (chain_fuel m) m k /\ unshadow f m k = unshadow (chain_fuel m) m k.
Proof. exact (fun m k f H => conj (shadow_budget_any m k f H) (unshadow_budget_any m k f H)). Qed.
Print Assumptions c03_terminates_lookup.

(* the peephole pass: one more unit of fuel than instructions suffices, any larger budget gives the same code *)
Theorem c03_terminates_peephole : forall fuel code, (S (List.length code) <= fuel)%nat ->
  do_optimize_fuel fuel peephole_rules code = do_optimize peephole_rules code.
Proof. exact peephole_terminates. Qed.
Print Assumptions c03_terminates_peephole.

(* the statement-level parser loops on the token cursor: see Model/Cursor.v for the transcription and for the
   list of loops covered.  Every run of the cursor skeleton of parse.go / symbol.go that starts inside the
   token list terminates (Exec is an inductive relation: a derivation is a finite run), whatever the
   data-dependent branches do (the oracle), and when it returns normally the cursor has advanced by at least
   one token and is still inside the token list.  (A run may also end in OPanic -- e.g. p.Next() past the end --
   which Go's parse recovers; "terminates" includes that outcome.) *)
Theorem c03_parse_progress_partial : forall (n : Z) (oracle : nat -> bool) (c : Z) (k : nat),
  (0 <= c <= n)%Z -> exists out k', Exec goat_table n oracle (Call F_parse) c k out k' /\
    (forall c', out = ONorm c' -> (c + 1 <= c' <= n)%Z).
Proof. exact goat_parser_terminates. Qed.
Print Assumptions c03_parse_progress_partial.

(* the same for any table of parser functions that passes the (decidable) progress check *)
Theorem c03_parse_progress_general : forall (tbl : nat -> prog) (rank : nat -> nat) (gain : nat -> Z) (nf : nat),
  table_ok tbl rank gain nf = true ->
  forall (n : Z) (oracle : nat -> bool) f c k, (f < nf)%nat -> (c <= n)%Z ->
  exists out k', Exec tbl n oracle (Call f) c k out k' /\
    (forall c', out = ONorm c' -> (c + gain f <= c' <= n)%Z).
Proof. exact table_terminates. Qed.
Print Assumptions c03_parse_progress_general.

Theorem c03_goat_table_ok : table_ok goat_table goat_rank goat_gain goat_nf = true.
Proof. exact goat_table_ok. Qed.
Print Assumptions c03_goat_table_ok.

(* ==== (c) recursion depth ============================================================================= *)

(* with a separate budget d for NESTED calls of doExpression: |tokens|+1 frames always suffice ... *)
Theorem c03_depth_bound : forall lbp infix neg_rbp compl_rbp not_rbp paren_rbp fuel d rbp ts,
  (List.length ts < d)%nat ->
  exprD lbp infix neg_rbp compl_rbp not_rbp paren_rbp d fuel rbp ts =
  lift (Pratt.expr lbp infix neg_rbp compl_rbp not_rbp paren_rbp fuel rbp ts).
Proof. exact depth_bound. Qed.
Print Assumptions c03_depth_bound.

(* ... and n nested parentheses need more than n frames: the depth grows linearly with the input *)
Definition nest (n : nat) : list GoPrec.tok := (List.repeat (TSym "(") n ++ TAtom true "1" :: List.repeat (TSym ")") n)%list.
Example c03_depth_witness :
  exprD lbp_of infix_of neg_bp compl_bp not_bp commaBP 40 200 0 (nest 40) = inr DDepth /\
  (exists t, exprD lbp_of infix_of neg_bp compl_bp not_bp commaBP 41 200 0 (nest 40) = inl (t, [])).
Proof. split; [vm_compute; reflexivity|eexists; vm_compute; reflexivity]. Qed.

(* non-vacuity of (a): a well-behaved Eval with both dumps on returns Ok, a compile error is prefixed, and the
   hypotheses of c03_contain are satisfiable by exactly this behaviour *)
Example c03_witness :
  let stmts := [TNode "import" "import" [TNode "(name)" "fmt" []; TNode "(string)" """fmt""" []]; TNode "(int)" "1" []] in
  let keys := ["nil"; "true"; "false"; "#eval"; "#"] in
  let code := [mkDins (new_pos 3 4 1 1) [0%Z]] in
  let files := FRet (fun _ => None) (fun _ => []) 100 in
  eval_model unq_go false (mkOpt true true false)
    (mkEvalAdv (ScanOk []) (PRet stmts) files (CRet keys []) RRet (CRet keys code) RRet) = Ok /\
  eval_model unq_go false (mkOpt true true false)
    (mkEvalAdv (ScanOk []) (PRet stmts) files (CRet keys []) RRet (CPanic true) RRet) = Err "error in compile: ".
Proof. vm_compute. split; reflexivity. Qed.

(* the hypotheses of c03_contain are satisfiable: a run error on line 70000 with a two-entry backtrace, both dumps on *)
Example c03_hyps_satisfiable :
  let keys := ["nil"; "true"; "false"; "#eval"; "#"] in
  eval_hyps (mkOpt true true false)
    (mkEvalAdv (ScanOk []) (PRet []) FErr (CRet keys []) (RPanic (mkVmstate keys [new_pos 3 4 70000 1] 5 [0%Z; new_pos 3 4 2 2]))
               (CRet keys [mkDins (new_pos 3 4 1 1) [0%Z]]) RRet).
Proof. exact eval_hyps_witness. Qed.
