(* C04 -- fixed-width numeric semantics equal Go's for every operand value.
   Statements only; proofs are in Proofs/C04_ops.v.  The operator definitions
   (Value_opAdd ...) are REGENERATED from /repo/value.go by tools/go2v on every
   run; the right-hand sides (iadd, iquo, wrap ...) are GoSpec/GoPrim.v. *)
From Coq Require Import ZArith Floats Bool.
From Coq Require Import List String.
From GV Require Import GoSpec.GoPrim Gen.ValueOps_gen Gen.Tables_gen Model.VM Gen.Steps_gen Proofs.C04_ops Proofs.Steps_agree Proofs.C04_vm.
Import ListNotations.
Open Scope string_scope.
Open Scope Z_scope.

(* every arithmetic / bitwise / shift / comparison operator, every typed integer
   type, every pair of in-range operands: Go's result, operand type kept *)
Theorem c04_ops : forall t a b, typed t = true -> in_range t a = true -> in_range t b = true ->
  Value_opAdd (V t a) (V t b) = Ok (V t (iadd t a b)) /\
  Value_opSub (V t a) (V t b) = V t (isub t a b) /\
  Value_opMul (V t a) (V t b) = V t (imul t a b) /\
  Value_opDiv (V t a) (V t b) = (x <- iquo t a b ;; Ok (V t x)) /\
  Value_opMod (V t a) (V t b) = (x <- irem t a b ;; Ok (V t x)) /\
  Value_opBitLsh (V t a) (V t b) = (x <- ishl t a b ;; Ok (V t x)) /\
  Value_opBitRsh (V t a) (V t b) = (x <- ishr t a b ;; Ok (V t x)) /\
  Value_opBitAnd (V t a) (V t b) = V t (iand t a b) /\
  Value_opBitOr (V t a) (V t b) = V t (ior t a b) /\
  Value_opBitXor (V t a) (V t b) = V t (ixor t a b) /\
  Value_opLt (V t a) (V t b) = Ok (B (a <? b)) /\
  Value_opLte (V t a) (V t b) = Ok (B (a <=? b)) /\
  Value_opEq (V t a) (V t b) = Ok (B (a =? b)) /\
  Value_opNeq (V t a) (V t b) = Ok (B (negb (a =? b))).
Proof.
  intros t a b Ht Ha Hb.
  repeat split; [exact (op_add t a b Ht Ha Hb) | exact (op_sub t a b Ht Ha Hb) | exact (op_mul t a b Ht Ha Hb)
    | exact (op_quo t a b Ht Ha Hb) | exact (op_rem t a b Ht Ha Hb) | exact (op_shl t a b Ht Ha Hb) | exact (op_shr t a b Ht Ha Hb)
    | exact (op_and t a b Ht Ha Hb) | exact (op_or t a b Ht Ha Hb) | exact (op_xor t a b Ht Ha Hb)
    | exact (op_lt t a b Ht Ha Hb) | exact (op_le t a b Ht Ha Hb) | exact (op_eq t a b Ht Ha Hb) | exact (op_ne t a b Ht Ha Hb)].
Qed.
Print Assumptions c04_ops.

(* an untyped constant operand adopts the type of the typed operand (either side) *)
Theorem c04_const : forall t a c, typed t = true -> in_range t a = true -> in_range t c = true ->
  Value_opAdd (V t a) (Untyped c) = Value_opAdd (V t a) (V t c) /\ Value_opAdd (Untyped c) (V t a) = Value_opAdd (V t c) (V t a) /\
  Value_opSub (V t a) (Untyped c) = Value_opSub (V t a) (V t c) /\ Value_opSub (Untyped c) (V t a) = Value_opSub (V t c) (V t a) /\
  Value_opMul (V t a) (Untyped c) = Value_opMul (V t a) (V t c) /\ Value_opMul (Untyped c) (V t a) = Value_opMul (V t c) (V t a) /\
  Value_opDiv (V t a) (Untyped c) = Value_opDiv (V t a) (V t c) /\ Value_opDiv (Untyped c) (V t a) = Value_opDiv (V t c) (V t a) /\
  Value_opMod (V t a) (Untyped c) = Value_opMod (V t a) (V t c) /\ Value_opMod (Untyped c) (V t a) = Value_opMod (V t c) (V t a) /\
  Value_opBitLsh (V t a) (Untyped c) = Value_opBitLsh (V t a) (V t c) /\
  Value_opBitRsh (V t a) (Untyped c) = Value_opBitRsh (V t a) (V t c) /\
  Value_opBitAnd (V t a) (Untyped c) = Value_opBitAnd (V t a) (V t c) /\ Value_opBitAnd (Untyped c) (V t a) = Value_opBitAnd (V t c) (V t a) /\
  Value_opBitOr (V t a) (Untyped c) = Value_opBitOr (V t a) (V t c) /\ Value_opBitOr (Untyped c) (V t a) = Value_opBitOr (V t c) (V t a) /\
  Value_opBitXor (V t a) (Untyped c) = Value_opBitXor (V t a) (V t c) /\ Value_opBitXor (Untyped c) (V t a) = Value_opBitXor (V t c) (V t a).
Proof.
  intros t a c Ht Ha Hc.
  repeat split; [exact (const_r_add t a c Ht Ha Hc) | exact (const_l_add t a c Ht Ha Hc) | exact (const_r_sub t a c Ht Ha Hc) | exact (const_l_sub t a c Ht Ha Hc)
   | exact (const_r_mul t a c Ht Ha Hc) | exact (const_l_mul t a c Ht Ha Hc) | exact (const_r_quo t a c Ht Ha Hc) | exact (const_l_quo t a c Ht Ha Hc)
   | exact (const_r_rem t a c Ht Ha Hc) | exact (const_l_rem t a c Ht Ha Hc) | exact (const_r_shl t a c Ht Ha Hc) | exact (const_r_shr t a c Ht Ha Hc)
   | exact (const_r_and t a c Ht Ha Hc) | exact (const_l_and t a c Ht Ha Hc) | exact (const_r_or t a c Ht Ha Hc) | exact (const_l_or t a c Ht Ha Hc)
   | exact (const_r_xor t a c Ht Ha Hc) | exact (const_l_xor t a c Ht Ha Hc)].
Qed.
Print Assumptions c04_const.

(* x++, x--, x += c, x -= c (INCDEC / LOCALINCDEC call Value.incDec): wrap-around in the operand's type *)
Theorem c04_incdec : forall t a d, typed t = true -> in_range t a = true -> in_range t (Z.abs d) = true -> in_range I64 d = true ->
  Value_incDec (V t a) d = Ok (V t (if d <? 0 then isub t a (- d) else iadd t a d)).
Proof. exact incdec_spec. Qed.
Print Assumptions c04_incdec.

(* declarations, assignments, parameters, results, fields and container elements go through
   Value.assign with the declared tag: constants adopt it, typed values are unchanged, nil adopts nillable tags *)
Theorem c04_assign :
  (forall t c, typed t = true -> in_range t c = true -> Value_assign (Untyped c) (tag_of t) = V t c) /\
  (forall c, Value_assign (Untyped c) TypeFloat64 = F (float_of_Z c)) /\
  (forall v t, vt v <> untypedInt -> vt v <> TypeNil -> Value_assign v t = v) /\
  (forall t, Value_assign (mkValue TypeNil (Zn 0) PNone) t
             = if (t =? TypeNil) || (nillableMin <=? t) then mkValue t (Zn 0) PNone else mkValue TypeNil (Zn 0) PNone).
Proof. exact (conj assign_untyped (conj assign_untyped_float (conj assign_keeps assign_nil))). Qed.
Print Assumptions c04_assign.

(* conversions among the numeric types:
   1. integer -> integer: two's-complement wrap into the target type (every pair of int8, uint8, int32, uint32);
   2. integer -> float64: the exact value (float_of_Z);
   3.-5. float64 -> int32 / int8 / uint8 / uint32, for a float whose truncation toward zero z lies IN THE RANGE of
      the target type: the result is z.  For a float outside the target's range (and for NaN / infinities,
      where Ztrunc is None) Go leaves the result implementation-defined; the model follows the amd64 gc
      compiler there (GoSpec/GoPrim.v cvt) and nothing is stated about it here -- it is compared with the
      implementation by the correspondence only.
   Not stated: conversions to and from string, and Value_convert on an untyped constant operand. *)
Theorem c04_conv :
  (forall t t' a, typed t = true -> typed t' = true -> in_range t a = true ->
     Value_convert (V t a) (tag_of t') = Ok (V t' (wrap t' a))) /\
  (forall t a, typed t = true -> Value_convert (V t a) TypeFloat64 = Ok (F (float_of_Z a))) /\
  (forall f z, Ztrunc f = Some z -> in_range I32 z = true -> Value_convert (F f) TypeInt32 = Ok (V I32 z)) /\
  (forall t f z, (t = I8 \/ t = U8) -> Ztrunc f = Some z -> in_range t z = true -> Value_convert (F f) (tag_of t) = Ok (V t z)) /\
  (forall f z, Ztrunc f = Some z -> in_range U32 z = true -> Value_convert (F f) TypeUint32 = Ok (V U32 z)).
Proof. exact (conj convert_int (conj convert_int_float (conj convert_float_i32 (conj convert_float_small convert_float_u32)))). Qed.
Print Assumptions c04_conv.

(* float64: IEEE-754 binary64 operations (Coq's primitive floats), comparisons included *)
Theorem c04_float : forall f g,
  Value_opAdd (F f) (F g) = Ok (F (PrimFloat.add f g)) /\ Value_opSub (F f) (F g) = F (PrimFloat.sub f g) /\
  Value_opMul (F f) (F g) = F (PrimFloat.mul f g) /\ Value_opDiv (F f) (F g) = Ok (F (PrimFloat.div f g)) /\
  Value_opLt (F f) (F g) = Ok (B (PrimFloat.ltb f g)) /\ Value_opLte (F f) (F g) = Ok (B (PrimFloat.leb f g)) /\
  Value_opEq (F f) (F g) = Ok (B (PrimFloat.eqb f g)) /\ Value_opNeq (F f) (F g) = Ok (B (negb (PrimFloat.eqb f g))).
Proof.
  intros f g. exact (conj (f_add f g) (conj (f_sub f g) (conj (f_mul f g) (conj (f_quo f g) (conj (f_lt f g) (conj (f_le f g) (conj (f_eq f g) (f_ne f g)))))))).
Qed.
Print Assumptions c04_float.

(* invariant: results of + - * on well-formed numeric values are well-formed (tag is a numeric tag and
   the payload is an integer in the tag's range), so every intN(v.num) conversion in value.go is applied
   in range, where Go defines it *)
Theorem c04_wf : forall v b, wf_value v -> wf_value b ->
  wf_value (Value_opSub v b) /\ wf_value (Value_opMul v b) /\ (forall r, Value_opAdd v b = Ok r -> wf_value r).
Proof. intros v b Hv Hb. exact (conj (wf_sub v b Hv Hb) (conj (wf_mul v b Hv Hb) (fun r => wf_add v b r Hv Hb))). Qed.
Print Assumptions c04_wf.

(* specification sanity: wrap lands in range and is the identity on in-range values *)
Theorem c04_spec_wrap : forall t z, in_range t (wrap t z) = true /\ (in_range t z = true -> wrap t z = z).
Proof. intros t z. exact (conj (wrap_in_range t z) (wrap_id t z)). Qed.
Print Assumptions c04_spec_wrap.

(* non-vacuity: the hypotheses are met by boundary operands, and the results are Go's *)
Example c04_witness :
  Value_opAdd (V U8 255) (V U8 1) = Ok (V U8 0) /\ Value_opMul (V I8 (-128)) (V I8 (-1)) = V I8 (-128) /\
  Value_opDiv (V I32 (-7)) (V I32 2) = Ok (V I32 (-3)) /\ Value_opDiv (V I8 5) (V I8 0) = Panic /\
  Value_opBitRsh (V I8 (-3)) (V I8 1) = Ok (V I8 (-2)) /\ Value_incDec (V U32 0) (-1) = Ok (V U32 4294967295) /\
  Value_incDec (V U8 255) 1 = Ok (V U8 0).
Proof. vm_compute. repeat split. Qed.

(* How the VM uses these operators.  Gen/Steps_gen.v (step_gen) is regenerated from the `exec` switch of
   /repo/do.go on every run; the theorems below are about that generated step function, for every
   instruction, every operand stack, every frame and VM state: each arithmetic / comparison / bit
   instruction applies the operator proved above to (left, right) in source order (GT and GTE are LT and
   LTE with the operands swapped), INCDEC / LOCALINCDEC use incDec, CAST uses assign, CONVERT uses convert,
   LOCALSET / GLOBALSET assign with the type of the variable's current value, and the fused LOCAL*
   instructions read both slots in order.  An edit of one of these cases in do.go changes step_gen and
   breaks these theorems; Proofs/Steps_agree.v transfers them to the hand-written model Model/VM.v. *)
Theorem c04_vm_binop : forall name sw f, In (name, sw, f) vm_binops ->
  forall i slots a b rest s, icode i = C name ->
  step_gen i slots (b :: a :: rest) s = Some (binop_result sw f slots a b rest s).
Proof. exact vm_binop_step. Qed.
Print Assumptions c04_vm_binop.

Theorem c04_vm_incdec : forall i slots a rest s, icode i = C "codeIncDec" ->
  step_gen i slots (a :: rest) s = Some (slift (Value_incDec a (iA i)) s (fun r => SNext slots (r :: rest) s)).
Proof. exact vm_incdec_step. Qed.
Print Assumptions c04_vm_incdec.

Theorem c04_vm_localincdec : forall i slots ops s l, icode i = C "codeLocalIncDec" -> znth slots (iA i) = Some l ->
  step_gen i slots ops s = Some (slift (Value_incDec l (iB i)) s (fun r => SNext (zset slots (iA i) r) ops s)).
Proof. exact vm_localincdec_step. Qed.
Print Assumptions c04_vm_localincdec.

Theorem c04_vm_cast : forall i slots a rest s, icode i = C "codeCast" ->
  step_gen i slots (a :: rest) s = Some (SNext slots (Value_assign a (iA i) :: rest) s).
Proof. exact vm_cast_step. Qed.
Print Assumptions c04_vm_cast.

Theorem c04_vm_convert : forall i slots a rest s, icode i = C "codeConvert" ->
  step_gen i slots (a :: rest) s = Some (slift (Value_convert a (iA i)) s (fun r => SNext slots (r :: rest) s)).
Proof. exact vm_convert_step. Qed.
Print Assumptions c04_vm_convert.

Theorem c04_vm_localset : forall i slots a rest s l, icode i = C "codeLocalSet" -> znth slots (iA i) = Some l ->
  step_gen i slots (a :: rest) s = Some (SNext (zset slots (iA i) (Value_assign a (vt l))) rest s).
Proof. exact vm_localset_step. Qed.
Print Assumptions c04_vm_localset.

Theorem c04_vm_globalset : forall i slots a rest s g, icode i = C "codeGlobalSet" -> znth (globals s) (iA i) = Some g ->
  step_gen i slots (a :: rest) s = Some (SNext slots rest (set_global s (iA i) (Value_assign a (vt g)))).
Proof. exact vm_globalset_step. Qed.
Print Assumptions c04_vm_globalset.

Theorem c04_vm_localop : forall name f, In (name, f) vm_local_binops ->
  forall i slots ops s l1 l2, icode i = C name -> znth slots (iA i) = Some l1 -> znth slots (iB i) = Some l2 ->
  step_gen i slots ops s = Some (binop_result false f slots l1 l2 ops s).
Proof. exact vm_localop_step. Qed.
Print Assumptions c04_vm_localop.

(* the same for the hand-written model the other properties' theorems are stated on *)
Theorem c04_vm_binop_model : forall name sw f, In (name, sw, f) vm_binops ->
  forall grow ext_get ext_set ext_len ext_getattr ext_setattr codes pc i slots a b rest s, icode i = C name ->
  step1 grow ext_get ext_set ext_len ext_getattr ext_setattr codes pc i slots (b :: a :: rest) s = binop_result sw f slots a b rest s.
Proof. exact vm_binop_step1. Qed.
Print Assumptions c04_vm_binop_model.
