(* non-vacuity witnesses for Props/C01.v, C05.v, C08.v *)
From Coq Require Import ZArith List String Bool Lia PeanoNat.
From GV Require Import GoSpec.GoPrim GoSpec.GoPrec Gen.ValueOps_gen Gen.Tables_gen Model.Pratt Model.PrattInst Model.ExprEval
                        Model.Lookup Proofs.C04_ops Proofs.C05_inst Proofs.C05_pratt Proofs.C01_expr Proofs.C08_lookup.
From GV Require Props.C01 Props.C05 Props.C08.
Import ListNotations.
Open Scope string_scope.
Open Scope Z_scope.

(* ---- C01 ---------------------------------------------------------------------------------------------- *)
(* premises: (forall x, in_range I32 (env x)), arith t, goat_parse ts = inl (t, []), table_ok_b = true *)
Definition env1 (x : string) : Z :=
  if String.eqb x "a" then 2147483647 else if String.eqb x "b" then 31 else if String.eqb x "z" then 0 else -2147483648.
Lemma env1_ok : forall x, in_range I32 (env1 x) = true.
Proof. intro x. unfold env1. repeat destruct (String.eqb x _); reflexivity. Qed.

Definition ts1 : list tok :=
  [TSym "-"; TAtom false "c"; TSym "/"; TSym "("; TAtom false "z"; TSym "-"; TAtom false "a"; TSym "*"; TAtom false "a"; TSym ")";
   TSym "^"; TSym "^"; TAtom false "a"; TSym "<<"; TAtom false "b"].
(* c01_expr_partial applied: a 15-token expression with wrap-around (a*a, -MinInt32), parentheses, both unary operators *)
Lemma nv_c01_expr_partial : exists t,
  goat_parse ts1 = inl (t, []) /\ arith t = true /\ flatten t = ts1 /\ grouped go_prec t /\
  eval_goat (fun x => V I32 (env1 x)) t = lift32 (eval_go env1 t) /\
  eval_go env1 t = Ok (-2147483648).
Proof.
  destruct (goat_parse ts1) as [[t r]|] eqn:E; [|vm_compute in E; discriminate].
  assert (r = []) by (vm_compute in E; inversion E; reflexivity). subst r.
  assert (Ha : arith t = true) by (vm_compute in E; inversion E; reflexivity).
  exists t. pose proof (C01.c01_expr_partial C05.c05_table ts1 t env1 E env1_ok Ha) as (F & G & EV).
  repeat split; try assumption. vm_compute in E. inversion E. vm_compute. reflexivity.
Qed.
(* c01_expr_eval on a panicking tree (1 << -1 ... here: c % z, z = 0): both sides Panic *)
Lemma nv_c01_expr_eval_panic :
  let t := Bin "+" (Atom false "a") (Bin "%" (Atom false "c") (Atom false "z")) in
  arith t = true /\ eval_go env1 t = Panic /\ eval_goat (fun x => V I32 (env1 x)) t = Panic.
Proof.
  intro t. assert (A : arith t = true) by reflexivity.
  destruct (C01.c01_expr_eval env1 t env1_ok A) as [E _].
  assert (P : eval_go env1 t = Panic) by (vm_compute; reflexivity).
  rewrite P in E. repeat split; assumption.
Qed.
(* totalisation check: on arith trees the Go side is never Unmodelled, so the equation of c01_expr_eval
   never holds because both sides are the "unmodelled" default *)
Lemma nv_c01_never_unmodelled : forall env t, arith t = true -> eval_go env t <> Unmodelled.
Proof.
  intros env t. induction t as [i x|op l IHl r IHr|u t IH|t IH]; cbn [arith eval_go]; intro A.
  - discriminate.
  - apply andb_true_iff in A. destruct A as [A Ar]. apply andb_true_iff in A. destruct A as [Ao Al].
    specialize (IHl Al). specialize (IHr Ar).
    destruct (eval_go env l); [|discriminate|contradiction]. destruct (eval_go env r); [|discriminate|contradiction].
    cbn [bind]. unfold arith_ops in Ao. cbn [existsb] in Ao.
    repeat (apply orb_true_iff in Ao; destruct Ao as [Ao|Ao]; [apply String.eqb_eq in Ao; subst op; cbn;
      unfold iquo, irem, ishl, ishr; repeat match goal with |- context [if ?c then _ else _] => destruct c end; discriminate|]).
    discriminate.
  - destruct u; try discriminate; specialize (IH A); destruct (eval_go env t); cbn; try discriminate; contradiction.
  - exact (IH A).
Qed.

(* ---- C05 ---------------------------------------------------------------------------------------------- *)
(* c05_table_order: In o1 binops, In o2 binops *)
Lemma nv_c05_table_order : lbp_of "+" < lbp_of "<<" /\ ~ (lbp_of "<<" < lbp_of "&") /\ lbp_of "||" < lbp_of "&&".
Proof.
  assert (I : forall o, existsb (String.eqb o) binops = true -> In o binops).
  { intros o H. apply existsb_exists in H. destruct H as (x & Hx & E). apply String.eqb_eq in E. subst; assumption. }
  pose proof (C05.c05_table_order "+" "<<" (I "+" eq_refl) (I "<<" eq_refl)) as H1.
  pose proof (C05.c05_table_order "<<" "&" (I "<<" eq_refl) (I "&" eq_refl)) as H2.
  pose proof (C05.c05_table_order "||" "&&" (I "||" eq_refl) (I "&&" eq_refl)) as H3.
  split; [apply H1; vm_compute; reflexivity|]. split; [intro H; apply H2 in H; vm_compute in H; discriminate|].
  apply H3; vm_compute; reflexivity.
Qed.

(* c05_pratt_sound: an arbitrary (non-goat, C-like) table meeting the two table conditions, rbp > 0, non-empty rest *)
Definition my_lbp (s : string) : Z := if String.eqb s "+" then 10 else if String.eqb s "*" then 20 else if String.eqb s "==" then 5 else 0.
Definition my_infix (s : string) : bool := String.eqb s "+" || String.eqb s "*" || String.eqb s "==".
Lemma my_table1 : forall s, my_infix s = true -> 0 < my_lbp s.
Proof. intros s. unfold my_infix, my_lbp. destruct (String.eqb s "+"), (String.eqb s "*"), (String.eqb s "=="); cbn; intros; try lia; discriminate. Qed.
Lemma my_table2 : forall s, my_infix s = true -> my_lbp s <= 30 /\ my_lbp s <= 30 /\ my_lbp s <= 30.
Proof. intros s. unfold my_infix, my_lbp. destruct (String.eqb s "+"), (String.eqb s "*"), (String.eqb s "=="); cbn; intros; try lia; discriminate. Qed.
Lemma nv_c05_pratt_sound :
  let ts := [TSym "-"; TAtom false "a"; TSym "*"; TSym "("; TAtom true "1"; TSym "+"; TAtom false "b"; TSym ")"; TSym "+"; TAtom false "c";
             TSym "=="; TAtom false "d"] in
  exists t rest, Pratt.expr my_lbp my_infix 30 30 30 1 20 7 ts = inl (t, rest) /\
    rest = [TSym "=="; TAtom false "d"] /\ (flatten t ++ rest)%list = ts /\ grouped my_lbp t /\ cur_lbp my_lbp rest <= 7.
Proof.
  intro ts. destruct (Pratt.expr my_lbp my_infix 30 30 30 1 20 7 ts) as [[t rest]|] eqn:E; [|vm_compute in E; discriminate].
  exists t, rest. assert (0 <= 7) by lia.
  pose proof (C05.c05_pratt_sound my_lbp my_infix 30 30 30 1 my_table1 my_table2 20 7 ts t rest H E) as (F & G & _ & _ & L).
  split; [reflexivity|]. split; [vm_compute in E; inversion E; reflexivity|]. repeat split; assumption.
Qed.

(* c05_grouping / c05_complete / c05_unique: premises goat_parse = inl (t, []) ; grouped go_prec t, ops_ok is_binop t = true *)
Definition t5 : tree :=
  Bin "||" (Bin "&&" (Bin "==" (Bin "+" (Atom false "a") (Bin "*" (Un UNeg (Atom false "b")) (Paren (Bin "-" (Atom true "1") (Atom false "c")))))
                               (Bin "<<" (Atom false "d") (Atom true "2")))
                     (Un UNot (Atom false "e")))
           (Bin "<" (Atom false "f") (Bin "|" (Atom false "g") (Un UCompl (Atom false "h")))).
Lemma t5_grouped : grouped go_prec t5 /\ ops_ok is_binop t5 = true.
Proof.
  split; [|vm_compute; reflexivity].
  cbn -[Z.lt Z.le]. repeat split; try (vm_compute; intro; discriminate); try reflexivity;
    intros p H; inversion H; subst; vm_compute; try discriminate; reflexivity.
Qed.
Lemma nv_c05_complete_grouping :
  goat_parse (flatten t5) = inl (t5, []) /\
  (flatten t5 = flatten t5 /\ grouped go_prec t5 /\ ops_ok is_binop t5 = true).
Proof.
  destruct t5_grouped as [G O]. pose proof (C05.c05_complete t5 G O) as P. split; [exact P|].
  exact (C05.c05_grouping (flatten t5) t5 P).
Qed.
(* c05_unique: the mis-grouped tree with the same tokens is NOT grouped (so the premise set picks out one tree) *)
Lemma nv_c05_unique :
  let good := Bin "-" (Bin "<<" (Atom true "1") (Atom true "3")) (Atom true "1") in
  let bad := Bin "<<" (Atom true "1") (Bin "-" (Atom true "3") (Atom true "1")) in
  flatten good = flatten bad /\ grouped go_prec good /\ ops_ok is_binop good = true /\ ops_ok is_binop bad = true /\ ~ grouped go_prec bad.
Proof.
  intros good bad. split; [reflexivity|].
  assert (G : grouped go_prec good).
  { cbn -[Z.lt Z.le]. repeat split; try (vm_compute; intro; discriminate); try reflexivity;
      intros p H; inversion H; subst; vm_compute; try discriminate; reflexivity. }
  split; [exact G|]. split; [reflexivity|]. split; [reflexivity|].
  intro Gb. assert (E : good = bad) by (apply C05.c05_unique; try assumption; reflexivity). discriminate.
Qed.

(* ---- C08 ---------------------------------------------------------------------------------------------- *)
(* c08_refine: well_formed 1 os = true ; applied to a history with 3-level shadowing, redeclaration in the same block,
   sibling blocks and a global *)
Lemma nv_c08_refine :
  let os := [SDeclare "x"; SDeclare "y"; SBegin; SDeclare "x"; SDeclare "x"; SBegin; SDeclare "x"; SBegin; SDeclare "x"; SResolve "x"; SResolve "y";
             SEnd; SResolve "x"; SEnd; SResolve "x"; SEnd; SBegin; SDeclare "y"; SResolve "y"; SResolve "g"; SEnd; SResolve "x"; SResolve "y"; SEnd; SResolve "x"] in
  well_formed 1 os = true /\ c_run (c_begin new_scope) os = s_run (s_begin s_new) os /\
  s_run (s_begin s_new) os =
    [Some (Some 0); Some (Some 1); None; Some (Some 2); Some (Some 2); None; Some (Some 3); None; Some (Some 4); Some (Some 4); Some (Some 1);
     None; Some (Some 3); None; Some (Some 2); None; None; Some (Some 5); Some (Some 5); Some None; None; Some (Some 0); Some (Some 1); None; Some None]%nat.
Proof.
  intro os. assert (W : well_formed 1 os = true) by reflexivity.
  split; [exact W|]. split; [exact (C08.c08_refine os W)|]. vm_compute. reflexivity.
Qed.
(* c08_budget: chain_fuel m <= f with a 3-link chain x, ~x, ~~x *)
Lemma nv_c08_budget :
  let m := [("x", 3); ("~x", 2); ("~~x", 1); ("y", 0)]%nat in
  (chain_fuel m <= 9)%nat /\ shadow 9 m "x" = shadow (chain_fuel m) m "x" /\
  shadow 9 m "x" = [("~x", 3); ("~~x", 2); ("~~~x", 1); ("y", 0)]%nat /\
  shadow 2 m "x" <> shadow 9 m "x".
Proof.
  intro m. assert (L : (chain_fuel m <= 9)%nat) by (vm_compute; lia).
  split; [exact L|]. split; [exact (proj1 (C08.c08_budget m "x" 9%nat L))|]. split; [vm_compute; reflexivity|].
  vm_compute. discriminate.
Qed.
