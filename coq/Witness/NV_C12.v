(* non-vacuity witnesses for Props/C12.v: premise `Inv vzero m` on a table that is REACHABLE (built by Set / Delete from
   newIntMap), has crossed a growth threshold, holds collision chains and wrapped-around probe sequences *)
From Coq Require Import ZArith List Bool Lia.
From GV Require Import Model.IntMap Proofs.C12_intmap.
From GV Require Props.C12.
Import ListNotations.

Definition asg (new old : Z) : Z := (if old <? 0 then - Z.abs new else Z.abs new)%Z.   (* "keeps the declared type" = the sign *)
Definition set_all (ks : list Z) (m : option (@imap Z)) : option (@imap Z) :=
  fold_left (fun m k => match m with Some m => set 0%Z m k (k * 7 - 100)%Z | None => None end) ks m.
Lemma set_all_inv : forall ks m, Inv 0%Z m -> exists m', set_all ks (Some m) = Some m' /\ Inv 0%Z m'.
Proof.
  induction ks as [|k ks IH]; intros m I; [exists m; split; [reflexivity|exact I]|].
  destruct (C12.c12_set 0%Z asg m k (k * 7 - 100)%Z I) as (m' & E & I' & _).
  unfold set_all. cbn [fold_left]. rewrite E. exact (IH m' I').
Qed.
(* 15 keys = 15 mod 16 (one long chain wrapping around the end of the table), 10 more that force growth to 32 and 64 cells *)
Definition keys12 : list Z := (map (fun i => Z.of_nat (16 * i + 15)) (seq 0 15) ++ map (fun i => Z.of_nat (64 * i + 63)) (seq 3 12) ++ [-1; -17; 0])%Z.
Definition m12 : option (@imap Z) := Eval vm_compute in set_all keys12 (Some (newIntMap 0%Z 0)).
Lemma m12_inv : exists m, m12 = Some m /\ Inv 0%Z m /\ size m = 64 /\ len m = 30.
Proof.
  destruct (set_all_inv keys12 (newIntMap 0%Z 0) (proj1 (C12.c12_new 0%Z asg 0))) as (m & E & I).
  exists m. change (set_all keys12 (Some (newIntMap 0%Z 0))) with m12 in E. split; [exact E|]. split; [exact I|].
  unfold m12 in E. inversion E. split; reflexivity.
Qed.
(* covers c12_budget, c12_set, c12_assign, c12_delete, c12_len (all: Inv vzero m) *)
Lemma nv_c12_all : exists m, m12 = Some m /\ Inv 0%Z m /\
  (exists r, get 0%Z m 12345%Z = Some r) /\
  (exists m', assign 0%Z asg m (-17)%Z 5%Z = Some m' /\ Inv 0%Z m' /\ find 0%Z m' (-17)%Z = Some (-5)%Z /\ find 0%Z m' 15%Z = Some 5%Z) /\
  (exists m', assign 0%Z asg m 1%Z 5%Z = Some m' /\ find 0%Z m' 1%Z = None /\ len m' = 30) /\
  (exists m', delete 0%Z m 63%Z = Some m' /\ Inv 0%Z m' /\ find 0%Z m' 63%Z = None /\ find 0%Z m' 127%Z = Some 789%Z /\ len m' = 29) /\
  (exists ks, NoDup ks /\ length ks = 30 /\ (In 831%Z ks <-> find 0%Z m 831%Z <> None)).
Proof.
  destruct m12_inv as (m & E & I & Sz & Ln). exists m. split; [exact E|]. split; [exact I|].
  split; [exact (C12.c12_budget 0%Z asg m 12345%Z I)|].
  split. { destruct (C12.c12_assign 0%Z asg m (-17)%Z 5%Z I) as (m' & A & I' & F & O & _). exists m'. split; [exact A|]. split; [exact I'|].
           split; [rewrite F; unfold m12 in E; inversion E; vm_compute; reflexivity|].
           rewrite O by discriminate. unfold m12 in E; inversion E; vm_compute; reflexivity. }
  split. { destruct (C12.c12_assign 0%Z asg m 1%Z 5%Z I) as (m' & A & I' & F & O & L). exists m'. split; [exact A|].
           split; [rewrite F; unfold m12 in E; inversion E; vm_compute; reflexivity|]. rewrite L. exact Ln. }
  split. { destruct (C12.c12_delete 0%Z asg m 63%Z I) as (m' & A & I' & F & O & L). exists m'. split; [exact A|]. split; [exact I'|].
           split; [exact F|]. split; [rewrite O by discriminate; unfold m12 in E; inversion E; vm_compute; reflexivity|].
           rewrite L. unfold m12 in E; inversion E; vm_compute; reflexivity. }
  destruct (C12.c12_len 0%Z asg m I) as (ks & N & L & M). exists ks. split; [exact N|]. split; [rewrite L; exact Ln|]. apply M.
Qed.
(* find's default is not what makes c12_delete / c12_assign true: on the reachable table a key that is present is found,
   and deletion down to the shrink threshold (64 -> 32 -> 16 cells) keeps every remaining key *)
Lemma nv_c12_shrink : exists m, m12 = Some m /\
  match fold_left (fun m k => match m with Some m => delete 0%Z m k | None => None end) (firstn 25 keys12) (Some m) with
  | Some m' => size m' = 16 /\ len m' = 5 /\ map (find 0%Z m') (skipn 25 keys12) = map (fun k => Some (k * 7 - 100)%Z) (skipn 25 keys12)
               /\ map (find 0%Z m') (firstn 25 keys12) = repeat None 25
  | None => False
  end.
Proof. eexists. split; [reflexivity|]. vm_compute. repeat split; reflexivity. Qed.
