(* NV_C07C02 -- non-vacuity audit of Props/C07.v and Props/C02.v.
   Shared non-trivial oracles (a map backed by the globals, a struct with a method, a logging field and a panicking field),
   then Module M07 (C07) and Module M02 (C02).  Everything Qed; no axioms beyond Coq's primitive float/int63 (which the
   audited theorems themselves already depend on through the [value] type). *)
From Coq Require Import ZArith List String Bool Lia Floats.
From GV Require Import GoSpec.GoPrim Gen.ValueOps_gen Gen.Tables_gen Model.PeepTypes Model.VM Model.StackCheck Model.Peephole
  Gen.Steps_gen Proofs.C07_step Proofs.C07_sound Proofs.C02_rules Proofs.Steps_agree Props.C07 Props.C02.
Import ListNotations.
Open Scope string_scope.
Open Scope Z_scope.

(* ---------- shared non-trivial oracles ---------- *)
Definition my_grow (cap need : Z) : Z := 2 * need + 1.
Definition mapT : Z := fn_mapType TypeInt32 TypeInt32.
Definition structT : Z := fn_structType 5.
Definition mapV : value := refV mapT 1000.
Definition structV : value := refV structT 1001.
Definition is_map (r : value) : bool := Type_base (vt r) =? TypeMap.
Definition is_struct (r : value) : bool := Type_base (vt r) =? TypeStruct.

(* a "map" whose cells are the globals: m[k] reads global k, m[k] = v writes global k and logs k *)
Definition my_get (s : st) (r k : value) : option (res value) :=
  if is_map r then
    match znth (globals s) (Value_Int k) with Some v => Some (Ok v) | None => Some Panic end
  else None.
Definition my_set (s : st) (r k v : value) : option (res st) :=
  if is_map r then
    if Value_Int k <? 0 then Some Panic
    else Some (Ok (emit (set_global s (Value_Int k) v) [Value_Int k]))
  else None.
Definition my_len (s : st) (r : value) : option Z := if is_map r then Some (zlen (globals s)) else None.
(* a "struct": field 0 is a method (the function object at heap address 0), field 1 panics,
   field k returns k and logs it *)
Definition my_getattr (s : st) (r : value) (k : Z) : option (res (value * st)) :=
  if is_struct r then
    if k =? 0 then Some (Ok (refV TypeFunc 0, s))
    else if k =? 1 then Some Panic
    else Some (Ok (fn_Int k, emit s [k]))
  else None.
Definition my_setattr (s : st) (r : value) (k : Z) (v : value) : option (res st) :=
  if is_struct r then Some (Ok (fst (alloc s (HArr [v; fn_Int k])))) else None.


Module M07.

Lemma my_set_ok ng : forall s r k v s', st_ok ng s -> my_set s r k v = Some (Ok s') -> st_ok ng s'.
Proof.
  intros s r k v s' H E. unfold my_set in E. destruct (is_map r); [|discriminate].
  destruct (Value_Int k <? 0); [discriminate|]. injection E as <-.
  apply st_ok_emit, st_ok_set_global, H.
Qed.
Lemma my_getattr_ok ng : forall s r k v s', st_ok ng s -> my_getattr s r k = Some (Ok (v, s')) -> st_ok ng s'.
Proof.
  intros s r k v s' H E. unfold my_getattr in E. destruct (is_struct r); [|discriminate].
  destruct (k =? 0). { injection E as _ <-. exact H. }
  destruct (k =? 1); [discriminate|]. injection E as _ <-. apply st_ok_emit, H.
Qed.
Lemma my_setattr_ok ng : forall s r k v s', st_ok ng s -> my_setattr s r k v = Some (Ok s') -> st_ok ng s'.
Proof.
  intros s r k v s' H E. unfold my_setattr in E. destruct (is_struct r); [|discriminate].
  injection E as <-. apply st_ok_alloc; [exact H | exact I].
Qed.
(* the oracles are not the constant-None oracle: they really change the state *)
Lemma my_oracles_nontrivial :
  let s := mkSt [nilV; nilV; nilV] [] [] [] in
  my_set s mapV (fn_Int 2) (fn_Int 7) = Some (Ok (mkSt [nilV; nilV; fn_Int 7] [] [2] [])) /\
  my_get (mkSt [nilV; nilV; fn_Int 7] [] [2] []) mapV (fn_Int 2) = Some (Ok (fn_Int 7)) /\
  my_getattr s structV 5 = Some (Ok (fn_Int 5, mkSt [nilV; nilV; nilV] [] [5] [])) /\
  my_setattr s structV 5 nilV = Some (Ok (mkSt [nilV; nilV; nilV] [HArr [nilV; fn_Int 5]] [] [])).
Proof. vm_compute. repeat split; reflexivity. Qed.

Notation exec := (VM.exec my_grow my_get my_set my_len my_getattr my_setattr).
Notation call_fn := (VM.call_fn my_grow my_get my_set my_len my_getattr my_setattr).
Notation run := (VM.run my_grow my_get my_set my_len my_getattr my_setattr).

Definition sound ng := c07_sound my_grow my_get my_set my_len my_getattr my_setattr ng (my_set_ok ng) (my_getattr_ok ng) (my_setattr_ok ng).
Definition depth ng := c07_depth my_grow my_get my_set my_len my_getattr my_setattr ng (my_set_ok ng) (my_getattr_ok ng) (my_setattr_ok ng).
Definition runT ng := c07_run my_grow my_get my_set my_len my_getattr my_setattr ng (my_set_ok ng) (my_getattr_ok ng) (my_setattr_ok ng).
Definition frame ng := c07_frame my_grow my_get my_set my_len my_getattr my_setattr ng (my_set_ok ng) (my_getattr_ok ng) (my_setattr_ok ng).

(* ---------- program 1: c07_ex of Props/C07.v ---------- *)
Definition good := c07_ex (mkI c_LocalGet 0 0 0 0).
Definition s0 := mkSt [nilV; nilV; nilV] [] [] [].
Lemma good_checked : check_code 3 0 (Some 0) good = true. Proof. vm_compute. reflexivity. Qed.
Lemma s0_ok : st_ok 3 s0.
Proof. apply c07_init; [vm_compute; discriminate | constructor]. Qed.

(* the body of f, as a script function object *)
Definition fbody : list instr := firstn 24 (skipn 4 good).
Definition fobj : hobj := HFunc 1 2 false 0 3 [23; 23; 23] fbody.
Lemma fobj_ok : obj_ok 4 fobj /\ obj_ok 3 fobj.
Proof.
  split; cbn; (repeat split; try lia; try discriminate); exists 30%nat; vm_compute; reflexivity.
Qed.


(* c07_sound / c07_depth / c07_run on c07_ex with the non-trivial oracles *)
Lemma nv_c07_sound_1 : forall fuel w, exec fuel good 0 [] [] s0 = RStuck w -> heap_reason w.
Proof. intros fuel w. exact (sound 3 0 (Some 0) good fuel [] s0 w good_checked eq_refl s0_ok). Qed.

Lemma nv_c07_depth_1 :
  exists slots' ops' s', exec 1000 good 0 [] [] s0 = RDone slots' ops' s' /\
    map Value_Int (tl (globals s')) = [6; 4] /\ List.length (heap s') = 1%nat /\
    (zlen slots' = 0 /\ st_ok 3 s' /\ (forall n, Some 0 = Some n -> zlen ops' = n) /\
     exists pcx, 0 <= pcx <= zlen good /\ is_exit good pcx /\ depth_at good pcx = Some (zlen ops')).
Proof.
  destruct (exec 1000 good 0 [] [] s0) as [sl op s'| | | |] eqn:E;
    try (exfalso; vm_compute in E; discriminate).
  exists sl, op, s'. split; [reflexivity|].
  pose proof (depth 3 0 (Some 0) good 1000%nat [] s0 sl op s' good_checked eq_refl s0_ok E) as H.
  vm_compute in E. injection E as <- <- <-. repeat split; try reflexivity; apply H.
Qed.

Lemma nv_c07_run_1 :
  exists slots' s', run 1000 good 0 s0 = RDone slots' [] s' /\ zlen slots' = 0 /\ st_ok 3 s' /\
                    exists f, heap s' = [f] /\ obj_ok 3 f /\ match f with HFunc _ _ _ _ _ _ _ => True | _ => False end.
Proof.
  pose proof (runT 3 0 good 1000%nat s0 good_checked s0_ok) as H.
  destruct (run 1000 good 0 s0) as [sl op s'| | | |] eqn:E; try (exfalso; vm_compute in E; discriminate).
  destruct H as (-> & Hs & Hst). exists sl, s'. repeat split; try assumption; try apply Hst.
  vm_compute in E. injection E as <- <-. eexists. split; [reflexivity|]. split; [|exact I].
  destruct Hst as [_ Hh]. inversion Hh; subst. assumption.
Qed.

(* ---------- program 2: containers through ext_*, method call through ext_getattr ---------- *)
(* ng = 4, ns = 2.  globals: [map; struct; nil; nil]; heap: [f] (the script function of program 1). *)
Definition s2 : st := mkSt [mapV; structV; nilV; nilV] [fobj] [] [].
Lemma s2_ok : st_ok 4 s2.
Proof. split; [vm_compute; discriminate|]. constructor; [apply fobj_ok | constructor]. Qed.

Definition prog2 : list instr :=
  [ mkI c_GlobalGet 0 0 0 1; mkI c_LocalSet 0 0 0 1;               (* slot0 = the map *)
    mkI c_GlobalGet 1 0 0 2; mkI c_LocalSet 1 0 0 2;               (* slot1 = the struct *)
    mkI c_Push 5 0 0 3; mkI c_LocalGet 0 0 0 3; mkI c_Push 2 0 0 3; mkI c_Set 0 0 0 3;   (* m[2] = 5   (ext_set) *)
    mkI c_LocalGet 0 0 0 4; mkI c_Push 2 0 0 4; mkI c_Get 0 0 0 4;                       (* m[2]       (ext_get) *)
    mkI c_LocalGet 0 0 0 4; mkI c_Len 0 0 0 4; mkI c_Add 0 0 0 4;                        (* + len(m)   (ext_len) *)
    mkI c_FastSetInt 0 3 0 5;                                                            (* m[3] = .   (fused form) *)
    mkI c_FastGetInt 0 3 0 6; mkI c_Pop 0 0 0 6;
    mkI c_Push 9 0 0 7; mkI c_LocalGet 1 0 0 7; mkI c_SetAttr 7 0 0 7;                   (* s.f7 = 9   (ext_setattr) *)
    mkI c_LocalGet 1 0 0 8; mkI c_GetAttr 8 0 0 8; mkI c_Pop 0 0 0 8;                    (* s.f8       (ext_getattr) *)
    mkI c_Push 4 0 0 9; mkI c_LocalGet 1 0 0 9; mkI c_GetAttr 0 0 0 9; mkI c_Call 1 2 0 9;  (* s.f0(4): script function call *)
    mkI c_Pop 0 0 0 9; mkI c_Pop 0 0 0 9;
    mkI c_Push 3 0 0 10; mkI c_FastCallAttr 1 0 (joinParams 1 1) 10; mkI c_Pop 0 0 0 10 ].  (* fused method call, 1 result *)
Lemma prog2_checked : check_code 4 2 (Some 0) prog2 = true. Proof. vm_compute. reflexivity. Qed.

Lemma nv_c07_sound_2 : forall fuel w, run fuel prog2 2 s2 = RStuck w -> heap_reason w.
Proof. intros fuel w. exact (sound 4 2 (Some 0) prog2 fuel [nilV; nilV] s2 w prog2_checked eq_refl s2_ok). Qed.


Lemma nv_c07_run_2 :
  exists slots' s', run 1000 prog2 2 s2 = RDone slots' [] s' /\
     out s' = [2; 3; 8] /\ map Value_Int (skipn 2 (globals s')) = [5; 9] /\ List.length (heap s') = 2%nat /\
     zlen slots' = 2 /\ st_ok 4 s'.
Proof.
  pose proof (runT 4 2 prog2 1000%nat s2 prog2_checked s2_ok) as H.
  destruct (run 1000 prog2 2 s2) as [sl op s'| | | |] eqn:E; try (exfalso; vm_compute in E; discriminate).
  destruct H as (-> & Hs & Hst). exists sl, s'. split; [reflexivity|].
  vm_compute in E. injection E as <- <-. repeat split; try reflexivity; apply Hst.
Qed.
Lemma nv_c07_depth_2 :
  exists slots' ops' s', exec 1000 prog2 0 [nilV; nilV] [] s2 = RDone slots' ops' s' /\
    (zlen slots' = 2 /\ st_ok 4 s' /\ (forall n, Some 0 = Some n -> zlen ops' = n) /\
     exists pcx, 0 <= pcx <= zlen prog2 /\ is_exit prog2 pcx /\ depth_at prog2 pcx = Some (zlen ops')).
Proof.
  destruct (exec 1000 prog2 0 [nilV; nilV] [] s2) as [sl op s'| | | |] eqn:E;
    try (exfalso; vm_compute in E; discriminate).
  exists sl, op, s'. split; [reflexivity|].
  exact (depth 4 2 (Some 0) prog2 1000%nat [nilV; nilV] s2 sl op s' prog2_checked eq_refl s2_ok E).
Qed.
(* final = None (no constraint on the exit depth) and an exit through RETURN with operands left *)
Definition prog3 : list instr := [ mkI c_Push 1 0 0 0; mkI c_Push 2 0 0 0; mkI c_Return 0 0 0 0 ].
Lemma nv_c07_depth_3 :
  check_code 0 0 None prog3 = true /\ check_code 0 0 (Some 0) prog3 = false /\
  exists ops' s', exec 10 prog3 0 [] [] (mkSt [] [] [] []) = RDone [] ops' s' /\ zlen ops' = 2 /\
     exists pcx, 0 <= pcx <= zlen prog3 /\ is_exit prog3 pcx /\ depth_at prog3 pcx = Some (zlen ops').
Proof.
  assert (C : check_code 0 0 None prog3 = true) by (vm_compute; reflexivity).
  assert (S : st_ok 0 (mkSt [] [] [] [])) by (split; [vm_compute; discriminate | constructor]).
  split; [exact C|]. split; [vm_compute; reflexivity|].
  destruct (exec 10 prog3 0 [] [] (mkSt [] [] [] [])) as [sl op s'| | | |] eqn:E;
    try (exfalso; vm_compute in E; discriminate).
  pose proof (depth 0 0 None prog3 10%nat [] _ sl op s' C eq_refl S E) as H.
  vm_compute in E. injection E as <- <- <-. eexists; eexists. split; [reflexivity|]. split; [reflexivity|]. apply H.
Qed.

(* ---------- RStuck IS possible for checked code: the premise of c07_sound is satisfiable ---------- *)
(* GLOBALFUNC re-assigning a global whose function value points outside the heap *)
Definition prog_stuck : list instr := [ mkI c_GlobalGet 0 0 0 0; mkI c_GlobalFunc 0 0 0 0 ].
Definition s_dangling : st := mkSt [refV TypeFunc 7] [] [] [].
Lemma nv_c07_sound_stuck :
  check_code 1 0 (Some 0) prog_stuck = true /\ st_ok 1 s_dangling /\
  exec 10 prog_stuck 0 [] [] s_dangling = RStuck "func object" /\ heap_reason "func object".
Proof.
  assert (C : check_code 1 0 (Some 0) prog_stuck = true) by (vm_compute; reflexivity).
  assert (S : st_ok 1 s_dangling) by (split; [vm_compute; discriminate | constructor]).
  assert (E : exec 10 prog_stuck 0 [] [] s_dangling = RStuck "func object") by (vm_compute; reflexivity).
  repeat split; try assumption; try apply S.
  exact (sound 1 0 (Some 0) prog_stuck 10%nat [] s_dangling _ C eq_refl S E).
Qed.

(* heap_reason is exactly the two heap reasons: every other RStuck/SStuck string of Model/VM.v is excluded *)
Definition other_stuck_reasons : list string :=
  ["POP"; "binary operator"; "local slot"; "INCDEC"; "CONVERT"; "CAST"; "NEGATE"; "BITCOMPLEMENT"; "NOT"; "AND"; "OR";
   "GLOBALSET"; "global index"; "GLOBALFUNC"; "LOCALSET"; "JUMPFALSE"; "JUMPTRUE"; "PANIC"; "FUNC body"; "CALL";
   "GET"; "SET"; "FASTSETINT"; "FASTSET"; "GETATTR"; "SETATTR"; "FASTSETATTR"; "LEN"; "NEWSLICE"; "MAKE"; "RANGE";
   "SLICE"; "APPEND without operands"; "APPEND"; "COPY"; "native arguments"; "variadic arguments"; "arguments"].
Lemma nv_heap_reason_tight : Forall (fun w => ~ heap_reason w) other_stuck_reasons.
Proof. repeat constructor; intros [H|H]; discriminate H. Qed.
(* fuel exhaustion is its own constructor: exec with fuel 0 is RFuel, never RDone *)
Lemma nv_fuel_separate : forall codes pc sl op s, exec 0 codes pc sl op s = RFuel.
Proof. reflexivity. Qed.
(* an unchecked program IS stuck on a stack access in the model (so c07_sound is not true of all code) *)
Lemma nv_unchecked_stuck :
  check_code 0 0 (Some 0) [mkI c_Pop 0 0 0 0] = false /\ exec 10 [mkI c_Pop 0 0 0 0] 0 [] [] (mkSt [] [] [] []) = RStuck "POP".
Proof. vm_compute. split; reflexivity. Qed.

(* REMARK (weaker than it may read): creation of maps/structs (NEWMAP, STRUCT, NEWSTRUCT, GETOK, DELETE, SETMETHOD,
   GLOBALSTRUCT) is accepted by the checker but is RUnmod in the model: the C07 theorems say nothing about what
   happens after the first such instruction (the [| _ => True] branch of c07_run) *)
Lemma nv_c07_unmod :
  check_code 0 0 (Some 0) [mkI c_NewMap 0 0 0 0; mkI c_Pop 0 0 0 0] = true /\
  run 10 [mkI c_NewMap 0 0 0 0; mkI c_Pop 0 0 0 0] 0 (mkSt [] [] [] []) = RUnmod "opcode".
Proof. vm_compute. split; reflexivity. Qed.

(* ---------- c07_frame ---------- *)
(* (a) script function object on the heap *)
Lemma nv_c07_frame_script :
  exists ops' s', call_fn 1000 true 0 1 2 77 [fn_Int 4; fn_Int 99] s2 = COk ops' s' /\
    map Value_Int ops' = [4; 6; 99] /\
    st_ok 4 s' /\ exists results, zlen results = 2 /\ ops' = (results ++ skipn (Z.to_nat 1) [fn_Int 4; fn_Int 99])%list.
Proof.
  assert (Hxa : 0 <= 1 <= zlen [fn_Int 4; fn_Int 99]) by (vm_compute; split; discriminate).
  pose proof (frame 4 1000%nat true 0 1 2 77 [fn_Int 4; fn_Int 99] s2 s2_ok Hxa ltac:(lia)) as H.
  destruct (call_fn 1000 true 0 1 2 77 [fn_Int 4; fn_Int 99] s2) as [o s'|r] eqn:E; [|exfalso; vm_compute in E; discriminate].
  exists o, s'. split; [reflexivity|]. split; [|exact H].
  vm_compute in E. injection E as <- _. reflexivity.
Qed.
(* (b) variadic script function: func(xs ...int) int { return len(xs) } called with 3 arguments *)
Definition vbody : list instr := [ mkI c_LocalGet 0 0 0 0; mkI c_Len 0 0 0 0; mkI c_Return 1 0 0 0 ].
Definition vobj : hobj := HFunc 1 1 true (fn_sliceType 23) 1 [fn_sliceType 23; 23] vbody.
Definition s3 : st := mkSt [nilV] [HNative "builtin.println"; vobj; fobj; HOpaque] [] [].
Lemma s3_ok : st_ok 1 s3.
Proof.
  split; [vm_compute; discriminate|]. constructor; [exact I|]. constructor.
  { cbn. repeat split; try lia. exists 10%nat. vm_compute. reflexivity. }
  constructor. { cbn. repeat split; try lia; try discriminate. exists 30%nat. vm_compute. reflexivity. }
  constructor; [exact I | constructor].
Qed.
Definition ops3 : list value := [fn_Int 1; fn_Int 2; fn_Int 3; fn_Int 99].
Lemma nv_c07_frame_variadic :
  exists ops' s', call_fn 1000 true 1 3 1 77 ops3 s3 = COk ops' s' /\
    map Value_Int ops' = [3; 99] /\ List.length (heap s') = 6%nat /\
    st_ok 1 s' /\ exists results, zlen results = 1 /\ ops' = (results ++ skipn (Z.to_nat 3) ops3)%list.
Proof.
  assert (Hxa : 0 <= 3 <= zlen ops3) by (vm_compute; split; discriminate).
  pose proof (frame 1 1000%nat true 1 3 1 77 ops3 s3 s3_ok Hxa ltac:(lia)) as H.
  destruct (call_fn 1000 true 1 3 1 77 ops3 s3) as [o s'|r] eqn:E; [|exfalso; vm_compute in E; discriminate].
  exists o, s'. split; [reflexivity|]. split; [|split; [|exact H]];
  vm_compute in E; injection E as <- <-; reflexivity.
Qed.
(* (c) native of the print family *)
Lemma nv_c07_frame_native :
  exists ops' s', call_fn 1000 true 0 2 0 77 ops3 s3 = COk ops' s' /\
    map Value_Int ops' = [3; 99] /\ out s' = [50; 32; 49; 10] /\
    st_ok 1 s' /\ exists results, zlen results = 0 /\ ops' = (results ++ skipn (Z.to_nat 2) ops3)%list.
Proof.
  assert (Hxa : 0 <= 2 <= zlen ops3) by (vm_compute; split; discriminate).
  pose proof (frame 1 1000%nat true 0 2 0 77 ops3 s3 s3_ok Hxa ltac:(lia)) as H.
  destruct (call_fn 1000 true 0 2 0 77 ops3 s3) as [o s'|r] eqn:E; [|exfalso; vm_compute in E; discriminate].
  exists o, s'. split; [reflexivity|]. split; [|split; [|exact H]];
  vm_compute in E; injection E as <- <-; reflexivity.
Qed.
(* (d) the error branches: wrong argument count, non-function object, and the reason the premise
   0 <= xa <= zlen ops is needed (without it call_fn is stuck on a stack access) *)
Lemma nv_c07_frame_errors :
  call_fn 1000 true 2 2 2 77 ops3 s3 = CErr (RFail "incorrect args" 77 s3) /\
  call_fn 1000 true 3 0 0 77 ops3 s3 = CErr (RFail "interface conversion" 77 s3) /\
  call_fn 1000 true 2 1 2 77 [] s3 = CErr (RStuck "arguments") /\ ~ heap_reason "arguments".
Proof. repeat split; try (vm_compute; reflexivity). intros [H|H]; discriminate H. Qed.

(* ---------- c07_init ---------- *)
Lemma nv_c07_init :
  st_ok 2 (mkSt [nilV; fn_Int 3; refV TypeFunc 0] [HNative "builtin.println"; HArr [fn_Int 1]; HSlice 23 1 0 1 1; HOpaque] [10] [4]).
Proof. apply c07_init; [vm_compute; discriminate | repeat constructor]. Qed.
(* ... and c07_init is not the only way to get st_ok: s2, s3 hold HFunc objects (s2_ok, s3_ok) *)

End M07.

Module M02.

Lemma my_get_key : forall s r k k', vnum k = vnum k' -> vval k = vval k' -> my_get s r k = my_get s r k'.
Proof. intros s r k k' Hn Hv. unfold my_get, Value_Int. rewrite Hn. reflexivity. Qed.
Lemma my_set_key : forall s r k k' v, vnum k = vnum k' -> vval k = vval k' -> my_set s r k v = my_set s r k' v.
Proof. intros s r k k' v Hn Hv. unfold my_set, Value_Int. rewrite Hn. reflexivity. Qed.
(* the oracle does depend on the key *)
Lemma my_get_depends_on_key :
  let s := mkSt [fn_Int 10; fn_Int 11] [] [] [] in
  my_get s mapV (fn_Int 0) = Some (Ok (fn_Int 10)) /\ my_get s mapV (fn_Int 1) = Some (Ok (fn_Int 11)) /\
  my_get s mapV (fn_Int 2) = Some Panic.
Proof. vm_compute. repeat split; reflexivity. Qed.

Notation step1 := (VM.step1 my_grow my_get my_set my_len my_getattr my_setattr).
Notation run_window := (C02_rules.run_window my_grow my_get my_set my_len my_getattr my_setattr).
Notation exec := (VM.exec my_grow my_get my_set my_len my_getattr my_setattr).
Definition rules := c02_rules my_grow my_get my_set my_len my_getattr my_setattr.

Definition dr : rule := mkRule [] [] "" OZero OZero OZero 0.
Definition R (k : nat) : rule := nth k peephole_rules dr.
Lemma len_rules : List.length peephole_rules = 16%nat. Proof. reflexivity. Qed.
Ltac in_rules := unfold R; apply nth_In; rewrite len_rules; lia.

Definition sA : st := mkSt [fn_Int 10; fn_Int 11; fn_Int 12; refV TypeFunc 0] [M07.fobj] [] [].


Ltac nv_rule k G :=
  split; [exact G|]; split; [vm_compute; reflexivity|]; split; [|vm_compute; reflexivity];
  apply (rules (R k)); [in_rules | reflexivity | vm_compute; reflexivity | exact G].

(* rule 0: LOCALGET a; INCDEC n; LOCALSET a -> LOCALINCDEC a n   (guard: the slot is numeric) *)
Definition w0 := [mkI c_LocalGet 0 0 0 1; mkI c_IncDec 1 0 0 2; mkI c_LocalSet 0 0 0 3].
Lemma nv_c02_rules_localincdec :
  guard (R 0) w0 [fn_Int 41] [] = true /\
  run_window [] 5 w0 [fn_Int 41] [] sA = SNext [fn_Int 42] [] sA /\
  sres_equiv (run_window [] 5 w0 [fn_Int 41] [] sA) (step1 [] 9 (fused (R 0) w0) [fn_Int 41] [] sA) /\
  step1 [] 9 (fused (R 0) w0) [fn_Int 41] [] sA = SNext [fn_Int 42] [] sA.
Proof.
  assert (G : guard (R 0) w0 [fn_Int 41] [] = true) by (vm_compute; reflexivity). nv_rule 0%nat G.
Qed.
(* the guard is false for a non-numeric slot (c02_rules is silent there) *)
Lemma nv_c02_guard_localincdec_false : guard (R 0) w0 [fn_String [65]] [] = false.
Proof. vm_compute. reflexivity. Qed.

(* rule 7: LOCALGET a; PUSH n; GET -> FASTGETINT a n, on the oracle map (reads global 2) *)
Definition w7 := [mkI c_LocalGet 0 0 0 1; mkI c_Push 2 0 0 2; mkI c_Get 0 0 0 3].
Lemma nv_c02_rules_fastgetint_ext :
  guard (R 7) w7 [mapV] [] = true /\
  run_window [] 5 w7 [mapV] [] sA = SNext [mapV] [fn_Int 12] sA /\
  sres_equiv (run_window [] 5 w7 [mapV] [] sA) (step1 [] 9 (fused (R 7) w7) [mapV] [] sA) /\
  step1 [] 9 (fused (R 7) w7) [mapV] [] sA = SNext [mapV] [fn_Int 12] sA.
Proof.
  assert (G : guard (R 7) w7 [mapV] [] = true) by (vm_compute; reflexivity). nv_rule 7%nat G.
Qed.
(* the same rule on a modelled slice []int{10,20,30} *)
Definition sS : st := mkSt [] [HArr [fn_Int 10; fn_Int 20; fn_Int 30]; HSlice 23 0 0 3 3] [] [].
Definition sliceV : value := refV (fn_sliceType 23) 1.
Lemma nv_c02_rules_fastgetint_slice :
  guard (R 7) w7 [sliceV] [] = true /\
  run_window [] 5 w7 [sliceV] [] sS = SNext [sliceV] [fn_Int 30] sS /\
  sres_equiv (run_window [] 5 w7 [sliceV] [] sS) (step1 [] 9 (fused (R 7) w7) [sliceV] [] sS) /\
  step1 [] 9 (fused (R 7) w7) [sliceV] [] sS = SNext [sliceV] [fn_Int 30] sS.
Proof.
  assert (G : guard (R 7) w7 [sliceV] [] = true) by (vm_compute; reflexivity). nv_rule 7%nat G.
Qed.
(* a failing window: index out of range -> the same SFail on both sides *)
Definition w7' := [mkI c_LocalGet 0 0 0 1; mkI c_Push 3 0 0 2; mkI c_Get 0 0 0 3].
Lemma nv_c02_rules_fastgetint_fail :
  guard (R 7) w7' [sliceV] [] = true /\
  run_window [] 5 w7' [sliceV] [] sS = SFail "runtime error" sS /\
  sres_equiv (run_window [] 5 w7' [sliceV] [] sS) (step1 [] 9 (fused (R 7) w7') [sliceV] [] sS) /\
  step1 [] 9 (fused (R 7) w7') [sliceV] [] sS = SFail "runtime error" sS.
Proof.
  assert (G : guard (R 7) w7' [sliceV] [] = true) by (vm_compute; reflexivity). nv_rule 7%nat G.
Qed.

(* rule 8: LOCALGET a; PUSH n; SET -> FASTSETINT a n, on the oracle map (writes global 2, logs 2) *)
Definition w8 := [mkI c_LocalGet 0 0 0 1; mkI c_Push 2 0 0 2; mkI c_Set 0 0 0 3].
Lemma nv_c02_rules_fastsetint :
  guard (R 8) w8 [mapV] [fn_Int 5; fn_Int 99] = true /\
  run_window [] 5 w8 [mapV] [fn_Int 5; fn_Int 99] sA = SNext [mapV] [fn_Int 99] (emit (set_global sA 2 (fn_Int 5)) [2]) /\
  sres_equiv (run_window [] 5 w8 [mapV] [fn_Int 5; fn_Int 99] sA) (step1 [] 9 (fused (R 8) w8) [mapV] [fn_Int 5; fn_Int 99] sA) /\
  step1 [] 9 (fused (R 8) w8) [mapV] [fn_Int 5; fn_Int 99] sA = SNext [mapV] [fn_Int 99] (emit (set_global sA 2 (fn_Int 5)) [2]).
Proof.
  assert (G : guard (R 8) w8 [mapV] [fn_Int 5; fn_Int 99] = true) by (vm_compute; reflexivity). nv_rule 8%nat G.
Qed.

(* rule 9: LOCALGET a; GETATTR f; CALL n m -> FASTCALLATTR a f join(n, m): a call request on the method *)
Definition w9 := [mkI c_LocalGet 0 0 0 1; mkI c_GetAttr 0 0 0 2; mkI c_Call 1 2 0 3].
Lemma nv_c02_rules_fastcallattr :
  guard (R 9) w9 [structV] [fn_Int 4] = true /\
  run_window [] 5 w9 [structV] [fn_Int 4] sA = SCall true 0 1 2 [structV] [fn_Int 4] sA /\
  sres_equiv (run_window [] 5 w9 [structV] [fn_Int 4] sA) (step1 [] 9 (fused (R 9) w9) [structV] [fn_Int 4] sA) /\
  step1 [] 9 (fused (R 9) w9) [structV] [fn_Int 4] sA = SCall true 0 1 2 [structV] [fn_Int 4] sA.
Proof.
  assert (G : guard (R 9) w9 [structV] [fn_Int 4] = true) by (vm_compute; reflexivity). nv_rule 9%nat G.
Qed.
(* with an attribute read that changes the state (field 5: logs 5, returns the non-function 5) *)
Definition w9' := [mkI c_LocalGet 0 0 0 1; mkI c_GetAttr 5 0 0 2; mkI c_Call 1 2 0 3].
Lemma nv_c02_rules_fastcallattr_2 :
  guard (R 9) w9' [structV] [fn_Int 4] = true /\
  run_window [] 5 w9' [structV] [fn_Int 4] sA = SFail "interface conversion" (emit sA [5]) /\
  sres_equiv (run_window [] 5 w9' [structV] [fn_Int 4] sA) (step1 [] 9 (fused (R 9) w9') [structV] [fn_Int 4] sA) /\
  step1 [] 9 (fused (R 9) w9') [structV] [fn_Int 4] sA = SFail "interface conversion" (emit sA [5]).
Proof.
  assert (G : guard (R 9) w9' [structV] [fn_Int 4] = true) by (vm_compute; reflexivity). nv_rule 9%nat G.
Qed.

(* rule 10: GLOBALGET g; CALL -> FASTCALL *)
Definition w10 := [mkI c_GlobalGet 3 0 0 1; mkI c_Call 1 2 0 3].
Lemma nv_c02_rules_fastcall :
  guard (R 10) w10 [] [fn_Int 4] = true /\
  run_window [] 5 w10 [] [fn_Int 4] sA = SCall true 0 1 2 [] [fn_Int 4] sA /\
  sres_equiv (run_window [] 5 w10 [] [fn_Int 4] sA) (step1 [] 9 (fused (R 10) w10) [] [fn_Int 4] sA) /\
  step1 [] 9 (fused (R 10) w10) [] [fn_Int 4] sA = SCall true 0 1 2 [] [fn_Int 4] sA.
Proof.
  assert (G : guard (R 10) w10 [] [fn_Int 4] = true) by (vm_compute; reflexivity). nv_rule 10%nat G.
Qed.

(* rule 13: PUSH n; ADD -> INCDEC n, negative n on a typed integer *)
Definition w13 := [mkI c_Push (-3) 0 0 1; mkI c_Add 0 0 0 2].
Lemma nv_c02_rules_incdec_add :
  guard (R 13) w13 [] [fn_Int 10] = true /\
  run_window [] 5 w13 [] [fn_Int 10] sA = SNext [] [fn_Int 7] sA /\
  sres_equiv (run_window [] 5 w13 [] [fn_Int 10] sA) (step1 [] 9 (fused (R 13) w13) [] [fn_Int 10] sA) /\
  step1 [] 9 (fused (R 13) w13) [] [fn_Int 10] sA = SNext [] [fn_Int 7] sA.
Proof.
  assert (G : guard (R 13) w13 [] [fn_Int 10] = true) by (vm_compute; reflexivity). nv_rule 13%nat G.
Qed.
(* rule 14: PUSH n; SUB -> INCDEC (-n), on a float64 operand 2.5 *)
Definition w14 := [mkI c_Push 3 0 0 1; mkI c_Sub 0 0 0 2].
Definition f25 : value := mkValue TypeFloat64 (Fn 2.5%float) PNone.
Lemma nv_c02_rules_incdec_sub :
  guard (R 14) w14 [] [f25] = true /\
  run_window [] 5 w14 [] [f25] sA = SNext [] [mkValue TypeFloat64 (Fn (-0.5)%float) PNone] sA /\
  sres_equiv (run_window [] 5 w14 [] [f25] sA) (step1 [] 9 (fused (R 14) w14) [] [f25] sA) /\
  step1 [] 9 (fused (R 14) w14) [] [f25] sA = SNext [] [mkValue TypeFloat64 (Fn (-0.5)%float) PNone] sA.
Proof.
  assert (G : guard (R 14) w14 [] [f25] = true) by (vm_compute; reflexivity). nv_rule 14%nat G.
Qed.
(* where the guard of the INCDEC rules is FALSE although the optimizer fires: negative constant on a float64 or on an
   untyped constant operand (c02_rules is silent there; Proofs/C02_rules.v c02_rule_sound_ieee covers it) *)
Lemma nv_c02_guard_incdec_false :
  rule_matches (R 13) w13 = true /\ guard (R 13) w13 [] [f25] = false /\ guard (R 13) w13 [] [fn_newUntypedInt 10] = false /\
  run_window [] 5 w13 [] [f25] sA = step1 [] 9 (fused (R 13) w13) [] [f25] sA.
Proof. vm_compute. repeat split; reflexivity. Qed.

(* where a FALSE guard hides a genuine difference (documented in the comment of c02_rules): x++ on a local holding a string
   (the window re-tags through LOCALSET, LOCALINCDEC does not).  The other candidate, PUSH 0; SUB on the float64 -0.0
   (-0.0 - 0 = -0.0 but incDec(0) = +0.0), is NOT fused: the generated rule carries the side condition "constant <> 0" *)
Definition w14z := [mkI c_Push 0 0 0 1; mkI c_Sub 0 0 0 2].
Lemma remark_c02_guard_false_differs :
  rule_matches (R 0) w0 = true /\ guard (R 0) w0 [fn_String [65]] [] = false /\
  ~ sres_equiv (run_window [] 5 w0 [fn_String [65]] [] sA) (step1 [] 9 (fused (R 0) w0) [fn_String [65]] [] sA) /\
  rule_matches (R 14) w14z = false /\ first_match peephole_rules w14z = None.
Proof.
  split; [vm_compute; reflexivity|]. split; [vm_compute; reflexivity|]. split.
  - assert (E1 : run_window [] 5 w0 [fn_String [65]] [] sA = SNext [mkValue TypeInt32 (Zn 1) PNone] [] sA) by (vm_compute; reflexivity).
    assert (E2 : step1 [] 9 (fused (R 0) w0) [fn_String [65]] [] sA = SNext [mkValue untypedInt (Zn 1) PNone] [] sA) by (vm_compute; reflexivity).
    rewrite E1, E2. intros [H | (sl & op & s & [[H1 H2] | [H1 H2]])]; discriminate.
  - vm_compute. split; reflexivity.
Qed.

(* rule 15: JUMP 0 -> PASS: the only use of the second disjunct of sres_equiv *)
Definition w15 := [mkI c_Jump 0 0 0 1].
Lemma nv_c02_rules_jump0 :
  guard (R 15) w15 [] [] = true /\
  run_window [] 5 w15 [] [] sA = SJump 0 [] [] sA /\
  sres_equiv (run_window [] 5 w15 [] [] sA) (step1 [] 9 (fused (R 15) w15) [] [] sA) /\
  step1 [] 9 (fused (R 15) w15) [] [] sA = SNext [] [] sA.
Proof.
  assert (G : guard (R 15) w15 [] [] = true) by (vm_compute; reflexivity). nv_rule 15%nat G.
Qed.

(* c02_guards_satisfiable: instantiated at every rule (it has no premises beyond membership) -- note that its generic witness
   (all operands 0, one int32 slot, one int32 operand) makes the GET/SET/ATTR/CALL windows fail or be stuck on both sides;
   the lemmas above give executing witnesses for 8 of the 16 rules *)
Lemma nv_c02_guards_satisfiable : forall k, (k < 16)%nat ->
  exists w slots ops, List.length w = rule_len (R k) /\ rule_matches (R k) w = true /\ guard (R k) w slots ops = true.
Proof.
  intros k Hk. apply c02_guards_satisfiable. in_rules.
Qed.

(* ---------- what sres_equiv identifies: nothing but SJump 0 ~ SNext ---------- *)
Lemma nv_sres_equiv_strict :
  ~ sres_equiv (SFail "a" sA) (SFail "b" sA) /\                         (* messages are compared *)
  ~ sres_equiv (SFail "a" sA) (SFail "a" (emit sA [1])) /\              (* states are compared *)
  ~ sres_equiv (SStuck "a") (SStuck "b") /\                             (* even stuck diagnostics are compared *)
  ~ sres_equiv (SNext [] [] sA) (SNext [] [fn_Int 1] sA) /\
  ~ sres_equiv (SJump 1 [] [] sA) (SNext [] [] sA).
Proof.
  repeat split; intros [H | (sl & op & s & [[H1 H2] | [H1 H2]])]; discriminate.
Qed.
(* REMARK: sres carries no source position.  exec attaches [ipos] of the instruction that fails, and the fused
   instruction carries the position of the LAST window instruction; when an EARLIER window instruction fails (GETATTR in
   LOCALGET;GETATTR;CALL), the unoptimized and optimized RUNS differ in the error position although c02_rules holds. *)
Definition w9p := [mkI c_LocalGet 0 0 0 1; mkI c_GetAttr 1 0 0 2; mkI c_Call 1 2 0 3].
Lemma remark_c02_rules_position :
  rule_matches (R 9) w9p = true /\ guard (R 9) w9p [structV] [fn_Int 4] = true /\
  exec 10 w9p 0 [structV] [fn_Int 4] sA = RFail "runtime error" 2 sA /\
  exec 10 [fused (R 9) w9p] 0 [structV] [fn_Int 4] sA = RFail "runtime error" 3 sA.
Proof. vm_compute. repeat split; reflexivity. Qed.

(* ---------- c02_optimizer_shape: opt_rel is the graph of do_optimize (deterministic) ---------- *)
Lemma opt_rel_fun rs : forall code o1, opt_rel rs code o1 -> forall o2, opt_rel rs code o2 -> o1 = o2.
Proof.
  induction 1 as [| i rest out Hm _ IH | code r out Hm Hne _ IH]; intros o2 H2.
  - inversion H2; subst; [reflexivity | congruence].
  - inversion H2; subst.
    + f_equal. apply IH. assumption.
    + congruence.
  - inversion H2; subst.
    + contradiction.
    + congruence.
    + assert (r0 = r) by congruence. subst r0. f_equal. apply IH. assumption.
Qed.
Lemma nv_opt_rel_exact : forall code out, opt_rel peephole_rules code out -> out = do_optimize peephole_rules code.
Proof. intros code out H. exact (opt_rel_fun _ _ _ H _ (c02_optimizer_shape code)). Qed.
(* so the identity is NOT allowed on a code that has a matching window, nor is arbitrary output *)
Definition codeX := [mkI c_Push 1 0 0 1; mkI c_LocalGet 0 0 0 2; mkI c_LocalGet 1 0 0 3; mkI c_Add 0 0 0 4; mkI c_Pop 0 0 0 5].
Lemma nv_c02_optimizer_shape :
  opt_rel peephole_rules codeX [mkI c_Push 1 0 0 1; mkI c_LocalAdd 0 1 0 4; mkI c_Pop 0 0 0 5] /\
  ~ opt_rel peephole_rules codeX codeX /\ ~ opt_rel peephole_rules codeX [].
Proof.
  assert (E : do_optimize peephole_rules codeX = [mkI c_Push 1 0 0 1; mkI c_LocalAdd 0 1 0 4; mkI c_Pop 0 0 0 5])
    by (vm_compute; reflexivity).
  split; [rewrite <- E; apply c02_optimizer_shape|].
  split; intro H; apply nv_opt_rel_exact in H; rewrite E in H; discriminate H.
Qed.
(* first matching rule wins: PUSH n; ADD could not be reached before LOCALGET;LOCALGET;ADD ... and rule order matters
   for LOCALGET a; PUSH n; ADD: rule 13 fires at the PUSH, not at the LOCALGET *)
Lemma nv_c02_first_match :
  do_optimize peephole_rules [mkI c_LocalGet 0 0 0 1; mkI c_Push 2 0 0 2; mkI c_Add 0 0 0 3] =
    [mkI c_LocalGet 0 0 0 1; mkI c_IncDec 2 0 0 3].
Proof. vm_compute. reflexivity. Qed.


(* ---------- the link between c02_optimizer_shape and c02_rules ----------
   Stated in Props/C02.v as c02_shape_meets_rules since the audit (it was proved here first, as nv_window_of_suffix /
   nv_shape_meets_rules; the proofs moved to Proofs/C02_rules.v window_of_suffix / shape_meets_rules).  Instance: in codeX
   the optimizer's fusion step at the suffix starting with LOCALGET 0 is an instance of c02_rules, executed. *)
Lemma nv_shape_meets_rules :
  let suffix := tl codeX in
  first_match peephole_rules suffix = Some (R 1) /\
  fused (R 1) (firstn 3 suffix) = fused (R 1) suffix /\
  sres_equiv (run_window [] 1 (firstn 3 suffix) [fn_Int 3; fn_Int 4] [] sA) (step1 [] 1 (fused (R 1) suffix) [fn_Int 3; fn_Int 4] [] sA) /\
  step1 [] 1 (fused (R 1) suffix) [fn_Int 3; fn_Int 4] [] sA = SNext [fn_Int 3; fn_Int 4] [fn_Int 7] sA.
Proof.
  cbv zeta.
  assert (F : first_match peephole_rules (tl codeX) = Some (R 1)) by (vm_compute; reflexivity).
  destruct (c02_shape_meets_rules my_grow my_get my_set my_len my_getattr my_setattr my_get_key my_set_key _ _ F)
    as (_ & _ & _ & Hf & Hs).
  split; [exact F|]. split; [exact Hf|]. split; [|vm_compute; reflexivity].
  apply Hs. vm_compute. reflexivity.
Qed.

(* REMARK: no theorem of Props/C02.v lifts the window equivalence to whole runs, and for ARBITRARY code it could not:
   do_optimize shrinks the list without touching relative jump operands (the compiler relies on optimizing each block
   before measuring jump distances).  A jump over a fusible window: *)
Definition codeJ := [mkI c_Jump 3 0 0 1; mkI c_LocalGet 0 0 0 2; mkI c_LocalGet 1 0 0 3; mkI c_Add 0 0 0 4; mkI c_Push 7 0 0 5].
Lemma remark_c02_not_whole_program :
  do_optimize peephole_rules codeJ = [mkI c_Jump 3 0 0 1; mkI c_LocalAdd 0 1 0 4; mkI c_Push 7 0 0 5] /\
  exec 10 codeJ 0 [fn_Int 1; fn_Int 2] [] sA = RDone [fn_Int 1; fn_Int 2] [fn_newUntypedInt 7] sA /\
  exec 10 (do_optimize peephole_rules codeJ) 0 [fn_Int 1; fn_Int 2] [] sA = RDone [fn_Int 1; fn_Int 2] [] sA.
Proof. vm_compute. repeat split; reflexivity. Qed.

(* ---------- c02_steps_from_source / c02_steps_cover ---------- *)
Lemma nv_c02_steps_from_source :
  let i := mkI c_Add 0 0 0 7 in
  step_gen i [] [fn_Int 2; fn_Int 3] sA = Some (SNext [] [fn_Int 5] sA) /\
  sres_same (SNext [] [fn_Int 5] sA) (step1 [] 0 i [] [fn_Int 2; fn_Int 3] sA) /\
  step1 [] 0 i [] [fn_Int 2; fn_Int 3] sA = SNext [] [fn_Int 5] sA.
Proof.
  intro i. assert (E : step_gen i [] [fn_Int 2; fn_Int 3] sA = Some (SNext [] [fn_Int 5] sA)) by (vm_compute; reflexivity).
  split; [exact E|]. split; [|vm_compute; reflexivity].
  exact (c02_steps_from_source my_grow my_get my_set my_len my_getattr my_setattr [] 0 i [] _ sA _ E).
Qed.
(* a failing and a jumping instance: division by zero, JUMPFALSE taken *)
Lemma nv_c02_steps_from_source_2 :
  step_gen (mkI c_Div 0 0 0 7) [] [fn_Int 0; fn_Int 3] sA = Some (SFail "runtime error" sA) /\
  step1 [] 0 (mkI c_Div 0 0 0 7) [] [fn_Int 0; fn_Int 3] sA = SFail "runtime error" sA /\
  step_gen (mkI c_JumpFalse 4 0 0 7) [] [fn_Bool false] sA = Some (SJump 4 [] [] sA) /\
  step1 [] 0 (mkI c_JumpFalse 4 0 0 7) [] [fn_Bool false] sA = SJump 4 [] [] sA.
Proof. vm_compute. repeat split; reflexivity. Qed.
(* the only place where sres_same is used as more than equality: stuck diagnostics *)
Lemma nv_c02_steps_stuck :
  step_gen (mkI c_Pop 0 0 0 7) [] [] sA = Some (SStuck "operands") /\
  step1 [] 0 (mkI c_Pop 0 0 0 7) [] [] sA = SStuck "POP" /\
  sres_same (SStuck "operands") (SStuck "POP") /\
  sres_same (SStuck "operands") (SStuck "global index") /\        (* REMARK: coarser than the comment admits *)
  ~ sres_same (SFail "a" sA) (SFail "b" sA) /\ ~ sres_same (SNext [] [] sA) (SJump 0 [] [] sA).
Proof.
  split; [vm_compute; reflexivity|]. split; [vm_compute; reflexivity|].
  split; [right; eauto|]. split; [right; eauto|].
  split; intros [H | (w1 & w2 & H1 & H2)]; discriminate.
Qed.
(* the premise is satisfiable exactly on the translated opcodes; it is None on the container/call opcodes *)
Lemma nv_c02_steps_cover :
  (forall slots ops s, step_gen (mkI c_LocalIncDec 0 1 0 0) slots ops s <> None) /\
  step_gen (mkI c_Get 0 0 0 0) [] [] sA = None /\ step_gen (mkI c_Call 0 0 0 0) [] [] sA = None /\
  step_gen (mkI c_FastGetInt 0 0 0 0) [] [] sA = None /\ step_gen (mkI c_GetAttr 0 0 0 0) [] [] sA = None.
Proof.
  split; [|vm_compute; repeat split; reflexivity].
  intros slots ops s. apply (proj2 (c02_steps_cover "codeLocalIncDec" ltac:(cbn; tauto))). reflexivity.
Qed.

End M02.

Print Assumptions M07.nv_c07_run_2.
Print Assumptions M02.nv_shape_meets_rules.
Print Assumptions M02.nv_c02_optimizer_shape.
