(* non-vacuity witnesses for Props/C16.v *)
From Coq Require Import ZArith List String Bool Permutation Sorted Lia.
From GV Require Import Model.TreeSort Gen.Tables_gen Proofs.C16_sort.
From GV Require Props.C16.
Import ListNotations.
Open Scope string_scope.
Open Scope Z_scope.

(* top-level nodes: (symbol, identity); priority from the generated table *)
Definition node := (string * nat)%type.
Definition np (x : node) : Z := prio_of priority (fst x).
Definition hoistable (x : node) : bool := String.eqb (fst x) "function" || String.eqb (fst x) "method" || String.eqb (fst x) "type".
(* two layouts of one package: hoistable declarations permuted / moved across "files", the rest in sequence *)
Definition lay1 : list node :=
  [("package", 0); ("var", 1); ("function", 2); ("const", 3); ("method", 4); ("call", 5); ("function", 6); ("init", 7); ("type", 8);
   ("import", 9); ("method", 10); ("var", 11); ("function", 12); ("const", 13)]%nat.
Definition lay2 : list node :=
  [("package", 0); ("function", 12); ("method", 10); ("var", 1); ("const", 3); ("type", 8); ("call", 5); ("init", 7);
   ("import", 9); ("function", 2); ("var", 11); ("function", 6); ("const", 13); ("method", 4)]%nat.
Lemma lay_equiv : hoist_equiv np hoistable lay1 lay2.
Proof.
  split; [reflexivity|]. intro p.
  destruct (Z.eq_dec p 50) as [->|N50].
  { vm_compute. apply Permutation_sym.
    apply (Permutation_cons_app [("function", 2%nat); ("function", 6%nat)] [] ("function", 12%nat)). apply Permutation_refl. }
  destruct (Z.eq_dec p 60) as [->|N60]. { vm_compute. apply perm_swap. }
  destruct (Z.eq_dec p 80) as [->|N80]. { vm_compute. apply Permutation_refl. }
  cbn -[Z.eqb]. replace (50 =? p) with false by lia. replace (60 =? p) with false by lia. replace (80 =? p) with false by lia. constructor.
Qed.
(* c16_layout_invariant applied: hoist_equiv np hoistable lay1 lay2 *)
Lemma nv_c16_layout_invariant :
  filter (fun x => negb (hoistable x)) (tree_sort np lay1) = filter (fun x => negb (hoistable x)) (tree_sort np lay2) /\
  filter (fun x => negb (hoistable x)) (tree_sort np lay1) =
    [("package", 0); ("import", 9); ("const", 3); ("const", 13); ("var", 1); ("call", 5); ("var", 11); ("init", 7)]%nat /\
  Permutation (filter (fun x => hoistable x && (np x =? 50)) (tree_sort np lay1)) (filter (fun x => hoistable x && (np x =? 50)) (tree_sort np lay2)) /\
  tree_sort np lay1 <> tree_sort np lay2.
Proof.
  destruct (C16.c16_layout_invariant np hoistable lay1 lay2 lay_equiv) as (A & B & _).
  split; [exact A|]. split; [vm_compute; reflexivity|]. split; [exact (B 50)|]. vm_compute. discriminate.
Qed.
(* c16_sort_unique: StronglySorted l', stability equations (the premises `Permutation l' l` and
   `forall x, In x l' -> exists p, prio x = p` of the first version carried no weight and were removed) *)
Lemma nv_c16_sort_unique :
  let l := [("var", 1); ("function", 2); ("const", 3); ("function", 6); ("var", 11)]%nat in
  let l' := [("const", 3); ("function", 2); ("function", 6); ("var", 1); ("var", 11)]%nat in
  l' = tree_sort np l.
Proof.
  intros l l'. apply (C16.c16_sort_unique np).
  - unfold l'. repeat (constructor; [|repeat constructor; vm_compute; discriminate]). constructor.
  - intro p. unfold l, l'.
    destruct (Z.eq_dec p 0) as [->|N0]; [reflexivity|]. destruct (Z.eq_dec p 50) as [->|N50]; [reflexivity|].
    destruct (Z.eq_dec p 70) as [->|N70]; [reflexivity|].
    cbn -[Z.eqb]. replace (0 =? p) with false by lia. replace (50 =? p) with false by lia. replace (70 =? p) with false by lia. reflexivity.
Qed.
(* c16_join is the definition of join_files unfolded (reflexivity), and its comment in Props/C16.v now says so *)
Lemma remark_c16_join_definitional : forall (A : Type) (f : list A) (r : list (list A)),
  join_files (f :: r) = (f ++ List.concat (map (@tl A) r))%list.
Proof. reflexivity. Qed.
