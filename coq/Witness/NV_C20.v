(* NV_C20 -- non-vacuity audit of Props/C20.v.
   Every theorem of Props/C20.v that has premises (or lives in Section C20 with the ext_*_bt hypotheses) is
   instantiated here with concrete, non-trivial witnesses:
     - oracles that really answer [Some (Ok ..)] with a CHANGED state (globals / output), [Some Panic] on
       selected keys / attributes, and that satisfy the three Section hypotheses;
     - a run that fails two calls deep, started with a NON-empty active chain;
     - windows for several rules of the generated peephole table, failure case and call case.
   Lemmas named [remark_*] record facts about the shape of the statements (what the [| _ => True] branch covers). *)
From Coq Require Import ZArith List String Bool Lia.
From GV Require Import GoSpec.GoPrim Gen.ValueOps_gen Gen.Tables_gen Model.PeepTypes Model.VM Model.Peephole Model.Backtrace
  Proofs.C02_rules Proofs.C20_bt Proofs.C20_fuse Props.C20.
Import ListNotations.
Open Scope Z_scope.

(* ------------------------------------------------------------------------------------------------------ *)
(* 1. oracles: state-changing, sometimes panicking; the Section hypotheses hold for them                   *)
(* ------------------------------------------------------------------------------------------------------ *)

Definition my_grow : Z -> Z -> Z := fun c n => 2 * n + c.
Definition my_get : st -> value -> value -> option (res value) :=
  fun s r k => if Value_Int k =? 9 then Some Panic else Some (Ok k).
(* Set on a foreign object: writes global 4 (a changed state), panics on key 9 *)
Definition my_set : st -> value -> value -> value -> option (res st) :=
  fun s r k v => if Value_Int k =? 9 then Some Panic else Some (Ok (set_global s 4 v)).
Definition my_len : st -> value -> option Z := fun _ _ => Some 3.
(* getIndex: attribute 7 panics, attribute 8 is a method (function object 0), every other attribute is an
   int; every successful access also writes one byte of output (a changed state) *)
Definition my_getattr : st -> value -> Z -> option (res (value * st)) :=
  fun s r a => if a =? 7 then Some Panic
               else if a =? 8 then Some (Ok (refV TypeFunc 0, emit s [71]))
               else Some (Ok (fn_Int a, emit s [65])).
(* setIndex: writes global 3, attribute 7 panics *)
Definition my_setattr : st -> value -> Z -> value -> option (res st) :=
  fun s r a v => if a =? 7 then Some Panic else Some (Ok (set_global s 3 v)).

Lemma my_set_bt : forall s r k v s', my_set s r k v = Some (Ok s') -> bt s' = bt s.
Proof. intros s r k v s'. unfold my_set. destruct (Value_Int k =? 9); intro H; inversion H; reflexivity. Qed.
Lemma my_getattr_bt : forall s r a v s', my_getattr s r a = Some (Ok (v, s')) -> bt s' = bt s.
Proof.
  intros s r a v s'. unfold my_getattr. destruct (a =? 7); [discriminate|].
  destruct (a =? 8); intro H; inversion H; reflexivity.
Qed.
Lemma my_setattr_bt : forall s r a v s', my_setattr s r a v = Some (Ok s') -> bt s' = bt s.
Proof. intros s r a v s'. unfold my_setattr. destruct (a =? 7); intro H; inversion H; reflexivity. Qed.

(* the oracles are not the trivial ones: they answer Some (Ok ..) with a state different from the input *)
Lemma nv_oracles_change_state :
  (exists s s', my_set s nilV (fn_Int 1) (fn_Int 2) = Some (Ok s') /\ globals s' <> globals s) /\
  (exists s v s', my_getattr s nilV 3 = Some (Ok (v, s')) /\ out s' <> out s) /\
  (exists s s', my_setattr s nilV 3 (fn_Int 2) = Some (Ok s') /\ globals s' <> globals s) /\
  my_getattr (mkSt [] [] [] []) nilV 7 = Some Panic.
Proof.
  split; [|split; [|split]].
  - exists (mkSt [nilV; nilV; nilV; nilV; nilV] [] [] [5]). eexists. split; [reflexivity|]. vm_compute. discriminate.
  - exists (mkSt [] [] [] [5]). eexists. eexists. split; [reflexivity|]. vm_compute. discriminate.
  - exists (mkSt [nilV; nilV; nilV; nilV; nilV] [] [] [5]). eexists. split; [reflexivity|]. vm_compute. discriminate.
  - reflexivity.
Qed.

(* the hypotheses are not void either: an oracle that pushes on the backtrace violates them *)
Definition bad_set : st -> value -> value -> value -> option (res st) := fun s _ _ _ => Some (Ok (push_bt s 1)).
Lemma remark_ext_bt_hypothesis_excludes :
  ~ (forall s r k v s', bad_set s r k v = Some (Ok s') -> bt s' = bt s).
Proof.
  intro H. specialize (H (mkSt [] [] [] []) nilV nilV nilV _ eq_refl). discriminate.
Qed.

Notation gexec0 := (gexec my_grow my_get my_set my_len my_getattr my_setattr).
Notation gcall0 := (gcall my_grow my_get my_set my_len my_getattr my_setattr).
Notation grun0 := (grun my_grow my_get my_set my_len my_getattr my_setattr).
Notation exec0 := (exec my_grow my_get my_set my_len my_getattr my_setattr).
Notation call_fn0 := (call_fn my_grow my_get my_set my_len my_getattr my_setattr).
Notation step10 := (step1 my_grow my_get my_set my_len my_getattr my_setattr).
Notation wrep0 := (window_report my_grow my_get my_set my_len my_getattr my_setattr).
Notation frep0 := (fused_report my_grow my_get my_set my_len my_getattr my_setattr).

(* ------------------------------------------------------------------------------------------------------ *)
(* 2. the program: main (fn index 3) calls g (2) on line 9; g calls f (1) on line 5; f uses the foreign       *)
(*    objects (GETATTR ok, SET ok) and then panics inside ext_getattr on line 4                              *)
(* ------------------------------------------------------------------------------------------------------ *)

Definition i_fail : instr := mkI c_GetAttr 7 0 0 (mk_pos 1 4 9).
Definition body_f : list instr :=
  [ mkI c_Push 5 0 0 (mk_pos 1 2 3); mkI c_GetAttr 3 0 0 (mk_pos 1 2 5); mkI c_Pop 0 0 0 (mk_pos 1 2 6);
    mkI c_Push 1 0 0 (mk_pos 1 3 1); mkI c_Push 2 0 0 (mk_pos 1 3 2); mkI c_Push 3 0 0 (mk_pos 1 3 3);
    mkI c_Set 0 0 0 (mk_pos 1 3 4);
    mkI c_Push 5 0 0 (mk_pos 1 4 3); i_fail ].
Definition ci_g : instr := mkI c_Call 0 0 0 (mk_pos 2 5 4).
Definition body_g : list instr := [ mkI c_GlobalGet 0 0 0 (mk_pos 2 5 2); ci_g ].
(* h succeeds, changing the state through setIndex and getIndex *)
Definition body_h : list instr :=
  [ mkI c_Push 1 0 0 (mk_pos 5 30 1); mkI c_Push 2 0 0 (mk_pos 5 30 2); mkI c_SetAttr 4 0 0 (mk_pos 5 30 3);
    mkI c_Push 5 0 0 (mk_pos 5 31 1); mkI c_GetAttr 3 0 0 (mk_pos 5 31 2); mkI c_Pop 0 0 0 (mk_pos 5 31 3) ].
(* k pops from an empty operand stack: malformed code *)
Definition body_k : list instr := [ mkI c_Pop 0 0 0 (mk_pos 6 40 1) ].

Definition ci_main : instr := mkI c_Call 0 0 0 (mk_pos 3 9 4).
Definition main_code : list instr :=
  [ mkI c_Push 1 0 0 (mk_pos 3 8 1); mkI c_Push 2 0 0 (mk_pos 3 8 2); mkI c_SetAttr 4 0 0 (mk_pos 3 8 3);
    mkI c_GlobalGet 1 0 0 (mk_pos 3 9 2); ci_main ].
(* main_ok: calls h, then ends normally *)
Definition ci_h : instr := mkI c_Call 0 0 0 (mk_pos 3 10 4).
Definition main_ok : list instr := [ mkI c_GlobalGet 2 0 0 (mk_pos 3 10 2); ci_h ].

(* the call that is already active when the frame starts *)
Definition c0 : instr := mkI c_Call 0 0 0 (mk_pos 4 20 7).

Definition the_heap : list hobj :=
  [ HFunc 0 0 false 0 0 [] body_f; HFunc 0 0 false 0 0 [] body_g; HFunc 0 0 false 0 0 [] body_h;
    HNative "builtin.println"; HNative "os.Exit"; HFunc 0 0 false 0 0 [] body_k ].
Definition the_globals : list value :=
  [ refV TypeFunc 0; refV TypeFunc 1; refV TypeFunc 2; nilV; nilV; refV TypeFunc 3; refV TypeFunc 4; refV TypeFunc 5 ].
Definition s0 : st := mkSt the_globals the_heap [] [ipos c0].        (* backtrace = [c0] *)
Definition s00 : st := mkSt the_globals the_heap [] [].               (* VM.run: empty backtrace *)

Lemma s0_bt : bt s0 = map ipos [c0].
Proof. reflexivity. Qed.

(* the failing run, from the non-empty chain [c0] *)
Definition run1 := gexec0 100 main_code 0 [] [] s0 [c0].
Lemma run1_shape : exists msg pos s' g,
  run1 = (RFail msg pos s', g) /\
  msg = "runtime error"%string /\ pos = mk_pos 1 4 9 /\
  g_chain g = [ci_g; ci_main; c0] /\ g_at g = Some i_fail /\
  out s' = [65] /\ znth (globals s') 3 = Some (fn_newUntypedInt 1) /\ znth (globals s') 4 = Some (fn_newUntypedInt 1).
Proof. vm_compute. do 4 eexists. repeat split; reflexivity. Qed.

(* c20_bt_inv, RFail branch: non-empty chain, failure two calls deep, oracles that changed the state on the way *)
Lemma nv_c20_bt_inv : exists msg pos s' g,
  run1 = (RFail msg pos s', g) /\
  (exists inner, g_chain g = (inner ++ [c0])%list /\ List.length inner = 2%nat) /\
  bt s' = [mk_pos 2 5 4; mk_pos 3 9 4; mk_pos 4 20 7] /\ out s' = [65].
Proof.
  destruct run1_shape as (msg & pos & s' & g & E & _ & _ & Hc & _ & Ho & _).
  exists msg, pos, s', g. split; [exact E|].
  pose proof (c20_bt_inv my_grow my_get my_set my_len my_getattr my_setattr my_set_bt my_getattr_bt my_setattr_bt
                100%nat main_code 0 [] [] s0 [c0] s0_bt _ _ E) as K.
  cbn beta iota in K. destruct K as [[inner Hi] Hb].
  split; [|split; [|exact Ho]].
  - exists [ci_g; ci_main]. split; [exact Hc | reflexivity].
  - rewrite Hb, Hc. reflexivity.
Qed.

(* c20_bt_inv, RDone branch: a frame that calls h (which changes globals and output) and ends normally *)
Lemma nv_c20_bt_inv_done : exists sl ops s' g,
  gexec0 100 main_ok 0 [] [] s0 [c0] = (RDone sl ops s', g) /\
  bt s' = [mk_pos 4 20 7] /\ out s' = [65] /\ globals s' <> globals s0.
Proof.
  assert (S : exists sl ops s' g, gexec0 100 main_ok 0 [] [] s0 [c0] = (RDone sl ops s', g) /\ out s' = [65] /\
                                  znth (globals s') 3 = Some (fn_newUntypedInt 1)).
  { vm_compute. do 4 eexists. repeat split; reflexivity. }
  destruct S as (sl & ops & s' & g & E & Ho & Hg).
  exists sl, ops, s', g. split; [exact E|].
  pose proof (c20_bt_inv my_grow my_get my_set my_len my_getattr my_setattr my_set_bt my_getattr_bt my_setattr_bt
                100%nat main_ok 0 [] [] s0 [c0] s0_bt _ _ E) as K.
  cbn beta iota in K. split; [exact K|]. split; [exact Ho|].
  intro C. rewrite C in Hg. vm_compute in Hg. discriminate.
Qed.

(* c20_fail_pos *)
Lemma nv_c20_fail_pos : exists msg pos s' g,
  run1 = (RFail msg pos s', g) /\ g_at g = Some i_fail /\ pos = ipos i_fail /\ line_of pos = 4 /\ func_of pos = 1.
Proof.
  destruct run1_shape as (msg & pos & s' & g & E & _ & _ & _ & Ha & _).
  exists msg, pos, s', g. split; [exact E|].
  destruct (c20_fail_pos my_grow my_get my_set my_len my_getattr my_setattr my_set_bt my_getattr_bt my_setattr_bt
              100%nat main_code 0 [] [] s0 [c0] s0_bt _ _ _ _ E) as [i [Hi Hp]].
  rewrite Ha in Hi. inversion Hi; subst i. subst pos. repeat split; try assumption; reflexivity.
Qed.

(* c20_bt_call, CErr (RFail ..) branch: the call of g (from chain [c0]) fails inside f *)
Definition call1 := gcall0 100 true 1 0 0 ci_main [] s0 [c0].
Lemma call1_shape : exists msg pos s' g,
  call1 = (CErr (RFail msg pos s'), g) /\ pos = mk_pos 1 4 9 /\ g_chain g = [ci_g; ci_main; c0] /\ g_at g = Some i_fail.
Proof. vm_compute. do 4 eexists. repeat split; reflexivity. Qed.

Lemma nv_c20_bt_call : exists msg pos s' g,
  call1 = (CErr (RFail msg pos s'), g) /\
  (exists inner, g_chain g = (inner ++ [c0])%list) /\ bt s' = [mk_pos 2 5 4; mk_pos 3 9 4; mk_pos 4 20 7].
Proof.
  destruct call1_shape as (msg & pos & s' & g & E & _ & Hc & _).
  exists msg, pos, s', g. split; [exact E|].
  pose proof (c20_bt_call my_grow my_get my_set my_len my_getattr my_setattr my_set_bt my_getattr_bt my_setattr_bt
                100%nat true 1 0 0 ci_main [] s0 [c0] s0_bt _ _ E) as K.
  cbn beta iota in K. destruct K as [Hi Hb]. split; [exact Hi|]. rewrite Hb, Hc. reflexivity.
Qed.

(* c20_bt_call, COk branch: the call of h returns normally with a changed state and the caller's backtrace *)
Lemma nv_c20_bt_call_ok : exists ops s' g,
  gcall0 100 true 2 0 0 ci_h [] s0 [c0] = (COk ops s', g) /\ bt s' = bt s0 /\ out s' = [65] /\ out s0 = [].
Proof.
  assert (S : exists ops s' g, gcall0 100 true 2 0 0 ci_h [] s0 [c0] = (COk ops s', g) /\ out s' = [65]).
  { vm_compute. do 3 eexists. split; reflexivity. }
  destruct S as (ops & s' & g & E & Ho). exists ops, s', g. split; [exact E|].
  pose proof (c20_bt_call my_grow my_get my_set my_len my_getattr my_setattr my_set_bt my_getattr_bt my_setattr_bt
                100%nat true 2 0 0 ci_h [] s0 [c0] s0_bt _ _ E) as K.
  cbn beta iota in K. split; [exact K|]. split; [exact Ho | reflexivity].
Qed.

(* c20_error_text: the same program as a whole run (empty backtrace) *)
Lemma nv_c20_error_text : exists msg pos s' g,
  grun0 100 main_code 0 s00 = (RFail msg pos s', g) /\
  Some (err_trace pos (bt s')) = ghost_trace g /\
  ghost_trace g = Some [mk_pos 1 4 9; mk_pos 2 5 4; mk_pos 3 9 4] /\
  trace_lines (err_trace pos (bt s')) = [(1, 4); (2, 5); (3, 9)].
Proof.
  assert (S : exists msg pos s' g, grun0 100 main_code 0 s00 = (RFail msg pos s', g) /\
              g_chain g = [ci_g; ci_main] /\ g_at g = Some i_fail).
  { vm_compute. do 4 eexists. repeat split; reflexivity. }
  destruct S as (msg & pos & s' & g & E & Hc & Ha). exists msg, pos, s', g. split; [exact E|].
  pose proof (c20_error_text my_grow my_get my_set my_len my_getattr my_setattr my_set_bt my_getattr_bt my_setattr_bt
                100%nat main_code 0 s00 eq_refl _ _ _ _ E) as K.
  assert (G : ghost_trace g = Some [mk_pos 1 4 9; mk_pos 2 5 4; mk_pos 3 9 4]).
  { unfold ghost_trace. rewrite Ha, Hc. reflexivity. }
  split; [exact K|]. split; [exact G|].
  rewrite G in K. injection K as Kp Kb. unfold err_trace. rewrite Kp, Kb. vm_compute. reflexivity.
Qed.

(* ------------------------------------------------------------------------------------------------------ *)
(* 2b. what the [| _ => True] branches cover                                                               *)
(* ------------------------------------------------------------------------------------------------------ *)

(* fuel exhaustion is NOT an RFail: it is RFuel, with g_at = None, and c20_bt_inv / c20_fail_pos / c20_error_text
   say nothing about it (fuel is a device of the model, not an error of the VM) *)
Lemma remark_fuel_is_not_fail :
  exists g, gexec0 9 main_code 0 [] [] s0 [c0] = (RFuel, g) /\ g_at g = None /\ g_chain g = [ci_g; ci_main; c0].
Proof. vm_compute. eexists. repeat split; reflexivity. Qed.

(* malformed code (POP on an empty operand stack, one call deep): RStuck, no ghost, theorems silent *)
Lemma remark_stuck_is_not_fail :
  exists w g, gexec0 100 [mkI c_GlobalGet 7 0 0 (mk_pos 3 9 2); ci_main] 0 [] [] s0 [c0] = (RStuck w, g) /\ g_at g = None.
Proof. vm_compute. do 2 eexists. split; reflexivity. Qed.

(* a native outside the print family: RUnmod, theorems silent (a panic inside such a native has no position in
   the model) *)
Lemma remark_native_is_unmodelled :
  exists w g, gexec0 100 [mkI c_GlobalGet 6 0 0 (mk_pos 3 9 2); ci_main] 0 [] [] s0 [c0] = (RUnmod w, g) /\ g_at g = None.
Proof. vm_compute. do 2 eexists. split; reflexivity. Qed.

(* the only failure of a modelled native (print family asked for a result): raised AT the call instruction;
   natives do not push a backtrace entry *)
Lemma nv_native_failure_positioned : exists msg pos s' g,
  gexec0 100 [mkI c_GlobalGet 5 0 0 (mk_pos 3 9 2); mkI c_Call 0 1 0 (mk_pos 3 9 4)] 0 [] [] s0 [c0] = (RFail msg pos s', g) /\
  pos = mk_pos 3 9 4 /\ g_chain g = [c0] /\ bt s' = [mk_pos 4 20 7].
Proof. vm_compute. do 4 eexists. repeat split; reflexivity. Qed.

(* a panic inside ext_set / ext_get / ext_setattr (oracle answers Some Panic) is an RFail positioned at the
   SET / GET / SETATTR instruction *)
Lemma nv_ext_panic_positioned :
  (exists s', exec0 5 [mkI c_Set 0 0 0 (mk_pos 1 3 4)] 0 [] [fn_Int 9; fn_Int 2; fn_Int 1] s0 = RFail "runtime error" (mk_pos 1 3 4) s') /\
  (exists s', exec0 5 [mkI c_Get 0 0 0 (mk_pos 1 3 5)] 0 [] [fn_Int 9; fn_Int 2] s0 = RFail "runtime error" (mk_pos 1 3 5) s') /\
  (exists s', exec0 5 [mkI c_SetAttr 7 0 0 (mk_pos 1 3 6)] 0 [] [fn_Int 9; fn_Int 2] s0 = RFail "runtime error" (mk_pos 1 3 6) s').
Proof. split; [|split]; vm_compute; eexists; reflexivity. Qed.

(* ------------------------------------------------------------------------------------------------------ *)
(* 3. c20_fail_pos_direct / _propagates / _through_call                                                    *)
(* ------------------------------------------------------------------------------------------------------ *)

Lemma nv_c20_fail_pos_direct : forall f,
  exec0 (S f) body_f 8 [] [fn_newUntypedInt 5] s0 = RFail "runtime error" (mk_pos 1 4 9) s0.
Proof.
  intro f.
  exact (c20_fail_pos_direct my_grow my_get my_set my_len my_getattr my_setattr f body_f 8 [] [fn_newUntypedInt 5] s0
           i_fail "runtime error"%string s0 eq_refl eq_refl).
Qed.

(* the CALL of body_g, with f's function value on the operand stack: SCall, then call_fn = CErr (RFail ..) *)
Lemma nv_c20_fail_pos_propagates : exists r,
  call_fn0 50 true 0 0 0 (ipos ci_g) [] s0 = CErr r /\
  exec0 51 body_g 1 [] [refV TypeFunc 0] s0 = r /\
  exists msg s', r = RFail msg (mk_pos 1 4 9) s'.
Proof.
  assert (S : exists r, call_fn0 50 true 0 0 0 (ipos ci_g) [] s0 = CErr r /\ exists msg s', r = RFail msg (mk_pos 1 4 9) s').
  { vm_compute. eexists. split; [reflexivity|]. do 2 eexists. reflexivity. }
  destruct S as (r & E & Hr). exists r. split; [exact E|]. split; [|exact Hr].
  exact (c20_fail_pos_propagates my_grow my_get my_set my_len my_getattr my_setattr 50%nat body_g 1 [] [refV TypeFunc 0] s0
           ci_g true 0 0 0 [] [] s0 r eq_refl eq_refl E).
Qed.

(* through a call, right disjunct: the failure comes from the body (its position is not the call's), and the body is
   the one stored at address 1 of the heap of s0: body_g (the existential is tied to hget s fa since the audit) *)
Lemma nv_c20_fail_pos_through_call_body : exists msg pos s' g,
  call1 = (CErr (RFail msg pos s'), g) /\
  exists f' slots0 s1, 100%nat = S f' /\ bt s1 = bt s0 /\
    gexec0 f' body_g 0 slots0 [] (push_bt s1 (ipos ci_main)) (ci_main :: [c0]) = (RFail msg pos s', g).
Proof.
  destruct call1_shape as (msg & pos & s' & g & E & Hp & _ & _).
  exists msg, pos, s', g. split; [exact E|].
  destruct (c20_fail_pos_through_call my_grow my_get my_set my_len my_getattr my_setattr
              100%nat true 1 0 0 ci_main [] s0 [c0] msg pos s' g E) as [[_ [_ Hq]]|H].
  - exfalso. rewrite Hp in Hq. vm_compute in Hq. discriminate.
  - destruct H as (f' & na & nr & va & vt' & ns & ty & body & slots0 & s1 & Hf & Hh & Hb & Hg).
    change (hget s0 1) with (Some (HFunc 0 0 false 0 0 [] body_g)) in Hh. inversion Hh; subst body.
    exists f', slots0, s1. repeat split; assumption.
Qed.

(* through a call, left disjunct: wrong argument count, raised at the call instruction itself (the facts are
   computed; the theorem is applied to the same run) *)
Lemma nv_c20_fail_pos_through_call_boundary : exists msg pos s' g,
  gcall0 100 true 1 1 0 ci_main [fn_Int 1] s0 [c0] = (CErr (RFail msg pos s'), g) /\
  msg = "incorrect args"%string /\ g_chain g = [c0] /\ g_at g = Some ci_main /\ pos = ipos ci_main /\
  ((g_chain g = [c0] /\ g_at g = Some ci_main /\ pos = ipos ci_main) \/
   (exists f' nargs nrets variadic vtype nslots types body slots0 s1, 100%nat = S f' /\
      hget s0 1 = Some (HFunc nargs nrets variadic vtype nslots types body) /\ bt s1 = bt s0 /\
      gexec0 f' body 0 slots0 [] (push_bt s1 (ipos ci_main)) (ci_main :: [c0]) = (RFail msg pos s', g))).
Proof.
  assert (S : exists msg pos s' g, gcall0 100 true 1 1 0 ci_main [fn_Int 1] s0 [c0] = (CErr (RFail msg pos s'), g) /\
                msg = "incorrect args"%string /\ g_chain g = [c0] /\ g_at g = Some ci_main /\ pos = ipos ci_main).
  { vm_compute. do 4 eexists. repeat split; reflexivity. }
  destruct S as (msg & pos & s' & g & E & Hm & Hc & Ha & Hp). exists msg, pos, s', g.
  repeat (split; [assumption|]).
  exact (c20_fail_pos_through_call my_grow my_get my_set my_len my_getattr my_setattr
           100%nat true 1 1 0 ci_main [fn_Int 1] s0 [c0] msg pos s' g E).
Qed.

(* ------------------------------------------------------------------------------------------------------ *)
(* 4. the optimizer theorems: c20_fuse_line, c20_fuse_same_report, c20_fuse_line_static, c20_fuse_pos_last  *)
(* ------------------------------------------------------------------------------------------------------ *)

Definition r_dummy : rule := mkRule [] [] "" OZero OZero OZero 0.
Definition rule_k (k : nat) : rule := nth k peephole_rules r_dummy.
Lemma rule_k_in : forall k, (k < 16)%nat -> In (rule_k k) peephole_rules.
Proof. intros k H. apply nth_In. exact H. Qed.

(* how many rules c20_fuse_same_report covers *)
Lemma nv_early_quiet_count :
  List.length (filter early_quiet peephole_rules) = 14%nat /\ List.length peephole_rules = 16%nat /\
  map early_quiet peephole_rules =
    [false; true; true; true; true; true; true; true; true; false; true; true; true; true; true; true].
Proof. vm_compute. repeat split; reflexivity. Qed.

Ltac one_line_tac w :=
  let i := fresh "i" in let j := fresh "j" in let Hi := fresh "Hi" in let Hj := fresh "Hj" in
  intros i j Hi Hj; unfold w in Hi, Hj; cbn [In] in Hi, Hj;
  intuition (subst; split; vm_compute; reflexivity).

(* --- rule 3: LOCALGET; LOCALGET; DIV -> LOCALDIV, failure case (division by zero) --- *)
Definition w_div : list instr :=
  [ mkI c_LocalGet 0 0 0 (mk_pos 2 7 3); mkI c_LocalGet 1 0 0 (mk_pos 2 7 7); mkI c_Div 0 0 0 (mk_pos 2 7 5) ].
(* the same window written on three lines *)
Definition w_div3 : list instr :=
  [ mkI c_LocalGet 0 0 0 (mk_pos 2 7 3); mkI c_LocalGet 1 0 0 (mk_pos 2 8 7); mkI c_Div 0 0 0 (mk_pos 2 9 5) ].
Definition sl_div : list value := [fn_Int 1; fn_Int 0].
Lemma w_div_one_line : one_line w_div.
Proof. one_line_tac w_div. Qed.
Lemma w_div_reports :
  wrep0 [] 0 w_div sl_div [] s0 = Some (mk_pos 2 7 5) /\ frep0 [] 0 (rule_k 3) w_div sl_div [] s0 = Some (mk_pos 2 7 5) /\
  rule_matches (rule_k 3) w_div = true /\ r_out (rule_k 3) = "codeLocalDiv"%string.
Proof. vm_compute. repeat split; reflexivity. Qed.
Lemma nv_c20_fuse_line_1 : same_line (mk_pos 2 7 5) (mk_pos 2 7 5).
Proof.
  destruct w_div_reports as (Hp & Hq & _).
  exact (c20_fuse_line my_grow my_get my_set my_len my_getattr my_setattr (rule_k 3) (rule_k_in 3 ltac:(lia)) w_div eq_refl
           w_div_one_line [] 0 0 sl_div [] s0 _ _ Hp Hq).
Qed.
(* c20_fuse_same_report on the three-line window: both modes report line 9 *)
Lemma nv_c20_fuse_same_report_1 :
  wrep0 [] 0 w_div3 sl_div [] s0 = Some (mk_pos 2 9 5) /\ mk_pos 2 9 5 = ipos (fused (rule_k 3) w_div3) /\
  frep0 [] 0 (rule_k 3) w_div3 sl_div [] s0 = Some (mk_pos 2 9 5).
Proof.
  assert (Hp : wrep0 [] 0 w_div3 sl_div [] s0 = Some (mk_pos 2 9 5)) by (vm_compute; reflexivity).
  split; [exact Hp|]. split; [|vm_compute; reflexivity].
  exact (c20_fuse_same_report my_grow my_get my_set my_len my_getattr my_setattr (rule_k 3) (rule_k_in 3 ltac:(lia))
           ltac:(vm_compute; reflexivity) w_div3 eq_refl ltac:(vm_compute; reflexivity) [] 0 sl_div [] s0 _ Hp).
Qed.

(* --- rule 10: GLOBALGET; CALL -> FASTCALL, call case --- *)
Definition w_call : list instr := [ mkI c_GlobalGet 1 0 0 (mk_pos 3 9 2); mkI c_Call 0 0 0 (mk_pos 3 9 4) ].
Definition w_call2 : list instr := [ mkI c_GlobalGet 1 0 0 (mk_pos 3 9 2); mkI c_Call 0 0 0 (mk_pos 3 10 1) ].
Lemma w_call_one_line : one_line w_call.
Proof. one_line_tac w_call. Qed.
Lemma w_call_reports :
  wrep0 [] 0 w_call [] [] s0 = Some (mk_pos 3 9 4) /\ frep0 [] 0 (rule_k 10) w_call [] [] s0 = Some (mk_pos 3 9 4) /\
  rule_matches (rule_k 10) w_call = true /\ r_out (rule_k 10) = "codeFastCall"%string /\
  (exists sl ops s, step10 [] 0 (fused (rule_k 10) w_call) [] [] s0 = SCall true 1 0 0 sl ops s).
Proof. vm_compute. repeat split; try reflexivity. do 3 eexists. reflexivity. Qed.
Lemma nv_c20_fuse_line_2 : same_line (mk_pos 3 9 4) (mk_pos 3 9 4).
Proof.
  destruct w_call_reports as (Hp & Hq & _).
  exact (c20_fuse_line my_grow my_get my_set my_len my_getattr my_setattr (rule_k 10) (rule_k_in 10 ltac:(lia)) w_call eq_refl
           w_call_one_line [] 0 0 [] [] s0 _ _ Hp Hq).
Qed.
Lemma nv_c20_fuse_same_report_2 :
  wrep0 [] 0 w_call2 [] [] s0 = Some (mk_pos 3 10 1) /\ mk_pos 3 10 1 = ipos (fused (rule_k 10) w_call2).
Proof.
  assert (Hp : wrep0 [] 0 w_call2 [] [] s0 = Some (mk_pos 3 10 1)) by (vm_compute; reflexivity).
  split; [exact Hp|].
  exact (c20_fuse_same_report my_grow my_get my_set my_len my_getattr my_setattr (rule_k 10) (rule_k_in 10 ltac:(lia))
           ltac:(vm_compute; reflexivity) w_call2 eq_refl ltac:(vm_compute; reflexivity) [] 0 [] [] s0 _ Hp).
Qed.

(* --- rule 9 (early LOUD): LOCALGET; GETATTR; CALL -> FASTCALLATTR on one line --- *)
(* failure case: getIndex panics (attribute 7): unfused reports the GETATTR (column 10), fused the CALL (column 14):
   different positions, same line -- the conclusion of c20_fuse_line is not an identity here *)
Definition w_attr_fail : list instr :=
  [ mkI c_LocalGet 0 0 0 (mk_pos 2 5 9); mkI c_GetAttr 7 0 0 (mk_pos 2 5 10); mkI c_Call 0 0 0 (mk_pos 2 5 14) ].
(* call case: attribute 8 is a method *)
Definition w_attr_call : list instr :=
  [ mkI c_LocalGet 0 0 0 (mk_pos 2 5 9); mkI c_GetAttr 8 0 0 (mk_pos 2 5 10); mkI c_Call 0 0 0 (mk_pos 2 5 14) ].
Lemma w_attr_fail_one_line : one_line w_attr_fail.
Proof. one_line_tac w_attr_fail. Qed.
Lemma w_attr_call_one_line : one_line w_attr_call.
Proof. one_line_tac w_attr_call. Qed.
Lemma w_attr_reports :
  wrep0 [] 0 w_attr_fail [fn_Int 5] [] s0 = Some (mk_pos 2 5 10) /\
  frep0 [] 0 (rule_k 9) w_attr_fail [fn_Int 5] [] s0 = Some (mk_pos 2 5 14) /\
  wrep0 [] 0 w_attr_call [fn_Int 5] [] s0 = Some (mk_pos 2 5 14) /\
  frep0 [] 0 (rule_k 9) w_attr_call [fn_Int 5] [] s0 = Some (mk_pos 2 5 14) /\
  rule_matches (rule_k 9) w_attr_fail = true /\ rule_matches (rule_k 9) w_attr_call = true /\
  r_out (rule_k 9) = "codeFastCallAttr"%string /\ early_quiet (rule_k 9) = false.
Proof. vm_compute. repeat split; reflexivity. Qed.
Lemma nv_c20_fuse_line_3 : same_line (mk_pos 2 5 10) (mk_pos 2 5 14) /\ mk_pos 2 5 10 <> mk_pos 2 5 14.
Proof.
  destruct w_attr_reports as (Hp & Hq & _).
  split; [|vm_compute; discriminate].
  exact (c20_fuse_line my_grow my_get my_set my_len my_getattr my_setattr (rule_k 9) (rule_k_in 9 ltac:(lia)) w_attr_fail eq_refl
           w_attr_fail_one_line [] 0 0 [fn_Int 5] [] s0 _ _ Hp Hq).
Qed.
Lemma nv_c20_fuse_line_4 : same_line (mk_pos 2 5 14) (mk_pos 2 5 14).
Proof.
  destruct w_attr_reports as (_ & _ & Hp & Hq & _).
  exact (c20_fuse_line my_grow my_get my_set my_len my_getattr my_setattr (rule_k 9) (rule_k_in 9 ltac:(lia)) w_attr_call eq_refl
           w_attr_call_one_line [] 0 0 [fn_Int 5] [] s0 _ _ Hp Hq).
Qed.

(* --- rule 7: LOCALGET; PUSH; GET -> FASTGETINT, failure inside ext_get (key 9 panics) --- *)
Definition w_getint : list instr :=
  [ mkI c_LocalGet 0 0 0 (mk_pos 2 11 1); mkI c_Push 9 0 0 (mk_pos 2 12 3); mkI c_Get 0 0 0 (mk_pos 2 13 2) ].
Lemma nv_c20_fuse_same_report_3 :
  wrep0 [] 0 w_getint [fn_Int 5] [] s0 = Some (mk_pos 2 13 2) /\ mk_pos 2 13 2 = ipos (fused (rule_k 7) w_getint) /\
  frep0 [] 0 (rule_k 7) w_getint [fn_Int 5] [] s0 = Some (mk_pos 2 13 2) /\ r_out (rule_k 7) = "codeFastGetInt"%string.
Proof.
  assert (Hp : wrep0 [] 0 w_getint [fn_Int 5] [] s0 = Some (mk_pos 2 13 2)) by (vm_compute; reflexivity).
  split; [exact Hp|]. split; [|vm_compute; split; reflexivity].
  exact (c20_fuse_same_report my_grow my_get my_set my_len my_getattr my_setattr (rule_k 7) (rule_k_in 7 ltac:(lia))
           ltac:(vm_compute; reflexivity) w_getint eq_refl ltac:(vm_compute; reflexivity) [] 0 [fn_Int 5] [] s0 _ Hp).
Qed.

(* --- rule 12: LOCALGET; SETATTR -> FASTSETATTR, failure inside ext_setattr (attribute 7 panics) --- *)
Definition w_setattr : list instr := [ mkI c_LocalGet 0 0 0 (mk_pos 2 15 1); mkI c_SetAttr 7 0 0 (mk_pos 2 16 3) ].
Lemma nv_c20_fuse_same_report_4 :
  wrep0 [] 0 w_setattr [fn_Int 5] [fn_Int 1] s0 = Some (mk_pos 2 16 3) /\ mk_pos 2 16 3 = ipos (fused (rule_k 12) w_setattr) /\
  frep0 [] 0 (rule_k 12) w_setattr [fn_Int 5] [fn_Int 1] s0 = Some (mk_pos 2 16 3) /\ r_out (rule_k 12) = "codeFastSetAttr"%string.
Proof.
  assert (Hp : wrep0 [] 0 w_setattr [fn_Int 5] [fn_Int 1] s0 = Some (mk_pos 2 16 3)) by (vm_compute; reflexivity).
  split; [exact Hp|]. split; [|vm_compute; split; reflexivity].
  exact (c20_fuse_same_report my_grow my_get my_set my_len my_getattr my_setattr (rule_k 12) (rule_k_in 12 ltac:(lia))
           ltac:(vm_compute; reflexivity) w_setattr eq_refl ltac:(vm_compute; reflexivity) [] 0 [fn_Int 5] [fn_Int 1] s0 _ Hp).
Qed.

(* c20_fuse_line_static and c20_fuse_pos_last on the loud one-line window *)
Lemma nv_c20_fuse_line_static :
  same_line (ipos (fused (rule_k 9) w_attr_fail)) (ipos (win w_attr_fail 1)) /\
  ipos (fused (rule_k 9) w_attr_fail) = mk_pos 2 5 14 /\ ipos (win w_attr_fail 1) = mk_pos 2 5 10.
Proof.
  split; [|split; reflexivity].
  exact (c20_fuse_line_static (rule_k 9) (rule_k_in 9 ltac:(lia)) w_attr_fail eq_refl w_attr_fail_one_line 1%nat ltac:(cbn; lia)).
Qed.
Lemma nv_c20_fuse_pos_last : ipos (fused (rule_k 3) w_div3) = mk_pos 2 9 5.
Proof. rewrite (c20_fuse_pos_last (rule_k 3) (rule_k_in 3 ltac:(lia)) w_div3 eq_refl). reflexivity. Qed.

(* --- the first "early loud" rule is loud only syntactically ---------------------------------------------- *)
(* INCDEC never fails in the model (Proofs/C20_fuse.v incdec_never_panics), so for LOCALGET; INCDEC; LOCALSET the
   unfused window never reports anything.  After the audit this is the theorem c20_fuse_localincdec_silent of
   Props/C20.v (it was remark_localincdec_window_never_reports here) and the comment of c20_fuse_early_loud_rules
   says so.  Witness: rule 0 IS the LOCALINCDEC rule, a matching window x++ on a string-typed slot (the "non-numeric
   operand") runs through silently, and the theorem applies to it. *)
Definition w_incdec : list instr :=
  [mkI c_LocalGet 0 0 0 (mk_pos 2 7 1); mkI c_IncDec 1 0 0 (mk_pos 2 7 2); mkI c_LocalSet 0 0 0 (mk_pos 2 8 1)].
Lemma nv_c20_fuse_localincdec_silent :
  r_out (rule_k 0) = "codeLocalIncDec"%string /\ rule_matches (rule_k 0) w_incdec = true /\
  wrep0 [] 0 w_incdec [fn_String [97]] [] s0 = None /\
  (forall slots ops s, window_report my_grow my_get my_set my_len my_getattr my_setattr [] 0 w_incdec slots ops s = None).
Proof.
  split; [reflexivity|]. split; [vm_compute; reflexivity|]. split; [vm_compute; reflexivity|].
  intros slots ops s.
  exact (c20_fuse_localincdec_silent my_grow my_get my_set my_len my_getattr my_setattr (rule_k 0) (rule_k_in 0 ltac:(lia))
           eq_refl w_incdec eq_refl ltac:(vm_compute; reflexivity) [] 0 slots ops s).
Qed.

(* ------------------------------------------------------------------------------------------------------ *)
(* 5. c20_stamp: a tree of depth 3                                                                          *)
(* ------------------------------------------------------------------------------------------------------ *)

Definition e1 : instr := mkI c_Push 1 0 0 0.
Definition e2 : instr := mkI c_Push 2 0 0 0.
Definition e3 : instr := mkI c_Add 0 0 0 0.
Definition e4 : instr := mkI c_Pop 0 0 0 0.
Definition e5 : instr := mkI c_Return 0 0 0 0.
Definition tree3 : tree :=
  Node (mk_pos 1 10 1)
    [ Emit e4;
      Sub (Node (mk_pos 1 11 2) [ Sub (Node (mk_pos 1 12 3) [Emit e1; Emit e2]); Emit e3;
                                  Sub (Node (mk_pos 1 13 4) [Emit e1]) ]);
      Emit e5 ].
Lemma tree3_wf : wf tree3.
Proof. cbn. repeat split; try reflexivity; vm_compute; discriminate. Qed.
Lemma nv_c20_stamp :
  map ipos (compile tree3) = [mk_pos 1 10 1; mk_pos 1 12 3; mk_pos 1 12 3; mk_pos 1 11 2; mk_pos 1 13 4; mk_pos 1 10 1] /\
  map icode (compile tree3) = [c_Pop; c_Push; c_Push; c_Add; c_Push; c_Return] /\
  Forall (fun i => ipos i <> 0) (compile tree3).
Proof.
  destruct (c20_stamp tree3 tree3_wf) as [H1 H2].
  split; [rewrite H1; reflexivity|]. split; [reflexivity | exact H2].
Qed.
(* wf is a real restriction: a freshly emitted instruction that already carries a position is kept as it is,
   and the conclusion of c20_stamp fails for it *)
Lemma remark_stamp_wf_needed :
  let t := Node (mk_pos 1 10 1) [Emit (mkI c_Pop 0 0 0 (mk_pos 9 99 9))] in
  ~ wf t /\ map ipos (compile t) <> origins t.
Proof. cbn. split; [intros [_ [H _]]; vm_compute in H; discriminate | vm_compute; discriminate]. Qed.

Print Assumptions nv_c20_bt_inv.
Print Assumptions nv_c20_error_text.
Print Assumptions nv_c20_fuse_line_3.
Print Assumptions nv_c20_fuse_same_report_3.
Print Assumptions nv_c20_stamp.
Print Assumptions nv_c20_fuse_localincdec_silent.
