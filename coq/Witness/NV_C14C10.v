(* non-vacuity witnesses for Props/C14.v (module M14) and Props/C10.v (module M10) *)
From Coq Require Import ZArith List Bool Floats Lia Permutation PeanoNat.
From Coq Require String.
From GV Require GoSpec.GoPrim GoSpec.GoFmt Gen.ValueOps_gen Model.Print Proofs.C14_print Props.C14.
From GV Require Model.OMap Proofs.C10_omap Props.C10.

(* ======================================================================================================== *)
(* C14                                                                                                      *)
(* ======================================================================================================== *)
Module M14.
Import Coq.Strings.String.
Import GV.GoSpec.GoPrim GV.GoSpec.GoFmt GV.Gen.ValueOps_gen GV.Model.Print GV.Proofs.C14_print.
Import ListNotations.
Local Open Scope Z_scope.

(* Section variable [ff : float -> bytes] -- a concrete formatter that really depends on its argument:
   the truncated integer part followed by "." ("NaN" for NaN / infinities) *)
Definition ff0 (f : float) : list Z :=
  match Ztrunc f with Some z => (print_Z z ++ bs ".")%list | None => bs "NaN" end.

(* goatlang type tags *)
Definition tS1 : Z := fn_sliceType TypeInt32.                  (* []int *)
Definition tS2 : Z := fn_sliceType tS1.                        (* [][]int *)
Definition tS3 : Z := fn_sliceType tS2.                        (* [][][]int *)
Definition tMis : Z := fn_mapType TypeInt32 TypeString.        (* map[int]string *)
Definition tMsS : Z := fn_mapType TypeString tS1.              (* map[string][]int *)
Definition tMsM : Z := fn_mapType TypeString tMis.             (* map[string]map[int]string *)
Definition tMbM : Z := fn_mapType TypeBool tMis.               (* map[bool]map[int]string *)
Definition tMiX : Z := fn_mapType TypeInt32 TypeNil.           (* map[int]any *)
Definition tSM : Z := fn_sliceType tMis.                       (* []map[int]string *)
Definition tStr : Z := fn_structType 0.                        (* a struct type *)

Definition i32 (z : Z) : value := mkValue TypeInt32 (Zn z) PNone.
Definition str (s : string) : value := mkValue TypeString (Zn 0) (PStr (bs s)).
Definition ref (t a : Z) : value := mkValue t (Zn 0) (PRef a).
Definition nilv (t : Z) : value := mkValue t (Zn 0) PNone.

(* one heap with: a slice containing itself (1), nested slices (2,3,4), a single-entry string map of a slice (5),
   a slice of maps (6,7,8 + a nil map), a struct reference with depth-1 fields (9), a struct pointing to itself (10),
   a TWO-entry map containing itself (11), maps of nil map / of map (12,13), both kinds of empty map (8,14),
   an empty struct (15), a three-level slice (16) *)
Definition Hl : list (addr * object) :=
  [(1, OSlice [ref tS2 1; i32 9]);
   (2, OSlice [ref tS1 3; ref tS1 4]);
   (3, OSlice [i32 1; i32 2]);
   (4, OSlice []);
   (5, OStrMap [(bs "k", ref tS1 3)]);
   (6, OSlice [ref tMis 7; ref tMis 8; nilv tMis; ref tMis 14]);
   (7, ONumMap TypeInt32 [(Zn 5, str "x")]);
   (8, OStrMap []);
   (9, OStruct [(bs "A", i32 7); (bs "B", ref tS1 3); (bs "C", ref tMis 7); (bs "S", str "hi"); (bs "N", nilv tS1);
                (bs "F", mkValue TypeFloat64 (Fn 2.75%float) PNone); (bs "T", mkValue TypeBool (Zn 1) PNone)]);
   (10, OStruct [(bs "Self", ref tStr 10); (bs "X", i32 1)]);
   (11, ONumMap TypeInt32 [(Zn 1, ref tS1 3); (Zn 2, ref tMiX 11)]);
   (12, OStrMap [(bs "n", nilv tMis)]);
   (13, ONumMap TypeBool [(Zn 1, ref tMis 7)]);
   (14, ONumMap TypeInt32 []);
   (15, OStruct []);
   (16, OSlice [ref tS2 2])].
Definition H : heap := heap_of Hl.

(* ---- wf_heap / wf_value unfolded:
     wf_heap h   := forall a o, h a = Some o -> wf_obj h o
     wf_obj h o  := Forall (wf_value h) (obj_values o) /\ (ONumMap kt _ -> scalar_tag (Type_base kt) = true)
     wf_value h v := scalar_ok v  \/  (Type_isSafeStr (vt v) = false /\ (vval v = PNone \/ exists a o, vval v = PRef a /\ h a = Some o))
     scalar_ok v := (nil/bool/int/float tag /\ no payload) \/ (string tag /\ PStr payload)
   NB: a container TAG need not agree with the KIND of the object it points to; function values and host objects
   (TypeFunc / TypeObject) are NOT wf_value, so c14_total says nothing about printing them. *)
Lemma wf_heap_of : forall l, Forall (fun p => wf_obj (heap_of l) (snd p)) l -> wf_heap (heap_of l).
Proof.
  intros l. unfold wf_heap. generalize (heap_of l) at 1 3. intros h F.
  induction F as [|[b ob] l0 Hb _ IH]; intros a o; cbn [heap_of]; [discriminate|].
  destruct (a =? b); [intros E; injection E as <-; exact Hb | apply IH].
Qed.

Ltac wfv :=
  first [ left; left; split; reflexivity
        | left; right; split; [reflexivity | eexists; reflexivity]
        | right; split; [reflexivity|]; first [left; reflexivity | right; do 2 eexists; split; reflexivity] ].
Ltac wfo := split; [cbn [snd obj_values map]; repeat (apply Forall_cons; [wfv|]); apply Forall_nil | first [exact I | reflexivity]].

Lemma H_wf : wf_heap H.
Proof. apply wf_heap_of. unfold Hl. repeat (apply Forall_cons; [wfo|]). apply Forall_nil. Qed.

(* the heap is cyclic: object 1 is reachable from itself in one step, object 11 and 10 too *)
Lemma H_cyclic : In 1 (reach2 H (ref tS2 1)) /\ In 11 (reach2 H (ref tMiX 11)) /\ In 10 (reach2 H (ref tStr 10)).
Proof. vm_compute. intuition. Qed.

(* ---- c14_total, conjunct 1: cyclic slice, cyclic struct, two-entry cyclic map, depth-3 slice ----------- *)
Lemma nv_c14_total_1 :
  (exists s, string_top ff0 H (ref tS2 1) = Ok s) /\
  (exists s, string_top ff0 H (ref tStr 10) = Ok s) /\
  (exists s, string_top ff0 H (ref tMiX 11) = Ok s) /\
  (exists s, string_top ff0 H (ref tS3 16) = Ok s) /\
  (* what the strings are *)
  string_top ff0 H (ref tS2 1) = Ok (bs "[[...] 9]") /\
  string_top ff0 H (ref tStr 10) = Ok (bs "&{Self:&{...} X:1}") /\
  string_top ff0 H (ref tMiX 11) = Ok (bs "map[1:[1 2] 2:map[...]]") /\
  string_top ff0 H (ref tS3 16) = Ok (bs "[[...]]").
Proof.
  destruct (C14.c14_total ff0 H H_wf) as [T _].
  split; [apply T; wfv|]. split; [apply T; wfv|]. split; [apply T; wfv|]. split; [apply T; wfv|].
  repeat split.
Qed.

(* ---- c14_total, conjunct 2: Println of 8 operands, three of them cyclic --------------------------------- *)
Definition ops_total : list value :=
  [ref tS2 1; ref tStr 10; ref tMiX 11; ref tS2 2; i32 (-5); str "s"; mkValue TypeFloat64 (Fn (-2.5)%float) PNone; nilv tStr].
Lemma nv_c14_total_2 :
  Forall (wf_value H) ops_total /\
  (exists s, fmt_Println ff0 H ops_total = Ok s) /\
  fmt_Println ff0 H ops_total =
    Ok (bs "[[...] 9] &{Self:&{...} X:1} map[1:[1 2] 2:map[...]] [[1 2] []] -5 s -2. nil" ++ [10])%list.
Proof.
  assert (F : Forall (wf_value H) ops_total) by (unfold ops_total; repeat (apply Forall_cons; [wfv|]); apply Forall_nil).
  destruct (C14.c14_total ff0 H H_wf) as [_ T].
  split; [exact F|]. split; [exact (T _ F)|]. vm_compute. reflexivity.
Qed.

(* ---- c14_depth_bound: two heaps that differ at the third level (address 3) and elsewhere; the value is the
   depth-3 slice [][][]int -- reach1 = [16], reach2 = [2]; the rendering cannot tell them apart ----------------- *)
Definition H' : heap := heap_of
  [(16, OSlice [ref tS2 2]); (2, OSlice [ref tS1 3; ref tS1 4]); (3, OSlice [i32 777]); (1, OStrMap [])].
Lemma nv_c14_depth_bound :
  reach1 (ref tS3 16) = [16] /\ reach2 H (ref tS3 16) = [2] /\
  H 3 <> H' 3 /\ H 4 <> H' 4 /\ H 1 <> H' 1 /\
  string_top ff0 H (ref tS3 16) = string_top ff0 H' (ref tS3 16).
Proof.
  split; [reflexivity|]. split; [reflexivity|].
  split; [vm_compute; discriminate|]. split; [vm_compute; discriminate|]. split; [vm_compute; discriminate|].
  apply C14.c14_depth_bound. intros a Ha. vm_compute in Ha.
  destruct Ha as [<-|[<-|[]]]; reflexivity.
Qed.
(* second instance: depth 2, heaps differ only outside reach1/reach2 *)
Lemma nv_c14_depth_bound_2 :
  reach2 H (ref tS2 2) = [3; 4] /\
  string_top ff0 H (ref tS2 2) = string_top ff0 (heap_of [(2, OSlice [ref tS1 3; ref tS1 4]); (3, OSlice [i32 1; i32 2]); (4, OSlice [])]) (ref tS2 2).
Proof.
  split; [reflexivity|]. apply C14.c14_depth_bound. intros a Ha. vm_compute in Ha.
  destruct Ha as [<-|[<-|[<-|[]]]]; reflexivity.
Qed.

(* ---- c14_scalars, every conjunct ------------------------------------------------------------------------ *)
Lemma nv_c14_scalars :
  string_top ff0 H (mkValue TypeBool (Zn 1) PNone) = Ok (bs "true") /\
  string_top ff0 H (mkValue TypeBool (Zn 0) PNone) = Ok (bs "false") /\
  string_top ff0 H (mkValue TypeUint32 (Zn 4294967295) PNone) = Ok (bs "4294967295") /\
  string_top ff0 H (mkValue TypeUint32 (Zn 2147483648) PNone) = Ok (bs "2147483648") /\
  string_top ff0 H (mkValue TypeInt8 (Zn (-128)) PNone) = Ok (bs "-128") /\
  string_top ff0 H (mkValue TypeUint8 (Zn 255) PNone) = Ok (bs "255") /\
  string_top ff0 H (mkValue TypeInt32 (Zn (-2147483648)) PNone) = Ok (bs "-2147483648") /\
  string_top ff0 H (mkValue TypeFloat64 (Fn 1234.75%float) PNone) = Ok (bs "1234.") /\
  string_top ff0 H (mkValue TypeString (Zn 0) (PStr (bs "a b"))) = Ok (bs "a b").
Proof.
  destruct (C14.c14_scalars ff0 H) as (B & I & F & S).
  pose proof (B true) as B1. pose proof (B false) as B0.
  pose proof (I U32 4294967295 ltac:(vm_compute; discriminate) eq_refl) as I1.
  pose proof (I U32 2147483648 ltac:(vm_compute; discriminate) eq_refl) as I2.
  pose proof (I I8 (-128) ltac:(vm_compute; discriminate) eq_refl) as I3.
  pose proof (I U8 255 ltac:(vm_compute; discriminate) eq_refl) as I4.
  pose proof (I I32 (-2147483648) ltac:(vm_compute; discriminate) eq_refl) as I5.
  pose proof (F 1234.75%float) as F1. pose proof (S (bs "a b")) as S1.
  exact (conj B1 (conj B0 (conj I1 (conj I2 (conj I3 (conj I4 (conj I5 (conj F1 S1)))))))).
Qed.

(* ---- repr / repr_top: inhabited for every shape the comment of c14_nested lists --------------------------- *)
Ltac rp :=
  lazymatch goal with
  | |- Forall2 _ _ _ => constructor; rp
  | |- repr_field _ _ _ => split; [reflexivity | cbn [snd]; rp]
  | |- repr _ _ (GSlice _) => eapply RSlice; [reflexivity | reflexivity | rp]
  | |- repr _ _ (GMap1 (GStr _) _) => eapply RStrMap1; [reflexivity | reflexivity | rp]
  | |- repr _ _ (GMap1 _ _) => eapply RNumMap1; [reflexivity | reflexivity | rp | reflexivity | rp]
  | |- repr _ _ GMap0 => first [eapply RStrMap0; [reflexivity | reflexivity] | eapply RNumMap0; [reflexivity | reflexivity]]
  | |- repr _ _ (GInt _) => apply RInt; reflexivity
  | |- repr _ _ (GBool ?b) => apply (RBool _ _ b); reflexivity
  | |- repr _ _ (GStr _) => apply RStr; reflexivity
  | |- repr _ _ (GFloat _) => apply RFloat; reflexivity
  | |- repr _ _ GNilSlice => apply RNilSlice; reflexivity
  | |- repr _ _ GNilMap => apply RNilMap; reflexivity
  | |- repr_top _ _ (GVal _) => apply RTVal; rp
  | |- repr_top _ _ (GStructRef _) => eapply RTStruct; [reflexivity | reflexivity | rp]
  end.

Definition gi (z : Z) := GInt z.
(* (a) slice of slices *)
Definition g_a : gtop := GVal (GSlice [GSlice [GInt 1; GInt 2]; GSlice []]).
(* (b) single-entry map of a slice *)
Definition g_b : gtop := GVal (GMap1 (GStr (bs "k")) (GSlice [GInt 1; GInt 2])).
(* (c) slice of maps: single-entry numeric map, empty string map, nil map, empty numeric map *)
Definition g_c : gtop := GVal (GSlice [GMap1 (GInt 5) (GStr (bs "x")); GMap0; GNilMap; GMap0]).
(* (d) struct reference whose fields have depth <= 1 (int, slice, map, string, nil slice, float, bool) *)
Definition g_d : gtop := GStructRef [(bs "A", GInt 7); (bs "B", GSlice [GInt 1; GInt 2]); (bs "C", GMap1 (GInt 5) (GStr (bs "x")));
                                     (bs "S", GStr (bs "hi")); (bs "N", GNilSlice); (bs "F", GFloat 2.75%float); (bs "T", GBool true)].
(* (e) map of a nil map;  (f) map (bool key) of a map *)
Definition g_e : gtop := GVal (GMap1 (GStr (bs "n")) GNilMap).
Definition g_f : gtop := GVal (GMap1 (GBool true) (GMap1 (GInt 5) (GStr (bs "x")))).
(* depth 1 / 0 shapes: nil map, empty maps (both object kinds), nil slice, empty slice, empty struct *)

Lemma repr_a : repr_top H (ref tS2 2) g_a.   Proof. unfold g_a; rp. Qed.
Lemma repr_b : repr_top H (ref tMsS 5) g_b.  Proof. unfold g_b; rp. Qed.
Lemma repr_c : repr_top H (ref tSM 6) g_c.   Proof. unfold g_c; rp. Qed.
Lemma repr_d : repr_top H (ref tStr 9) g_d.  Proof. unfold g_d; rp. Qed.
Lemma repr_e : repr_top H (ref tMsM 12) g_e. Proof. unfold g_e; rp. Qed.
Lemma repr_f : repr_top H (ref tMbM 13) g_f. Proof. unfold g_f; rp. Qed.
Lemma repr_nilmap : repr_top H (nilv tMis) (GVal GNilMap).       Proof. rp. Qed.
Lemma repr_nilslice : repr_top H (nilv tS1) (GVal GNilSlice).    Proof. rp. Qed.
Lemma repr_empty_strmap : repr_top H (ref tMsS 8) (GVal GMap0).  Proof. rp. Qed.
Lemma repr_empty_nummap : repr_top H (ref tMis 14) (GVal GMap0). Proof. rp. Qed.
Lemma repr_empty_slice : repr_top H (ref tS1 4) (GVal (GSlice [])). Proof. rp. Qed.
Lemma repr_empty_struct : repr_top H (ref tStr 15) (GStructRef []). Proof. rp. Qed.

Lemma depths : depth_top g_a = 2%nat /\ depth_top g_b = 2%nat /\ depth_top g_c = 2%nat /\ depth_top g_d = 2%nat /\
               depth_top g_e = 2%nat /\ depth_top g_f = 2%nat.
Proof. repeat split. Qed.

(* ---- c14_nested applied to each shape; the right-hand sides are literal strings ---------------------------- *)
Lemma nv_c14_nested :
  string_top ff0 H (ref tS2 2) = Ok (bs "[[1 2] []]") /\
  string_top ff0 H (ref tMsS 5) = Ok (bs "map[k:[1 2]]") /\
  string_top ff0 H (ref tSM 6) = Ok (bs "[map[5:x] map[] map[] map[]]") /\
  string_top ff0 H (ref tStr 9) = Ok (bs "&{A:7 B:[1 2] C:map[5:x] S:hi N:[] F:2. T:true}") /\
  string_top ff0 H (ref tMsM 12) = Ok (bs "map[n:map[]]") /\
  string_top ff0 H (ref tMbM 13) = Ok (bs "map[true:map[5:x]]") /\
  string_top ff0 H (nilv tMis) = Ok (bs "map[]") /\
  string_top ff0 H (nilv tS1) = Ok (bs "[]") /\
  string_top ff0 H (ref tMsS 8) = Ok (bs "map[]") /\
  string_top ff0 H (ref tMis 14) = Ok (bs "map[]") /\
  string_top ff0 H (ref tS1 4) = Ok (bs "[]") /\
  string_top ff0 H (ref tStr 15) = Ok (bs "&{}").
Proof.
  pose (nest := fun v g R D => C14.c14_nested ff0 H v g R D).
  split; [rewrite (nest _ _ repr_a ltac:(vm_compute; lia)); vm_compute; reflexivity|].
  split; [rewrite (nest _ _ repr_b ltac:(vm_compute; lia)); vm_compute; reflexivity|].
  split; [rewrite (nest _ _ repr_c ltac:(vm_compute; lia)); vm_compute; reflexivity|].
  split; [rewrite (nest _ _ repr_d ltac:(vm_compute; lia)); vm_compute; reflexivity|].
  split; [rewrite (nest _ _ repr_e ltac:(vm_compute; lia)); vm_compute; reflexivity|].
  split; [rewrite (nest _ _ repr_f ltac:(vm_compute; lia)); vm_compute; reflexivity|].
  split; [rewrite (nest _ _ repr_nilmap ltac:(vm_compute; lia)); vm_compute; reflexivity|].
  split; [rewrite (nest _ _ repr_nilslice ltac:(vm_compute; lia)); vm_compute; reflexivity|].
  split; [rewrite (nest _ _ repr_empty_strmap ltac:(vm_compute; lia)); vm_compute; reflexivity|].
  split; [rewrite (nest _ _ repr_empty_nummap ltac:(vm_compute; lia)); vm_compute; reflexivity|].
  split; [rewrite (nest _ _ repr_empty_slice ltac:(vm_compute; lia)); vm_compute; reflexivity|].
  rewrite (nest _ _ repr_empty_struct ltac:(vm_compute; lia)); vm_compute; reflexivity.
Qed.

(* ---- c14_println: 8 operands (all depth-2 shapes + scalars), Sprint, and Print of one operand ---------------- *)
Definition ops_v : list value :=
  [ref tS2 2; ref tMsS 5; ref tSM 6; ref tStr 9; ref tMsM 12; ref tMbM 13; mkValue TypeUint32 (Zn 4294967295) PNone; str "end"].
Definition ops_g : list gtop := [g_a; g_b; g_c; g_d; g_e; g_f; GVal (GInt 4294967295); GVal (GStr (bs "end"))].
Lemma ops_repr : Forall2 (fun v g => repr_top H v g /\ (depth_top g <= 2)%nat) ops_v ops_g.
Proof.
  unfold ops_v, ops_g.
  repeat (apply Forall2_cons; [split; [first [exact repr_a|exact repr_b|exact repr_c|exact repr_d|exact repr_e|exact repr_f|rp] | vm_compute; lia]|]).
  apply Forall2_nil.
Qed.
Lemma nv_c14_println :
  fmt_Println ff0 H ops_v =
    Ok (bs "[[1 2] []] map[k:[1 2]] [map[5:x] map[] map[] map[]] &{A:7 B:[1 2] C:map[5:x] S:hi N:[] F:2. T:true} map[n:map[]] map[true:map[5:x]] 4294967295 end" ++ [10])%list /\
  fmt_Sprint ff0 H ops_v =
    Ok (bs "[[1 2] []] map[k:[1 2]] [map[5:x] map[] map[] map[]] &{A:7 B:[1 2] C:map[5:x] S:hi N:[] F:2. T:true} map[n:map[]] map[true:map[5:x]] 4294967295 end") /\
  fmt_Print ff0 H [ref tStr 9] = Ok (bs "&{A:7 B:[1 2] C:map[5:x] S:hi N:[] F:2. T:true}").
Proof.
  destruct (C14.c14_println ff0 H _ _ ops_repr) as (P & S & _).
  assert (F1 : Forall2 (fun v g => repr_top H v g /\ (depth_top g <= 2)%nat) [ref tStr 9] [g_d]).
  { constructor; [split; [exact repr_d | vm_compute; lia] | constructor]. }
  destruct (C14.c14_println ff0 H _ _ F1) as (_ & _ & P1).
  split; [rewrite P; vm_compute; reflexivity|]. split; [rewrite S; vm_compute; reflexivity|].
  rewrite (P1 _ _ eq_refl eq_refl). vm_compute. reflexivity.
Qed.

(* ---- remarks made formal ------------------------------------------------------------------------------------- *)
(* (R1) the spec constructor GNil is never related to any goatlang value: c14_nested/c14_println never speak about a nil
   interface / nil pointer operand (consistent with c14_nil_refuted, which shows goatlang prints "nil", Go "<nil>") *)
Lemma remark_GNil_not_repr : forall h v, ~ repr h v GNil.
Proof. intros h v R. inversion R. Qed.
Lemma remark_GNil_not_repr_top : forall h v, ~ repr_top h v (GVal GNil).
Proof. intros h v R. inversion R; subst. eapply remark_GNil_not_repr; eauto. Qed.
(* (R2) maps with two or more entries are not representable (the comment of c14_nested admits it): repr only relates a map
   VALUE to GMap1/GMap0/GNilMap, and GMap1 needs a one-entry object *)
Lemma remark_two_entry_map_not_repr : forall g, ~ repr_top H (ref tMiX 11) g.
Proof.
  intros g R. inversion R as [v g0 R0|]; subst.
  - inversion R0; subst; match goal with E : H 11 = Some _ |- _ => vm_compute in E; discriminate E end.
  - match goal with E : Type_base _ = TypeStruct |- _ => vm_compute in E; discriminate E end.
Qed.
(* (R3) a struct reference nested in a slice is not representable either (Go prints an address there) *)
(* (R4) the float conjunct of c14_scalars has no content about float FORMATTING: model and spec share [ff], the conjunct
   holds for every ff, e.g. the constant-empty formatter; it only says goatlang hands the float64 to fmt unchanged *)
Lemma remark_c14_float_parametric : forall h f,
  string_top (fun _ => []) h (mkValue TypeFloat64 (Fn f) PNone) = Ok (go_fmt (fun _ => []) (GFloat f)).
Proof. intros. reflexivity. Qed.
(* (R5) the Sprint conjunct of c14_println for >= 2 operands states goatlang's own rule (always one space); the right-hand side
   [join_sp (map go_fmt_top gs)] is NOT Go's fmt.Sprint, which adds a space only between operands when neither is a string:
   Go: fmt.Sprint("a","b") = "ab"; goatlang/model: "a b" *)
Lemma remark_sprint_strings : fmt_Sprint ff0 H [str "a"; str "b"] = Ok (bs "a b").
Proof. reflexivity. Qed.

End M14.

(* ======================================================================================================== *)
(* C10                                                                                                      *)
(* ======================================================================================================== *)
Module M10.
Import GV.Model.OMap GV.Proofs.C10_omap.
Import ListNotations.
Local Open Scope Z_scope.

(* Section context: K = Z with Z.eqb; V = (type tag, payload); assignV really depends on the type argument
   (conversion to uint8 when the element type is 8, retagging always); zeroV depends on the type too *)
Definition V : Type := (Z * Z)%type.
Definition assignV (v : V) (t : Z) : V := (t, if t =? 8 then snd v mod 256 else snd v).
Definition zeroV (t : Z) : V := (t, 0).
Definition keqb : Z -> Z -> bool := Z.eqb.
Lemma keqb_spec : forall a b, keqb a b = true <-> a = b.
Proof. exact Z.eqb_eq. Qed.

Ltac perm_rev := match goal with |- Permutation _ ?l => exact (Permutation_sym (Permutation_rev l)) end.

(* ---- a map with a history: literal of 6 entries, three deletes, a re-insert of a deleted key (key stays listed),
   two more deletes the second of which compacts (oracle order [2;6] <> data order [6;2]), a re-insert after the
   compaction and a fresh insert.  Every delete carries a non-trivial [order] (reverse of the live keys / a swap). ---- *)
Definition lit : list (Z * V) := [(1, (0, 300)); (2, (0, 20)); (3, (0, 30)); (4, (0, 40)); (5, (0, 50)); (6, (0, 60))].
Definition m0 : omap := new_map keqb assignV 8 lit.
Definition hist : list (@op Z V) :=
  [ODelete 1 [6; 5; 4; 3; 2]; ODelete 2 [6; 5; 4; 3]; ODelete 3 [4; 6; 5];
   OSet 2 (0, 777);
   ODelete 4 [2; 6; 5]; ODelete 5 [2; 6];
   OSet 1 (0, 1000); OSet 9 (0, 9)].
Definition mh : omap := apply_all keqb assignV m0 hist.

(* c10_inv, conjunct 1: NoDup (map fst ps) *)
Lemma nv_c10_inv_1 : Inv keqb m0.
Proof.
  apply (proj1 (C10.c10_inv keqb keqb_spec assignV)).
  vm_compute. repeat (constructor; [cbn; intuition discriminate|]). constructor.
Qed.

(* c10_inv, conjunct 2: ops_ok unfolded =
     order_ok m0 1 [6;5;4;3;2] /\ order_ok (delete m0 1 ..) 2 [6;5;4;3] /\ ... /\ True,
   order_ok m k order = Permutation order (map fst (remove k (data m))) *)
Lemma hist_ok : ops_ok keqb assignV m0 hist.
Proof.
  vm_compute. repeat split; try perm_rev.
  (* Permutation [4;6;5] [4;5;6] *)
  apply perm_skip, perm_swap.
Qed.
Lemma nv_c10_inv_2 : Inv keqb mh.
Proof. exact (proj2 (C10.c10_inv keqb keqb_spec assignV) hist m0 nv_c10_inv_1 hist_ok). Qed.

(* the state reached: a compaction happened (keys were replaced by the oracle order), 1 and 9 appended *)
Lemma mh_value : keys mh = [2; 6; 1; 9] /\
  data mh = [(6, (8, 60)); (2, (8, 9)); (1, (8, 232)); (9, (8, 9))] /\ vtype mh = 8.
Proof. vm_compute. repeat split. Qed.

(* ---- c10_refine, every conjunct, on mh -------------------------------------------------------------------- *)
Lemma nv_c10_refine :
  (* 1 *) get keqb zeroV (set keqb assignV mh 6 (0, 999)) 6 = ((8, 231), true) /\
  (* 2 *) get keqb zeroV (set keqb assignV mh 6 (0, 999)) 2 = ((8, 9), true) /\
  (* 3 *) get keqb zeroV (delete keqb mh 2 [9; 1; 6]) 2 = ((8, 0), false) /\
          get keqb zeroV (delete keqb mh 4 [9; 1; 6; 2]) 4 = ((8, 0), false) /\
  (* 4 *) get keqb zeroV (delete keqb mh 2 [9; 1; 6]) 1 = ((8, 232), true) /\
  (* 5 *) len (set keqb assignV mh 6 (0, 999)) = 4%nat /\ len (set keqb assignV mh 5 (0, 5)) = 5%nat /\
  (* 6 *) len (delete keqb mh 2 [9; 1; 6]) = 3%nat /\ len (delete keqb mh 5 [9; 1; 6; 2]) = 4%nat.
Proof.
  destruct (C10.c10_refine keqb keqb_spec assignV zeroV) as (R1 & R2 & R3 & R4 & R5 & R6).
  pose proof nv_c10_inv_2 as I. pose proof (proj1 (proj2 I)) as ND.
  pose proof (R1 mh 6 (0, 999)) as A1.
  pose proof (R2 mh 6 2 (0, 999) ltac:(discriminate)) as A2.
  pose proof (R3 mh 2 [9; 1; 6]) as A3.
  pose proof (R3 mh 4 [9; 1; 6; 2]) as A3'.
  pose proof (R4 mh 2 1 [9; 1; 6] ltac:(discriminate)) as A4.
  pose proof (R5 mh 6 (0, 999)) as A5. pose proof (R5 mh 5 (0, 5)) as A5'.
  pose proof (R6 mh 2 [9; 1; 6] I) as A6. pose proof (R6 mh 5 [9; 1; 6; 2] I) as A6'.
  exact (conj A1 (conj A2 (conj A3 (conj A3' (conj A4 (conj A5 (conj A5' (conj A6 A6')))))))).
Qed.

(* ---- c10_range ---------------------------------------------------------------------------------------------- *)
(* the map ranged over: literal, delete 1 2 3, re-insert 2: snapshot [1;2;3;4;5;6] with stale entries 1 and 3 *)
Definition mr : omap :=
  apply_all keqb assignV m0 [ODelete 1 [6; 5; 4; 3; 2]; ODelete 2 [6; 5; 4; 3]; ODelete 3 [4; 6; 5]; OSet 2 (0, 777)].
Lemma mr_inv : Inv keqb mr.
Proof.
  apply (proj2 (C10.c10_inv keqb keqb_spec assignV) _ m0 nv_c10_inv_1).
  vm_compute. repeat split; try perm_rev. apply perm_skip, perm_swap.
Qed.
Lemma mr_value : keys mr = [1; 2; 3; 4; 5; 6] /\ map fst (data mr) = [4; 5; 6; 2].
Proof. vm_compute. split; reflexivity. Qed.

(* the loop body really mutates the map between visits:
     at 2: delete the not-yet-visited key 5, insert the new key 7, re-insert the deleted key 3 (still in the snapshot)
     at 3: delete the not-yet-visited key 6
     at 4: delete 2 (already visited), delete 7 -> this delete COMPACTS (oracle order [3;4], data order [4;3]),
           then re-insert the deleted, not yet visited key 5
     at 5: update 5 *)
Definition body (k : Z) : list (@op Z V) :=
  if k =? 2 then [ODelete 5 [2; 6; 4]; OSet 7 (0, 70); OSet 3 (0, 33)]
  else if k =? 3 then [ODelete 6 [3; 7; 2; 4]]
  else if k =? 4 then [ODelete 2 [3; 7; 4]; ODelete 7 [3; 4]; OSet 5 (0, 55)]
  else if k =? 5 then [OSet 5 (0, 56)]
  else [].

(* body_ok unfolded: for each visit (next m r = Some (k,_,r')), ops_ok m (body k) /\ body_ok ... on the updated map;
   after vm_compute it is the conjunction of the six order_ok (Permutation) obligations of the deletes above *)
Lemma body_is_ok : body_ok keqb assignV (S (length (keys mr))) mr (keys mr) body.
Proof. vm_compute. repeat split; perm_rev. Qed.

Definition fuel := S (length (keys mr)).
Lemma range_value :
  fst (range_loop keqb assignV fuel mr (keys mr) body) = [2; 3; 4; 5] /\
  keys (snd (range_loop keqb assignV fuel mr (keys mr) body)) = [3; 4; 5] /\
  map (fun s => map fst (data s)) (states keqb assignV fuel mr (keys mr) body) =
    [[4; 5; 6; 2]; [4; 6; 2; 7; 3]; [4; 2; 7; 3]; [4; 3; 5]; [4; 3; 5]].
Proof. vm_compute. repeat split. Qed.

Lemma nv_c10_range :
  let vs := fst (range_loop keqb assignV fuel mr (keys mr) body) in
  NoDup vs /\ In 4 vs /\
  (forall k, In k vs -> exists s, In s (states keqb assignV fuel mr (keys mr) body) /\ live keqb s k) /\
  (forall k, In k vs -> In k (keys mr)).
Proof.
  destruct (C10.c10_range keqb assignV mr body mr_inv) as (C1 & C2 & C3 & C4).
  split; [exact C1|]. split; [|split; [exact C3 | exact C4]].
  (* conjunct 2: key 4 is live in every state of the loop *)
  apply C2. intros s Hs. vm_compute in Hs.
  repeat (destruct Hs as [<-|Hs]; [vm_compute; discriminate|]). destruct Hs.
Qed.

(* c10_range_live: the i-th visited key is live in the i-th state -- with the real fuel, the real (mutating) body *)
Lemma nv_c10_range_live :
  Forall2 (fun k s => live keqb s k) [2; 3; 4; 5] (firstn 4 (states keqb assignV fuel mr (keys mr) body)).
Proof.
  destruct (range_loop keqb assignV fuel mr (keys mr) body) as [vs mf] eqn:E.
  pose proof (C10.c10_range_live keqb assignV fuel mr (keys mr) body vs mf E) as L.
  assert (vs = [2; 3; 4; 5]) as -> by (vm_compute in E; congruence).
  exact L.
Qed.

(* ---- the fuel S (length r) is always sufficient: range_loop / states never stop because of the fuel, so the "each key is
   visited" conjunct is not made true (or false) by fuel exhaustion.  Proved for every K, V, map, snapshot and body. ---- *)
Section Fuel.
  Context {K W : Type} (eqb : K -> K -> bool) (asg : W -> Z -> W).
  Lemma next_shorter : forall (m : @omap K W) r k v r', next eqb m r = Some (k, v, r') -> (length r' < length r)%nat.
  Proof.
    intros m r. induction r as [|a r IH]; cbn [next]; intros k v r' E; [discriminate|].
    destruct (lookup eqb a (data m)).
    - injection E as _ _ <-. cbn. lia.
    - specialize (IH _ _ _ E). cbn. lia.
  Qed.
  Lemma fuel_irrelevant : forall f1 f2 (m : @omap K W) r body, (length r < f1)%nat -> (length r < f2)%nat ->
    range_loop eqb asg f1 m r body = range_loop eqb asg f2 m r body /\
    states eqb asg f1 m r body = states eqb asg f2 m r body.
  Proof.
    induction f1 as [|f1 IH]; intros f2 m r body H1 H2; [lia|].
    destruct f2 as [|f2]; [lia|]. cbn [range_loop states].
    destruct (next eqb m r) as [[[k v] r']|] eqn:E; [|split; reflexivity].
    pose proof (next_shorter _ _ _ _ _ E).
    destruct (IH f2 (apply_all eqb asg m (body k)) r' body ltac:(lia) ltac:(lia)) as [-> ->]. split; reflexivity.
  Qed.
  (* with that fuel the loop ends only because the snapshot has no live key left *)
  Lemma loop_ends_by_exhausting_snapshot : forall f (m : @omap K W) r body, (length r < f)%nat ->
    exists r', next eqb (snd (range_loop eqb asg f m r body)) r' = None /\
               (length (fst (range_loop eqb asg f m r body)) + length r' <= length r)%nat.
  Proof.
    induction f as [|f IH]; intros m r body Hf; [lia|]. cbn [range_loop].
    destruct (next eqb m r) as [[[k v] r']|] eqn:E.
    - pose proof (next_shorter _ _ _ _ _ E).
      destruct (IH (apply_all eqb asg m (body k)) r' body ltac:(lia)) as (r'' & N & L).
      destruct (range_loop eqb asg f (apply_all eqb asg m (body k)) r' body) as [vs mf]. cbn [fst snd length] in *.
      exists r''. split; [exact N | lia].
    - exists r. cbn [fst snd length]. split; [exact E | lia].
  Qed.
End Fuel.

(* ---- premises removed after the audit: body_ok in c10_range; NoDup in conjunct 3 and Inv in conjunct 5 of c10_refine.
   The theorems of Props/C10.v are now stated without them (the evidence lemmas remark_c10_* that showed they carried no
   weight became the proofs).  body_is_ok above is kept: it shows the witness body is also a body for which c10_inv carries
   Inv through the loop.  A body that is NOT body_ok (a delete with a bogus compaction order) still satisfies c10_range: ---- *)
Definition bad_body (k : Z) : list (@op Z V) := if k =? 2 then [ODelete 5 [99; 98]] else [].
Lemma nv_c10_range_any_body :
  ~ body_ok keqb assignV fuel mr (keys mr) bad_body /\
  NoDup (fst (range_loop keqb assignV fuel mr (keys mr) bad_body)) /\
  fst (range_loop keqb assignV fuel mr (keys mr) bad_body) = [2; 4; 6].
Proof.
  split; [|split; [exact (proj1 (C10.c10_range keqb assignV mr bad_body mr_inv))|vm_compute; reflexivity]].
  vm_compute. intros H. decompose [and] H.
  match goal with P : Permutation _ _ |- _ => apply Permutation_length in P; discriminate P end.
Qed.

End M10.

(* the M14 lemmas list Coq's primitive float / int63 operations (the PrimFloat and PrimInt63 primitives) -- exactly the set that
   Print Assumptions shows for C14.c14_total etc. themselves ([value] contains a float); nothing else.  M10: closed. *)
Print Assumptions M14.nv_c14_total_2.
Print Assumptions M14.nv_c14_println.
Print Assumptions M14.nv_c14_nested.
Print Assumptions M10.nv_c10_range.
Print Assumptions M10.nv_c10_refine.
Print Assumptions M10.nv_c10_range_live.
