(* NV_C19 -- non-vacuity audit of Props/C19.v (embedding API: round trips, NewFunc adapters,
   call / callReady, VM.Func, bound methods, error propagation).
   Every conjunct of every C19 theorem that carries premises is instantiated below with
   concrete, non-trivial witnesses (non-empty stack prefix, argc >= 2, script-like bodies that
   really inspect their arguments, variadic functions with typed element type, a registered
   inner script function that panics) and the Props theorem is APPLIED to obtain the concrete
   conclusion.  Remarks / restatement suggestions are the lemmas named remark_* . *)
From Coq Require Import ZArith List Bool Floats Lia.
From GV Require Import GoSpec.GoPrim Gen.ValueOps_gen Model.Call Proofs.C19_roundtrip Proofs.C19_adapter Props.C19.
Import ListNotations.
Open Scope Z_scope.

(* ------------------------------------------------------------------------------------------ *)
(* concrete cells, callbacks and function values used throughout                                *)
(* ------------------------------------------------------------------------------------------ *)

Definition i (x : Z) : cell := CVal (fn_Int32 x).                      (* int32 x *)
Definition u (x : Z) : cell := CVal (fn_newUntypedInt x).             (* untyped constant x *)
Definition fl (x : Z) : cell := CVal (fn_Float64 (Zn x)).             (* float64 x.0 *)
Definition str (s : list Z) : cell := CVal (fn_String s).
Definition obj : cell := CVal (mkValue TypeStruct (Zn 0) (PRef 1)).   (* a receiver object *)

(* what lies below the call: NOT empty *)
Definition below : list cell := [i 100; str [104; 105]].

(* native callbacks (they inspect their arguments; they can fail) *)
Definition cb0 (a : list cell) : cres unit :=
  if slen a =? 2 then Good tt else Fail (ERaised a).
Definition cb1 (a : list cell) : cres cell :=
  match a with
  | [CVal x; CVal y] => Good (i (Value_Int32 x + Value_Int32 y))
  | _ => Fail (ERaised a)
  end.
Definition cbM (a : list cell) : cres (list cell) := Good (rev a ++ [i (slen a)]).
Definition cbV (fixed va : list cell) : cres (list cell) :=
  if slen va <? 3 then Fail (ERaised va) else Good (fixed ++ va).
Definition cbDiv (a : list cell) : cres cell :=
  match a with
  | [CVal x; CVal y] => if Value_Int32 y =? 0 then Fail (ERaised [str [100; 105; 118]])
                        else Good (i (Z.quot (Value_Int32 x) (Value_Int32 y)))
  | _ => Fail (ERaised a)
  end.

(* "compiled bodies" of script functions *)
Definition add_code (a : list cell) : cres (list cell) :=
  match a with
  | [CVal x; CVal y] => Good [i (Value_Int32 x + Value_Int32 y)]
  | _ => Fail (ERaised a)
  end.
Definition div_code (a : list cell) : cres (list cell) :=
  match a with
  | [CVal x; CVal y] => if Value_Int32 y =? 0 then Fail (ERaised [str [100; 105; 118]])
                        else Good [i (Z.quot (Value_Int32 x) (Value_Int32 y))]
  | _ => Fail (ERaised a)
  end.
Definition swap_code (a : list cell) : cres (list cell) :=
  match a with [x; y] => Good [y; x] | _ => Fail (ERaised a) end.
(* variadic body: receiver/first, second, packed slice -> one slice holding everything it saw; when the
   variadic parameter is a NIL slice (no surplus argument) the answer is tagged with the nil value's own
   tag (the slice type, not the element type), so the two cases cannot be confused *)
Definition vcode (a : list cell) : cres (list cell) :=
  match a with
  | [r; b; CPack et items] => Good [CPack et (r :: b :: items)]
  | [r; b; CVal v] => match vval v with PNone => Good [CPack (vt v) [r; b]] | _ => Fail (ERaised a) end
  | _ => Fail (ERaised a)
  end.

Definition sfn  : funcT := script_fn 2 1 [TypeInt32; TypeInt32] [TypeInt32] add_code.
Definition dfn  : funcT := script_fn 2 1 [TypeInt32; TypeInt32] [TypeInt32] div_code.
Definition swfn : funcT := script_fn 2 2 [TypeStruct; TypeInt32] [TypeInt32; TypeStruct] swap_code.
(* a script function  func(a, b int32, rest ...float64)  : Args = 3, Variadic *)
Definition vfn : funcT :=
  mkFuncT 3 1 true (fn_sliceType TypeFloat64)
          (mkFunc 3 1 [TypeInt32; TypeInt32] [] vcode).

Lemma add_code_rets : forall a outs, add_code a = Good outs -> slen outs = 1.
Proof.
  intros a outs. unfold add_code.
  destruct a as [|[x|et it|h] [|[y|et2 it2|h2] [|z a3]]]; intros H; try discriminate H.
  injection H as <-. reflexivity.
Qed.
Lemma div_code_rets : forall a outs, div_code a = Good outs -> slen outs = 1.
Proof.
  intros a outs. unfold div_code.
  destruct a as [|[x|et it|h] [|[y|et2 it2|h2] [|z a3]]]; intros H; try discriminate H.
  destruct (Value_Int32 y =? 0); [discriminate H|]. injection H as <-. reflexivity.
Qed.
Lemma swap_code_rets : forall a outs, swap_code a = Good outs -> slen outs = 2.
Proof.
  intros a outs. unfold swap_code.
  destruct a as [|x [|y [|z a3]]]; intros H; try discriminate H. injection H as <-. reflexivity.
Qed.

(* `<~` : Fail propagates, the continuation is never run, no Good can be fabricated *)
Lemma nv_cbind_fail : forall A B (k : A -> cres B) e, (x <~ Fail e ;; k x) = Fail e.
Proof. reflexivity. Qed.

(* ------------------------------------------------------------------------------------------ *)
(* 1. c19_roundtrip / c19_roundtrip_wide: the in_range premises are satisfiable at BOTH         *)
(*    boundaries of every domain (closed intervals), and by interior values                     *)
(* ------------------------------------------------------------------------------------------ *)

Lemma nv_c19_roundtrip :
  Value_Int32 (fn_Int32 (-2147483648)) = -2147483648 /\ Value_Int32 (fn_Int32 2147483647) = 2147483647 /\
  Value_Int32 (fn_Int32 (-7)) = -7 /\
  Value_Uint32 (fn_Uint32 0) = 0 /\ Value_Uint32 (fn_Uint32 4294967295) = 4294967295 /\
  Value_Int8 (fn_Int8 (-128)) = -128 /\ Value_Int8 (fn_Int8 127) = 127 /\
  Value_Byte (fn_Byte 0) = 0 /\ Value_Byte (fn_Byte 255) = 255 /\
  Value_Uint8 (fn_Uint8 255) = 255 /\
  Value_Bool (fn_Bool true) = true /\ Value_Bool (fn_Bool false) = false /\
  Value_Float64 (fn_Float64 (Fn 1.5%float)) = Fn 1.5%float /\
  Value_Float64 (fn_Float64 (Fn PrimFloat.nan)) = Fn PrimFloat.nan /\
  Value_Float64 (fn_Float64 (Fn PrimFloat.neg_zero)) = Fn PrimFloat.neg_zero /\
  as_str (vval (fn_String [104; 105; 255])) = Ok [104; 105; 255].
Proof.
  destruct c19_roundtrip as (R1 & R2 & R3 & R4 & R5 & R6 & R7 & R8).
  split; [apply R1; reflexivity|]. split; [apply R1; reflexivity|]. split; [apply R1; reflexivity|].
  split; [apply R2; reflexivity|]. split; [apply R2; reflexivity|].
  split; [apply R3; reflexivity|]. split; [apply R3; reflexivity|].
  split; [apply R4; reflexivity|]. split; [apply R4; reflexivity|].
  split; [apply R5; reflexivity|].
  split; [apply R6|]. split; [apply R6|].
  split; [apply R7|]. split; [apply R7|]. split; [apply R7|].
  apply (R8 [104; 105; 255]).
Qed.

(* the premise is not decoration: just outside the domain the (model of the) conversion is not the
   identity -- the amd64 "integer indefinite" for int32, truncation for the 8-bit types *)
Lemma nv_c19_roundtrip_outside :
  Value_Int32 (fn_Int32 2147483648) = -2147483648 /\ Value_Int8 (fn_Int8 128) = -128 /\
  Value_Byte (fn_Byte 256) = 0 /\ Value_Uint32 (fn_Uint32 (-1)) = 4294967295.
Proof. vm_compute. repeat split; reflexivity. Qed.

Lemma nv_c19_roundtrip_wide :
  Value_Int (fn_Int 2147483647) = 2147483647 /\ Value_Int (fn_Int (-2147483648)) = -2147483648 /\
  Value_Int (fn_Int 2147483648) = -2147483648 /\ Value_Int (fn_Int 9223372036854775807) = -1 /\
  Value_Uint (fn_Uint 4294967295) = 4294967295 /\ Value_Uint (fn_Uint 0) = 0 /\
  Value_Uint (fn_Uint 4294967296) = 0 /\
  Value_Int32 (fn_Int 4294967298) = 2 /\ Value_Uint32 (fn_Uint (-1)) = 4294967295 /\
  Value_Int (fn_Int32 (-2147483648)) = -2147483648 /\ Value_Uint (fn_Uint32 4294967295) = 4294967295.
Proof.
  destruct c19_roundtrip_wide as (W1 & W2 & W3 & W4 & W5 & W6 & W7 & W8).
  split; [apply W2; reflexivity|]. split; [apply W2; reflexivity|].
  split; [rewrite W1; reflexivity|]. split; [rewrite W1; reflexivity|].
  split; [apply W4; reflexivity|]. split; [apply W4; reflexivity|].
  split; [rewrite W3; reflexivity|].
  split; [rewrite W5; reflexivity|]. split; [rewrite W6; reflexivity|].
  split; [apply W7; reflexivity | apply W8; reflexivity].
Qed.

(* REMARK (float conjunct).  fn_Float64 takes a [num]; the theorem is stated for [Fn f] payloads only.
   On the other representation of a float64 ([Zn z] = "a float64 holding the integer z", which is what
   the rest of the development uses for integer-valued numbers) the round trip is NOT the syntactic
   identity: mkV normalises the payload of a float64-tagged value to [Fn].  It is the identity only up
   to [num_same].  Harmless (every Go float64 is some [Fn f]) but "every value of the constructor's
   domain" in the comment means "every Fn f". *)
Lemma remark_c19_roundtrip_float_Zn :
  Value_Float64 (fn_Float64 (Zn 3)) <> Zn 3 /\
  num_same (Value_Float64 (fn_Float64 (Zn 3))) (Zn 3) = true.
Proof. split; [discriminate | reflexivity]. Qed.

(* ------------------------------------------------------------------------------------------ *)
(* 2. c19_adapter (argc = 2, non-empty prefix), c19_fields                                      *)
(* ------------------------------------------------------------------------------------------ *)

Lemma nv_c19_adapter :
  Body (NewFunc 2 0 (NN0 cb0)) (below ++ [i 6; i 7]) = Good below /\
  Body (NewFunc 2 1 (NN1 cb1)) (below ++ [i 6; i 7]) = Good (below ++ [i 13]) /\
  Body (NewFunc 2 1 (NN1 cb1)) (below ++ [i 6; CFn 4]) = Fail (ERaised [i 6; CFn 4]) /\
  Body (NewFunc 2 3 (NNM cbM)) (below ++ [i 6; i 7]) = Good (below ++ [i 7; i 6; i 2]) /\
  Body (NewFunc 2 4 (NNV cbV)) (below ++ [i 6] ++ [CPack TypeInt32 [i 1; i 2; i 3]]) =
    Good (below ++ [i 6; i 1; i 2; i 3]) /\
  Body (NewFunc 2 4 (NNV cbV)) (below ++ [i 6] ++ [CPack TypeInt32 [i 1]]) = Fail (ERaised [i 1]) /\
  Body (NewFunc 2 0 (N00 (Good tt))) below = Good below /\
  Body (NewFunc 2 1 (N01 (Good (i 5)))) below = Good (below ++ [i 5]).
Proof.
  split. { destruct (c19_adapter 2 0 below) as (_ & _ & A & _). rewrite A by reflexivity. reflexivity. }
  split. { destruct (c19_adapter 2 1 below) as (_ & _ & _ & A & _). rewrite A by reflexivity. reflexivity. }
  split. { destruct (c19_adapter 2 1 below) as (_ & _ & _ & A & _). rewrite A by reflexivity. reflexivity. }
  split. { destruct (c19_adapter 2 3 below) as (_ & _ & _ & _ & A & _). rewrite A by reflexivity. reflexivity. }
  split. { destruct (c19_adapter 2 4 below) as (_ & _ & _ & _ & _ & A). rewrite A by reflexivity. reflexivity. }
  split. { destruct (c19_adapter 2 4 below) as (_ & _ & _ & _ & _ & A). rewrite A by reflexivity. reflexivity. }
  split. { destruct (c19_adapter 2 0 below) as (A & _). rewrite A. reflexivity. }
  destruct (c19_adapter 2 1 below) as (_ & A & _). rewrite A. reflexivity.
Qed.

Lemma nv_c19_fields :
  Args (NewFunc 2 1 (NN1 cb1)) = 2 /\ Rets (NewFunc 2 1 (NN1 cb1)) = 1 /\ Variadic (NewFunc 2 1 (NN1 cb1)) = false /\
  Args (NewFunc 2 4 (NNV cbV)) = 2 /\ Variadic (NewFunc 2 4 (NNV cbV)) = true /\
  VariadicType (NewFunc 2 4 (NNV cbV)) = 0 /\ Variadic (NewFunc 0 4 (NNV cbV)) = false.
Proof.
  destruct (c19_fields 2 1 (NN1 cb1)) as (F1 & F2 & _ & F4); [lia|].
  destruct (c19_fields 2 4 (NNV cbV)) as (G1 & _ & G3 & G4); [lia|].
  destruct (c19_fields 0 4 (NNV cbV)) as (_ & _ & _ & K4); [lia|].
  repeat split; assumption.
Qed.

(* ------------------------------------------------------------------------------------------ *)
(* 3. c19_call                                                                                  *)
(* ------------------------------------------------------------------------------------------ *)

(* conjunct 1 *)
Lemma nv_c19_call_1 : callReady (below ++ [i 6; i 7; i 8]) sfn 3 1 = Fail EIncorrectArgs.
Proof. destruct c19_call as (C1 & _). apply C1. cbn. lia. Qed.

(* conjunct 2 with a script function (mkFunc body): premise  Body ft (lo ++ args) = Good (lo ++ outs)
   holds with lo = below (non-empty), untyped argument assigned to int32; three values of xRets *)
Lemma nv_c19_call_2 :
  Body sfn (below ++ [u 6; i 7]) = Good (below ++ [i 13]) /\
  callReady (below ++ [u 6; i 7]) sfn 2 1 = Good (below ++ [i 13]) /\
  callReady (below ++ [u 6; i 7]) sfn 2 0 = Good below /\
  callReady (below ++ [u 6; i 7]) sfn 2 2 = Fail EIncorrectReturns /\
  callReady (below ++ [obj; u 7]) swfn 2 1 = Good (below ++ [i 7]) /\
  callReady (below ++ [obj; u 7]) swfn 2 2 = Good (below ++ [i 7; obj]).
Proof.
  destruct c19_call as (_ & C2 & _).
  assert (Body sfn (below ++ [u 6; i 7]) = Good (below ++ [i 13])) as HB by reflexivity.
  assert (Body swfn (below ++ [obj; u 7]) = Good (below ++ [i 7; obj])) as HS by reflexivity.
  split; [exact HB|].
  split. { change 2 with (Args sfn) at 1. rewrite (C2 below [u 6; i 7] [i 13] sfn 1 HB eq_refl); [reflexivity | lia]. }
  split. { change 2 with (Args sfn) at 1. rewrite (C2 below [u 6; i 7] [i 13] sfn 0 HB eq_refl); [reflexivity | lia]. }
  split. { change 2 with (Args sfn) at 1. rewrite (C2 below [u 6; i 7] [i 13] sfn 2 HB eq_refl); [reflexivity | lia]. }
  split. { change 2 with (Args swfn) at 1. rewrite (C2 below [obj; u 7] [i 7; obj] swfn 1 HS eq_refl); [reflexivity | lia]. }
  change 2 with (Args swfn) at 1. rewrite (C2 below [obj; u 7] [i 7; obj] swfn 2 HS eq_refl); [reflexivity | lia].
Qed.

(* conjunct 3 *)
Lemma nv_c19_call_3 : call (below ++ [u 6; i 7]) sfn 2 1 = Good (below ++ [i 13]).
Proof.
  destruct c19_call as (_ & _ & C3 & _). rewrite C3 by reflexivity.
  apply nv_c19_call_2.
Qed.

(* conjunct 4: a variadic SCRIPT function with element type float64, Args = 3, two fixed and two
   surplus (untyped) arguments, non-empty prefix; the surplus arrives as ONE []float64 *)
Lemma nv_c19_call_4 :
  Variadic vfn = true /\ slen [i 1; i 2] = Args vfn - 1 /\
  call (below ++ [i 1; i 2] ++ [u 3; u 4]) vfn 4 1 =
    callReady (below ++ [i 1; i 2] ++ [CPack TypeFloat64 [fl 3; fl 4]]) vfn 3 1 /\
  call (below ++ [i 1; i 2] ++ [u 3; u 4]) vfn 4 1 =
    Good (below ++ [CPack TypeFloat64 [i 1; i 2; fl 3; fl 4]]).
Proof.
  destruct c19_call as (_ & _ & _ & C4 & _).
  split; [reflexivity|]. split; [reflexivity|].
  assert (call (below ++ [i 1; i 2] ++ [u 3; u 4]) vfn 4 1 =
          callReady (below ++ [i 1; i 2] ++ [CPack TypeFloat64 [fl 3; fl 4]]) vfn 3 1) as H.
  { refine (C4 below [i 1; i 2] [u 3; u 4] vfn 1 eq_refl eq_refl _). cbn. lia. }
  split; [exact H|]. rewrite H; reflexivity.
Qed.

(* conjunct 5: the same function without surplus argument: the variadic parameter is the NIL []float64
   (the body sees a value, not a packed slice: its answer carries the slice type tag) *)
Lemma nv_c19_call_5 :
  call (below ++ [i 1; i 2]) vfn 2 1 =
    callReady (below ++ [i 1; i 2] ++ [CVal (mkValue (fn_sliceType TypeFloat64) (Zn 0) PNone)]) vfn 3 1 /\
  call (below ++ [i 1; i 2]) vfn 2 1 = Good (below ++ [CPack (fn_sliceType TypeFloat64) [i 1; i 2]]) /\
  call (below ++ [i 1; i 2]) vfn 2 1 <> Good (below ++ [CPack TypeFloat64 [i 1; i 2]]).
Proof.
  destruct c19_call as (_ & _ & _ & _ & C5 & _).
  assert (call (below ++ [i 1; i 2]) vfn 2 1 =
          callReady (below ++ [i 1; i 2] ++ [CVal (mkValue (fn_sliceType TypeFloat64) (Zn 0) PNone)]) vfn 3 1) as H
    by exact (C5 below [i 1; i 2] vfn 1 eq_refl eq_refl).
  split; [exact H|]. split; [rewrite H; reflexivity|]. rewrite H. vm_compute. discriminate.
Qed.

(* conjunct 6 *)
Lemma nv_c19_call_6 : call (below ++ [i 1]) vfn 1 1 = Fail (ERuntime 2).
Proof. destruct c19_call as (_ & _ & _ & _ & _ & C6). apply C6; [reflexivity | cbn; lia]. Qed.

(* ------------------------------------------------------------------------------------------ *)
(* c19_native_call                                                                              *)
(* ------------------------------------------------------------------------------------------ *)

Lemma nv_c19_native_call :
  call (below ++ [i 6; i 7]) (NewFunc 2 1 (NN1 cb1)) 2 1 = Good (below ++ [i 13]) /\
  call (below ++ [i 6; i 7]) (NewFunc 2 3 (NNM cbM)) 2 2 = Good (below ++ [i 7; i 6]) /\
  call (below ++ [i 6; i 7]) (NewFunc 2 3 (NNM cbM)) 2 4 = Fail EIncorrectReturns /\
  call (below ++ [i 6; i 7; i 8]) (NewFunc 2 1 (NN1 cb1)) 3 1 = Fail EIncorrectArgs /\
  call (below ++ [i 6] ++ [u 1; u 2; i 3]) (NewFunc 2 4 (NNV cbV)) 4 4 = Good (below ++ [i 6; i 1; i 2; i 3]) /\
  call (below ++ [i 6] ++ [u 1; u 2; i 3]) (NewFunc 2 4 (NNV cbV)) 4 2 = Good (below ++ [i 6; i 1]) /\
  callReady (below ++ [i 6] ++ [CPack TypeFloat64 [fl 1; fl 2; fl 3]]) (NewFunc 2 4 (NNV cbV)) 2 4 =
    Good (below ++ [i 6; fl 1; fl 2; fl 3]).
Proof.
  destruct c19_native_call as (N1 & N2 & N3 & N4).
  split. { rewrite (N1 2 1 (NN1 cb1) below [i 6; i 7] 1) by (reflexivity || lia). reflexivity. }
  split. { rewrite (N1 2 3 (NNM cbM) below [i 6; i 7] 2) by (reflexivity || lia). reflexivity. }
  split. { rewrite (N1 2 3 (NNM cbM) below [i 6; i 7] 4) by (reflexivity || lia). reflexivity. }
  split. { apply N2; [reflexivity | lia | lia]. }
  split. { refine (eq_trans (N3 2 4 cbV below [i 6] [u 1; u 2; i 3] 4 eq_refl _) _); [lia | reflexivity]. }
  split. { refine (eq_trans (N3 2 4 cbV below [i 6] [u 1; u 2; i 3] 2 eq_refl _) _); [lia | reflexivity]. }
  rewrite (N4 2 4 cbV below [i 6]) by (reflexivity || lia). reflexivity.
Qed.

(* ------------------------------------------------------------------------------------------ *)
(* 4. c19_frames, c19_func                                                                      *)
(* ------------------------------------------------------------------------------------------ *)

(* conjunct 2 of c19_frames: the premise on [code] holds for code that really computes (and can fail) *)
Lemma nv_c19_frames_2 :
  frame_ok sfn (Args sfn) (fun a => outs <~ add_code (assign_zip [TypeInt32; TypeInt32] a) ;; Good (assign_zip [TypeInt32] outs)) /\
  frame_ok dfn (Args dfn) (fun a => outs <~ div_code (assign_zip [TypeInt32; TypeInt32] a) ;; Good (assign_zip [TypeInt32] outs)) /\
  frame_ok swfn (Args swfn) (fun a => outs <~ swap_code (assign_zip [TypeStruct; TypeInt32] a) ;; Good (assign_zip [TypeInt32; TypeStruct] outs)).
Proof.
  destruct c19_frames as (_ & F2).
  split; [|split].
  - apply F2; [lia | exact add_code_rets].
  - apply F2; [lia | exact div_code_rets].
  - apply F2; [lia | exact swap_code_rets].
Qed.

(* frame_ok unfolded on the witnesses: it is a statement about every prefix, instantiated here *)
Lemma nv_c19_frames_1 :
  Body (NewFunc 2 1 (NN1 cb1)) (below ++ [i 6; i 7]) = Good (below ++ [i 13]) /\
  Body sfn ([obj; obj; obj] ++ [u 6; i 7]) = Good ([obj; obj; obj] ++ [i 13]) /\
  Body dfn (below ++ [u 6; i 0]) = Fail (ERaised [str [100; 105; 118]]).
Proof.
  destruct c19_frames as (F1 & _). destruct nv_c19_frames_2 as (S1 & S2 & _).
  split. { rewrite (F1 2 1 (NN1 cb1) below [i 6; i 7] eq_refl). reflexivity. }
  split. { rewrite (S1 [obj; obj; obj] [u 6; i 7] eq_refl). reflexivity. }
  rewrite (S2 below [u 6; i 0] eq_refl). reflexivity.
Qed.

(* frame_ok is NOT restricted to natives / script functions: any body that works on its top
   [Args] cells only has it (here: a hand-made funcT duplicating its single argument) *)
Lemma nv_frame_ok_other :
  frame_ok (mkFuncT 1 2 false 0 (fun st => match rev st with x :: r => Good (rev r ++ [x; x]) | [] => Fail (ERuntime 3) end))
           1 (fun a => match a with [x] => Good [x; x] | _ => Fail (ERuntime 3) end).
Proof.
  intros l a Ha. destruct a as [|x [|y a']];
    [discriminate Ha | | exfalso; unfold slen in Ha; cbn [length] in Ha; lia].
  cbn [Body]. rewrite rev_app_distr. cbn. now rewrite rev_involutive.
Qed.

(* REMARK (c19_frames, comment "natives and script functions have the frame property"): for script
   functions this is conditional on  forall a outs, code a = Good outs -> slen outs = rets ; the
   condition is not redundant: a body that leaves FEWER than [rets] values makes mkFunc take (and
   re-assign) cells that belong to the caller, and then no [g] at all gives frame_ok. *)
Lemma remark_c19_frames_needs_rets :
  forall g, ~ frame_ok (script_fn 0 1 [] [TypeFloat64] (fun _ => Good [])) 0 g.
Proof.
  intros g H. specialize (H [u 3] [] eq_refl).
  change (Body (script_fn 0 1 [] [TypeFloat64] (fun _ => Good [])) ([u 3] ++ [])) with (Good [fl 3]) in H.
  destruct (g []) as [r|e]; cbn in H; [|discriminate H].
  injection H as H _. discriminate H.
Qed.

Definition envF : Z -> option funcT := fun h =>
  if h =? 1 then Some sfn else if h =? 2 then Some (NewFunc 2 4 (NNV cbV))
  else if h =? 3 then Some (NewFunc 2 3 (NNM cbM)) else if h =? 4 then Some dfn else None.

Lemma nv_c19_func_1 :
  vm_func envF (CFn 3) 2 [i 6; i 7] = Good [i 7; i 6] /\
  (forall rs, vm_func envF (CFn 3) 2 [i 6; i 7] = Good rs -> slen rs = 2).
Proof.
  split; [reflexivity|]. intros rs H. destruct (c19_func envF) as (L & _). exact (L _ _ _ _ H).
Qed.

(* conjunct 2, premises discharged through c19_frames (script function AND native) *)
Lemma nv_c19_func_2 :
  vm_func envF (CFn 1) 1 [u 6; i 7] = Good [i 13] /\
  vm_func envF (CFn 1) 0 [u 6; i 7] = Good [] /\
  vm_func envF (CFn 1) 2 [u 6; i 7] = Fail EIncorrectReturns /\
  vm_func envF (CFn 4) 1 [i 6; u 0] = Fail (ERaised [str [100; 105; 118]]) /\
  vm_func envF (CFn 4) 1 [i 7; u 2] = Good [i 3] /\
  vm_func envF (CFn 3) 2 [i 6; i 7] = Good [i 7; i 6].
Proof.
  destruct (c19_func envF) as (_ & V2 & _). destruct nv_c19_frames_2 as (S1 & S2 & _).
  destruct c19_frames as (F1 & _).
  split. { rewrite (V2 1 sfn _ 1 [u 6; i 7] eq_refl eq_refl S1 eq_refl) by lia. reflexivity. }
  split. { rewrite (V2 1 sfn _ 0 [u 6; i 7] eq_refl eq_refl S1 eq_refl) by lia. reflexivity. }
  split. { rewrite (V2 1 sfn _ 2 [u 6; i 7] eq_refl eq_refl S1 eq_refl) by lia. reflexivity. }
  split. { rewrite (V2 4 dfn _ 1 [i 6; u 0] eq_refl eq_refl S2 eq_refl) by lia. reflexivity. }
  split. { rewrite (V2 4 dfn _ 1 [i 7; u 2] eq_refl eq_refl S2 eq_refl) by lia. reflexivity. }
  rewrite (V2 3 (NewFunc 2 3 (NNM cbM)) (lift (NNM cbM)) 2 [i 6; i 7] eq_refl eq_refl (F1 2 3 (NNM cbM)) eq_refl) by lia.
  reflexivity.
Qed.

Lemma nv_c19_func_345 :
  vm_func envF (CFn 2) 3 ([i 6] ++ [u 1; u 2; i 3]) = Good [i 6; i 1; i 2] /\
  vm_func envF (CFn 2) 1 ([i 6] ++ [u 1]) = Fail (ERaised [i 1]) /\
  vm_func envF (CFn 1) 1 [i 6] = Fail EIncorrectArgs /\
  vm_func envF (CFn 1) 1 [i 6; i 7; i 8] = Fail EIncorrectArgs /\
  vm_func envF (CFn 9) 1 [i 6] = Fail (ERuntime 4) /\
  vm_func envF (i 5) 1 [i 6] = Fail (ERuntime 4) /\
  vm_func envF (CPack 0 []) 1 [i 6] = Fail (ERuntime 4).
Proof.
  destruct (c19_func envF) as (_ & _ & V3 & V4 & V5).
  split. { rewrite (V3 2 2 4 cbV 3 [i 6] [u 1; u 2; i 3] eq_refl eq_refl) by lia. reflexivity. }
  split. { rewrite (V3 2 2 4 cbV 1 [i 6] [u 1] eq_refl eq_refl) by lia. reflexivity. }
  split. { apply (V4 1 sfn); [reflexivity | reflexivity | cbn; lia]. }
  split. { apply (V4 1 sfn); [reflexivity | reflexivity | cbn; lia]. }
  split. { apply V5. reflexivity. }
  split; apply V5; exact I.
Qed.

(* ------------------------------------------------------------------------------------------ *)
(* 5. c19_method                                                                                *)
(* ------------------------------------------------------------------------------------------ *)

(* conjunct 1: underlying function = a 2-argument script function (receiver, x) -> (x, receiver) *)
Lemma nv_c19_method_1 :
  Variadic swfn = false /\ 1 <= Args swfn /\
  call (below ++ [u 7]) (newMethod obj swfn) 1 2 = call (below ++ [obj] ++ [u 7]) swfn 2 2 /\
  call (below ++ [u 7]) (newMethod obj swfn) 1 2 = Good (below ++ [i 7; obj]) /\
  (* wrong number of arguments: same error on both sides *)
  call (below ++ [u 7; u 8]) (newMethod obj swfn) 2 2 = Fail EIncorrectArgs.
Proof.
  destruct c19_method as (M1 & _).
  assert (1 <= Args swfn) as HA by (cbn; lia).
  assert (call (below ++ [u 7]) (newMethod obj swfn) 1 2 = call (below ++ [obj] ++ [u 7]) swfn 2 2) as H
    by exact (M1 obj swfn below [u 7] 2 eq_refl HA).
  assert (call (below ++ [u 7; u 8]) (newMethod obj swfn) 2 2 = call (below ++ [obj] ++ [u 7; u 8]) swfn 3 2) as H2
    by exact (M1 obj swfn below [u 7; u 8] 2 eq_refl HA).
  split; [reflexivity|]. split; [exact HA|]. split; [exact H|].
  split; [rewrite H; reflexivity | rewrite H2; reflexivity].
Qed.

(* conjuncts 2 and 3: underlying function = vfn (Args = 3 >= 2, Variadic, ...float64):
   one fixed argument, two surplus untyped arguments, non-empty prefix *)
Lemma nv_c19_method_23 :
  Variadic vfn = true /\ 2 <= Args vfn /\ slen [i 2] = Args vfn - 2 /\
  call (below ++ [i 2] ++ [u 3; u 4]) (newMethod obj vfn) 3 1 =
    call (below ++ [obj] ++ [i 2] ++ [u 3; u 4]) vfn 4 1 /\
  call (below ++ [i 2] ++ [u 3; u 4]) (newMethod obj vfn) 3 1 =
    callReady (below ++ [obj] ++ [i 2] ++ [CPack TypeFloat64 [fl 3; fl 4]]) vfn 3 1 /\
  call (below ++ [i 2] ++ [u 3; u 4]) (newMethod obj vfn) 3 1 =
    Good (below ++ [CPack TypeFloat64 [obj; i 2; fl 3; fl 4]]).
Proof.
  destruct c19_method as (_ & M2 & M3 & _).
  assert (2 <= Args vfn) as HA by (cbn; lia).
  assert (call (below ++ [i 2] ++ [u 3; u 4]) (newMethod obj vfn) 3 1 =
          call (below ++ [obj] ++ [i 2] ++ [u 3; u 4]) vfn 4 1) as H2
    by exact (M2 obj vfn below [i 2] [u 3; u 4] 1 eq_refl HA eq_refl).
  assert (call (below ++ [i 2] ++ [u 3; u 4]) (newMethod obj vfn) 3 1 =
          callReady (below ++ [obj] ++ [i 2] ++ [CPack TypeFloat64 [fl 3; fl 4]]) vfn 3 1) as H3.
  { refine (M3 obj vfn below [i 2] [u 3; u 4] 1 eq_refl HA eq_refl _). cbn. lia. }
  split; [reflexivity|]. split; [exact HA|]. split; [reflexivity|].
  split; [exact H2|]. split; [exact H3|]. rewrite H3. reflexivity.
Qed.

(* conjuncts 2 and 4: the same method without surplus argument: the nil []float64, exactly as the
   underlying function called with the receiver and the fixed argument *)
Lemma nv_c19_method_24 :
  call (below ++ [i 2] ++ []) (newMethod obj vfn) 1 1 = call (below ++ [obj] ++ [i 2] ++ []) vfn 2 1 /\
  call (below ++ [i 2]) (newMethod obj vfn) 1 1 =
    callReady (below ++ [obj] ++ [i 2] ++ [CVal (mkValue (fn_sliceType TypeFloat64) (Zn 0) PNone)]) vfn 3 1 /\
  call (below ++ [i 2]) (newMethod obj vfn) 1 1 = Good (below ++ [CPack (fn_sliceType TypeFloat64) [obj; i 2]]).
Proof.
  destruct c19_method as (_ & M2 & _ & M4).
  assert (2 <= Args vfn) as HA by (cbn; lia).
  assert (call (below ++ [i 2]) (newMethod obj vfn) 1 1 =
          callReady (below ++ [obj] ++ [i 2] ++ [CVal (mkValue (fn_sliceType TypeFloat64) (Zn 0) PNone)]) vfn 3 1) as H4
    by exact (M4 obj vfn below [i 2] 1 eq_refl HA eq_refl).
  split; [exact (M2 obj vfn below [i 2] [] 1 eq_refl HA eq_refl)|].
  split; [exact H4|]. rewrite H4. reflexivity.
Qed.

(* also with a variadic NATIVE below the method (NewFunc 3 _ (NNV _)) *)
Lemma nv_c19_method_2_native :
  call (below ++ [i 2] ++ [u 3; u 4; u 5]) (newMethod obj (NewFunc 3 5 (NNV cbV))) 4 5 =
    Good (below ++ [obj; i 2; i 3; i 4; i 5]).
Proof.
  destruct c19_method as (_ & M2 & _).
  refine (eq_trans (M2 obj (NewFunc 3 5 (NNV cbV)) below [i 2] [u 3; u 4; u 5] 5 eq_refl _ eq_refl) _);
    [cbn; lia | reflexivity].
Qed.

(* ------------------------------------------------------------------------------------------ *)
(* 6. c19_error                                                                                 *)
(* ------------------------------------------------------------------------------------------ *)

Definition edivz : cerr := ERaised [str [100; 105; 118]].

Lemma nv_c19_error_1 :
  lift (NN1 cbDiv) [i 6; i 0] = Fail edivz /\
  call (below ++ [i 6; i 0]) (NewFunc 2 1 (NN1 cbDiv)) 2 1 = Fail edivz /\
  (* the same native succeeds on other arguments *)
  call (below ++ [i 6; i 3]) (NewFunc 2 1 (NN1 cbDiv)) 2 1 = Good (below ++ [i 2]).
Proof.
  destruct c19_error as (E1 & _).
  split; [reflexivity|]. split; [|reflexivity].
  apply E1; [reflexivity | reflexivity | lia | reflexivity].
Qed.

Lemma nv_c19_error_2 :
  call (below ++ [i 6] ++ [u 1; u 2]) (NewFunc 2 4 (NNV cbV)) 3 1 = Fail (ERaised [i 1; i 2]).
Proof.
  destruct c19_error as (_ & E2 & _).
  apply (E2 2 4 cbV below [i 6] [u 1; u 2] 1); [reflexivity | lia | reflexivity].
Qed.

Lemma nv_c19_error_3 :
  Body dfn [i 6; u 0] = Fail edivz /\ vm_func envF (CFn 4) 1 [i 6; u 0] = Fail edivz.
Proof.
  destruct c19_error as (_ & _ & E3 & _).
  split; [reflexivity|]. apply (E3 envF 4 dfn); reflexivity.
Qed.

(* conjunct 4: the outer native (3 arguments) picks its first two arguments and hands them to the
   registered script function dfn through VM.Func (k = 1 result), then continues with [c].
   sel is NOT constant.  One instance for each of nested0 / nested1 / nestedM, each of them also
   registered in the SAME env (handles 8, 9, 10), so that the second half of the conclusion fires. *)
Definition nilc : cell := CVal fn_Nil.
Definition sel2 (a : list cell) : list cell := [nth 0 a nilc; nth 1 a nilc].
Definition c0 (a rs : list cell) : cres unit := Good tt.
Definition c1 (a rs : list cell) : cres cell := Good (nth 0 rs nilc).
Definition cMm (a rs : list cell) : cres (list cell) := Good (a ++ rs).

Definition env0 : Z -> option funcT := fun h => if h =? 7 then Some dfn else None.
Definition envN : Z -> option funcT := fun h =>
  if h =? 7 then Some dfn
  else if h =? 8 then Some (NewFunc 3 4 (nestedM env0 7 1 sel2 cMm))
  else if h =? 9 then Some (NewFunc 3 0 (nested0 env0 7 1 sel2 c0))
  else if h =? 10 then Some (NewFunc 3 1 (nested1 env0 7 1 sel2 c1))
  else None.

(* the self-referential premise  env hout = Some (NewFunc argc rets (nestedX env ...))  holds by
   conversion, because sel2 exposes the spine of the list it answers *)
Lemma envN_self :
  envN 8 = Some (NewFunc 3 4 (nestedM envN 7 1 sel2 cMm)) /\
  envN 9 = Some (NewFunc 3 0 (nested0 envN 7 1 sel2 c0)) /\
  envN 10 = Some (NewFunc 3 1 (nested1 envN 7 1 sel2 c1)).
Proof. repeat split; reflexivity. Qed.

Lemma nv_c19_error_4 :
  (* premises *)
  envN 7 = Some dfn /\ Variadic dfn = false /\ slen (sel2 [i 6; u 0; i 99]) = Args dfn /\
  Body dfn (sel2 [i 6; u 0; i 99]) = Fail edivz /\
  (* conclusions, nestedM / nested0 / nested1 *)
  call (below ++ [i 6; u 0; i 99]) (NewFunc 3 4 (nestedM envN 7 1 sel2 cMm)) 3 4 = Fail edivz /\
  vm_func envN (CFn 8) 4 [i 6; u 0; i 99] = Fail edivz /\
  call (below ++ [i 6; u 0; i 99]) (NewFunc 3 0 (nested0 envN 7 1 sel2 c0)) 3 0 = Fail edivz /\
  vm_func envN (CFn 9) 0 [i 6; u 0; i 99] = Fail edivz /\
  call (below ++ [i 6; u 0; i 99]) (NewFunc 3 1 (nested1 envN 7 1 sel2 c1)) 3 1 = Fail edivz /\
  vm_func envN (CFn 10) 1 [i 6; u 0; i 99] = Fail edivz /\
  (* the same natives succeed when the inner call succeeds: the continuation is run *)
  vm_func envN (CFn 8) 4 [i 6; u 2; i 99] = Good [i 6; u 2; i 99; i 3] /\
  vm_func envN (CFn 10) 1 [i 6; u 2; i 99] = Good [i 3] /\
  vm_func envN (CFn 9) 0 [i 6; u 2; i 99] = Good [].
Proof.
  destruct c19_error as (_ & _ & _ & E4). destruct envN_self as (S8 & S9 & S10).
  assert (Body dfn (sel2 [i 6; u 0; i 99]) = Fail edivz) as HB by reflexivity.
  destruct (E4 envN envN 7 1 sel2 8 3 4 (nestedM envN 7 1 sel2 cMm) below [i 6; u 0; i 99] 4 edivz dfn
              eq_refl eq_refl eq_refl HB) as (A1 & A2);
    [right; right; eexists; reflexivity | reflexivity | lia |].
  destruct (E4 envN envN 7 1 sel2 9 3 0 (nested0 envN 7 1 sel2 c0) below [i 6; u 0; i 99] 0 edivz dfn
              eq_refl eq_refl eq_refl HB) as (B1 & B2);
    [left; eexists; reflexivity | reflexivity | lia |].
  destruct (E4 envN envN 7 1 sel2 10 3 1 (nested1 envN 7 1 sel2 c1) below [i 6; u 0; i 99] 1 edivz dfn
              eq_refl eq_refl eq_refl HB) as (C1 & C2);
    [right; left; eexists; reflexivity | reflexivity | lia |].
  split; [reflexivity|]. split; [reflexivity|]. split; [reflexivity|]. split; [exact HB|].
  split; [exact A1|]. split; [exact (A2 S8)|]. split; [exact B1|]. split; [exact (B2 S9)|].
  split; [exact C1|]. split; [exact (C2 S10)|].
  repeat split; reflexivity.
Qed.

(* HISTORY (c19_error conjunct 4, second half).  In the first version the premise was
   env hout = Some (NewFunc argc rets n)  with  n = nestedX env hin k sel c : self-referential in env (the
   closure stored in env mentions env).  Axiom-free it could only be established by CONVERSION, i.e. for
   selections whose result has a literal spine (sel2 above; constants); for  sel = id / firstn 2 / skipn 1 ...
   the two closures differ by a stuck  pop (sel a ++ [CFn hin])  and the premise needed functional
   extensionality.  c19_error now quantifies over the table env2 in which the OUTER function is looked up
   (the general statement this file proved as remark_c19_error_4_general); the old statement is env2 = env. *)

(* with it: a selection that is NOT spine-transparent (sel = firstn 2), outer function registered in
   an extension of the env its closure captured *)
Definition envX : Z -> option funcT := fun h =>
  if h =? 8 then Some (NewFunc 3 4 (nestedM env0 7 1 (firstn 2) cMm)) else env0 h.
Lemma nv_c19_error_4_firstn :
  vm_func envX (CFn 8) 4 [i 6; u 0; i 99] = Fail edivz.
Proof.
  destruct c19_error as (_ & _ & _ & E4).
  refine (proj2 (E4 env0 envX 7 1 (firstn 2) 8 3 4 (nestedM env0 7 1 (firstn 2) cMm) [] [i 6; u 0; i 99] 4 edivz dfn
                    eq_refl eq_refl eq_refl eq_refl _ eq_refl _) eq_refl); [|lia].
  right; right; eexists; reflexivity.
Qed.

(* The lemmas below mention model values (mkV -> as_float), hence Print Assumptions lists Coq's
   primitive float / int63 operations (kernel primitives, the same list that Props/C19.v prints for
   c19_call etc.); no logical axiom.  Even nv_frame_ok_other lists `float : Set`, because [cell] contains
   [value] whose [num] has a primitive-float constructor: no statement over Model/Call.v can print
   "Closed under the global context". *)
Print Assumptions nv_frame_ok_other.
Print Assumptions nv_c19_error_4.
Print Assumptions nv_c19_func_2.
Print Assumptions nv_c19_method_23.
Print Assumptions nv_c19_call_4.
Print Assumptions nv_c19_call_5.
Print Assumptions nv_c19_method_24.
Print Assumptions nv_c19_error_4_firstn.
