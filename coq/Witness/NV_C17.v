(* NV_C17 -- non-vacuity audit of Props/C17.v (reloading swaps code in place and keeps state).

   Premises of the C17 theorems (unfolded):
     wf_sig S      NoDup (type names ++ function names ++ variable names); every method belongs to a declared
                   type; no struct type lists a field twice.
     hist_ok S h   Forall hop_ok: the ONLY thing excluded is  HStore (LGlobal n) _  with n a declared TYPE name or a
                   declared FUNCTION name (protected).  Stores to variables (also those that hold a function value),
                   to undeclared globals, to instance fields, to host slots are all allowed.
     key_ok S k    k = KFunc n with n in sfuncs S, or k = KMeth t m with (t,m) in smethods S.
     simple_init S every `var n = e` has e a constant or the name of a declared function.
     Inv S st      declared keys with an address point at FBody objects; distinct keys distinct addresses; declared
                   type names holding a VType point into the type heap, injectively.
     run .. = Some every step of the history succeeded (no panic, no HSame on nil/int values).
   There are no Section hypotheses left in the Props statements other than wf_sig (WF) and simple_init (SI).

   Part A instantiates every theorem on S0 / beta0 of Props/C17.v with h0 split as h1 ++ h2 (h2 starts with the
   reload) and DERIVES concrete facts through the theorems.  In that run the only bound method is FBound 0 0
   (receiver address = target address), so Part B repeats the exercise on a richer signature S1 (two types, three
   methods, the same method name on two types) with a run in which receivers and targets differ, a variable that
   held function 2 is overwritten with function 3, a variable is set back to nil, a bound method and a function
   value are stored into instance fields, and TWO reloads (3 then 2) follow.
   Part C documents when `run` is None and what hist_ok allows / excludes. *)
From Coq Require Import ZArith List Bool Lia.
From GV Require Import Model.Reload Proofs.C17_base Proofs.C17_reload Proofs.C17_hist Proofs.C17_idem Proofs.C17_closed.
From GV Require Import Props.C17.
Import ListNotations.
Open Scope Z_scope.

Definition st_of (r : option (state * list obs)) : state := match r with Some (s, _) => s | None => init_state end.
Definition ob_of (r : option (state * list obs)) : list obs := match r with Some (_, o) => o | None => [] end.
Definition sto (r : option state) : state := match r with Some s => s | None => init_state end.

(* ======================================================================================================== *)
(* Part A: S0, beta0 (bodies differ per version: v*100+n), h0 = h1 ++ h2                                     *)
(* ======================================================================================================== *)
Definition h1 : list hop :=
  [HLoad 1; HStore LSlot (EArg (APath (PGlobal 2))); HStore (LGlobal 7) (ENew 1 [(10, AConst 9)]);
   HStore LSlot (EArg (APath (PAttr (PGlobal 7) 20))); HStore (LGlobal 4) (EArg (AConst 42));
   HStore (LGlobal 5) (EArg (AConst 77)); HCall (PSlot 0); HCall (PSlot 1)].
Definition h2 : list hop :=
  [HLoad 2; HCall (PSlot 0); HCall (PSlot 1); HCall (PGlobal 6); HSame (PSlot 0) (PGlobal 2)].

Lemma h0_split : h0 = (h1 ++ h2)%list. Proof. reflexivity. Qed.

(* the concrete states (computed once, kept as closed terms) *)
Definition st1 : state := Eval vm_compute in st_of (run (prog S0 beta0) init_state h1).
Definition o1 : list obs := Eval vm_compute in ob_of (run (prog S0 beta0) init_state h1).
Definition st2 : state := Eval vm_compute in st_of (run (prog S0 beta0) st1 h2).
Definition o2 : list obs := Eval vm_compute in ob_of (run (prog S0 beta0) st1 h2).

Lemma WF0 : wf_sig S0. Proof. destruct c17_witness as (H & _). exact H. Qed.
Lemma SI0 : simple_init S0. Proof. destruct c17_witness as (_ & H & _). exact H. Qed.
Lemma OK0 : hist_ok S0 h0. Proof. destruct c17_witness as (_ & _ & H & _). exact H. Qed.
Lemma OK1 : hist_ok S0 h1.
Proof. pose proof OK0 as H. rewrite h0_split in H. apply Forall_app in H. tauto. Qed.
Lemma OK2 : hist_ok S0 h2.
Proof. pose proof OK0 as H. rewrite h0_split in H. apply Forall_app in H. tauto. Qed.

Lemma R1 : run (prog S0 beta0) init_state h1 = Some (st1, o1). Proof. vm_compute. reflexivity. Qed.
Lemma R2 : run (prog S0 beta0) st1 h2 = Some (st2, o2). Proof. vm_compute. reflexivity. Qed.
Lemma R0 : run (prog S0 beta0) init_state h0 = Some (st2, (o1 ++ o2)%list). Proof. vm_compute. reflexivity. Qed.
Lemma LL0 : last_load h0 = Some 2%nat. Proof. reflexivity. Qed.
Lemma LL12 : last_load (h1 ++ h2) = Some 2%nat. Proof. reflexivity. Qed.

(* the observations differ before / after the reload: the run is not a degenerate one *)
Lemma nv_run_obs : o1 = [OCall 102 None; OCall 120 (Some 0%nat)] /\
                   o2 = [OCall 202 None; OCall 220 (Some 0%nat); OCall 202 None; OSame true] /\
                   st1 <> init_state /\ st1 <> st2.
Proof. repeat split; try reflexivity; intro H; discriminate H. Qed.

(* bodies really differ between the versions (point 3: beta need not be constant) *)
Lemma nv_beta_differs : forall k, key_ok S0 k -> body_of (beta0 1) k <> body_of (beta0 2) k.
Proof.
  intros [n|t m]; simpl; intros H.
  - destruct H as [<-|[<-|[]]]; discriminate.
  - destruct H as [E|[]]. inversion E. discriminate.
Qed.

Lemma KO_f2 : key_ok S0 (KFunc 2). Proof. simpl. auto. Qed.
Lemma KO_f3 : key_ok S0 (KFunc 3). Proof. simpl. auto. Qed.
Lemma KO_m : key_ok S0 (KMeth 1 20). Proof. simpl. auto. Qed.

(* every declared key of S0 *)
Lemma key_ok_S0 : forall k, key_ok S0 k -> k = KFunc 2 \/ k = KFunc 3 \/ k = KMeth 1 20.
Proof.
  intros [n|t m]; simpl; intros H.
  - destruct H as [<-|[<-|[]]]; auto.
  - destruct H as [E|[]]. inversion E. auto.
Qed.

(* ---- c17_identity: all five conjuncts, premises met by the run ------------------------------------------ *)
Lemma nv_c17_identity :
  (* 1: the addresses of the three declared keys after the reload are those before it *)
  (fn_addr st2 (KFunc 2) = Some 1%nat /\ fn_addr st2 (KFunc 3) = Some 2%nat /\ fn_addr st2 (KMeth 1 20) = Some 0%nat) /\
  (* 2: after h1 (which contains a Load) every declared key has an object *)
  (forall k, key_ok S0 k -> exists a, fn_addr st1 k = Some a) /\
  (* 3: injectivity, used to refute a collision *)
  (forall k, key_ok S0 k -> fn_addr st1 k = Some 1%nat -> k = KFunc 2) /\
  (* 4: the bound method captured before the reload (object 3) is still the same bound method *)
  nth_error (funcs st2) 3 = Some (FBound 0%nat 0%nat) /\
  (* 5: the two host slots are kept *)
  (nth_error (slots st2) 0 = Some (VFunc 1%nat) /\ nth_error (slots st2) 1 = Some (VFunc 3%nat)).
Proof.
  destruct (c17_identity S0 WF0 beta0 h1 h2 st1 o1 st2 o2 OK1 OK2 R1 R2) as (A & B & C & D & E).
  split; [|split; [|split; [|split]]].
  - split; [|split].
    + exact (A (KFunc 2) 1%nat KO_f2 eq_refl).
    + exact (A (KFunc 3) 2%nat KO_f3 eq_refl).
    + exact (A (KMeth 1 20) 0%nat KO_m eq_refl).
  - apply B. discriminate.
  - intros k KO F. exact (C k (KFunc 2) 1%nat KO KO_f2 F eq_refl).
  - exact (D 3%nat 0%nat 0%nat eq_refl).
  - split; [exact (E 0%nat (VFunc 1%nat) eq_refl) | exact (E 1%nat (VFunc 3%nat) eq_refl)].
Qed.

(* ---- c17_latest: every object holds the body of version 2 after h0 ----------------------------------------- *)
Lemma nv_c17_latest :
  nth_error (funcs st2) 1 = Some (FBody 202) /\ nth_error (funcs st2) 2 = Some (FBody 203) /\
  nth_error (funcs st2) 0 = Some (FBody 220).
Proof.
  pose proof (c17_latest S0 WF0 beta0 h0 st2 _ 2%nat OK0 R0 LL0) as L.
  split; [|split].
  - exact (L (KFunc 2) 1%nat KO_f2 eq_refl).
  - exact (L (KFunc 3) 2%nat KO_f3 eq_refl).
  - exact (L (KMeth 1 20) 0%nat KO_m eq_refl).
Qed.
(* ... and after h1 alone (last load = 1) they hold the bodies of version 1: the theorem distinguishes versions *)
Lemma nv_c17_latest_v1 :
  nth_error (funcs st1) 1 = Some (FBody 102) /\ nth_error (funcs st1) 0 = Some (FBody 120).
Proof.
  pose proof (c17_latest S0 WF0 beta0 h1 st1 _ 1%nat OK1 R1 eq_refl) as L.
  split; [exact (L (KFunc 2) 1%nat KO_f2 eq_refl) | exact (L (KMeth 1 20) 0%nat KO_m eq_refl)].
Qed.

(* ---- c17_latest_call: both conjuncts; the references were taken in st1, BEFORE the reload -------------------- *)
Lemma nv_c17_latest_call :
  (* the function value of 2 captured in slot 0 (object 1) *)
  call_obs st2 (VFunc 1%nat) = Some (OCall 202 None) /\
  (* the bound method captured in slot 1 (object 3 = FBound 0%nat 0%nat, target = object of method 1.20) *)
  call_obs st2 (VFunc 3%nat) = Some (OCall 220 (Some 0%nat)).
Proof.
  split.
  - exact (proj1 (c17_latest_call S0 WF0 beta0 h1 h2 st1 o1 st2 o2 2%nat OK1 OK2 R1 R2 LL12 (KFunc 2) 1%nat KO_f2) eq_refl).
  - exact (proj2 (c17_latest_call S0 WF0 beta0 h1 h2 st1 o1 st2 o2 2%nat OK1 OK2 R1 R2 LL12 (KMeth 1 20) 3%nat KO_m)
             0%nat 0%nat eq_refl eq_refl).
Qed.

(* ---- c17_any_call: premise call_obs st2 (VFunc c) = Some ob met for c = 3; the k it yields is pinned down -- *)
Lemma nv_c17_any_call :
  exists k r a, k = KMeth 1 20 /\ nth_error (funcs st2) 3 = Some (FBound r a) /\ fn_addr st2 k = Some a /\ r = 0%nat.
Proof.
  assert (CO : call_obs st2 (VFunc 3%nat) = Some (OCall 220 (Some 0%nat))) by reflexivity.
  destruct (c17_any_call S0 WF0 beta0 h0 st2 _ 2%nat OK0 R0 LL0 3%nat _ CO) as (k & recv & KO & EQ & ALT).
  destruct ALT as [[RN F]|(r & a & RS & N & F)].
  - subst recv. destruct (key_ok_S0 k KO) as [-> | [-> | ->]]; discriminate EQ.
  - subst recv. exists k, r, a.
    destruct (key_ok_S0 k KO) as [-> | [-> | ->]]; try discriminate EQ.
    inversion EQ. subst r. split; [reflexivity|]. split; [exact N|]. split; [exact F|reflexivity].
Qed.
(* for c = 1 (a plain function object) the first alternative is the one that holds *)
Lemma nv_c17_any_call_2 : exists k, k = KFunc 2 /\ fn_addr st2 k = Some 1%nat.
Proof.
  assert (CO : call_obs st2 (VFunc 1%nat) = Some (OCall 202 None)) by reflexivity.
  destruct (c17_any_call S0 WF0 beta0 h0 st2 _ 2%nat OK0 R0 LL0 1%nat _ CO) as (k & recv & KO & EQ & ALT).
  destruct ALT as [[RN F]|(r & a & RS & N & F)].
  - exists k. destruct (key_ok_S0 k KO) as [-> | [-> | ->]]; subst recv; try discriminate EQ. auto.
  - subst recv. discriminate EQ.
Qed.

(* ---- c17_invariant on the full history and on the prefix ------------------------------------------------- *)
Lemma nv_c17_invariant : Inv S0 st1 /\ Inv S0 st2.
Proof.
  split; [exact (c17_invariant S0 WF0 beta0 h1 st1 o1 OK1 R1) | exact (c17_invariant S0 WF0 beta0 h0 st2 _ OK0 R0)].
Qed.
(* a concrete consequence of each field of Inv *)
Lemma nv_c17_invariant_use :
  (exists b, nth_error (funcs st2) 0 = Some (FBody b)) /\ (0 < length (types st2))%nat /\
  (forall k, key_ok S0 k -> fn_addr st2 k = Some 2%nat -> k = KFunc 3).
Proof.
  destruct nv_c17_invariant as [_ I]. split; [|split].
  - exact (inv_faddr S0 st2 I (KMeth 1 20) 0%nat KO_m eq_refl).
  - apply (inv_ty S0 st2 I 1 0%nat); [simpl; auto | reflexivity].
  - intros k KO F. exact (inv_inj S0 st2 I k (KFunc 3) 2%nat KO KO_f3 F eq_refl).
Qed.

(* ---- c17_state: one Load from a REACHABLE NON-INITIAL state --------------------------------------------- *)
(* st1 : global 4 was stored 42 (non-nil: kept), global 5 was stored 77 (re-initialised to 5), 7 holds an instance.
   st1b: after two more stores: global 4 := nil (value of the undeclared global 99), global 6 := 1 (the variable that
         held function 2 is overwritten by an int -- allowed by hist_ok, 6 is a variable) *)
Definition h1b : list hop :=
  (h1 ++ [HStore (LGlobal 4) (EArg (APath (PGlobal 99))); HStore (LGlobal 6) (EArg (AConst 1))])%list.
Definition st1b : state := Eval vm_compute in st_of (run (prog S0 beta0) init_state h1b).
Definition st1' : state := Eval vm_compute in sto (exec_list st1 (version_of S0 (beta0 2))).
Definition st1b' : state := Eval vm_compute in sto (exec_list st1b (version_of S0 (beta0 2))).

Lemma OK1b : hist_ok S0 h1b.
Proof.
  apply Forall_app. split. exact OK1.
  repeat constructor; simpl; unfold protected; simpl; intuition discriminate.
Qed.
Lemma R1b : run (prog S0 beta0) init_state h1b = Some (st1b, o1). Proof. vm_compute. reflexivity. Qed.
Lemma E1 : exec_list st1 (version_of S0 (beta0 2)) = Some st1'. Proof. vm_compute. reflexivity. Qed.
Lemma E1b : exec_list st1b (version_of S0 (beta0 2)) = Some st1b'. Proof. vm_compute. reflexivity. Qed.
Lemma Inv1b : Inv S0 st1b. Proof. exact (c17_invariant S0 WF0 beta0 h1b st1b o1 OK1b R1b). Qed.

Lemma nv_c17_state_1 :
  (* non-nil value kept *)       (gget st1 4 = VInt 42 /\ gget st1' 4 = VInt 42) /\
  (* nil value replaced by z *)  (gget st1b 4 = VNil /\ gget st1b' 4 = VInt 0) /\
  (* a pointer variable keeps its instance *) (gget st1 7 = VInst 0%nat /\ gget st1' 7 = VInst 0%nat).
Proof.
  destruct (c17_state S0 (beta0 2) WF0) as (Z & _).
  split; [|split]; (split; [reflexivity|]).
  - exact (Z st1 st1' 4 (VInt 0) (or_introl eq_refl) E1).
  - exact (Z st1b st1b' 4 (VInt 0) (or_introl eq_refl) E1b).
  - exact (Z st1 st1' 7 VNil (or_intror (or_intror (or_intror (or_introl eq_refl)))) E1).
Qed.
Lemma nv_c17_state_2 : gget st1 5 = VInt 77 /\ gget st1' 5 = VInt 5.
Proof.
  destruct (c17_state S0 (beta0 2) WF0) as (_ & C & _).
  split; [reflexivity | exact (C st1 st1' 5 5 (or_intror (or_introl eq_refl)) E1)].
Qed.
Lemma nv_c17_state_3 :
  (* from st1 (6 still holds function 2) and from st1b (6 was overwritten by the int 1) *)
  (gget st1' 6 = gget st1' 2 /\ exists a, gget st1' 2 = VFunc a) /\
  (gget st1b 6 = VInt 1 /\ gget st1b' 6 = gget st1b' 2 /\ exists a, gget st1b' 2 = VFunc a) /\
  gget st1b' 6 = VFunc 1%nat.
Proof.
  destruct (c17_state S0 (beta0 2) WF0) as (_ & _ & F & _).
  assert (HI : In (VSet 6 (EArg (APath (PGlobal 2)))) (svars S0)) by (simpl; auto).
  assert (HF : In 2 (sfuncs S0)) by (simpl; auto).
  split; [|split].
  - exact (F st1 st1' 6 2 HI HF E1).
  - split. reflexivity. exact (F st1b st1b' 6 2 HI HF E1b).
  - reflexivity.
Qed.
(* conjunct 3 holds from ANY state (its premise `Inv S st` was removed after the audit): a state that is NOT
   reachable and violates the invariant -- the names of functions 2 and 3 share ONE function object -- on which
   the Load nevertheless runs through *)
Definition st_bad : state := mkState [FBody 7] [] [] [(2, VFunc 0%nat); (3, VFunc 0%nat)] [].
Lemma nv_c17_state_3_noninv :
  ~ Inv S0 st_bad /\
  (exists st', exec_list st_bad (version_of S0 (beta0 2)) = Some st' /\
               gget st' 6 = gget st' 2 /\ gget st' 2 = VFunc 0%nat /\ gget st' 3 = VFunc 0%nat).
Proof.
  split.
  - intros I. assert (C : KFunc 2 = KFunc 3); [|discriminate C].
    apply (inv_inj S0 st_bad I (KFunc 2) (KFunc 3) 0%nat); simpl; auto.
  - destruct (c17_state S0 (beta0 2) WF0) as (_ & _ & F & _).
    eexists. split; [vm_compute; reflexivity|].
    split; [|split; reflexivity].
    refine (proj1 (F st_bad _ 6 2 _ _ _)); simpl; auto.
Qed.
Lemma nv_c17_state_4 :
  slots st1' = [VFunc 1%nat; VFunc 3%nat] /\ exists y, insts st1' = (insts st1 ++ y)%list.
Proof.
  destruct (c17_state S0 (beta0 2) WF0) as (_ & _ & _ & O).
  destruct (O st1 st1' E1) as [SL IN]. split; [rewrite SL; reflexivity | exact IN].
Qed.

(* ---- c17_idem: non-empty prefix h1, version 2, an observation sequence that distinguishes states ---------- *)
Definition hobs : list hop :=
  [HCall (PSlot 0); HCall (PSlot 1); HCall (PGlobal 6); HCall (PAttr (PGlobal 7) 20); HSame (PSlot 0) (PGlobal 2);
   HSame (PSlot 1) (PAttr (PGlobal 7) 20); HCall (PGlobal 3)].
Lemma nv_c17_idem :
  run (prog S0 beta0) st1 (HLoad 2 :: HLoad 2 :: hobs) = run (prog S0 beta0) st1 (HLoad 2 :: hobs) /\
  (* both sides are Some, with these observations ... *)
  ob_of (run (prog S0 beta0) st1 (HLoad 2 :: HLoad 2 :: hobs)) =
    [OCall 202 None; OCall 220 (Some 0%nat); OCall 202 None; OCall 220 (Some 0%nat); OSame true; OSame false; OCall 203 None] /\
  (* ... which the same observation sequence distinguishes from the state before the Load *)
  ob_of (run (prog S0 beta0) st1 hobs) =
    [OCall 102 None; OCall 120 (Some 0%nat); OCall 102 None; OCall 120 (Some 0%nat); OSame true; OSame false; OCall 103 None].
Proof.
  pose proof (c17_idem S0 beta0 WF0 SI0 h1 st1 o1 2%nat hobs OK1 R1) as H.
  split. exact H. split.
  - rewrite H. vm_compute. reflexivity.
  - vm_compute. reflexivity.
Qed.
(* idem from the state in which variable 4 is nil and variable 6 holds an int: the first Load changes both,
   the second changes nothing *)
Lemma nv_c17_idem_b :
  run (prog S0 beta0) st1b (HLoad 2 :: HLoad 2 :: hobs) = run (prog S0 beta0) st1b (HLoad 2 :: hobs) /\
  gget (st_of (run (prog S0 beta0) st1b (HLoad 2 :: HLoad 2 :: hobs))) 4 = VInt 0.
Proof.
  pose proof (c17_idem S0 beta0 WF0 SI0 h1b st1b o1 2%nat hobs OK1b R1b) as H.
  split. exact H. rewrite H. vm_compute. reflexivity.
Qed.

(* ======================================================================================================== *)
(* Part B: a richer signature; receivers and targets of bound methods differ; two reloads                  *)
(* ======================================================================================================== *)
Definition S1 : sig :=
  mkSig [(1, [(10, VInt 0); (11, VNil)]); (8, [(12, VInt 3)])] [(1, 20); (1, 21); (8, 20)] [2; 3]
        [VZero 4 (VInt 0); VSet 5 (EArg (AConst 5)); VSet 6 (EArg (APath (PGlobal 2))); VZero 7 VNil; VZero 9 (VInt 7)].
Definition beta1 (v : nat) : bodies :=
  mkBodies (fun n => Z.of_nat v * 1000 + n) (fun t m => Z.of_nat v * 1000 + t * 100 + m).
Definition g1 : list hop :=
 [HLoad 1;
  HStore (LGlobal 7) (ENew 1 [(10, AConst 8)]);
  HStore (LGlobal 7) (ENew 1 [(10, AConst 9); (11, APath (PGlobal 3))]);   (* field 11 holds function 3 *)
  HStore (LGlobal 30) (ENew 8 []);                                         (* 30: an undeclared (host) global *)
  HStore (LGlobal 30) (ENew 8 [(12, AConst 4)]);
  HStore LSlot (EArg (APath (PGlobal 2)));                                 (* slot 0: function 2 *)
  HStore LSlot (EArg (APath (PAttr (PGlobal 7) 20)));                      (* slot 1: bound (inst 1).20 *)
  HStore LSlot (EArg (APath (PAttr (PGlobal 30) 20)));                     (* slot 2: bound (inst 3).20 of type 8 *)
  HStore (LGlobal 4) (EArg (AConst 42));
  HStore (LGlobal 5) (EArg (AConst 77));
  HStore (LGlobal 6) (EArg (APath (PGlobal 3)));       (* the variable initialised with function 2 now holds function 3 *)
  HStore (LGlobal 9) (EArg (APath (PGlobal 99)));      (* 9 := nil *)
  HStore (LField (PGlobal 7) 10) (EArg (APath (PSlot 1)));                 (* a field holds the bound method *)
  HCall (PSlot 0); HCall (PSlot 1); HCall (PSlot 2); HCall (PGlobal 6); HCall (PAttr (PGlobal 7) 11);
  HCall (PAttr (PGlobal 7) 10)].
Definition gobs : list hop :=
  [HCall (PSlot 0); HCall (PSlot 1); HCall (PSlot 2); HCall (PGlobal 6); HCall (PAttr (PGlobal 7) 11);
   HCall (PAttr (PGlobal 7) 10);
   HSame (PSlot 0) (PGlobal 2); HSame (PGlobal 6) (PGlobal 2); HSame (PSlot 1) (PAttr (PGlobal 7) 20)].
Definition g2 : list hop := HLoad 3 :: HLoad 2 :: gobs.

Definition t1 : state := Eval vm_compute in st_of (run (prog S1 beta1) init_state g1).
Definition p1 : list obs := Eval vm_compute in ob_of (run (prog S1 beta1) init_state g1).
Definition t2 : state := Eval vm_compute in st_of (run (prog S1 beta1) t1 g2).
Definition p2 : list obs := Eval vm_compute in ob_of (run (prog S1 beta1) t1 g2).

Lemma WF1 : wf_sig S1.
Proof.
  split.
  - simpl. repeat constructor; simpl; intuition discriminate.
  - simpl. intros t m [E|[E|[E|[]]]]; inversion E; auto.
  - simpl. intros t fs [E|[E|[]]]; inversion E; subst; simpl; repeat constructor; simpl; intuition discriminate.
Qed.
Lemma SI1 : simple_init S1.
Proof.
  intros n e HI. simpl in HI. destruct HI as [E|[E|[E|[E|[E|[]]]]]]; inversion E; subst.
  - left. eauto.
  - right. exists 2. simpl. auto.
Qed.
Lemma GOK1 : hist_ok S1 g1.
Proof. unfold g1. repeat constructor; simpl; unfold protected; simpl; intuition discriminate. Qed.
Lemma GOK2 : hist_ok S1 g2.
Proof. unfold g2, gobs. repeat constructor. Qed.
Lemma Q1 : run (prog S1 beta1) init_state g1 = Some (t1, p1). Proof. vm_compute. reflexivity. Qed.
Lemma Q2 : run (prog S1 beta1) t1 g2 = Some (t2, p2). Proof. vm_compute. reflexivity. Qed.
Lemma Q12 : run (prog S1 beta1) init_state (g1 ++ g2) = Some (t2, (p1 ++ p2)%list). Proof. vm_compute. reflexivity. Qed.
Lemma GOK12 : hist_ok S1 (g1 ++ g2). Proof. apply Forall_app. split; [exact GOK1 | exact GOK2]. Qed.

Lemma nv_B_obs :
  p1 = [OCall 1002 None; OCall 1120 (Some 1%nat); OCall 1820 (Some 3%nat); OCall 1003 None; OCall 1003 None;
        OCall 1120 (Some 1%nat)] /\
  p2 = [OCall 2002 None; OCall 2120 (Some 1%nat); OCall 2820 (Some 3%nat); OCall 2002 None; OCall 2003 None;
        OCall 2120 (Some 1%nat); OSame true; OSame true; OSame false].
Proof. split; reflexivity. Qed.

Lemma key_ok_S1 : forall k, key_ok S1 k ->
  k = KFunc 2 \/ k = KFunc 3 \/ k = KMeth 1 20 \/ k = KMeth 1 21 \/ k = KMeth 8 20.
Proof.
  intros [n|t m]; simpl; intros H.
  - destruct H as [<-|[<-|[]]]; auto.
  - destruct H as [E|[E|[E|[]]]]; inversion E; auto 6.
Qed.
Lemma K1_f2 : key_ok S1 (KFunc 2). Proof. simpl; auto. Qed.
Lemma K1_f3 : key_ok S1 (KFunc 3). Proof. simpl; auto. Qed.
Lemma K1_m120 : key_ok S1 (KMeth 1 20). Proof. simpl; auto. Qed.
Lemma K1_m121 : key_ok S1 (KMeth 1 21). Proof. simpl; auto. Qed.
Lemma K1_m820 : key_ok S1 (KMeth 8 20). Proof. simpl; auto. Qed.

(* identity: the same method NAME on two types has two objects (0 and 2); bound objects 5 = FBound 1%nat 0%nat, 6 = FBound 3%nat 2%nat *)
Lemma nv_c17_identity_B :
  (fn_addr t2 (KMeth 1 20) = Some 0%nat /\ fn_addr t2 (KMeth 1 21) = Some 1%nat /\ fn_addr t2 (KMeth 8 20) = Some 2%nat /\
   fn_addr t2 (KFunc 2) = Some 3%nat /\ fn_addr t2 (KFunc 3) = Some 4%nat) /\
  (forall k, key_ok S1 k -> fn_addr t1 k = Some 2%nat -> k = KMeth 8 20) /\
  (nth_error (funcs t2) 5 = Some (FBound 1%nat 0%nat) /\ nth_error (funcs t2) 6 = Some (FBound 3%nat 2%nat)) /\
  nth_error (slots t2) 2 = Some (VFunc 6%nat).
Proof.
  destruct (c17_identity S1 WF1 beta1 g1 g2 t1 p1 t2 p2 GOK1 GOK2 Q1 Q2) as (A & B & C & D & E).
  split; [split; [|split; [|split; [|split]]] | split; [|split; [split|]]].
  - exact (A _ _ K1_m120 eq_refl).
  - exact (A _ _ K1_m121 eq_refl).
  - exact (A _ _ K1_m820 eq_refl).
  - exact (A _ _ K1_f2 eq_refl).
  - exact (A _ _ K1_f3 eq_refl).
  - intros k KO F. exact (C k (KMeth 8 20) 2%nat KO K1_m820 F eq_refl).
  - exact (D 5%nat 1%nat 0%nat eq_refl).
  - exact (D 6%nat 3%nat 2%nat eq_refl).
  - exact (E 2%nat (VFunc 6%nat) eq_refl).
Qed.

(* latest / latest_call: the last Load of g1 ++ g2 is version 2 although version 3 was loaded in between *)
Lemma nv_c17_latest_call_B :
  last_load (g1 ++ g2) = Some 2%nat /\
  call_obs t2 (VFunc 3%nat) = Some (OCall 2002 None) /\               (* function 2, captured in slot 0 *)
  call_obs t2 (VFunc 4%nat) = Some (OCall 2003 None) /\               (* function 3, kept in field 11 of inst 1 and in variable 6 *)
  call_obs t2 (VFunc 5%nat) = Some (OCall 2120 (Some 1%nat)) /\       (* bound (inst 1).20, in slot 1 and in field 10 *)
  call_obs t2 (VFunc 6%nat) = Some (OCall 2820 (Some 3%nat)) /\       (* bound (inst 3).20 of type 8 *)
  nth_error (funcs t2) 1 = Some (FBody 2121).
Proof.
  assert (LL : last_load (g1 ++ g2) = Some 2%nat) by reflexivity.
  pose proof (c17_latest_call S1 WF1 beta1 g1 g2 t1 p1 t2 p2 2%nat GOK1 GOK2 Q1 Q2 LL) as L.
  split; [exact LL|]. split; [|split; [|split; [|split]]].
  - exact (proj1 (L (KFunc 2) 3%nat K1_f2) eq_refl).
  - exact (proj1 (L (KFunc 3) 4%nat K1_f3) eq_refl).
  - exact (proj2 (L (KMeth 1 20) 5%nat K1_m120) 1%nat 0%nat eq_refl eq_refl).
  - exact (proj2 (L (KMeth 8 20) 6%nat K1_m820) 3%nat 2%nat eq_refl eq_refl).
  - exact (c17_latest S1 WF1 beta1 (g1 ++ g2) t2 _ 2%nat GOK12 Q12 LL (KMeth 1 21) 1%nat K1_m121 eq_refl).
Qed.

(* any_call on object 7: a bound method allocated AFTER the reloads by the last HSame of gobs *)
Lemma nv_c17_any_call_B :
  exists k r a, k = KMeth 1 20 /\ nth_error (funcs t2) 7 = Some (FBound r a) /\ fn_addr t2 k = Some a /\ r = 1%nat /\ a = 0%nat.
Proof.
  assert (CO : call_obs t2 (VFunc 7%nat) = Some (OCall 2120 (Some 1%nat))) by reflexivity.
  assert (LL : last_load (g1 ++ g2) = Some 2%nat) by reflexivity.
  destruct (c17_any_call S1 WF1 beta1 (g1 ++ g2) t2 _ 2%nat GOK12 Q12 LL 7%nat _ CO) as (k & recv & KO & EQ & ALT).
  destruct ALT as [[RN F]|(r & a & RS & N & F)]; subst recv.
  - destruct (key_ok_S1 k KO) as [->|[->|[-> | [-> | ->]]]]; discriminate EQ.
  - exists k, r, a. destruct (key_ok_S1 k KO) as [->|[->|[-> | [-> | ->]]]]; try discriminate EQ.
    inversion EQ. subst r. split; [reflexivity|]. split; [exact N|]. split; [exact F|]. split; [reflexivity|].
    vm_compute in F. congruence.
Qed.

(* state: one Load (version 3) from t1.  4 was stored 42: kept; 9 was set to nil: gets its zero value 7; 5: 77 -> 5;
   6 held function 3: holds function 2 again; host slots kept *)
Definition t1' : state := Eval vm_compute in sto (exec_list t1 (version_of S1 (beta1 3))).
Lemma F1 : exec_list t1 (version_of S1 (beta1 3)) = Some t1'. Proof. vm_compute. reflexivity. Qed.
Lemma InvT1 : Inv S1 t1. Proof. exact (c17_invariant S1 WF1 beta1 g1 t1 p1 GOK1 Q1). Qed.
Lemma nv_c17_state_B :
  (gget t1 4 = VInt 42 /\ gget t1' 4 = VInt 42) /\ (gget t1 9 = VNil /\ gget t1' 9 = VInt 7) /\
  (gget t1 5 = VInt 77 /\ gget t1' 5 = VInt 5) /\
  (gget t1 6 = VFunc 4%nat /\ gget t1' 6 = gget t1' 2 /\ gget t1' 6 = VFunc 3%nat) /\
  (slots t1' = slots t1 /\ exists y, insts t1' = (insts t1 ++ y)%list).
Proof.
  destruct (c17_state S1 (beta1 3) WF1) as (Z & C & F & O).
  split; [|split; [|split; [|split]]].
  - split; [reflexivity|]. exact (Z t1 t1' 4 (VInt 0) (or_introl eq_refl) F1).
  - split; [reflexivity|]. exact (Z t1 t1' 9 (VInt 7) (or_intror (or_intror (or_intror (or_intror (or_introl eq_refl))))) F1).
  - split; [reflexivity|]. exact (C t1 t1' 5 5 (or_intror (or_introl eq_refl)) F1).
  - split; [reflexivity|].
    pose proof (F t1 t1' 6 2 (or_intror (or_intror (or_introl eq_refl))) (or_introl eq_refl) F1) as [EQ [a G]].
    split; [exact EQ|]. rewrite EQ. reflexivity.
  - exact (O t1 t1' F1).
Qed.

(* idem after a long prefix, with the two-type observation sequence; and at a second point of the history *)
Lemma nv_c17_idem_B :
  run (prog S1 beta1) t1 (HLoad 3 :: HLoad 3 :: gobs) = run (prog S1 beta1) t1 (HLoad 3 :: gobs) /\
  ob_of (run (prog S1 beta1) t1 (HLoad 3 :: HLoad 3 :: gobs)) =
    [OCall 3002 None; OCall 3120 (Some 1%nat); OCall 3820 (Some 3%nat); OCall 3002 None; OCall 3003 None;
     OCall 3120 (Some 1%nat); OSame true; OSame true; OSame false] /\
  run (prog S1 beta1) t2 (HLoad 1 :: HLoad 1 :: gobs) = run (prog S1 beta1) t2 (HLoad 1 :: gobs).
Proof.
  pose proof (c17_idem S1 beta1 WF1 SI1 g1 t1 p1 3%nat gobs GOK1 Q1) as H.
  split. exact H. split.
  - rewrite H. vm_compute. reflexivity.
  - exact (c17_idem S1 beta1 WF1 SI1 (g1 ++ g2) t2 _ 1%nat gobs GOK12 Q12).
Qed.

(* simple_init is not gratuitous: with an allocating initialiser  var 8 = &T{}  Load;Load differs observably from Load *)
Definition S2 : sig := mkSig [(1, [(10, VInt 0)])] [] [] [VSet 8 (ENew 1 [])].
Lemma nv_simple_init_needed :
  wf_sig S2 /\ ~ simple_init S2 /\
  let h := [HStore LSlot (EArg (APath (PGlobal 8)))] in
  let probe := [HSame (PSlot 0) (PGlobal 8)] in
  ob_of (run (prog S2 beta0) init_state ([HLoad 1] ++ h ++ [HLoad 1] ++ probe)) = [OSame false] /\
  ob_of (run (prog S2 beta0) init_state ([HLoad 1] ++ h ++ probe)) = [OSame true].
Proof.
  split; [|split].
  - split; simpl.
    + repeat constructor; simpl; intuition discriminate.
    + intros t m [].
    + intros t fs [E|[]]. inversion E. repeat constructor; simpl; intuition.
  - intros SI. destruct (SI 8 (ENew 1 []) (or_introl eq_refl)) as [[z E]|(f & E & _)]; discriminate E.
  - split; vm_compute; reflexivity.
Qed.

(* ======================================================================================================== *)
(* Part C: what hist_ok allows / excludes, and when run = None                                               *)
(* ======================================================================================================== *)
(* allowed: overwriting a variable that holds a function, writing undeclared globals, writing function values into
   fields; excluded: exactly the stores to a declared function name (2) or type name (1) *)
Lemma nv_hist_ok_scope :
  hist_ok S0 [HStore (LGlobal 6) (EArg (APath (PGlobal 3))); HStore (LGlobal 6) (EArg (AConst 0));
              HStore (LGlobal 99) (EArg (APath (PGlobal 2))); HStore (LField (PGlobal 7) 11) (EArg (APath (PGlobal 2)));
              HStore (LGlobal 20) (EArg (AConst 1)); HStore (LGlobal 10) (EArg (AConst 1))] /\
  ~ hist_ok S0 [HStore (LGlobal 2) (EArg (AConst 0))] /\
  ~ hist_ok S0 [HStore (LGlobal 1) (EArg (AConst 0))] /\
  (forall n, protected S0 n <-> n = 1 \/ n = 2 \/ n = 3).
Proof.
  repeat split.
  - repeat constructor; simpl; unfold protected; simpl; intuition discriminate.
  - intros H. inversion H as [|? ? P _]. apply P. right. simpl. auto.
  - intros H. inversion H as [|? ? P _]. apply P. left. simpl. auto.
  - unfold protected. simpl. intuition.
  - unfold protected. simpl. intuition.
Qed.

(* run = None: histories that are hist_ok but contain a step that fails.
   (a) calling a nil variable (a run-time panic in the real VM);
   (b) dereferencing a nil pointer variable (panic);
   (c) HSame on two scalars or on nil: NOT a panic in the real VM -- same_obj is simply undefined there, the whole
       history is dropped from the quantifier (harmless: HSame does not change globals/slots; drop the step);
   (d) a Load whose initialiser panics: for S3 (var 8 = p.f with p a nil pointer variable) a history that starts
       with a Load is None for every version and every beta (faithful: the real package panics while loading), so
       for such a wf_sig the theorems with a `last_load h = Some v` premise have nothing to say.  By inspection of
       exec_instr, for simple_init signatures a Load cannot fail in a reachable state (GlobalStruct / SetMethod /
       GlobalFunc find VNil or the right kind of object because hist_ok protects those names; GlobalZero and
       GlobalSet of a constant / global are total), so the None of HLoad hides nothing there. *)
Definition S3 : sig := mkSig [(1, [(10, VInt 0)])] [] [] [VZero 7 VNil; VSet 8 (EArg (APath (PAttr (PGlobal 7) 10)))].
Lemma nv_run_none :
  (hist_ok S0 [HLoad 1; HCall (PGlobal 7)] /\ run (prog S0 beta0) init_state [HLoad 1; HCall (PGlobal 7)] = None) /\
  (hist_ok S0 [HLoad 1; HStore LSlot (EArg (APath (PAttr (PGlobal 7) 10)))] /\
   run (prog S0 beta0) init_state [HLoad 1; HStore LSlot (EArg (APath (PAttr (PGlobal 7) 10)))] = None) /\
  (hist_ok S0 [HLoad 1; HSame (PGlobal 4) (PGlobal 5)] /\
   run (prog S0 beta0) init_state [HLoad 1; HSame (PGlobal 4) (PGlobal 5)] = None /\
   run (prog S0 beta0) init_state [HLoad 1; HSame (PGlobal 7) (PGlobal 7)] = None) /\
  (wf_sig S3 /\ forall beta v h, run (prog S3 beta) init_state (HLoad v :: h) = None).
Proof.
  split; [|split; [|split]].
  - split; [repeat constructor | vm_compute; reflexivity].
  - split; [repeat constructor | vm_compute; reflexivity].
  - split; [repeat constructor | split; vm_compute; reflexivity].
  - split.
    + split; simpl.
      * repeat constructor; simpl; intuition discriminate.
      * intros t m [].
      * intros t fs [E|[]]. inversion E. repeat constructor; simpl; intuition.
    + intros beta v h. reflexivity.
Qed.
(* a failing step in the MIDDLE of a history removes the whole history, including everything the real VM would go on
   to do after recovering from the panic (the model has no "recovered panic" step) *)
Lemma nv_run_none_middle :
  hist_ok S0 (h1 ++ [HCall (PGlobal 4)] ++ h2) /\ run (prog S0 beta0) init_state (h1 ++ [HCall (PGlobal 4)] ++ h2) = None.
Proof.
  split.
  - apply Forall_app. split. exact OK1. constructor. exact I. exact OK2.
  - vm_compute. reflexivity.
Qed.

Print Assumptions nv_c17_identity.
Print Assumptions nv_c17_latest_call.
Print Assumptions nv_c17_any_call.
Print Assumptions nv_c17_state_3.
Print Assumptions nv_c17_idem.
Print Assumptions nv_c17_idem_B.
Print Assumptions nv_c17_any_call_B.
