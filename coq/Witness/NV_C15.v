(* non-vacuity witnesses for Props/C15.v: Section variables imports / universe / top and Hypothesis universe_ok *)
From Coq Require Import List String Bool PeanoNat Lia.
From GV Require Import Model.Loader Proofs.C15_loader.
From GV Require Props.C15.
Import ListNotations.
Open Scope string_scope.

(* a diamond with a duplicate import, a native package, a package unreachable from main that imports main, and (gcyc) a
   3-cycle below main *)
Definition gacy : list (string * list string) :=
  [("main", ["b"; "a"; "b"; "fmt"]); ("b", ["a"; "c"]); ("a", ["c"; "strings"]); ("c", []); ("tool", ["main"; "zzz"])].
Definition gcyc : list (string * list string) :=
  [("main", ["x"; "fmt"]); ("x", ["y"]); ("y", ["z"; "fmt"]); ("z", ["x"])].
Definition U (g : list (string * list string)) := "main" :: C15.mentioned g.
Lemma U_ok g : forall p, reach (C15.graph_of g) "main" p -> In p (U g).
Proof. exact (C15.c15_premise_satisfiable g "main"). Qed.

(* c15_terminates + c15_order + c15_acyclic on gacy; the budget the theorems ask for is the concrete number 43 *)
Lemma nv_c15_acyclic :
  budget (C15.graph_of gacy) (U gacy) = 43 /\
  load (C15.graph_of gacy) 43 "main" = LoadOk ["c"; "fmt"; "strings"; "a"; "b"; "main"] /\
  valid_order (C15.graph_of gacy) "main" ["c"; "fmt"; "strings"; "a"; "b"; "main"] /\
  ~ cyclic (C15.graph_of gacy) "main" /\
  (exists l, load (C15.graph_of gacy) 43 "main" = LoadOk l) /\
  load (C15.graph_of gacy) 43 "main" <> LoadFuel /\
  (* the budget is not slack: a smaller one does run out *)
  load (C15.graph_of gacy) 9 "main" = LoadFuel.
Proof.
  assert (B : budget (C15.graph_of gacy) (U gacy) <= 43) by (vm_compute; lia).
  assert (L : load (C15.graph_of gacy) 43 "main" = LoadOk ["c"; "fmt"; "strings"; "a"; "b"; "main"]) by (vm_compute; reflexivity).
  assert (NC : ~ cyclic (C15.graph_of gacy) "main").
  { intro Cy. pose proof (C15.c15_cycle _ _ _ (U_ok gacy) 43 B Cy) as E. rewrite L in E. discriminate. }
  split; [vm_compute; reflexivity|]. split; [exact L|].
  split; [exact (C15.c15_order _ _ _ (U_ok gacy) 43 _ B L)|]. split; [exact NC|].
  split; [exact (C15.c15_acyclic _ _ _ (U_ok gacy) 43 B NC)|].
  split; [exact (C15.c15_terminates _ _ _ (U_ok gacy) 43 B)|vm_compute; reflexivity].
Qed.
(* c15_cycle on gcyc: premise `cyclic` proved from the definition (x -> y -> z -> x, reachable from main) *)
Lemma nv_c15_cycle : cyclic (C15.graph_of gcyc) "main" /\ load (C15.graph_of gcyc) 25 "main" = LoadCycle.
Proof.
  assert (E : forall p l q, C15.graph_of gcyc p = Some l -> In q l -> edge (C15.graph_of gcyc) p q) by (intros p l q H I; exists l; auto).
  assert (Cy : cyclic (C15.graph_of gcyc) "main").
  { exists "x". split.
    - apply (reach_step _ _ "main" "x"); [apply reach_top|]. apply (E "main" ["x"; "fmt"]); [reflexivity|left; reflexivity].
    - exists ["y"; "z"; "x"]. split; [discriminate|]. split; [reflexivity|].
      split; [apply (E "x" ["y"]); [reflexivity|left; reflexivity]|].
      split; [apply (E "y" ["z"; "fmt"]); [reflexivity|left; reflexivity]|].
      split; [apply (E "z" ["x"]); [reflexivity|left; reflexivity]|exact I]. }
  split; [exact Cy|]. apply (C15.c15_cycle _ _ _ (U_ok gcyc) 25); [vm_compute; lia|exact Cy].
Qed.
