(* NV_C11 -- non-vacuity audit of Props/C11.v (slices).

   Every theorem of Props/C11.v is a closed statement (no Section, no Hypothesis); the premises are
   the antecedents of the individual conjuncts.  This file instantiates each premise set with a
   concrete, NON-trivial witness: a state reached after literal / reslice / element write / append
   within the capacity / append beyond the capacity / overlapping copy (state [s1]: two backing
   arrays, five variables, four of them sharing array 0), a continuation history [os_more] with
   every kind of statement (ONil OLit OMake OSlice OSet OAppend{SpN,SpV,SpS} OCopy OCopyStr), three
   PANICKING statements, a growing append on a []uint8 and an append on a nil variable, and applies
   the Props theorems to them. *)
From Coq Require Import ZArith List Bool Lia Arith.
From GV Require Import GoSpec.GoPrim GoSpec.GoSlice GoSpec.GoSliceHist Gen.ValueOps_gen Model.Slice
  Proofs.C11_goslice Proofs.C11_slice Props.C11.
Import ListNotations.
Open Scope Z_scope.

(* ---- vocabulary ------------------------------------------------------------------------------ *)

Definition i32 (n : Z) : value := mkValue TypeInt32 (Zn n) PNone.
Definition u8 (n : Z) : value := mkValue TypeUint8 (Zn n) PNone.
Definition un (n : Z) : value := mkValue untypedInt (Zn n) PNone.
Definition nl : value := mkValue TypeNil (Zn 0) PNone.
Definition str (s : list Z) : value := mkValue TypeString (Zn 0) (PStr s).

Definition s0 : state := ([], repeat (GNil (fn_sliceType TypeInt32)) 5).

(* the history of Props/C11.v c11_witness *)
Definition os_pre : list op :=
  [OLit 0 TypeInt32 [un 1; un 2; un 3; un 4]; OSlice 1 0 (un 1) (un 3); OSet 1 (un 0) (un 20);
   OAppend 2 1 [un 99] SpN 8; OAppend 3 0 [un 7] SpN 8; OSlice 4 0 (un 1) nl; OCopy 4 0].

(* continuation: every kind of statement, three panicking ones, spreads, nil variable, growth *)
Definition os_more : list op :=
  [OSet 0 (un 9) (un 1);                      (* panics: index 9 of a 4-element slice *)
   OSlice 1 3 (un 2) (un 9);                  (* panics: 9 > cap 8 *)
   OMake 1 TypeUint8 (un (-1));               (* panics: negative length *)
   OMake 1 TypeUint8 (un 2);                  (* x1 = make([]uint8, 2) *)
   OAppend 1 1 [un 300] (SpS [104; 105]) 16;  (* x1 = append(x1, 300-as-uint8, "hi"...) : grows, cap 16 *)
   OCopyStr 1 [120; 121];                     (* copy(x1, "xy") *)
   ONil 2 TypeInt32;                          (* x2 = nil *)
   OAppend 2 2 [un 5] (SpV 3) 0;              (* x2 = append(x2 (nil), 5, x3...) *)
   OAppend 4 3 [un 8; un 9] SpN 0;            (* x4 = append(x3, 8, 9): within the capacity of x3 *)
   OSlice 0 3 (un 0) (un 8);                  (* x0 = x3[0:8]: up to the capacity, last cell never written *)
   OCopy 0 2;                                 (* copy(x0, x2) *)
   OLit 3 TypeString [str [97]];              (* x3 = []string{"a"} *)
   OSet 3 (un 0) (str [98])].                 (* x3[0] = "b" *)

Definition os_all : list op := (os_pre ++ os_more)%list.

(* the reachable state after os_pre: arrays [1;1;20;3] and [1;20;3;99;7;nil;nil;nil];
   x0 = (0,0,4,4) x1 = (0,1,2,3) x2 = (0,1,3,3) x3 = (1,0,5,8) x4 = (0,1,3,3) *)
Definition s1 : state := Eval vm_compute in run s0 os_pre.
Lemma s1_reached : run s0 os_pre = s1.
Proof. vm_compute. reflexivity. Qed.
Lemma s1_shape :
  fst s1 = [[i32 1; i32 1; i32 20; i32 3]; [i32 1; i32 20; i32 3; i32 99; i32 7; nilV; nilV; nilV]] /\
  snd s1 = [GSl TypeInt32 (SMk 0 0 4 4); GSl TypeInt32 (SMk 0 1 2 3); GSl TypeInt32 (SMk 0 1 3 3);
            GSl TypeInt32 (SMk 1 0 5 8); GSl TypeInt32 (SMk 0 1 3 3)].
Proof. split; reflexivity. Qed.

Definition s2 : state := Eval vm_compute in run s1 os_more.
Lemma s2_reached : run s0 os_all = s2 /\ run s1 os_more = s2.
Proof. split; vm_compute; reflexivity. Qed.

(* ---- boolean checkers for the store predicates (reflection) ------------------------------------ *)

Definition isnilVb (v : value) : bool :=
  match v with mkValue 0 (Zn 0) PNone => true | _ => false end.
Lemma isnilVb_sound v : isnilVb v = true -> v = nilV.
Proof.
  destruct v as [t n p]. unfold isnilVb.
  destruct t; try (intros H; discriminate H).
  destruct n as [z|f]; try (intros H; discriminate H).
  destruct z; try (intros H; discriminate H).
  destruct p; try (intros H; discriminate H). reflexivity.
Qed.

Definition sokb (v : value) : bool :=
  (negb (vt v =? untypedInt) && negb (vt v =? TypeNil)) || isnilVb v.
Lemma sokb_sound v : sokb v = true -> sok v.
Proof.
  unfold sokb. intros H. apply orb_prop in H as [H|H].
  - apply andb_prop in H as [H1 H2]. apply negb_true_iff in H1, H2. apply Z.eqb_neq in H1, H2.
    left. split; assumption.
  - right. apply isnilVb_sound. exact H.
Qed.

Definition tcellb (t : Z) (v : value) : bool := (vt v =? t) || isnilVb v.
Lemma tcellb_sound t v : tcellb t v = true -> tcell t v.
Proof.
  unfold tcellb. intros H. apply orb_prop in H as [H|H].
  - left. apply Z.eqb_eq. exact H.
  - right. apply isnilVb_sound. exact H.
Qed.

Fixpoint chk (pb : nat -> value -> bool) (k : nat) (st : vstore) : bool :=
  match st with [] => true | x :: r => forallb (pb k) x && chk pb (S k) r end.
Lemma chk_sound (P : nat -> value -> Prop) pb : (forall a v, pb a v = true -> P a v) ->
  forall (st : vstore) k, chk pb k st = true -> forall a i v, cell st a i = Some v -> P (k + a)%nat v.
Proof.
  intros HP st. induction st as [|x r IH]; intros k H a i v E.
  - unfold cell, array in E. destruct a; destruct i; discriminate E.
  - cbn [chk] in H. apply andb_prop in H as [H1 H2]. destruct a as [|a].
    + unfold cell, array in E. cbn [nth] in E. apply nth_error_In in E.
      rewrite forallb_forall in H1. rewrite Nat.add_0_r. apply HP, H1, E.
    + rewrite Nat.add_succ_r. exact (IH (S k) H2 a i v E).
Qed.

Lemma store_ok_dec (st : vstore) : chk (fun _ => sokb) 0 st = true -> store_ok st.
Proof.
  intros H a i v E.
  exact (chk_sound (fun _ v => sok v) (fun _ => sokb) (fun _ v Hv => sokb_sound v Hv) st 0%nat H a i v E).
Qed.
Lemma tcells_dec aty (st : vstore) :
  chk (fun a => tcellb (nth a aty 0)) 0 st = true ->
  forall a i v, cell st a i = Some v -> tcell (nth a aty 0) v.
Proof.
  intros H a i v E.
  exact (chk_sound (fun a v => tcell (nth a aty 0) v) (fun a => tcellb (nth a aty 0))
           (fun a v Hv => tcellb_sound _ v Hv) st 0%nat H a i v E).
Qed.

(* solver for the vm_compute'd side conditions (op_wf, op_nilsafe, op_typed, compat, scalar) *)
Ltac slv :=
  solve [ reflexivity | exact I | lia | intros; discriminate | constructor; slv | right; slv ].

(* ---- the premises on the reachable state s1 ---------------------------------------------------- *)

(* Inv s1, proved DIRECTLY from the definition (not through c11_inv) *)
Lemma inv_s1 : Inv s1.
Proof.
  split.
  - apply store_ok_dec. vm_compute. reflexivity.
  - intros x Hx. change (length (snd s1)) with 5%nat in Hx.
    do 5 (destruct x as [|x]; [split; [cbn; lia|unfold scalar, nillableMin; cbn; lia]|]). lia.
Qed.
(* ... and the same through c11_inv: the initial state satisfies Inv, every step keeps it *)
Lemma inv_run_from_props os : forall s, Inv s -> hist_ok s os -> Inv (run s os).
Proof.
  induction os as [|o os IH]; intros s HI Hh; [exact HI|].
  destruct Hh as (Hw & _ & Hr). cbn [run fold_left]. apply IH; [|exact Hr].
  exact (proj1 (proj2 c11_inv s o HI Hw)).
Qed.

(* TInv with a NON-empty ghost typing [int32; int32] of the two arrays of s1 *)
Lemma tinv_s1 : TInv [TypeInt32; TypeInt32] s1.
Proof.
  split; [reflexivity|split].
  - apply tcells_dec. vm_compute. reflexivity.
  - intros x Hx. change (length (snd s1)) with 5%nat in Hx.
    do 5 (destruct x as [|x]; [reflexivity|]). lia.
Qed.

Lemma hist_pre : hist_ok s0 os_pre /\ hist_typed s0 os_pre.
Proof. vm_compute. slv. Qed.
Lemma hist_more : hist_ok s1 os_more /\ hist_typed s1 os_more.
Proof. vm_compute. slv. Qed.
Lemma hist_all : hist_ok s0 os_all /\ hist_typed s0 os_all.
Proof. vm_compute. slv. Qed.

(* three statements of os_more really panic, on both sides *)
Lemma more_panics :
  step_res s1 (OSet 0 (un 9) (un 1)) = Panic /\ go_step_res 0 (abs s1) (OSet 0 (un 9) (un 1)) = Panic /\
  step_res s1 (OSlice 1 3 (un 2) (un 9)) = Panic /\ go_step_res 0 (abs s1) (OSlice 1 3 (un 2) (un 9)) = Panic /\
  step_res s1 (OMake 1 TypeUint8 (un (-1))) = Panic /\ go_step_res 0 (abs s1) (OMake 1 TypeUint8 (un (-1))) = Panic.
Proof. vm_compute. repeat split. Qed.

(* ---- c11_inv ----------------------------------------------------------------------------------- *)

(* conjunct 2 on the reachable state s1, one statement of every kind (the first is a panicking one) *)
Lemma nv_c11_inv :
  Forall (fun o => Inv (step s1 o) /\ length (snd (step s1 o)) = 5%nat)
    [OSet 0 (un 9) (un 1); OSet 0 (un 3) (un 1); ONil 2 TypeBool; OLit 3 TypeString [str [97]];
     OMake 1 TypeUint8 (un 2); OSlice 0 3 (un 0) (un 8); OAppend 4 3 [un 8; un 9] SpN 0;
     OAppend 4 0 [un 8; un 9] (SpV 3) 32; OAppend 1 1 [] (SpS [104]) 0; OCopy 4 0; OCopyStr 1 [120]].
Proof.
  repeat (constructor; [apply (proj2 c11_inv s1 _ inv_s1); vm_compute; slv|]). constructor.
Qed.
(* Inv of the final state, obtained only from c11_inv *)
Lemma nv_c11_inv_run : Inv s2.
Proof.
  rewrite <- (proj1 s2_reached). apply inv_run_from_props; [exact (proj1 c11_inv 5%nat)|exact (proj1 hist_all)].
Qed.

(* ---- c11_refine -------------------------------------------------------------------------------- *)

Fixpoint all_steps (P : state -> op -> Prop) (s : state) (os : list op) : Prop :=
  match os with [] => True | o :: r => P s o /\ all_steps P (step s o) r end.

(* conjunct 1 along a whole history (uses c11_inv to carry Inv) *)
Lemma refine_all_steps os : forall s, Inv s -> hist_ok s os ->
  all_steps (fun s o => exists cap, abs_res (step_res s o) = go_step_res cap (abs s) o) s os.
Proof.
  induction os as [|o os IH]; intros s HI Hh; [exact I|].
  destruct Hh as (Hw & Hn & Hr). split.
  - exact (proj1 c11_refine s o HI Hw Hn).
  - apply IH; [exact (proj1 (proj2 c11_inv s o HI Hw))|exact Hr].
Qed.

(* every statement of os_all (20 statements, 3 of them panic) is matched by Go's step *)
Lemma nv_c11_refine_1 :
  all_steps (fun s o => exists cap, abs_res (step_res s o) = go_step_res cap (abs s) o) s0 os_all.
Proof. apply refine_all_steps; [exact (proj1 c11_inv 5%nat)|exact (proj1 hist_all)]. Qed.

(* conjunct 2: the whole history, from the initial state and from the reachable state s1 *)
Lemma nv_c11_refine_2 :
  go_run (abs s0) os_all (abs s2) /\ go_run (abs s1) os_more (abs s2).
Proof.
  split.
  - rewrite <- (proj1 s2_reached). apply (proj1 (proj2 c11_refine)); [exact (proj1 c11_inv 5%nat)|exact (proj1 hist_all)].
  - rewrite <- (proj2 s2_reached). apply (proj1 (proj2 c11_refine)); [exact inv_s1|exact (proj1 hist_more)].
Qed.
(* the final state is not a degenerate one *)
Lemma s2_cells :
  cells (fst s2) (gdata (pget (snd s2) 0)) = [i32 5; i32 1; i32 20; i32 3; i32 99; i32 7; i32 9; nilV] /\
  cells (fst s2) (gdata (pget (snd s2) 1)) = [u8 120; u8 121; u8 44; u8 104; u8 105] /\
  cells (fst s2) (gdata (pget (snd s2) 2)) = [i32 5; i32 1; i32 20; i32 3; i32 99; i32 7] /\
  cells (fst s2) (gdata (pget (snd s2) 3)) = [str [98]] /\
  cells (fst s2) (gdata (pget (snd s2) 4)) = [i32 5; i32 1; i32 20; i32 3; i32 99; i32 7; i32 9] /\
  length (fst s2) = 6%nat.
Proof. vm_compute. repeat split. Qed.

(* the capacity argument of Go's step matters for appends only: [exists cap] cannot be used to make
   any other statement return something else *)
Lemma nv_cap_only_append c1 c2 gs o :
  (forall x y vs sp c, o <> OAppend x y vs sp c) -> go_step_res c1 gs o = go_step_res c2 gs o.
Proof.
  intros H. destruct gs as [st p]. destruct o; try reflexivity. exfalso. eapply H. reflexivity.
Qed.
(* ... and for an append it only fixes the capacity (and the number of spare nil cells) of a NEW array *)
Lemma nv_cap_append cap (st : vstore) d vs :
  append_ nilV (fun _ _ => cap) st d vs =
  if (slen d + length vs <=? scap d)%nat
  then append_ nilV (fun _ _ => 0%nat) st d vs
  else let n := (slen d + length vs)%nat in
       ((st ++ [cells st d ++ vs ++ repeat nilV (Nat.max n cap - n)])%list, SMk (length st) 0 n (Nat.max n cap)).
Proof. unfold append_. destruct (slen d + length vs <=? scap d)%nat; reflexivity. Qed.

(* op_nilsafe is a real restriction (finding F1 of Proofs/C11_slice.v): without it conjunct 1 is false *)
Lemma nv_nilsafe_needed :
  ~ exists cap, abs_res (step_res s0 (OAppend 0 0 [] SpN 0)) = go_step_res cap (abs s0) (OAppend 0 0 [] SpN 0).
Proof. intros [cap H]. vm_compute in H. discriminate H. Qed.

(* conjuncts 3-6 (conjunct 5 has the premise wf_slice) on s1 *)
Lemma nv_c11_refine_5 :
  let st := fst s1 in let g := pget (snd s1) 3 in
  map snd (Value_Range st g) = [i32 1; i32 20; i32 3; i32 99; i32 7] /\
  map fst (Value_Range st g) = [fn_Int 0; fn_Int 1; fn_Int 2; fn_Int 3; fn_Int 4].
Proof.
  cbv zeta.
  assert (W : wf_slice (fst s1) (gdata (pget (snd s1) 3))) by (cbn; lia).
  destruct (proj1 (proj2 (proj2 (proj2 (proj2 c11_refine)))) (fst s1) (pget (snd s1) 3) W) as [A B].
  rewrite A, B. split; reflexivity.
Qed.

(* ---- c11_alias --------------------------------------------------------------------------------- *)

Definition g3 : gval := GSl TypeInt32 (SMk 1 0 5 8).          (* = pget (snd s1) 3 *)
Definition h_al : gval := GSl TypeInt32 (SMk 1 1 3 7).        (* = g3[1:4] *)
Definition st_sub : vstore :=                                  (* after h_al[1] = 55 *)
  Eval vm_compute in match Value_Set (fst s1) h_al (un 1) (un 55) with Ok s => s | _ => [] end.
Definition st_par : vstore :=                                  (* after g3[2] = 66 *)
  Eval vm_compute in match Value_Set (fst s1) g3 (un 2) (un 66) with Ok s => s | _ => [] end.

Lemma g3_is_x3 : pget (snd s1) 3 = g3.  Proof. reflexivity. Qed.
Lemma wf_g3 : wf_slice (fst s1) (gdata g3).  Proof. cbn. lia. Qed.

Lemma nv_c11_alias_1 :
  Value_Slice g3 1 4 = Ok h_al /\ Value_Set (fst s1) h_al (un 1) (un 55) = Ok st_sub /\
  elemty h_al = elemty g3 /\
  Value_Get st_sub g3 (un 2) = Ok (i32 55) /\
  (forall m, Value_Int m <> 2 -> Value_Get st_sub g3 m = Value_Get (fst s1) g3 m).
Proof.
  assert (R : Value_Slice g3 1 4 = Ok h_al) by reflexivity.
  assert (S : Value_Set (fst s1) h_al (un 1) (un 55) = Ok st_sub) by (vm_compute; reflexivity).
  assert (E : Value_Int (un 2) = 1 + Value_Int (un 1)) by reflexivity.
  assert (L : 1 + Value_Int (un 1) < Z.of_nat (Value_Len g3)) by (vm_compute; reflexivity).
  destruct (proj1 c11_alias (fst s1) g3 1 4 h_al (un 1) (un 55) st_sub (un 2) wf_g3 R S E L) as (A & B & C).
  repeat split; try assumption.
Qed.

Lemma nv_c11_alias_2 :
  Value_Set (fst s1) g3 (un 2) (un 66) = Ok st_par /\
  Value_Get st_par h_al (un 1) = Ok (i32 66) /\
  (forall m, Value_Int m <> 1 -> Value_Get st_par h_al m = Value_Get (fst s1) h_al m).
Proof.
  assert (R : Value_Slice g3 1 4 = Ok h_al) by reflexivity.
  assert (S : Value_Set (fst s1) g3 (un 2) (un 66) = Ok st_par) by (vm_compute; reflexivity).
  assert (K : 0 <= Value_Int (un 1) < 4 - 1) by (vm_compute; split; [discriminate|reflexivity]).
  assert (E : Value_Int (un 2) = 1 + Value_Int (un 1)) by reflexivity.
  destruct (proj2 c11_alias (fst s1) g3 1 4 h_al (un 1) (un 66) st_par (un 2) wf_g3 R K E S) as (A & B).
  repeat split; assumption.
Qed.

(* ---- c11_append -------------------------------------------------------------------------------- *)

Definition my_grow (c n : nat) : nat := (2 * c + 3)%nat.       (* a non-trivial growth oracle *)

Lemma store_ok_s1 : store_ok (fst s1).
Proof. apply store_ok_dec. vm_compute. reflexivity. Qed.
Lemma scalar_i32 : scalar TypeInt32.
Proof. unfold scalar, nillableMin, TypeInt32. lia. Qed.

(* conjunct 1: append(x1, 5, 6)?  x1 = (0,1,2,3) has room for ONE more: append(x1, 5) is in place and is
   seen by x0 (as x0[3]), x2 and x4 (as [2]), which share array 0 *)
Lemma nv_c11_append_1 :
  let st' := arr_write (fst s1) 0 (1 + 2) (map (assign_to TypeInt32) [un 5]) in
  Value_Append my_grow (fst s1) (GSl TypeInt32 (SMk 0 1 2 3)) [un 5] 0 = (st', GSl TypeInt32 (SMk 0 1 3 3)) /\
  cell st' 0 3 = Some (i32 5) /\ cell st' 0 2 = cell (fst s1) 0 2 /\ cell st' 1 3 = cell (fst s1) 1 3 /\
  Value_Get st' (pget (snd s1) 0) (un 3) = Ok (i32 5) /\
  Value_Get st' (pget (snd s1) 2) (un 2) = Ok (i32 5) /\
  Value_Get st' (pget (snd s1) 4) (un 2) = Ok (i32 5).
Proof.
  cbv zeta.
  assert (W : wf_slice (fst s1) (SMk 0 1 2 3)) by (cbn; lia).
  assert (C : (2 + length [un 5] <= 3)%nat) by (cbn; lia).
  destruct (proj1 (c11_append my_grow) (fst s1) TypeInt32 0%nat 1%nat 2%nat 3%nat [un 5] store_ok_s1 W scalar_i32 C)
    as [A B].
  split; [exact A|]. rewrite !B. vm_compute. repeat split.
Qed.

(* conjunct 2: append(x0, 7, 8) with x0 = (0,0,4,4) full: new array 2 of capacity my_grow 4 6 = 11 *)
Lemma nv_c11_append_2 :
  let r := Value_Append my_grow (fst s1) (GSl TypeInt32 (SMk 0 0 4 4)) [un 7; un 8] 0 in
  array (fst r) 0 = array (fst s1) 0 /\ array (fst r) 1 = array (fst s1) 1 /\
  cells (fst r) (SMk 0 1 3 3) = cells (fst s1) (SMk 0 1 3 3) /\
  cells (fst r) (SMk 1 0 5 8) = cells (fst s1) (SMk 1 0 5 8) /\
  snd r = GSl TypeInt32 (SMk 2 0 6 11) /\
  cells (fst r) (gdata (snd r)) = [i32 1; i32 1; i32 20; i32 3; i32 7; i32 8].
Proof.
  cbv zeta.
  assert (W : wf_slice (fst s1) (SMk 0 0 4 4)) by (cbn; lia).
  assert (C : (scap (SMk 0 0 4 4) < slen (SMk 0 0 4 4) + length [un 7; un 8])%nat) by (cbn; lia).
  pose proof (proj2 (c11_append my_grow) (fst s1) TypeInt32 (SMk 0 0 4 4) [un 7; un 8] store_ok_s1 W scalar_i32 C) as H.
  cbv zeta in H. destruct H as (A & B & (c' & E & Hc) & D).
  split; [apply A; cbn; lia|]. split; [apply A; cbn; lia|].
  split; [apply B; cbn; lia|]. split; [apply B; cbn; lia|].
  split; [vm_compute; reflexivity|]. rewrite D. vm_compute. reflexivity.
Qed.

(* ---- c11_copy ---------------------------------------------------------------------------------- *)

(* conjunct 1 with overlapping ranges: copy(x4, x0), x4 = x0[1:] on the same array; conjunct 2 *)
Lemma nv_c11_copy_1 :
  let a := pget (snd s1) 4 in let b := CSlice (pget (snd s1) 0) in
  snd (code_copy (fst s1) a b) = 3%nat /\
  cells (fst (code_copy (fst s1) a b)) (gdata a) = [i32 1; i32 1; i32 20] /\
  cells (fst (code_copy (fst s1) a b)) (gdata (pget (snd s1) 0)) = [i32 1; i32 1; i32 1; i32 20] /\
  length (csrc_vals (fst s1) b) = 4%nat.
Proof.
  cbv zeta.
  assert (W : wf_slice (fst s1) (gdata (pget (snd s1) 4))) by (cbn; lia).
  assert (W0 : wf_slice (fst s1) (gdata (pget (snd s1) 0))) by (cbn; lia).
  pose proof (proj1 c11_copy (fst s1) (pget (snd s1) 4) (CSlice (pget (snd s1) 0)) W) as H.
  cbv zeta in H. destruct H as [A B].
  pose proof (proj1 (proj2 c11_copy) (fst s1) (pget (snd s1) 0) W0) as L.
  rewrite A, B, L. vm_compute. repeat split.
Qed.
(* string source into a []uint8 of the final state s2 (shorter source than destination) *)
Lemma nv_c11_copy_str :
  let a := pget (snd s2) 1 in
  snd (code_copy (fst s2) a (CStr [65; 66])) = 2%nat /\
  cells (fst (code_copy (fst s2) a (CStr [65; 66]))) (gdata a) = [u8 65; u8 66; u8 44; u8 104; u8 105].
Proof.
  cbv zeta.
  assert (W : wf_slice (fst s2) (gdata (pget (snd s2) 1))) by (cbn; lia).
  pose proof (proj1 c11_copy (fst s2) (pget (snd s2) 1) (CStr [65; 66]) W) as H.
  cbv zeta in H. destruct H as [A B]. rewrite A, B. vm_compute. repeat split.
Qed.

(* ---- c11_bounds -------------------------------------------------------------------------------- *)

Lemma nv_c11_bounds :
  let st := fst s1 in let g := pget (snd s1) 0 in     (* len 4, cap 4 *)
  (Value_Get st g (un 4) = Panic /\ Value_Get st g (un (-1)) = Panic) /\
  (exists v, Value_Get st g (un 3) = Ok v) /\
  (Value_Set st g (un 4) (un 0) = Panic /\ Value_Set st g (un (-1)) (un 0) = Panic) /\
  (exists st', Value_Set st g (un 3) (un 0) = Ok st') /\
  (Value_Slice g 1 5 = Panic /\ Value_Slice g 3 2 = Panic /\ Value_Slice g (-1) 2 = Panic /\
   Value_Slice g3 2 9 = Panic) /\
  (exists h, Value_Slice g3 2 8 = Ok h /\ Value_Len h = 6%nat /\ elemty h = TypeInt32) /\
  (code_slice g (un 5) nl = Panic /\ code_slice g (un (-2)) (un 1) = Panic /\ code_slice g3 (un 0) (un 9) = Panic) /\
  code_make st TypeInt32 (un (-3)) = Panic.
Proof.
  cbv zeta. destruct c11_bounds as (B1 & B2 & B3 & B4 & B5 & B6 & B7 & B8).
  assert (W : wf_slice (fst s1) (gdata (pget (snd s1) 0))) by (cbn; lia).
  split; [split; apply B1; vm_compute; intros [H1 H2]; first [apply H1; reflexivity|discriminate H2]|].
  split; [apply B2; [exact W|vm_compute; split; [discriminate|reflexivity]]|].
  split; [split; apply B3; vm_compute; intros [H1 H2]; first [apply H1; reflexivity|discriminate H2]|].
  split; [apply B4; vm_compute; split; [discriminate|reflexivity]|].
  split; [repeat split; apply B5; unfold gcapn; cbn; lia|].
  split; [apply (B6 g3 2 8); unfold gcapn; cbn; lia|].
  split; [repeat split; apply B7; cbv zeta; unfold gcapn; vm_compute;
          intros [[H1 H2] H3]; first [apply H1; reflexivity|apply H2; reflexivity|apply H3; reflexivity]|].
  apply B8. vm_compute. reflexivity.
Qed.

(* ---- c11_nil ----------------------------------------------------------------------------------- *)

Lemma nv_c11_nil :
  let t := fn_sliceType TypeUint8 in
  code_append my_grow (fst s1) (GNil t) [un 300; u8 7] =
    ((fst s1 ++ [[u8 44; u8 7]])%list, GSl TypeUint8 (SMk 2 0 2 2)) /\
  Value_Slice (GNil t) 0 0 = Ok (GSl TypeUint8 SNil) /\ Value_Slice (GNil t) 0 1 = Panic /\
  code_copy (fst s1) (GNil t) (CSlice g3) = (fst s1, 0%nat) /\
  Type_value t = TypeUint8.
Proof.
  cbv zeta. destruct (c11_nil (fn_sliceType TypeUint8)) as (_ & _ & _ & A & R & C & V).
  rewrite A, !R, C, (V TypeUint8) by (unfold TypeUint8; lia). repeat split.
Qed.

(* ---- c11_elemty -------------------------------------------------------------------------------- *)

Lemma nv_c11_elemty_123 :
  vt (Value_assign (un 300) TypeUint8) = TypeUint8 /\ Value_assign (un 300) TypeUint8 = u8 44 /\
  sok (Value_assign nl TypeString) /\ sok (Value_assign (un 3) TypeBool) /\
  Value_assign (i32 5) TypeInt32 = i32 5 /\ Value_assign nilV TypeInt32 = nilV.
Proof.
  destruct c11_elemty as (E1 & E2 & E3 & _).
  assert (Sb : scalar TypeBool) by (unfold scalar, nillableMin, TypeBool; lia).
  assert (Ss : scalar TypeString) by (unfold scalar, nillableMin, TypeString; lia).
  split; [apply E1; right; split; [reflexivity|unfold numeric_tag; auto 6]|].
  split; [reflexivity|]. split; [apply E2; exact Ss|]. split; [apply E2; exact Sb|].
  split; apply E3; try exact scalar_i32; [left; split; discriminate|right; reflexivity].
Qed.

(* conjunct 4 with a NON-empty ghost typing, from the reachable state s1, over os_more; the result
   (x0 of the final state) contains a never-written nil cell INSIDE its length: the second disjunct
   of tcell is needed (finding F2) *)
Lemma nv_c11_elemty_4 :
  forall x, (x < 5)%nat ->
  Forall (tcell (elemty (pget (snd s2) x))) (cells (fst s2) (gdata (pget (snd s2) x))).
Proof.
  destruct c11_elemty as (_ & _ & _ & E4 & _).
  pose proof (E4 os_more s1 [TypeInt32; TypeInt32] inv_s1 tinv_s1 (proj2 hist_more)) as H.
  rewrite (proj2 s2_reached) in H. exact H.
Qed.
(* the same from the initial state with the empty typing (conjuncts 4 and 6), and conjunct 5 *)
Lemma nv_c11_elemty_46 :
  forall x, (x < 5)%nat ->
  Forall (tcell (elemty (pget (snd s2) x))) (cells (fst s2) (gdata (pget (snd s2) x))).
Proof.
  destruct c11_elemty as (_ & _ & _ & E4 & _ & E6 & _).
  pose proof (E4 os_all s0 [] (proj1 c11_inv 5%nat) (E6 5%nat) (proj2 hist_all)) as H.
  rewrite (proj1 s2_reached) in H. exact H.
Qed.
Lemma nv_c11_elemty_5 :
  forall x, Forall sok (cells (fst s2) (gdata (pget (snd s2) x))).
Proof.
  destruct c11_elemty as (_ & _ & _ & _ & E5 & _).
  pose proof (E5 os_all s0 (proj1 c11_inv 5%nat) (proj1 hist_all)) as H.
  rewrite (proj1 s2_reached) in H. exact H.
Qed.
Lemma nv_c11_elemty_4_concrete :
  elemty (pget (snd s2) 1) = TypeUint8 /\ elemty (pget (snd s2) 3) = TypeString /\
  Forall (tcell TypeUint8) [u8 120; u8 121; u8 44; u8 104; u8 105] /\
  nth_error (cells (fst s2) (gdata (pget (snd s2) 0))) 7 = Some nilV.
Proof.
  pose proof (nv_c11_elemty_4 1%nat ltac:(lia)) as H.
  rewrite (proj1 (proj2 s2_cells)) in H.
  split; [reflexivity|]. split; [reflexivity|]. split; [exact H|reflexivity].
Qed.

(* tcell is NOT so permissive that conjunct 4 is trivial: its conclusion fails after an ill-typed
   history (hist_ok holds, hist_typed does not): x0 = []uint8{int32(5)} keeps an int32 in a []uint8 *)
Lemma nv_c11_elemty_4_not_trivial :
  let os := [OLit 0 TypeUint8 [i32 5]] in
  hist_ok s0 os /\ ~ hist_typed s0 os /\
  ~ Forall (tcell (elemty (pget (snd (run s0 os)) 0))) (cells (fst (run s0 os)) (gdata (pget (snd (run s0 os)) 0))).
Proof.
  cbv zeta. split; [vm_compute; slv|]. split.
  - intros (_ & H & _). cbn in H. inversion H as [|? ? [C|[C _]] _]; discriminate C.
  - intros H. vm_compute in H. inversion H as [|? ? [C|C] _]; discriminate C.
Qed.

Print Assumptions nv_c11_refine_1.
Print Assumptions nv_c11_refine_2.
Print Assumptions nv_c11_elemty_4.
Print Assumptions nv_c11_append_2.
Print Assumptions nv_c11_alias_1.
