(* NV_C06 -- non-vacuity audit of Props/C06.v.

   Props/C06.v has no Section, no Hypothesis; every premise is a premise of a theorem:
     c06_skeleton              exec_block orc fuel b tr0 = Some (out, tr')
     c06_statement             exec orc fuel s tr = Some (out, tr'),  0 <= p,  carries C p (compile L s) bt ct
     c06_rewrite               carries C p (rewrite brk cnt n0 c) bt ct,  rw_ok brk n0 p bt bt',  rw_ok cnt n0 p ct ct'
     c06_wf_no_placeholder     wf_block false false b = true,  In i (compile_ctl b)
     c06_no_fallthrough        o_cond orc tr0 g = true,  exec_block orc fuel body (EvCond g :: tr0) = Some (Normal, tr')
     c06_no_fallthrough_tagged o_tag orc tr0 k = g,      exec_block orc fuel body (EvTag k :: tr0) = Some (Normal, tr')
     c06_default_entered       no_match orc tagv cs tr1 = Some tr2,  exec_block orc fuel dflt tr2 = Some (Normal, tr')
   All witnesses below use a history-dependent oracle, a non-empty initial history, non-junk slots. *)
From Coq Require Import ZArith List Bool Lia.
From GV Require Import GoSpec.GoCtl Model.Ctl Proofs.C06_base Proofs.C06_ctl Proofs.C06_main Proofs.C06_wf Props.C06.
Import ListNotations.
Open Scope Z_scope.

(* ------------------------------------------------------------------------------------------- *)
(* an oracle whose answers depend on the history (number of c / rs / tg calls so far) and on k *)
Fixpoint ncalls (tr : trace) : Z :=
  match tr with [] => 0 | EvEmit _ :: r => ncalls r | _ :: r => ncalls r + 1 end.
Definition horc : oracle :=
  mkOracle (fun tr k => (((ncalls tr + 1) * (ncalls tr + 1) + k) * 3 mod 7) <? 4)
           (fun tr k => Z.to_nat ((ncalls tr + 1 + k) mod 3 + 1))
           (fun tr k => (ncalls tr + 1 + k) mod 4).
Definition tr0 : trace := [EvCond 77; EvEmit 5].
Definition s0 : nat -> sval := fun i => SInt (Z.of_nat i).

(* =========================================================================================== *)
(* (1) c06_skeleton                                                                             *)
(* =========================================================================================== *)

(* ---- 1a. fuel exhaustion of the Go-side evaluator is None, never an outcome ---- *)
Lemma nv_exec_fuel0 : forall orc b tr, exec_block orc 0 b tr = None.
Proof. reflexivity. Qed.

(* `for {}` : None for EVERY fuel, so the premise of c06_skeleton is never met by a diverging run *)
Lemma nv_exec_for_diverges : forall orc f tr, exec_for orc f None None BNil tr = None.
Proof.
  induction f; intros tr; [reflexivity|]. rewrite exec_for_S. cbv zeta iota beta.
  destruct f; [reflexivity|]. rewrite exec_block_S. cbn [do_emit]. apply IHf.
Qed.
Lemma nv_exec_diverges : forall orc fuel tr,
  exec_block orc fuel (blk [Emit 1; For None None None BNil; Emit 2]) tr = None.
Proof.
  intros orc fuel tr. destruct fuel; [reflexivity|]. rewrite exec_block_S. cbn [blk].
  destruct fuel; [reflexivity|]. rewrite exec_S.
  destruct fuel; [reflexivity|]. rewrite exec_block_S.
  destruct fuel; [reflexivity|]. rewrite exec_S. cbn [do_emit].
  rewrite nv_exec_for_diverges. reflexivity.
Qed.
(* a diverging loop with a body: fuel runs out -> None (Go side), OutOfFuel (machine side) *)
Example nv_exec_diverges2 :
  let b := blk [For None None None (blk [Emit 2; If None 3 (blk [Continue]) BNil])] in
  exec_block horc 300 b tr0 = None /\
  run horc 300 (compile_ctl b) (mkCfg 0 tr0 [] s0) = OutOfFuel.
Proof. vm_compute. split; reflexivity. Qed.

(* ---- 1b. the machine: Finished / Ret_at are never produced by fuel exhaustion or by a default ---- *)
Lemma nv_run_fuel0 : forall orc C c, run orc 0 C c = OutOfFuel.
Proof. reflexivity. Qed.

Lemma nv_run_finished_inv : forall orc fuel C c t s,
  run orc fuel C c = Finished t s ->
  exists c', star orc C c c' /\ len C <= pc c' /\ ctr c' = t /\ stk c' = s.
Proof.
  induction fuel; intros C c t s H; [discriminate|]. cbn [run] in H.
  destruct (Z.leb_spec (len C) (pc c)).
  - inversion H; subst. exists c. repeat split; [constructor | assumption].
  - destruct (step orc C c) eqn:E; try discriminate.
    destruct (IHfuel _ _ _ _ H) as [c' [S R]]. exists c'. split; [econstructor; eauto | exact R].
Qed.

Lemma nv_step_returned_inv : forall orc C c c', step orc C c = Returned c' ->
  c' = c /\ exists n, fetch C (pc c) = Some (CReturn n).
Proof.
  intros orc C c c' E. unfold step in E. destruct (fetch C (pc c)) as [i|]; [|discriminate].
  destruct i;
    repeat match type of E with
           | context [match ?x with _ => _ end] => destruct x; try discriminate E
           | context [if ?x then _ else _] => destruct x; try discriminate E
           end; try discriminate E.
  inversion E; subst. eauto.
Qed.

Lemma nv_run_ret_inv : forall orc fuel C c p t s,
  run orc fuel C c = Ret_at p t s ->
  exists c', star orc C c c' /\ (exists n, fetch C (pc c') = Some (CReturn n)) /\ pc c' = p /\ ctr c' = t /\ stk c' = s.
Proof.
  induction fuel; intros C c p t s H; [discriminate|]. cbn [run] in H.
  destruct (Z.leb_spec (len C) (pc c)); [discriminate|].
  destruct (step orc C c) eqn:E; try discriminate.
  - destruct (IHfuel _ _ _ _ _ H) as [c' [S R]]. exists c'. split; [econstructor; eauto | exact R].
  - inversion H; subst. destruct (nv_step_returned_inv _ _ _ _ E) as [-> F].
    exists c. split; [constructor|]. auto.
Qed.

(* more fuel never changes a definite answer: the `exists mfuel` of c06_skeleton determines the result *)
Lemma nv_run_mono : forall orc fuel C c r, run orc fuel C c = r -> r <> OutOfFuel -> run orc (S fuel) C c = r.
Proof.
  induction fuel; intros C c r H N; [cbn in H; congruence|].
  cbn [run] in H. change (run orc (S (S fuel)) C c) with
    (if len C <=? pc c then Finished (ctr c) (stk c) else
     match step orc C c with Next c' => run orc (S fuel) C c' | Returned c' => Ret_at (pc c') (ctr c') (stk c') | Stuck => Error (pc c) end).
  destruct (len C <=? pc c); [exact H|].
  destruct (step orc C c); [apply IHfuel; assumption | exact H | exact H].
Qed.

(* machine side of `for {}`: OutOfFuel for every fuel, never Finished / Ret_at *)
Lemma nv_run_diverges : forall orc fuel tr st s,
  run orc fuel (compile_ctl (blk [For None None None BNil])) (mkCfg 0 tr st s) = OutOfFuel.
Proof. induction fuel; intros; [reflexivity|]. cbn [run]. cbn. apply IHfuel. Qed.

(* ---- 1c. Normal outcome: nested range / tagged switch / for with init, cond, post / if-else chain /
        tagless multi-guard switch containing a range with break.  Theorem applied, and the concrete
        machine run agrees. ---- *)
Definition prog1 : block :=
  blk [ Emit 100;
        Range 6 (blk [ Switch (Some 3) (css [(0, [1], blk [Emit 1; Continue]); (2, [], blk [Emit 2; Break; Emit 99])]) 1 (blk [Emit 3]);
                       For (Some 4) (Some 5) (Some 6)
                           (blk [If None 8 (blk [Emit 10; Break]) (blk [If (Some 11) 9 (blk [Continue]) BNil]); Emit 12]);
                       Emit 13 ]);
        Switch None (css [(20, [21; 22], blk [Range 23 (blk [Emit 24; If None 25 (blk [Break]) BNil])]); (26, [], blk [Emit 27])]) 0
               (blk [Emit 28]);
        Emit 29 ].
Definition trace1 : trace :=
  [EvEmit 29; EvCond 25; EvEmit 24; EvRange 23; EvCond 20; EvEmit 13; EvCond 5; EvEmit 4;
   EvEmit 2; EvTag 3; EvEmit 1; EvTag 3; EvEmit 13; EvEmit 10; EvCond 8; EvCond 5; EvEmit 4;
   EvEmit 2; EvTag 3; EvRange 6; EvEmit 100; EvCond 77; EvEmit 5].

Lemma nv_c06_skeleton_1 :
  exec_block horc 60 prog1 tr0 = Some (Normal, trace1) /\
  (exists mfuel, run horc mfuel (compile_ctl prog1) (mkCfg 0 tr0 [] s0) = Finished trace1 []) /\
  run horc 400 (compile_ctl prog1) (mkCfg 0 tr0 [] s0) = Finished trace1 [].
Proof.
  assert (E : exec_block horc 60 prog1 tr0 = Some (Normal, trace1)) by (vm_compute; reflexivity).
  split; [exact E|]. split.
  - exact (c06_skeleton horc prog1 60 tr0 s0 Normal trace1 E).
  - vm_compute; reflexivity.
Qed.

(* ---- 1d. Ret outcome: return inside if inside default of a tagged switch inside range inside for,
        reached in the third iteration of the for loop ---- *)
Definition prog2 : block :=
  blk [For (Some 1) (Some 3) (Some 3)
         (blk [Range 4 (blk [Switch (Some 7) (css [(0, [1], blk [Emit 10; Continue]); (2, [], blk [Emit 11; Break])]) 2
                                      (blk [If None 7 (blk [Emit 12; Return]) BNil]); Emit 13])]);
       Emit 14].
Definition trace2 : trace :=
  [EvEmit 12; EvCond 7; EvTag 7; EvRange 4; EvCond 3; EvEmit 3; EvEmit 10; EvTag 7; EvRange 4; EvCond 3; EvEmit 3;
   EvEmit 10; EvTag 7; EvEmit 13; EvCond 7; EvTag 7; EvRange 4; EvCond 3; EvEmit 1; EvCond 77; EvEmit 5].

Lemma nv_c06_skeleton_2 :
  exec_block horc 60 prog2 tr0 = Some (Ret, trace2) /\
  (exists mfuel p, run horc mfuel (compile_ctl prog2) (mkCfg 0 tr0 [] s0) = Ret_at p trace2 []) /\
  (exists p, run horc 400 (compile_ctl prog2) (mkCfg 0 tr0 [] s0) = Ret_at p trace2 [] /\
             fetch (compile_ctl prog2) p = Some (CReturn 0)).
Proof.
  assert (E : exec_block horc 60 prog2 tr0 = Some (Ret, trace2)) by (vm_compute; reflexivity).
  split; [exact E|]. split.
  - exact (c06_skeleton horc prog2 60 tr0 s0 Ret trace2 E).
  - vm_compute. eexists; split; reflexivity.
Qed.

(* ---- 1e. the `Brk | Cont => True` branch.  It IS reachable from a top-level block (the theorem then
        says nothing, and the machine in fact fails on the un-rewritten placeholder) ... ---- *)
Example nv_c06_skeleton_brk_reachable :
  let b := blk [Emit 1; If None 3 (blk [Break]) BNil; Emit 2] in
  wf_block false false b = false /\
  exec_block horc 10 b tr0 = Some (Brk, [EvCond 3; EvEmit 1; EvCond 77; EvEmit 5]) /\
  run horc 100 (compile_ctl b) (mkCfg 0 tr0 [] s0) = Error 7.
Proof. vm_compute. repeat split. Qed.
Example nv_c06_skeleton_cont_reachable :
  let b := blk [Switch None (css [(3, [], blk [Emit 1; Continue])]) 0 BNil; Emit 2] in
  wf_block false false b = false /\
  exec_block horc 10 b tr0 = Some (Cont, [EvEmit 1; EvCond 3; EvCond 77; EvEmit 5]) /\
  run horc 100 (compile_ctl b) (mkCfg 0 tr0 [] s0) = Error 7.
Proof. vm_compute. repeat split. Qed.

(* ... but ONLY for skeletons the Go compiler rejects: for a well-formed body the evaluator never
   yields Brk / Cont, so the True branch is dead for valid programs. *)
Definition okout (inl ins : bool) (o : outcome) : Prop :=
  match o with Brk => inl || ins = true | Cont => inl = true | _ => True end.

Lemma nv_wf_out_all : forall orc f,
  (forall s inl ins tr out tr', wf inl ins s = true -> exec orc f s tr = Some (out, tr') -> okout inl ins out) /\
  (forall b inl ins tr out tr', wf_block inl ins b = true -> exec_block orc f b tr = Some (out, tr') -> okout inl ins out) /\
  (forall cond post body tr out tr', exec_for orc f cond post body tr = Some (out, tr') -> out = Normal \/ out = Ret) /\
  (forall n body tr out tr', exec_range orc f n body tr = Some (out, tr') -> out = Normal \/ out = Ret) /\
  (forall tag cs dflt inl tr out tr', wf_cases inl true cs = true -> wf_block inl true dflt = true ->
     exec_cases orc f tag cs dflt tr = Some (out, tr') -> okout inl true out).
Proof.
  intros orc. induction f as [|f [IHs [IHb [IHf [IHr IHc]]]]].
  - repeat split; intros; discriminate.
  - repeat split.
    + intros s inl ins tr out tr' W E. rewrite exec_S in E. destruct s; cbn [wf] in W.
      * inversion E; subst; exact I.
      * apply andb_true_iff in W. destruct W as [W1 W2].
        destruct (o_cond orc (do_emit init tr) c); (eapply IHb; [|exact E]; assumption).
      * destruct (IHf _ _ _ _ _ _ E) as [-> | ->]; exact I.
      * destruct (IHr _ _ _ _ _ E) as [-> | ->]; exact I.
      * apply andb_true_iff in W. destruct W as [W1 W2]. cbv zeta in E.
        assert (X : forall r, (forall o t, r = Some (o, t) -> okout inl true o) ->
                     match r with Some (Brk, t) => Some (Normal, t) | _ => r end = Some (out, tr') -> okout inl ins out).
        { intros r H. destruct r as [[[] t]|]; intros E'; inversion E'; subst; try exact I.
          exact (H Cont tr' eq_refl). }
        destruct tag; eapply X; try exact E; intros o t Er; eapply IHc; eauto.
      * inversion E. exact W.
      * inversion E. exact W.
      * inversion E; subst; exact I.
    + intros b inl ins tr out tr' W E. rewrite exec_block_S in E. destruct b; cbn [wf_block] in W.
      * inversion E; subst; exact I.
      * apply andb_true_iff in W. destruct W as [W1 W2].
        destruct (exec orc f s tr) as [[[] t]|] eqn:E1; try discriminate.
        -- eapply IHb; eauto.
        -- inversion E; subst. eapply IHs; eauto.
        -- inversion E; subst. eapply IHs; eauto.
        -- inversion E; subst. exact I.
    + intros cond post body tr out tr' E. rewrite exec_for_S in E.
      destruct (match cond with None => (true, tr) | Some c => (o_cond orc tr c, EvCond c :: tr) end) as [go tr1].
      destruct go.
      * destruct (exec_block orc f body tr1) as [[[] t]|]; try discriminate;
          try (eapply IHf; eassumption); inversion E; auto.
      * inversion E; auto.
    + intros n body tr out tr' E. rewrite exec_range_S in E. destruct n.
      * inversion E; auto.
      * destruct (exec_block orc f body tr) as [[[] t]|]; try discriminate;
          try (eapply IHr; eassumption); inversion E; auto.
    + intros tag cs dflt inl tr out tr' W1 W2 E. rewrite exec_cases_S in E. destruct cs.
      * eapply IHb; eauto.
      * cbn [wf_cases] in W1. apply andb_true_iff in W1. destruct W1 as [Wa Wb].
        destruct (eval_guards orc tag (g :: gs) tr) as [m tr1]. destruct m.
        -- eapply IHb; [|exact E]; assumption.
        -- eapply IHc; [| |exact E]; assumption.
Qed.

Lemma nv_wf_top_outcome : forall orc b fuel tr out tr',
  wf_block false false b = true -> exec_block orc fuel b tr = Some (out, tr') -> out = Normal \/ out = Ret.
Proof.
  intros orc b fuel tr out tr' W E. destruct (nv_wf_out_all orc fuel) as [_ [Hb _]].
  specialize (Hb b false false tr out tr' W E). destruct out; cbn in Hb; auto; discriminate.
Qed.

(* hence, for well-formed skeletons, c06_skeleton always delivers one of its two informative branches *)
Lemma nv_c06_skeleton_wf : forall orc b fuel tr0 s0 out tr',
  wf_block false false b = true -> exec_block orc fuel b tr0 = Some (out, tr') ->
  (out = Normal /\ exists mfuel, run orc mfuel (compile_ctl b) (mkCfg 0 tr0 [] s0) = Finished tr' []) \/
  (out = Ret /\ exists mfuel p, run orc mfuel (compile_ctl b) (mkCfg 0 tr0 [] s0) = Ret_at p tr' []).
Proof.
  intros orc b fuel t0 sl0 out tr' W E.
  pose proof (c06_skeleton orc b fuel t0 sl0 out tr' E) as H.
  destruct (nv_wf_top_outcome orc b fuel t0 out tr' W E) as [-> | ->]; [left | right]; split; auto.
Qed.

(* =========================================================================================== *)
(* (3) c06_rewrite  and  (2) c06_statement, on one enclosing program                            *)
(*     emit(0); for range rs(1) { S2; emit(6) }; emit(7)                                        *)
(*     S2 = if emit(8); c(2) { for range rs(3) { emit(5) }; break }                             *)
(*          else { switch tg(4) { case 1, 2: emit(11); continue  default: emit(9) } }           *)
(* =========================================================================================== *)
Definition S2 : stmt :=
  If (Some 8) 2 (blk [Range 3 (blk [Emit 5]); Break])
                (blk [Switch (Some 4) (css [(1, [2], blk [Emit 11; Continue])]) 0 (blk [Emit 9])]).
Definition body2 : block := blk [S2; Emit 6].
Definition E2 : block := blk [Emit 0; Range 1 body2; Emit 7].
Definition C2 : code := compile_ctl E2.

Ltac carries_tac :=
  repeat (apply carries_cons; split; [vm_compute; first [reflexivity | exact I] | ]); apply carries_nil.

(* the statement-level code really contains both placeholders, and the program really contains jumps there *)
Example nv_S2_shape :
  nth_error (compile 2 S2) 15 = Some CBreak /\ nth_error (compile 2 S2) 32 = Some CContinue /\
  fetch C2 (7 + 15) = Some (CJump 25) /\ fetch C2 (7 + 32) = Some (CJump 7) /\
  fetch C2 47 = Some (CIter 0 1 1 (-41)) /\ len (compile 2 S2) = 37 /\ len C2 = 51.
Proof. vm_compute. repeat split. Qed.

(* (3) the range's rewriting loop: both functions total (something IS rewritten: indices 15 and 32),
   outer targets None (function body), new targets 48 (after ITER) and 47 (the ITER). *)
Definition blk2 : code := compile_block 2 body2.
Definition brk2 : Z -> option Z := fun n => Some (len blk2 - n).
Definition cnt2 : Z -> option Z := fun n => Some (len blk2 - n - 1).

Lemma nv_c06_rewrite_prem1 : carries C2 7 (rewrite brk2 cnt2 0 blk2) None None.
Proof. vm_compute rewrite. carries_tac. Qed.
Lemma nv_c06_rewrite_prem2 : rw_ok brk2 0 7 None (Some 48).
Proof. left. exists 48. split; [reflexivity|]. intros i Hi. unfold brk2. change (len blk2) with 40. f_equal. lia. Qed.
Lemma nv_c06_rewrite_prem3 : rw_ok cnt2 0 7 None (Some 47).
Proof. left. exists 47. split; [reflexivity|]. intros i Hi. unfold cnt2. change (len blk2) with 40. f_equal. lia. Qed.
Example nv_c06_rewrite_changes :
  rewrite brk2 cnt2 0 blk2 <> blk2 /\
  nth_error (rewrite brk2 cnt2 0 blk2) 15 = Some (CJump 25) /\ nth_error (rewrite brk2 cnt2 0 blk2) 32 = Some (CJump 7).
Proof. vm_compute. repeat split. intros H; discriminate H. Qed.

Lemma nv_c06_rewrite : carries C2 7 blk2 (Some 48) (Some 47).
Proof.
  exact (c06_rewrite blk2 C2 7 0 brk2 cnt2 None None (Some 48) (Some 47)
           nv_c06_rewrite_prem1 nv_c06_rewrite_prem2 nv_c06_rewrite_prem3).
Qed.

(* the second disjunct of rw_ok (a switch leaves CONTINUE alone: cnt = fun _ => None, the outer continue
   target 37 is kept), combined with a rewriting break function of the shape compile_cases uses
   (len cs0 - n + len out + ldef with len out = 3, ldef = 4): a case block `emit(11); break; continue`
   sitting at position 2 of a program in which the outer loop already wrote its jump for the continue *)
Lemma nv_c06_rewrite_2 :
  let cs0 := compile_block 5 (blk [Emit 11; Break; Continue]) in
  let C := [CPush 0; CPush 0] ++ [CPush 11; CGet FEmit; CCall 1 0; CJump 9; CJump 30] in
  carries C 2 cs0 (Some 15) (Some 37).
Proof.
  cbv zeta.
  apply (c06_rewrite _ _ 2 0 (fun n => Some (len (compile_block 5 (blk [Emit 11; Break; Continue])) - n + 3 + 4)) (fun _ => None)
           (Some 99) (Some 37) (Some 15) (Some 37)).
  - vm_compute rewrite. carries_tac.
  - left. exists 15. split; [reflexivity|]. intros i Hi. change (len (compile_block 5 (blk [Emit 11; Break; Continue]))) with 5. f_equal. lia.
  - right. split; reflexivity.
Qed.

(* (2) premise of c06_statement, obtained from the conclusion of c06_rewrite: non-trivial C, p = 7 > 0,
   L = 2, bt = Some 48, ct = Some 47 *)
Lemma nv_c06_statement_prem : carries C2 7 (compile 2 S2) (Some 48) (Some 47).
Proof.
  pose proof nv_c06_rewrite as H. unfold blk2, body2 in H. cbn [blk compile_block] in H.
  apply carries_app in H. exact (proj1 H).
Qed.

(* the three histories at which S2 is entered in the actual run of E2 from [] under horc *)
Definition h1 : trace := [EvRange 1; EvEmit 0].
Definition h2 : trace := [EvEmit 6; EvEmit 9; EvTag 4; EvCond 2; EvEmit 8] ++ h1.
Definition h3 : trace := [EvEmit 11; EvTag 4; EvCond 2; EvEmit 8] ++ h2.
Example nv_E2_run :
  exec_block horc 40 E2 [] = Some (Normal, [EvEmit 7; EvEmit 5; EvEmit 5; EvRange 3; EvCond 2; EvEmit 8] ++ h3) /\
  o_len horc [EvEmit 0] 1 = 3%nat.
Proof. vm_compute. split; reflexivity. Qed.

Definition stk2 : list sval := [SInt 42; SBool true].

(* Normal: the machine reaches exactly the end of the statement's code (7 + 37 = 44), stack restored,
   slots 0 and 1 (the enclosing range's iterator and key/value) untouched *)
Lemma nv_c06_statement_normal : forall sl,
  exists s', star horc C2 (mkCfg 7 h1 stk2 sl) (mkCfg 44 ([EvEmit 9; EvTag 4; EvCond 2; EvEmit 8] ++ h1) stk2 s') /\
             forall i, (i < 2)%nat -> s' i = sl i.
Proof.
  intros sl.
  assert (E : exec horc 20 S2 h1 = Some (Normal, [EvEmit 9; EvTag 4; EvCond 2; EvEmit 8] ++ h1)) by (vm_compute; reflexivity).
  exact (c06_statement horc 20 S2 h1 Normal _ E C2 7 2%nat (Some 48) (Some 47) stk2 sl ltac:(lia) nv_c06_statement_prem).
Qed.

(* Cont: exactly the continue target 47 (the ITER of the enclosing range) *)
Lemma nv_c06_statement_cont : forall sl,
  exists s', star horc C2 (mkCfg 7 h2 stk2 sl) (mkCfg 47 ([EvEmit 11; EvTag 4; EvCond 2; EvEmit 8] ++ h2) stk2 s') /\
             forall i, (i < 2)%nat -> s' i = sl i.
Proof.
  intros sl.
  assert (E : exec horc 20 S2 h2 = Some (Cont, [EvEmit 11; EvTag 4; EvCond 2; EvEmit 8] ++ h2)) by (vm_compute; reflexivity).
  exact (c06_statement horc 20 S2 h2 Cont _ E C2 7 2%nat (Some 48) (Some 47) stk2 sl ltac:(lia) nv_c06_statement_prem).
Qed.

(* Brk: exactly the break target 48 (just after the ITER), after the inner range loop ran twice *)
Lemma nv_c06_statement_brk : forall sl,
  exists s', star horc C2 (mkCfg 7 h3 stk2 sl) (mkCfg 48 ([EvEmit 5; EvEmit 5; EvRange 3; EvCond 2; EvEmit 8] ++ h3) stk2 s') /\
             forall i, (i < 2)%nat -> s' i = sl i.
Proof.
  intros sl.
  assert (E : exec horc 20 S2 h3 = Some (Brk, [EvEmit 5; EvEmit 5; EvRange 3; EvCond 2; EvEmit 8] ++ h3)) by (vm_compute; reflexivity).
  exact (c06_statement horc 20 S2 h3 Brk _ E C2 7 2%nat (Some 48) (Some 47) stk2 sl ltac:(lia) nv_c06_statement_prem).
Qed.

(* Ret at statement level: a return inside a loop body statement carried by a program *)
Lemma nv_c06_statement_ret : forall sl,
  let s := If None 3 (blk [Emit 1; Return]) (blk [Break]) in
  let C := compile_ctl (blk [Emit 0; For None None None (blk [s; Emit 2])]) in
  exists pr n, (exists s', star horc C (mkCfg 3 tr0 stk2 sl) (mkCfg pr ([EvEmit 1; EvCond 3] ++ tr0) stk2 s') /\
                           forall i, (i < 0)%nat -> s' i = sl i) /\ fetch C pr = Some (CReturn n).
Proof.
  intros sl s C.
  assert (E : exec horc 20 s tr0 = Some (Ret, [EvEmit 1; EvCond 3] ++ tr0)) by (vm_compute; reflexivity).
  assert (K : carries C 3 (compile 0 s) (Some 17) (Some 16)) by (vm_compute compile; carries_tac).
  exact (c06_statement horc 20 s tr0 Ret _ E C 3 0%nat (Some 17) (Some 16) stk2 sl ltac:(lia) K).
Qed.

(* what post_ok says when no target is designated (only arises for ill-formed skeletons): nothing *)
Lemma nv_post_ok_none : forall orc C p pend tr st s L ct tr', post_ok orc C p pend tr st s L None ct Brk tr' <-> True.
Proof. intros; cbn; tauto. Qed.

(* =========================================================================================== *)
(* (4) c06_wf_no_placeholder                                                                    *)
(* =========================================================================================== *)
Lemma nv_c06_wf_no_placeholder :
  wf_block false false prog1 = true /\
  Forall (fun i => i <> CBreak /\ i <> CContinue) (compile_ctl prog1) /\
  (* although the pieces do contain placeholders before the enclosing construct rewrites them *)
  In CBreak (compile 2 S2) /\ In CContinue (compile 2 S2) /\
  wf_block false false E2 = true /\ Forall (fun i => i <> CBreak /\ i <> CContinue) C2.
Proof.
  assert (W : wf_block false false prog1 = true) by (vm_compute; reflexivity).
  assert (W2 : wf_block false false E2 = true) by (vm_compute; reflexivity).
  split; [exact W|]. split; [apply Forall_forall; exact (c06_wf_no_placeholder prog1 W)|].
  split; [vm_compute; tauto|]. split; [vm_compute; tauto|].
  split; [exact W2|]. apply Forall_forall; exact (c06_wf_no_placeholder E2 W2).
Qed.

(* counter-instances: wf is needed -- continue inside a switch that is not in a loop, break inside an if
   that is not in a loop / switch: the placeholder survives *)
Example nv_c06_wf_counter :
  let b1 := blk [Emit 1; Switch None (css [(1, [], blk [Continue])]) 0 (blk [Break])] in
  let b2 := blk [For None (Some 1) None (blk [Emit 1]); If None 2 (blk [Break]) BNil] in
  wf_block false false b1 = false /\ In CContinue (compile_ctl b1) /\ ~ In CBreak (compile_ctl b1) /\
  wf_block false false b2 = false /\ In CBreak (compile_ctl b2).
Proof. vm_compute. repeat split; try tauto. intros H; repeat (destruct H as [H|H]; [discriminate H|]); exact H. Qed.

(* =========================================================================================== *)
(* (5) c06_no_fallthrough / c06_no_fallthrough_tagged                                           *)
(* =========================================================================================== *)
(* every condition other than c(3), c(4) is TRUE under orc5: the guards of the later cases would match too *)
Definition orc5 : oracle :=
  mkOracle (fun tr k => if k =? 3 then Nat.ltb (length tr) 14 else if k =? 4 then Nat.ltb 9 (length tr) else true)
           (fun tr _ => (length tr - 8)%nat) (fun tr k => Z.of_nat (length tr) + k).
Definition body5 : block :=
  blk [Emit 1; For None (Some 3) None (blk [Emit 2; If None 4 (blk [Break]) (blk [Continue])]); Range 6 (blk [Emit 7])].
Definition cs5 : cases := css [(30, [31], blk [Emit 300; Break]); (32, [], blk [Emit 301])].
Definition dflt5 : block := blk [Emit 400].

Definition trace5 (e : event) : trace :=
  [EvEmit 7; EvEmit 7; EvEmit 7; EvEmit 7; EvEmit 7; EvRange 6; EvCond 4; EvEmit 2; EvCond 3; EvCond 4; EvEmit 2;
   EvCond 3; EvCond 4; EvEmit 2; EvCond 3; EvEmit 1; e; EvCond 77; EvEmit 5].

Lemma nv_c06_no_fallthrough :
  o_cond orc5 tr0 20 = true /\ o_cond orc5 (EvCond 20 :: tr0) 30 = true /\
  (exists mf, run orc5 mf (compile_ctl (BCons (Switch None (CCons 20 [21; 22] body5 cs5) 1 dflt5) BNil)) (mkCfg 0 tr0 [] s0)
              = Finished (trace5 (EvCond 20)) []) /\
  run orc5 300 (compile_ctl (BCons (Switch None (CCons 20 [21; 22] body5 cs5) 1 dflt5) BNil)) (mkCfg 0 tr0 [] s0)
    = Finished (trace5 (EvCond 20)) [].
Proof.
  assert (G : o_cond orc5 tr0 20 = true) by reflexivity.
  assert (E : exec_block orc5 30 body5 (EvCond 20 :: tr0) = Some (Normal, trace5 (EvCond 20))) by (vm_compute; reflexivity).
  split; [exact G|]. split; [reflexivity|]. split.
  - exact (c06_no_fallthrough orc5 20 [21; 22] body5 cs5 1%nat dflt5 30 tr0 s0 _ G E).
  - vm_compute; reflexivity.
Qed.

Lemma nv_c06_no_fallthrough_tagged :
  o_tag orc5 tr0 4 = 6 /\
  (exists mf, run orc5 mf (compile_ctl (BCons (Switch (Some 4) (CCons 6 [7; 8] body5 cs5) 0 dflt5) BNil)) (mkCfg 0 tr0 [] s0)
              = Finished (trace5 (EvTag 4)) []) /\
  run orc5 300 (compile_ctl (BCons (Switch (Some 4) (CCons 6 [7; 8] body5 cs5) 0 dflt5) BNil)) (mkCfg 0 tr0 [] s0)
    = Finished (trace5 (EvTag 4)) [].
Proof.
  assert (G : o_tag orc5 tr0 4 = 6) by reflexivity.
  assert (E : exec_block orc5 30 body5 (EvTag 4 :: tr0) = Some (Normal, trace5 (EvTag 4))) by (vm_compute; reflexivity).
  split; [exact G|]. split.
  - exact (c06_no_fallthrough_tagged orc5 4 6 [7; 8] body5 cs5 0%nat dflt5 30 tr0 s0 _ G E).
  - vm_compute; reflexivity.
Qed.

(* =========================================================================================== *)
(* (6) c06_default_entered (replaces c06_default_position, which held by reflexivity: neither     *)
(*     `compile` nor `exec` looks at dpos -- remark_c06_dpos_dead_field below).                   *)
(*     Premises: no_match ... = Some tr2, exec_block orc fuel dflt tr2 = Some (Normal, tr').      *)
(* =========================================================================================== *)
(* tagged switch, tag value o_tag horc tr0 4 = 3 matches none of 30, 31, 32: the default runs, written first
   (dpos 0) or last (dpos 2); tagless switch under orc5 with the guard c(3) false from this history on (it has 14 events) *)
Definition cs6 : cases := css [(3, [3], blk [Emit 300; Break]); (3, [], blk [Emit 301])].
Lemma nv_c06_default_entered :
  no_match horc (Some (o_tag horc tr0 4)) cs5 (EvTag 4 :: tr0) = Some (EvTag 4 :: tr0) /\
  (exists mf, run horc mf (compile_ctl (BCons (Switch (Some 4) cs5 0 dflt5) BNil)) (mkCfg 0 tr0 [] s0)
              = Finished [EvEmit 400; EvTag 4; EvCond 77; EvEmit 5] []) /\
  (exists mf, run horc mf (compile_ctl (BCons (Switch (Some 4) cs5 2 dflt5) BNil)) (mkCfg 0 tr0 [] s0)
              = Finished [EvEmit 400; EvTag 4; EvCond 77; EvEmit 5] []) /\
  run horc 100 (compile_ctl (BCons (Switch (Some 4) cs5 2 dflt5) BNil)) (mkCfg 0 tr0 [] s0)
    = Finished [EvEmit 400; EvTag 4; EvCond 77; EvEmit 5] [] /\
  (* tagless: three guards are evaluated (and recorded) before the default is entered *)
  no_match orc5 None cs6 (repeat (EvEmit 0) 12 ++ tr0) = Some ([EvCond 3; EvCond 3; EvCond 3] ++ repeat (EvEmit 0) 12 ++ tr0) /\
  (exists mf, run orc5 mf (compile_ctl (BCons (Switch None cs6 1 dflt5) BNil)) (mkCfg 0 (repeat (EvEmit 0) 12 ++ tr0) [] s0)
              = Finished (EvEmit 400 :: [EvCond 3; EvCond 3; EvCond 3] ++ repeat (EvEmit 0) 12 ++ tr0) []) /\
  (* the premise fails as soon as a guard holds *)
  no_match orc5 None cs5 tr0 = None.
Proof.
  assert (N : no_match horc (option_map (o_tag horc tr0) (Some 4)) cs5 (EvTag 4 :: tr0) = Some (EvTag 4 :: tr0))
    by (vm_compute; reflexivity).
  assert (E : exec_block horc 5 dflt5 (EvTag 4 :: tr0) = Some (Normal, [EvEmit 400; EvTag 4; EvCond 77; EvEmit 5]))
    by (vm_compute; reflexivity).
  set (h := (repeat (EvEmit 0) 12 ++ tr0)%list).
  assert (N6 : no_match orc5 (option_map (o_tag orc5 h) None) cs6 h = Some ([EvCond 3; EvCond 3; EvCond 3] ++ h)%list)
    by (vm_compute; reflexivity).
  assert (E6 : exec_block orc5 5 dflt5 ([EvCond 3; EvCond 3; EvCond 3] ++ h)%list
               = Some (Normal, EvEmit 400 :: [EvCond 3; EvCond 3; EvCond 3] ++ h)%list) by (vm_compute; reflexivity).
  split; [exact N|].
  split; [exact (c06_default_entered horc (Some 4) cs5 0%nat dflt5 5 tr0 s0 _ _ N E)|].
  split; [exact (c06_default_entered horc (Some 4) cs5 2%nat dflt5 5 tr0 s0 _ _ N E)|].
  split; [vm_compute; reflexivity|].
  split; [exact N6|].
  split; [exact (c06_default_entered orc5 None cs6 1%nat dflt5 5 h s0 _ _ N6 E6)|].
  vm_compute; reflexivity.
Qed.

(* dpos is a dead field of the model: both equations hold by reflexivity, which is why they are a comment
   (modelling assumption) in Props/C06.v and not a theorem *)
Lemma remark_c06_dpos_dead_field : forall (orc : oracle) tag cs d1 d2 dflt,
  (fun L => compile L (Switch tag cs d1 dflt)) = (fun L => compile L (Switch tag cs d2 dflt)) /\
  (forall f tr, exec orc (S f) (Switch tag cs d1 dflt) tr = exec orc (S f) (Switch tag cs d2 dflt) tr).
Proof. intros; split; reflexivity. Qed.

Print Assumptions nv_c06_skeleton_wf.
Print Assumptions nv_c06_statement_brk.
Print Assumptions nv_c06_rewrite.
Print Assumptions nv_c06_no_fallthrough.
Print Assumptions nv_c06_default_entered.
