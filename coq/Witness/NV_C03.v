(* NV_C03 -- non-vacuity audit of Props/C03.v.
   Every theorem of Props/C03.v that has premises is instantiated with a concrete, non-trivial witness; the
   Props theorem is applied to it and the concrete outcome is computed next to it.  Lemmas named remark_*
   record facts behind a restatement made after the audit. *)
From Coq Require Import ZArith List String Bool Lia PeanoNat.
From GV Require Import GoSpec.GoPrec Model.Pratt Model.PrattInst Model.Loader Model.Lookup Model.IntMap
  Model.PeepTypes Model.VM Model.Peephole Model.Host Model.Cursor Gen.Tables_gen
  Proofs.C08_lookup Proofs.C12_intmap Proofs.C03_host Proofs.C03_term Proofs.C03_cursor Props.C03.
Import ListNotations.
Open Scope string_scope.

(* ==== shared material ================================================================================== *)

Definition keys5 : list string := ["nil"; "true"; "false"; "#eval"; "#"].

Lemma keys5_ok : keys_ok keys5.
Proof. split; [discriminate|]. repeat constructor; discriminate. Qed.

Lemma keys5_stamped : forall l c, stamped keys5 (new_pos 3 4 l c).
Proof. intros l c. right. exists 3%Z, 4%Z, l, c. cbn. repeat split; lia. Qed.

(* a VM state at the moment of a panic: three instructions on lines 1, 70000 and 10^9, frame.N as given,
   a backtrace with a zero entry and two stamped entries *)
Definition panic_state (n : Z) : vmstate :=
  mkVmstate keys5 [new_pos 3 4 1 1; new_pos 3 4 70000 1; new_pos 3 4 1000000000 1000000] n
            [0%Z; new_pos 3 4 2 2; new_pos 4 3 65536 65536].

Lemma panic_state_ok : forall n, vmstate_ok (panic_state n).
Proof.
  intros n. split; [exact keys5_ok|]. split.
  - constructor; [apply keys5_stamped|]. constructor; [apply keys5_stamped|]. constructor; [apply keys5_stamped|constructor].
  - constructor; [left; reflexivity|]. constructor; [apply keys5_stamped|]. constructor; [|constructor].
    right. exists 4%Z, 3%Z, 65536%Z, 65536%Z. split; [reflexivity|]. cbn [panic_state vkeys keys5 List.length]. lia.
Qed.

(* the code of the top package as codeDump sees it *)
Definition code2 : list dins :=
  [mkDins (new_pos 3 4 1 1) [0%Z; 4%Z]; mkDins (new_pos 3 4 70000 7) []; mkDins 0%Z [2%Z]].

Lemma code2_ok : forall dump, comp_beh_ok dump (CRet keys5 code2).
Proof.
  intros dump _. split; [exact keys5_ok|]. unfold code2.
  constructor; [split; [apply keys5_stamped|reflexivity]|].
  constructor; [split; [apply keys5_stamped|reflexivity]|].
  constructor; [split; [left; reflexivity|reflexivity]|constructor].
Qed.

(* source trees *)
Definition imp (alias path : string) : tree :=
  TNode "import" "import" [TNode "(name)" alias []; TNode "(string)" path []].
Definition stmts1 : list tree :=
  [imp "a" """a"""; imp "fmt" """fmt"""; TNode "/" "/" [TNode "(name)" "x" []; TNil]; TNode "(int)" "1" []].

(* a file system with a small import graph: "a" imports "b" and "c", "b" imports "c", "fmt" is native *)
Definition graph1 (p : string) : option (list string) :=
  if String.eqb p """a""" then Some ["""b"""; """c"""]
  else if String.eqb p """b""" then Some ["""c"""]
  else if String.eqb p """c""" then Some []
  else None.
(* the nodes of the imported packages; "c" has no nodes at all, "b" contains a nil operand *)
Definition nodes1 (p : string) : list tree :=
  if String.eqb p """c""" then [] else [TNode "=" "=" [TNode "(name)" "v" []; TNil]].
Definition files1 : files_beh := FRet graph1 nodes1 50.

Definition toks1 : list Host.tok := [mkTok "(name)" "x"; mkTok "/" "/"; mkTok ";" ";"].
Definition all_on : options := mkOpt true true false.

Lemma eval_hyps_of : forall o sc pb fb ci ri c r,
  sc <> ScanPanic -> run_beh_ok ri -> comp_beh_ok (code_dump o) c -> run_beh_ok r ->
  eval_hyps o (mkEvalAdv sc pb fb ci ri c r).
Proof. intros. constructor; assumption. Qed.

Ltac solve_hyp :=
  first [discriminate | exact I | apply code2_ok | apply panic_state_ok | exact keys5_ok].

(* ==== (a) c03_contain: Eval ============================================================================ *)

(* 1. everything works until the script panics with frame.N far beyond the end of the code: btErr runs,
      clamps N, prints three positions; the result is a prefixed error.  Both dumps are on, the source has
      two imports (one on disk with its own imports, one native) and a nil operand. *)
Definition eval_adv_run_panic : eval_adv :=
  mkEvalAdv (ScanOk toks1) (PRet stmts1) files1 (CRet keys5 []) RRet (CRet keys5 code2) (RPanic (panic_state 999)).

Lemma nv_c03_contain_eval_1 :
  entry_hyps (EEval false all_on eval_adv_run_panic) /\
  (forall w, entry_model unq_go (EEval false all_on eval_adv_run_panic) <> Escape w) /\
  entry_model unq_go (EEval false all_on eval_adv_run_panic) = Err "error in run: ".
Proof.
  assert (H : entry_hyps (EEval false all_on eval_adv_run_panic)).
  { apply eval_hyps_of; [discriminate|exact I|apply code2_ok|apply panic_state_ok]. }
  split; [exact H|]. split; [exact (c03_contain unq_go _ H)|]. vm_compute. reflexivity.
Qed.

(* 2. one adversary per recover handler / error path of Eval: a scanner error, a panic in parse, a panic while
      reading imported packages, a panic in the compiler of the imports (c.cur nil and non-nil), a panic while
      running the imports (negative frame.N), a panic in the compiler of the top package, an import cycle *)
Definition eval_advs : list (eval_adv * outcome) :=
  [ (mkEvalAdv (ScanErr toks1) (PRet stmts1) files1 (CRet keys5 []) RRet (CRet keys5 code2) RRet, Err "error in tokenize: ");
    (mkEvalAdv (ScanOk toks1) PPanic files1 (CRet keys5 []) RRet (CRet keys5 code2) RRet, Err "error in parse: ");
    (mkEvalAdv (ScanOk toks1) (PRet stmts1) FPanic (CRet keys5 []) RRet (CRet keys5 code2) RRet, Err "error in loadImports: ");
    (mkEvalAdv (ScanOk toks1) (PRet (TNil :: stmts1)) files1 (CRet keys5 []) RRet (CRet keys5 code2) RRet, Err "error in loadImports: ");
    (mkEvalAdv (ScanOk toks1) (PRet stmts1) (FRet (fun p => if String.eqb p """a""" then Some ["""a"""] else None) nodes1 50)
               (CRet keys5 []) RRet (CRet keys5 code2) RRet, Err "error in loadImports: ");
    (mkEvalAdv (ScanOk toks1) (PRet stmts1) files1 (CPanic true) RRet (CRet keys5 code2) RRet, Err "error in compile (imports): ");
    (mkEvalAdv (ScanOk toks1) (PRet stmts1) files1 (CPanic false) RRet (CRet keys5 code2) RRet, Err "error in compile (imports): ");
    (mkEvalAdv (ScanOk toks1) (PRet stmts1) files1 (CRet keys5 []) (RPanic (panic_state (-3))) (CRet keys5 code2) RRet, Err "error in run (imports): ");
    (mkEvalAdv (ScanOk toks1) (PRet stmts1) files1 (CRet keys5 []) RRet (CPanic true) RRet, Err "error in compile: ");
    (mkEvalAdv (ScanOk toks1) (PRet stmts1) files1 (CRet keys5 []) RRet (CRet keys5 code2) (RPanic (panic_state 1)), Err "error in run: ");
    (mkEvalAdv (ScanOk toks1) (PRet stmts1) files1 (CRet keys5 []) RRet (CRet keys5 code2) RRet, Ok) ].

Lemma nv_c03_contain_eval_2 : forall nilfs,
  Forall (fun ao => entry_hyps (EEval nilfs all_on (fst ao)) /\
                    forall w, entry_model unq_go (EEval nilfs all_on (fst ao)) <> Escape w) eval_advs /\
  Forall (fun ao => entry_model unq_go (EEval false all_on (fst ao)) = snd ao) eval_advs.
Proof.
  intros nilfs.
  assert (H : Forall (fun ao => entry_hyps (EEval nilfs all_on (fst ao))) eval_advs).
  { unfold eval_advs.
    repeat (apply Forall_cons; [cbn [fst entry_hyps]; apply eval_hyps_of; solve_hyp|]). apply Forall_nil. }
  split.
  - apply Forall_forall. intros ao Hin. rewrite Forall_forall in H. split; [apply H; exact Hin|].
    apply c03_contain. apply H. exact Hin.
  - repeat (apply Forall_cons; [vm_compute; reflexivity|]). apply Forall_nil.
Qed.

(* ==== (a) c03_contain: Load ============================================================================ *)

Definition load_adv_run_panic : load_adv :=
  mkLoadAdv (TopRet stmts1) files1 (CRet keys5 code2) (RPanic (panic_state (-1))) 0.

Lemma nv_c03_contain_load_1 :
  entry_hyps (ELoad false "main" all_on load_adv_run_panic) /\
  (forall w, entry_model unq_go (ELoad false "main" all_on load_adv_run_panic) <> Escape w) /\
  entry_model unq_go (ELoad false "main" all_on load_adv_run_panic) = Err "error in run: ".
Proof.
  assert (H : entry_hyps (ELoad false "main" all_on load_adv_run_panic)).
  { constructor; [apply code2_ok|apply panic_state_ok]. }
  split; [exact H|]. split; [exact (c03_contain unq_go _ H)|]. vm_compute. reflexivity.
Qed.

Definition load_advs : list (load_adv * outcome) :=
  [ (mkLoadAdv TopErr files1 (CRet keys5 code2) RRet 0, Err "error in load: ");
    (mkLoadAdv TopPanic files1 (CRet keys5 code2) RRet 0, Err "error in load: ");    (* `*package`: recoverLoad *)
    (mkLoadAdv (TopRet stmts1) FPanic (CRet keys5 code2) RRet 0, Err "error in load: ");
    (mkLoadAdv (TopRet stmts1) FErr (CRet keys5 code2) RRet 0, Err "error in load: ");
    (mkLoadAdv (TopRet [imp "x" """\400"""]) files1 (CRet keys5 code2) RRet 0, Err "error in load: ");
    (mkLoadAdv (TopRet stmts1) files1 (CPanic false) RRet 0, Err "error in compile: ");
    (mkLoadAdv (TopRet stmts1) files1 (CRet keys5 code2) (RPanic (panic_state 2)) 0, Err "error in run: ");
    (mkLoadAdv (TopRet stmts1) files1 (CRet keys5 code2) RRet 2, Err "error in run: ");
    (mkLoadAdv (TopRet stmts1) files1 (CRet keys5 code2) RRet 0, Ok);
    (mkLoadAdv (TopRet []) files1 (CRet keys5 code2) RRet 0, Ok) ].

Lemma nv_c03_contain_load_2 : forall nilfs pkg,
  Forall (fun ao => entry_hyps (ELoad nilfs pkg all_on (fst ao)) /\
                    forall w, entry_model unq_go (ELoad nilfs pkg all_on (fst ao)) <> Escape w) load_advs /\
  Forall (fun ao => entry_model unq_go (ELoad false "main" all_on (fst ao)) = snd ao) load_advs.
Proof.
  intros nilfs pkg.
  assert (H : Forall (fun ao => entry_hyps (ELoad nilfs pkg all_on (fst ao))) load_advs).
  { unfold load_advs.
    repeat (apply Forall_cons; [cbn [fst entry_hyps]; constructor; solve_hyp|]). apply Forall_nil. }
  split.
  - apply Forall_forall. intros ao Hin. rewrite Forall_forall in H. split; [apply H; exact Hin|].
    apply c03_contain. apply H. exact Hin.
  - repeat (apply Forall_cons; [vm_compute; reflexivity|]). apply Forall_nil.
Qed.

(* ==== (a) c03_contain / c03_inv_func: Call and Func ===================================================== *)

(* a panic inside the called function with frame.N beyond / before / inside the code; a bad result slice
   (more results requested than the stack holds, a negative count); a good call *)
Definition func_cases : list (Z * func_beh * outcome) :=
  [ (1%Z, FnPanic (panic_state 100), Err "");
    (1%Z, FnPanic (panic_state (-100)), Err "");
    (0%Z, FnPanic (panic_state 2), Err "");
    (5%Z, FnRet 3 keys5, Err "");
    ((-1)%Z, FnRet 3 keys5, Err "");
    (2%Z, FnRet 3 keys5, Ok) ].

Lemma nv_c03_contain_func :
  Forall (fun c => let '(x, b, _) := c in
            func_beh_ok b /\ entry_hyps (ECall x b) /\ entry_hyps (EFunc x b) /\
            (forall w, entry_model unq_go (ECall x b) <> Escape w) /\
            (forall w, entry_model unq_go (EFunc x b) <> Escape w) /\
            (forall w, func_model x b <> Escape w)) func_cases /\
  map (fun c => let '(x, b, _) := c in entry_model unq_go (EFunc x b)) func_cases = map snd func_cases /\
  map (fun c => let '(x, b, _) := c in entry_model unq_go (ECall x b)) func_cases = map snd func_cases.
Proof.
  assert (H : Forall (fun c => let '(x, b, _) := c in func_beh_ok b) func_cases).
  { unfold func_cases. repeat (apply Forall_cons; [solve_hyp|]). apply Forall_nil. }
  split.
  - apply Forall_forall. intros [[x b] o] Hin. rewrite Forall_forall in H. specialize (H _ Hin). cbn in H.
    split; [exact H|]. split; [exact H|]. split; [exact H|].
    split; [exact (c03_contain unq_go (ECall x b) H)|].
    split; [exact (c03_contain unq_go (EFunc x b) H)|exact (c03_inv_func x b H)].
  - split; vm_compute; reflexivity.
Qed.

(* the hypotheses are needed and the conclusion is not true by construction: the model does produce Escape as
   soon as one of them is dropped *)
Lemma nv_c03_contain_hyps_needed :
  (* the scanner panics *)
  eval_model unq_go false all_on
    (mkEvalAdv ScanPanic (PRet stmts1) files1 (CRet keys5 []) RRet (CRet keys5 code2) RRet) = Escape "tokenize" /\
  (* a position whose function index is outside the key table, code dump on *)
  eval_model unq_go false all_on
    (mkEvalAdv (ScanOk toks1) (PRet stmts1) files1 (CRet keys5 []) RRet (CRet keys5 [mkDins (new_pos 3 9 1 1) []]) RRet)
    = Escape "codeDump" /\
  (* ... the same adversary is harmless when the dump is off *)
  eval_model unq_go false (mkOpt true false false)
    (mkEvalAdv (ScanOk toks1) (PRet stmts1) files1 (CRet keys5 []) RRet (CRet keys5 [mkDins (new_pos 3 9 1 1) []]) RRet)
    = Ok /\
  (* an operand of instruction.String outside the table *)
  eval_model unq_go false all_on
    (mkEvalAdv (ScanOk toks1) (PRet stmts1) files1 (CRet keys5 []) RRet (CRet keys5 [mkDins 0%Z [5%Z]]) RRet)
    = Escape "codeDump" /\
  (* an empty key in the table *)
  eval_model unq_go false all_on
    (mkEvalAdv (ScanOk toks1) (PRet stmts1) files1 (CRet keys5 []) RRet (CRet keys5 code2)
       (RPanic (mkVmstate ["nil"; ""; "x"] [new_pos 1 2 1 1] 0 []))) = Escape "btErr" /\
  (* (no longer a hypothesis, 8db5477) the argument package of Load panics while it is read: a load error *)
  load_model unq_go false "main" all_on (mkLoadAdv TopPanic files1 (CRet keys5 code2) RRet 0)
    = Err "error in load: " /\
  (* an unstamped backtrace entry in Func *)
  func_model 0 (FnPanic (mkVmstate keys5 [] 0 [new_pos 7 7 1 1])) = Escape "btErr" /\
  (* Func returning on an empty key table *)
  func_model 1 (FnRet 0 []) = Escape "btErr".
Proof. vm_compute. repeat split; reflexivity. Qed.

(* ==== c03_loader_contained (no premise): what the deferred recover absorbs ============================== *)

Lemma nv_c03_loader_contained :
  let top := TNode "" "_" stmts1 in
  load_imports_model unq_go false "" top FPanic = SErr /\
  load_imports_model unq_go false "" (TNode "" "_" [imp "x" """\400"""]) files1 = SErr /\
  load_imports_model unq_go false "" (TNode "" "_" [TNode "import" "import" [TNode "(name)" "x" []; TNil]]) files1 = SErr /\
  (exists pkgs, load_imports_model unq_go false "" top files1 = SOk pkgs /\ List.length pkgs = 5%nat) /\
  (exists pkgs, load_imports_model unq_go true "" top FPanic = SOk pkgs /\ List.length pkgs = 3%nat) /\
  forall fb w, load_imports_model unq_go false "" top fb <> SEscape w.
Proof.
  cbv zeta. split; [vm_compute; reflexivity|]. split; [vm_compute; reflexivity|]. split; [vm_compute; reflexivity|].
  split; [eexists; split; vm_compute; reflexivity|]. split; [eexists; split; vm_compute; reflexivity|].
  intros fb w. apply c03_loader_contained.
Qed.

(* ==== c03_prefix / c03_prefix_load ====================================================================== *)

(* covers c03_prefix: one Err instance per stage prefix (all seven prefixes occur) *)
Lemma nv_c03_prefix :
  (forall ao, In ao eval_advs -> forall p, snd ao = Err p ->
     eval_model unq_go false all_on (fst ao) = Err p /\ exists st, In (p, st) eval_prefixes) /\
  incl (map (fun ps => Err (fst ps)) eval_prefixes) (map snd eval_advs).
Proof.
  split.
  - intros ao Hin p Hp.
    pose proof (proj2 (nv_c03_contain_eval_2 false)) as Hm. rewrite Forall_forall in Hm.
    pose proof (Hm ao Hin) as E. cbn [entry_model] in E.
    rewrite Hp in E. split; [exact E|]. exact (c03_prefix _ _ _ _ _ E).
  - vm_compute. intros x Hx. repeat (destruct Hx as [<-|Hx]; [tauto|]). destruct Hx.
Qed.

(* covers c03_prefix_load: load / compile / run prefixes, including "unexpected returns" *)
Lemma nv_c03_prefix_load :
  (forall ao, In ao load_advs -> forall p, snd ao = Err p ->
     load_model unq_go false "main" all_on (fst ao) = Err p /\ exists st, In (p, st) load_prefixes) /\
  incl (map (fun ps => Err (fst ps)) load_prefixes) (map snd load_advs).
Proof.
  split.
  - intros ao Hin p Hp.
    pose proof (proj2 (nv_c03_contain_load_2 false "main")) as Hm. rewrite Forall_forall in Hm.
    pose proof (Hm ao Hin) as E. cbn [entry_model] in E.
    rewrite Hp in E. split; [exact E|]. exact (c03_prefix_load _ _ _ _ _ _ E).
  - vm_compute. intros x Hx. repeat (destruct Hx as [<-|Hx]; [tauto|]). destruct Hx.
Qed.

(* ==== c03_hang / c03_hang_load ========================================================================== *)

(* first disjunct (s = SRun): the script of the top package, or of an imported package, does not return;
   second disjunct (s = SLoad): the discovery budget the adversary hands to loadImports is too small for the
   graph (budget 2; graph1 needs 6).  Eval, Load, Call and Func. *)
Definition eval_adv_with (fb : files_beh) (ri r : run_beh) : eval_adv :=
  mkEvalAdv (ScanOk toks1) (PRet stmts1) fb (CRet keys5 []) ri (CRet keys5 code2) r.
Definition files_small : files_beh := FRet graph1 nodes1 2.

Lemma nv_c03_hang :
  entry_model unq_go (EEval false all_on (eval_adv_with files1 RRet RHang)) = Hang SRun /\
  entry_model unq_go (EEval false all_on (eval_adv_with files1 RHang RRet)) = Hang SRun /\
  entry_model unq_go (ELoad false "main" all_on (mkLoadAdv (TopRet stmts1) files1 (CRet keys5 code2) RHang 0)) = Hang SRun /\
  entry_model unq_go (ECall 1 FnHang) = Hang SRun /\ entry_model unq_go (EFunc 1 FnHang) = Hang SRun /\
  entry_model unq_go (EEval false all_on (eval_adv_with files_small RRet RRet)) = Hang SLoad /\
  entry_model unq_go (ELoad false "main" all_on (mkLoadAdv (TopRet stmts1) files_small (CRet keys5 code2) RRet 0)) = Hang SLoad.
  (* what c03_hang says about them: nv_c03_hang_tied below *)
Proof.
  repeat (split; [vm_compute; reflexivity|]). vm_compute; reflexivity.
Qed.

(* a nil file system, or a source without imports, never hangs in the loader whatever the budget is *)
Lemma nv_c03_hang_nilfs :
  entry_model unq_go (EEval true all_on (eval_adv_with (FRet graph1 nodes1 0) RRet RRet)) = Ok /\
  entry_model unq_go (EEval false all_on
     (mkEvalAdv (ScanOk toks1) (PRet [TNode "(int)" "1" []]) (FRet graph1 nodes1 0) (CRet keys5 []) RRet (CRet keys5 code2) RRet)) = Ok.
Proof. split; vm_compute; reflexivity. Qed.

(* c03_hang_load: the premise occurs (small budget) and the theorem applies *)
Lemma nv_c03_hang_load :
  let top := TNode "" "_" stmts1 in
  load_imports_model unq_go false "" top files_small = SHang /\
  exists p ps imports nodes budget, false = false /\ top_imports unq_go (kids_of top) = Some (p :: ps) /\
    files_small = FRet imports nodes budget /\
    load (fun q => if String.eqb q "" then Some (p :: ps) else imports q) budget "" = LoadFuel.
Proof.
  cbv zeta. assert (E : load_imports_model unq_go false "" (TNode "" "_" stmts1) files_small = SHang) by (vm_compute; reflexivity).
  split; [exact E|]. exact (c03_hang_load _ _ _ _ _ E).
Qed.

(* the "real" hang: a file system on which every package p imports p ++ "x" -- an infinite import graph.  The
   loader model hangs for EVERY budget; no finite closed U exists, so c03_terminates_load does not apply. *)
Definition inf_graph (p : string) : option (list string) := Some [p ++ "x"].

Lemma length_app_x : forall a b, String.length (a ++ b) = (String.length a + String.length b)%nat.
Proof. induction a as [|c a IH]; intros b; cbn; [reflexivity|]. rewrite IH. reflexivity. Qed.

Lemma mem_shorter : forall q l, (forall v, In v l -> (String.length v < String.length q)%nat) -> mem q l = false.
Proof.
  intros q l. induction l as [|x r IH]; intros H; cbn; [reflexivity|].
  rewrite IH by (intros v Hv; apply H; right; exact Hv).
  destruct (String.eqb_spec q x) as [->|_]; [|reflexivity].
  specialize (H x (or_introl eq_refl)). lia.
Qed.

Lemma inf_discover : forall f q d,
  (forall v, In v (map fst (packages d)) -> (String.length v < String.length q)%nat) ->
  discover inf_graph f [q] d = None.
Proof.
  induction f as [|f IH]; intros q d H; cbn [discover]; [reflexivity|].
  rewrite (mem_shorter _ _ H). cbn [inf_graph rev app]. apply IH.
  cbn [packages map fst]. intros v [<-|Hv]; rewrite length_app_x; cbn [String.length]; [lia|].
  specialize (H v Hv). lia.
Qed.

Lemma nv_c03_hang_load_infinite : forall budget,
  load_imports_model unq_go false "" (TNode "" "_" [imp "x" "x"]) (FRet inf_graph (fun _ => []) budget) = SHang /\
  entry_model unq_go (EEval false all_on
     (mkEvalAdv (ScanOk toks1) (PRet [imp "x" "x"]) (FRet inf_graph (fun _ => []) budget) (CRet keys5 []) RRet (CRet keys5 code2) RRet))
    = Hang SLoad.
Proof.
  intros budget.
  assert (L : load (fun q => if String.eqb q "" then Some ["x"] else inf_graph q) budget "" = LoadFuel).
  { assert (X : forall f todo d, discover (fun q => if String.eqb q "" then Some ["x"] else inf_graph q) f todo d
                              = discover inf_graph f todo d).
    { induction f as [|f IH]; intros todo d; cbn [discover]; [reflexivity|].
      destruct todo as [|q rest]; [reflexivity|].
      destruct (mem q (map fst (packages d))); [apply IH|].
      destruct (String.eqb_spec q "") as [->|_]; cbn [inf_graph append]; apply IH. }
    unfold load. rewrite X, inf_discover; [reflexivity|]. intros v []. }
  assert (E : load_imports_model unq_go false "" (TNode "" "_" [imp "x" "x"]) (FRet inf_graph (fun _ => []) budget) = SHang).
  { unfold load_imports_model. cbn [kids_of imp top_imports odd_paths String.eqb Ascii.eqb Bool.eqb option_map app].
    change (unq_go "x") with true. cbn [option_map orb app]. rewrite L. reflexivity. }
  split; [exact E|].
  cbn [entry_model]. unfold eval_model. cbn [ea_scan ea_parse ea_files tokenize_model toks1 app parse_model bind].
  rewrite E. reflexivity.
Qed.

(* HISTORY: the first statement of c03_hang had, as second disjunct, `s = SLoad /\ exists nilfs topPkg top fb,
   load_imports_model unq nilfs topPkg top fb = SHang` -- an existential not tied to the entry e, and a closed
   true fact for every unq that accepts one string (remark_c03_loader_can_hang), so that the conclusion was
   `s = SRun \/ s = SLoad`.  c03_hang now is the restatement the audit suggested: both disjuncts name the
   components of THIS entry.  What is kept here: *)

(* (i) the loader model can hang for every such unq (budget 0): the old existential carried no information *)
Lemma remark_c03_loader_can_hang : forall unq x, unq x = true ->
  exists nilfs topPkg top fb, load_imports_model unq nilfs topPkg top fb = SHang.
Proof.
  intros unq x Hx.
  exists false, "", (TNode "" "_" [imp "a" x]), (FRet (fun _ => None) (fun _ => []) 0).
  unfold load_imports_model. cbn [kids_of imp top_imports odd_paths String.eqb Ascii.eqb Bool.eqb].
  rewrite Hx. reflexivity.
Qed.

(* (ii) "s is SRun or SLoad" holds by the TYPES of the adversary: the behaviours of the scanner, the parser
   and the compiler have no constructor for "does not return" (said in the comment of c03_hang) *)
Lemma remark_c03_hang_by_construction :
  (forall b, tokenize_model b <> SHang) /\ (forall l b, parse_model l b <> SHang) /\ (forall b, compile_model b <> SHang).
Proof.
  split; [intros []; discriminate|]. split; [intros [|t l] []; discriminate|intros []; discriminate].
Qed.

(* (iii) the restated c03_hang applied to the seven hanging entries of nv_c03_hang: each disjunct occurs, and the
   second one now names the entry's own tokens / tree / files *)
Lemma nv_c03_hang_tied :
  (let e := EEval false all_on (eval_adv_with files1 RHang RRet) in
   ea_rimp (eval_adv_with files1 RHang RRet) = RHang \/ ea_run (eval_adv_with files1 RHang RRet) = RHang) /\
  (exists toks tree, tokenize_model (ea_scan (eval_adv_with files_small RRet RRet)) = SOk toks /\
     parse_model toks (ea_parse (eval_adv_with files_small RRet RRet)) = SOk tree /\
     load_imports_model unq_go false "" tree (ea_files (eval_adv_with files_small RRet RRet)) = SHang) /\
  (exists nodes, TopRet stmts1 = TopRet nodes /\ load_imports_model unq_go false "main" (TNode "_" "_" nodes) files_small = SHang).
Proof.
  split; [|split].
  - cbv zeta.
    assert (E : entry_model unq_go (EEval false all_on (eval_adv_with files1 RHang RRet)) = Hang SRun) by (vm_compute; reflexivity).
    destruct (c03_hang _ _ _ E) as [[_ H]|[H _]]; [exact H|discriminate].
  - assert (E : entry_model unq_go (EEval false all_on (eval_adv_with files_small RRet RRet)) = Hang SLoad) by (vm_compute; reflexivity).
    destruct (c03_hang _ _ _ E) as [[H _]|[_ H]]; [discriminate|exact H].
  - assert (E : entry_model unq_go (ELoad false "main" all_on (mkLoadAdv (TopRet stmts1) files_small (CRet keys5 code2) RRet 0)) = Hang SLoad)
      by (vm_compute; reflexivity).
    destruct (c03_hang _ _ _ E) as [[H _]|[_ H]]; [discriminate|exact H].
Qed.

(* ==== the proved invariants ============================================================================== *)

Lemma nv_c03_inv_tokens :
  tokenize_model (ScanOk toks1) = SOk (toks1 ++ [eof])%list /\
  (toks1 ++ [eof])%list <> [] /\ last (toks1 ++ [eof])%list eof = eof /\
  forall pb w, parse_model (toks1 ++ [eof])%list pb <> SEscape w.
Proof. split; [reflexivity|]. apply (c03_inv_tokens (ScanOk toks1)). reflexivity. Qed.

Lemma nv_c03_inv_pos_roundtrip :
  pos_file (new_pos 65 66 70000 3) = 65%Z /\ pos_func (new_pos 65 66 70000 3) = 66%Z /\
  pos_file (new_pos 70000 (-5) 1 1) = 65535%Z /\ pos_func (new_pos 70000 (-5) 1 1) = 0%Z.
Proof.
  destruct (c03_inv_pos_roundtrip 65 66 70000 3) as (A & B & C & D).
  destruct (c03_inv_pos_roundtrip 70000 (-5) 1 1) as (A' & B' & _ & _).
  rewrite A, B, A', B', C, D by lia. repeat split; reflexivity.
Qed.

(* a key table with 70000 entries: indices beyond 65535 are clamped INTO the table *)
Definition big_keys : list string := List.repeat "k" (Z.to_nat 70000).

Lemma big_keys_ok : keys_ok big_keys.
Proof.
  split.
  - intros E. apply (f_equal (@List.length string)) in E. unfold big_keys in E. rewrite repeat_length in E. cbn [List.length] in E. lia.
  - apply Forall_forall. intros k Hk. apply repeat_spec in Hk. subst k. discriminate.
Qed.

Lemma nv_c03_inv_pos_string :
  pos_string_ok keys5 (new_pos 3 4 70000 1000000) = true /\
  pos_string_ok keys5 0 = true /\
  pos_string_ok big_keys (new_pos 69999 65536 1 1) = true /\
  (* not trivially true *)
  pos_string_ok keys5 (new_pos 3 5 1 1) = false /\ pos_string_ok ["a"; ""] (new_pos 0 1 1 1) = false.
Proof.
  split; [apply c03_inv_pos_string; [exact keys5_ok|apply keys5_stamped]|].
  split; [apply c03_inv_pos_string; [exact keys5_ok|left; reflexivity]|].
  split; [|split; vm_compute; reflexivity].
  apply c03_inv_pos_string; [exact big_keys_ok|].
  right. exists 69999%Z, 65536%Z, 1%Z, 1%Z. split; [reflexivity|].
  unfold big_keys. rewrite repeat_length. lia.
Qed.

Lemma nv_c03_inv_bterr_total :
  (forall n, bt_err_ok keys5 (vcodes (panic_state n)) n (vbt (panic_state n)) = true) /\
  run_model (RPanic (panic_state 999)) = SErr /\
  (* not trivially true: one unstamped position, or an empty key, and the handler itself panics *)
  bt_err_ok keys5 [new_pos 3 4 1 1; new_pos 3 9 1 1] 7 [] = false /\
  bt_err_ok keys5 [new_pos 3 4 1 1] 0 [new_pos 5 5 1 1] = false /\
  bt_err_ok [] [] (-1) [] = true.
Proof.
  split; [intros n; exact (c03_inv_bterr_total (panic_state n) (panic_state_ok n))|].
  repeat split; vm_compute; reflexivity.
Qed.

Definition graph2 (p : string) : option (list string) :=
  if String.eqb p "top" then Some ["a"; "fmt"; "b"]
  else if String.eqb p "a" then Some ["c"; "b"]
  else if String.eqb p "b" then Some ["c"]
  else if String.eqb p "c" then Some []
  else None.

Lemma nv_c03_inv_pkgs_nonempty :
  load graph2 20 "top" = LoadOk ["c"; "b"; "a"; "fmt"; "top"] /\ ["c"; "b"; "a"; "fmt"; "top"] <> [].
Proof.
  assert (E : load graph2 20 "top" = LoadOk ["c"; "b"; "a"; "fmt"; "top"]) by (vm_compute; reflexivity).
  split; [exact E|]. exact (c03_inv_pkgs_nonempty _ _ _ _ E).
Qed.

Lemma nv_c03_inv_tree_dump :
  dump_one_ok (fix_empty "p" (TNode "" "_" [TNil])) = true /\                       (* "(_ <nil>)" *)
  dump_one_ok (fix_empty "p" (TNode "" "_" [TNode "/" "/" [TNode "(name)" "x" []; TNil]])) = true /\
  dump_one_ok (fix_empty "p" (TNode "x" "y" [])) = true /\                           (* replaced by the synthetic tree *)
  dump_one_ok (fix_empty "" TNil) = true /\
  tstr (fix_empty "p" (TNode "" "_" [TNil])) = "(_ <nil>)" /\
  (* not trivially true: a tree that is not raw_tree_ok *)
  dump_one_ok (fix_empty "p" (TNode "" "" [TNode "" "" []])) = false.
Proof.
  split; [apply c03_inv_tree_dump; right; reflexivity|].
  split; [apply c03_inv_tree_dump; right; reflexivity|].
  split; [apply c03_inv_tree_dump; left; reflexivity|].
  split; [apply c03_inv_tree_dump; left; reflexivity|].
  split; vm_compute; reflexivity.
Qed.
(* c03_inv_func: covered by nv_c03_contain_func (last conjunct of the Forall). *)

(* ==== (b) termination ==================================================================================== *)

(* the Pratt loop on a token list that is NOT a well-formed expression, with goatlang's table and with a
   made-up table; the premise matters: with a budget of 3 the same input does run out of fuel *)
Definition junk : list GoPrec.tok :=
  [TAtom true "1"; TSym "+"; TSym "("; TAtom false "x"; TSym "*"; TSym "-"; TAtom true "3"; TSym ")"; TSym "-"].
Definition my_lbp (s : string) : Z := if String.eqb s "+" then 7%Z else if String.eqb s "*" then 3%Z else 0%Z.

Lemma nv_c03_terminates_pratt :
  Pratt.expr lbp_of infix_of neg_bp compl_bp not_bp commaBP 10 0 junk <> inr PErrFuel /\
  Pratt.expr lbp_of infix_of neg_bp compl_bp not_bp commaBP 10 0 junk = inr PErrSyntax /\
  Pratt.expr my_lbp (fun _ => true) 1 2 3 (-4) 10 0 junk <> inr PErrFuel /\
  Pratt.expr lbp_of infix_of neg_bp compl_bp not_bp commaBP 3 0 junk = inr PErrFuel /\
  goat_parse junk <> inr PErrFuel.
Proof.
  split; [apply c03_terminates_pratt; cbn; lia|]. split; [vm_compute; reflexivity|].
  split; [apply c03_terminates_pratt; cbn; lia|]. split; [vm_compute; reflexivity|].
  apply c03_terminates_parse_expr.
Qed.

(* a successful sub-expression followed by other tokens *)
Lemma nv_c03_expr_consumes :
  let ts := [TAtom true "1"; TSym "+"; TSym "("; TAtom false "x"; TSym "*"; TAtom true "3"; TSym ")"; TSym ")"; TAtom true "9"] in
  Pratt.expr lbp_of infix_of neg_bp compl_bp not_bp commaBP 10 0 ts
    = inl (Bin "+" (Atom true "1") (Paren (Bin "*" (Atom false "x") (Atom true "3"))), [TSym ")"; TAtom true "9"]) /\
  (List.length [TSym ")"; TAtom true "9"] < List.length ts)%nat.
Proof.
  cbv zeta.
  assert (E : Pratt.expr lbp_of infix_of neg_bp compl_bp not_bp commaBP 10 0
     [TAtom true "1"; TSym "+"; TSym "("; TAtom false "x"; TSym "*"; TAtom true "3"; TSym ")"; TSym ")"; TAtom true "9"]
    = inl (Bin "+" (Atom true "1") (Paren (Bin "*" (Atom false "x") (Atom true "3"))), [TSym ")"; TAtom true "9"]))
    by (vm_compute; reflexivity).
  split; [exact E|]. exact (c03_expr_consumes _ _ _ _ _ _ _ _ _ _ _ E).
Qed.

(* the loader's worklist on a graph with a cycle a -> b -> a, a diamond and a native package *)
Definition graph3 (p : string) : option (list string) :=
  if String.eqb p "top" then Some ["a"; "fmt"; "c"]
  else if String.eqb p "a" then Some ["b"; "c"]
  else if String.eqb p "b" then Some ["a"; "c"]
  else if String.eqb p "c" then Some []
  else None.
Definition U3 : list string := ["top"; "a"; "b"; "c"; "fmt"].

Lemma U3_closed : forall q l x, In q U3 -> graph3 q = Some l -> In x l -> In x U3.
Proof.
  intros q l x Hq Hl Hx. unfold U3 in *.
  repeat (destruct Hq as [<-|Hq]; [vm_compute in Hl; inversion Hl; subst l; cbn in Hx; cbn; tauto|]).
  destruct Hq.
Qed.

Lemma U2_closed : forall q l x, In q U3 -> graph2 q = Some l -> In x l -> In x U3.
Proof.
  intros q l x Hq Hl Hx. unfold U3 in *.
  repeat (destruct Hq as [<-|Hq]; [vm_compute in Hl; inversion Hl; subst l; cbn in Hx; cbn; tauto|]).
  destruct Hq.
Qed.

Lemma nv_c03_terminates_load :
  weight graph3 U3 = 7%nat /\
  load graph3 9 "top" <> LoadFuel /\ load graph3 9 "top" = LoadCycle /\          (* the cycle is reported *)
  load graph3 9 "a" <> LoadFuel /\
  load graph2 8 "top" <> LoadFuel /\ load graph2 8 "top" = LoadOk ["c"; "b"; "a"; "fmt"; "top"] /\
  (* the premise matters: a smaller budget is exhausted *)
  load graph3 5 "top" = LoadFuel.
Proof.
  split; [reflexivity|].
  split; [apply (c03_terminates_load graph3 U3 U3_closed); [cbn; tauto|vm_compute; lia]|].
  split; [vm_compute; reflexivity|].
  split; [apply (c03_terminates_load graph3 U3 U3_closed); [cbn; tauto|vm_compute; lia]|].
  split; [apply (c03_terminates_load graph2 U3 U2_closed); [cbn; tauto|vm_compute; lia]|].
  split; vm_compute; reflexivity.
Qed.

(* the scope table with a shadow chain x, ~x, ~~x *)
Definition scope_m : list (string * nat) := [("x", 3%nat); ("~x", 1%nat); ("y", 2%nat); ("~~x", 0%nat)].

Lemma nv_c03_terminates_lookup :
  shadow 50 scope_m "x" = shadow (chain_fuel scope_m) scope_m "x" /\
  unshadow 50 (shadow 50 scope_m "x") "x" = unshadow (chain_fuel (shadow 50 scope_m "x")) (shadow 50 scope_m "x") "x" /\
  shadow 50 scope_m "x" <> scope_m /\
  kget "~~~x" (shadow 50 scope_m "x") = Some 0%nat /\ kget "x" (shadow 50 scope_m "x") = None /\
  (* with fewer units than the chain is long the renaming stops half way *)
  shadow 2 scope_m "x" <> shadow 50 scope_m "x".
Proof.
  split; [apply (c03_terminates_lookup scope_m "x" 50); vm_compute; lia|].
  split; [apply (c03_terminates_lookup (shadow 50 scope_m "x") "x" 50); vm_compute; lia|].
  repeat split; vm_compute; try reflexivity; discriminate.
Qed.

(* the peephole pass on code where two rules fire *)
Definition peep_code : list instr :=
  [mkI (C "codeLocalGet") 1 0 0 11; mkI (C "codeLocalGet") 2 0 0 12; mkI (C "codeAdd") 0 0 0 13;
   mkI (C "codePush") 5 0 0 14; mkI (C "codeGlobalGet") 3 0 0 15; mkI (C "codeCall") 1 1 0 16].

Lemma nv_c03_terminates_peephole :
  do_optimize_fuel 40 peephole_rules peep_code = do_optimize peephole_rules peep_code /\
  List.length (do_optimize peephole_rules peep_code) = 3%nat /\
  map icode (do_optimize peephole_rules peep_code) = [C "codeLocalAdd"; C "codePush"; C "codeFastCall"] /\
  (* with too little fuel the tail is left as it is *)
  do_optimize_fuel 1 peephole_rules peep_code <> do_optimize peephole_rules peep_code.
Proof.
  split; [apply c03_terminates_peephole; cbn; lia|]. repeat split; vm_compute; try reflexivity; discriminate.
Qed.

(* ---- the cursor machine ---------------------------------------------------------------------------------- *)

(* Exec is an inductive (finite-derivation) relation: `exists out k', Exec ...` does express termination.  A
   table with the loop `for { }` has NO run under the oracle that always says "go on", and table_ok rejects it;
   OPanic is a proper outcome (an index panic of p.Next(), recovered by parse), not a fuel value. *)
Definition spin_table (f : nat) : prog := Loop Skip.

Lemma nv_exec_expresses_termination :
  (forall n c k o k', ~ Exec spin_table n (fun _ => true) (Call 0) c k o k') /\
  table_ok spin_table (fun _ => 0%nat) (fun _ => 0%Z) 1 = false.
Proof.
  split; [|vm_compute; reflexivity].
  assert (L : forall n p c k o k', Exec spin_table n (fun _ => true) p c k o k' -> p = Loop Skip -> False).
  { intros n p c k o k' H. induction H; intros E; try discriminate.
    - inversion E; subst. auto.
    - inversion E; subst. inversion H0.
    - inversion E; subst. inversion H0. }
  intros n c k o k' H. inversion H; subst. eapply L; [eassumption|reflexivity].
Qed.

(* Exec is deterministic for a given oracle (not stated in the development): `exists out k', Exec ...` therefore
   means THE run from (c, k) terminates, which is what the comments of c03_parse_progress_* claim *)
Lemma nv_exec_deterministic : forall tbl n oracle p c k o1 k1, Exec tbl n oracle p c k o1 k1 ->
  forall o2 k2, Exec tbl n oracle p c k o2 k2 -> o1 = o2 /\ k1 = k2.
Proof.
  intros tbl n oracle.
  induction 1; intros o2 k2 X; inversion X; subst; clear X;
  repeat match goal with
  | IH : forall o k, Exec _ _ _ ?p ?c ?k0 o k -> _, H : Exec _ _ _ ?p ?c ?k0 _ _ |- _ =>
      let E := fresh "E" in destruct (IH _ _ H) as [E ?]; clear H; try discriminate E; try (injection E as E); subst
  end; try (split; congruence); try lia; try congruence; auto.
Qed.

(* building concrete runs *)
Lemma E_Call' : forall tbl n oracle f c k o o' k',
  Exec tbl n oracle (tbl f) c k o k' -> ret o = o' -> Exec tbl n oracle (Call f) c k o' k'.
Proof. intros; subst; constructor; assumption. Qed.
Ltac exec_hnf :=
  lazymatch goal with |- Exec ?t ?n ?o ?p ?c ?k ?out ?k' => let p' := eval hnf in p in change (Exec t n o p' c k out k') end.
Ltac exec_run :=
  exec_hnf;
  lazymatch goal with
  | |- Exec _ _ _ Skip _ _ _ _ => apply E_Skip
  | |- Exec _ _ _ Panic _ _ _ _ => apply E_Panic
  | |- Exec _ _ _ Break _ _ _ _ => apply E_Break
  | |- Exec _ _ _ Back2 _ _ _ _ => apply E_Back2
  | |- Exec _ _ _ Next _ _ _ _ => first [apply E_Next; lia | apply E_NextOut; lia]
  | |- Exec _ _ _ (Call _) _ _ _ _ => eapply E_Call'; [exec_run|reflexivity]
  | |- Exec _ _ _ (Choice _ _) _ _ _ _ =>
      first [apply E_ChoiceL; [reflexivity|exec_run] | apply E_ChoiceR; [reflexivity|exec_run]]
  | |- Exec _ _ _ (Seq _ _) _ _ _ _ =>
      first [eapply E_Seq; [exec_run|exec_run] | eapply E_SeqBrk; exec_run | eapply E_SeqPanic; exec_run]
  | |- Exec _ _ _ (Loop _) _ _ _ _ =>
      first [apply E_LoopExit; reflexivity
            | eapply E_LoopIter; [reflexivity|exec_run|exec_run]
            | eapply E_LoopBrk; [reflexivity|exec_run]
            | eapply E_LoopPanic; [reflexivity|exec_run]]
  end.

Definition oracle_of (l : list bool) (dflt : bool) (k : nat) : bool := nth k l dflt.

(* goatlang's table on 3 tokens  `x ; (eof)`-like: parse reads one statement (nudSelf, no led) and leaves the
   loop: a NORMAL outcome with the cursor inside the list; the always-"go on" oracle ends in the index panic *)
Lemma nv_c03_parse_progress_partial :
  (exists out k', Exec goat_table 3 (oracle_of [true; true; false; false] false) (Call F_parse) 0 0 out k' /\ out = ONorm 2) /\
  (exists out k', Exec goat_table 3 (fun _ => true) (Call F_parse) 0 0 out k' /\ out = OPanic) /\
  (exists out k', Exec goat_table 1000 (fun k => Nat.even (k / 3)) (Call F_parse) 0 7 out k' /\
     (forall c', out = ONorm c' -> (0 + 1 <= c' <= 1000)%Z)).
Proof.
  split; [eexists; eexists; split; [exec_run|reflexivity]|].
  split; [eexists; eexists; split; [exec_run|reflexivity]|].
  apply c03_parse_progress_partial. lia.
Qed.

(* a table that is not goatlang's: list := '(' item* ')', item := token | list, written with mutual recursion,
   a call made before any token is consumed (to a lower rank) and a Back2 *)
Definition my_table (f : nat) : prog :=
  match f with
  | 0%nat => Loop (Call 1)                                            (* items: rank 2 *)
  | 1%nat => Choice (Call 2) (Next ;; Opt (Back2 ;; Next ;; Next))    (* item:  rank 1 *)
  | 2%nat => Advance ;; Call 0 ;; Advance                             (* list:  rank 0 *)
  | _ => Panic
  end.
Definition my_rank (f : nat) : nat := match f with 0%nat => 2%nat | 1%nat => 1%nat | _ => 0%nat end.
Definition my_gain (f : nat) : Z := match f with 0%nat => 0%Z | 1%nat => 1%Z | _ => 2%Z end.

Lemma my_table_ok : table_ok my_table my_rank my_gain 3 = true.
Proof. vm_compute. reflexivity. Qed.

Lemma nv_c03_parse_progress_general :
  (* the theorem, on an arbitrary oracle, with a negative start cursor too *)
  (forall oracle f c k, (f < 3)%nat -> (c <= 6)%Z ->
     exists out k', Exec my_table 6 oracle (Call f) c k out k' /\ (forall c', out = ONorm c' -> (c + my_gain f <= c' <= 6)%Z)) /\
  (* a concrete run with a NORMAL outcome:  ( t ( t ) )  from cursor 0 consumes all 6 tokens *)
  (exists out k', Exec my_table 6
      (oracle_of [false; true; false; true; true; true; false; true; false; false; false; false; false; false] false)
      (Call 2) 0 0 out k' /\ out = ONorm 6) /\
  (* the progress check is not vacuous: dropping the `Next` of item, or lowering no rank, is rejected *)
  table_ok (fun f => match f with 1%nat => Choice (Call 2) Skip | _ => my_table f end) my_rank my_gain 3 = false /\
  table_ok my_table (fun _ => 0%nat) my_gain 3 = false.
Proof.
  split; [intros oracle f c k Hf Hc; exact (c03_parse_progress_general _ _ _ _ my_table_ok 6 oracle f c k Hf Hc)|].
  split; [eexists; eexists; split; [exec_run|reflexivity]|].
  split; vm_compute; reflexivity.
Qed.

Lemma nv_c03_goat_table_ok : forallb (fun_ok goat_table goat_rank goat_gain goat_nf) (seq 0 11) = true.
Proof. exact c03_goat_table_ok. Qed.

(* ==== (c) recursion depth ================================================================================ *)

Lemma nv_c03_depth_bound :
  let ts := [TSym "("; TSym "-"; TAtom true "1"; TSym "*"; TSym "("; TAtom false "x"; TSym ")"; TSym ")"] in
  exprD lbp_of infix_of neg_bp compl_bp not_bp commaBP 9 20 0 ts
    = lift (Pratt.expr lbp_of infix_of neg_bp compl_bp not_bp commaBP 20 0 ts) /\
  (exists t, Pratt.expr lbp_of infix_of neg_bp compl_bp not_bp commaBP 20 0 ts = inl (t, [])) /\
  (* fewer frames than the nesting needs: the depth budget is what fails, so the premise matters *)
  exprD lbp_of infix_of neg_bp compl_bp not_bp commaBP 3 20 0 ts = inr DDepth /\
  (* junk input too *)
  exprD lbp_of infix_of neg_bp compl_bp not_bp commaBP 10 20 0 junk = inr (DErr PErrSyntax).
Proof.
  cbv zeta. split; [apply c03_depth_bound; cbn; lia|].
  split; [eexists; vm_compute; reflexivity|]. split; [vm_compute; reflexivity|].
  rewrite c03_depth_bound by (cbn; lia). vm_compute. reflexivity.
Qed.

Print Assumptions nv_c03_contain_eval_2.
Print Assumptions nv_c03_contain_load_2.
Print Assumptions nv_c03_contain_func.
Print Assumptions nv_c03_hang_load_infinite.
Print Assumptions nv_c03_terminates_load.
Print Assumptions nv_c03_parse_progress_general.
Print Assumptions nv_c03_hang_tied.
