(* non-vacuity witnesses for Props/C13.v *)
From Coq Require Import ZArith List Bool Sorted Lia.
From GV Require Import GoSpec.GoPrim GoSpec.Utf8 Gen.ValueOps_gen Model.Str Proofs.C13_utf8 Proofs.C13_str.
From GV Require Props.C13.
Import ListNotations.
Open Scope Z_scope.

Ltac vr := unfold valid_rune, MaxRune; lia.
Ltac by_bytes := unfold bytes; repeat constructor; unfold byte; lia.

(* c13_utf8_decode_encode: valid_rune r -- 1-, 2-, 3-, 4-byte runes, the extremes of each range, followed by garbage *)
Lemma nv_c13_utf8_decode_encode :
  decode_rune (utf8_encode 1114111 ++ [255; 128])%list = (1114111, 4%nat) /\
  decode_rune (utf8_encode 57344 ++ [128])%list = (57344, 3%nat) /\
  decode_rune (utf8_encode 128 ++ [])%list = (128, 2%nat) /\ decode_rune (utf8_encode 0 ++ [0])%list = (0, 1%nat).
Proof.
  split; [exact (C13.c13_utf8_decode_encode 1114111 [255; 128] ltac:(vr))|].
  split; [exact (C13.c13_utf8_decode_encode 57344 [128] ltac:(vr))|].
  split; [exact (C13.c13_utf8_decode_encode 128 [] ltac:(vr))|exact (C13.c13_utf8_decode_encode 0 [0] ltac:(vr))].
Qed.
(* c13_utf8_decode_canonical: bytes s, s <> [], decode_rune s = (r, w) -- both disjuncts occur: an overlong / a surrogate
   encoding give (U+FFFD, 1); a 3-byte rune followed by more bytes gives a scalar value whose encoding is the prefix *)
Lemma nv_c13_utf8_decode_canonical :
  decode_rune [224; 128; 128] = (RuneError, 1%nat) /\ decode_rune [237; 160; 128] = (RuneError, 1%nat) /\
  (valid_rune 8364 /\ firstn 3 [226; 130; 172; 65] = utf8_encode 8364).
Proof.
  split; [reflexivity|]. split; [reflexivity|].
  destruct (C13.c13_utf8_decode_canonical [226; 130; 172; 65] 8364 3%nat ltac:(by_bytes) ltac:(discriminate) eq_refl) as [[E _]|H];
    [discriminate E|exact H].
Qed.
(* c13_utf8_range_encode: valid_rune r / ~ valid_rune r / Forall valid_rune rs *)
Lemma nv_c13_utf8_range_encode :
  go_range (utf8_encode 128512) = [(0, 128512)] /\ go_range (utf8_encode 55296) = [(0, RuneError)] /\
  go_range (utf8_encode (-1)) = [(0, RuneError)] /\
  go_runes (encode_runes [104; 233; 8364; 128512; 65533]) = [104; 233; 8364; 128512; 65533].
Proof.
  destruct C13.c13_utf8_range_encode as (A & B & C).
  split; [apply A; vr|]. split; [apply B; vr|]. split; [apply B; vr|].
  apply C. repeat constructor; vr.
Qed.
(* c13_index: each conjunct; keys of every kind the VM passes *)
Lemma nv_c13_index :
  code_get (fn_String [104; 195; 169]) (fn_Int32 2) = Ok (mkValue 3 (Zn 169) PNone) /\
  (exists b, nth_error [104; 195; 169] (Z.to_nat (Value_Int (fn_newUntypedInt 1))) = Some b) /\
  code_get (fn_String [104; 195; 169]) (fn_Int32 3) = Panic /\ Value_Get (fn_String [104; 195; 169]) (fn_Int32 (-1)) = Panic.
Proof.
  split. { destruct (C13.c13_index [104; 195; 169] (fn_Int32 2)) as (A & _). exact (proj2 (A 169 ltac:(vm_compute; discriminate) eq_refl)). }
  split. { destruct (C13.c13_index [104; 195; 169] (fn_newUntypedInt 1)) as (_ & A & _). apply A. vm_compute. split; [discriminate|reflexivity]. }
  split. { destruct (C13.c13_index [104; 195; 169] (fn_Int32 3)) as (_ & _ & A). apply A. vm_compute. intros [_ H]. discriminate H. }
  destruct (C13.c13_index [104; 195; 169] (fn_Int32 (-1))) as (_ & _ & A). apply A. vm_compute. intros [H _]. apply H. reflexivity.
Qed.
Lemma nv_c13_index_keys : Value_Int (fn_Int32 (-2147483648)) = -2147483648 /\ Value_Int (fn_Int 2147483647) = 2147483647.
Proof. split; [exact (proj1 (C13.c13_index_keys (-2147483648) eq_refl))|exact (proj2 (proj2 (C13.c13_index_keys 2147483647 eq_refl)))]. Qed.
Lemma nv_c13_len : code_len (fn_String [104; 195; 169]) = Ok (mkValue 23 (Zn 3) PNone).
Proof. exact (proj2 (C13.c13_len [104; 195; 169]) eq_refl). Qed.
(* c13_slice conjuncts 2-7 *)
Lemma nv_c13_slice :
  (exists a m c, [1; 2; 3; 4; 5] = (a ++ m ++ c)%list /\ blen a = 1 /\ blen m = 3) /\
  Value_Slice (fn_String [1; 2; 3]) 2 4 = Panic /\ Value_Slice (fn_String [1; 2; 3]) 2 1 = Panic /\
  code_slice (fn_String ([1] ++ [2; 3] ++ [4])) (fn_newUntypedInt 1) (fn_Int32 3) = Ok (fn_String [2; 3]) /\
  code_slice (fn_String ([1; 2] ++ [3; 4])) (fn_Int32 2) fn_Nil = Ok (fn_String [3; 4]) /\
  code_slice (fn_String [1; 2; 3]) (fn_Int32 (-1)) (fn_Int32 2) = Panic /\
  code_slice (fn_String [1; 2; 3]) (fn_Int32 4) fn_Nil = Panic.
Proof.
  destruct C13.c13_slice as (_ & A2 & A3 & A4 & A5 & A6 & A7).
  split; [apply (A2 [1; 2; 3; 4; 5] 1 4); [lia|vm_compute; discriminate]|].
  split; [apply A3; vm_compute; intros [_ H]; apply H; reflexivity|].
  split; [apply A3; vm_compute; intros [[_ H] _]; apply H; reflexivity|].
  split; [apply A4; [reflexivity|reflexivity|vm_compute; discriminate]|].
  split; [apply A5; reflexivity|].
  split; [apply A6; [vm_compute; discriminate|vm_compute; intros [[H _] _]; apply H; reflexivity]|].
  apply A7. vm_compute. intros [_ H]. apply H. reflexivity.
Qed.
(* c13_range conjunct 3: in_range I32 (fst p) *)
Lemma nv_c13_range : code_range_string [195; 169; 255] = [(mkValue 23 (Zn 0) PNone, mkValue 23 (Zn 233) PNone); (mkValue 23 (Zn 2) PNone, mkValue 23 (Zn 65533) PNone)].
Proof.
  destruct (C13.c13_range [195; 169; 255]) as (A & _ & B). rewrite A.
  change (go_range [195; 169; 255]) with [(0, 233); (2, 65533)]. cbn [map].
  rewrite (B (0, 233) eq_refl), (B (2, 65533) eq_refl). reflexivity.
Qed.
(* c13_conv conjuncts 2, 3 (bytes), 5 (numeric tag, in_range I32 r) *)
Lemma nv_c13_conv :
  convert_data_to_string (map (fun b => mkValue 3 (Zn b) PNone) [0; 255; 128]) = fn_String [0; 255; 128] /\
  convert_to_slice (convert_data_to_string (map fn_Byte [0; 255; 128])) = Ok (fn_sliceType TypeUint8, map fn_Byte [0; 255; 128]) /\
  convert_to_string (mkValue 7 (Zn 8364) PNone) = Ok (fn_String [226; 130; 172]) /\
  convert_to_string (mkValue 19 (Zn (-1)) PNone) = Ok (fn_String [239; 191; 189]).
Proof.
  destruct C13.c13_conv as (A1 & A2 & A3 & _ & A5 & _).
  split; [exact (A2 [0; 255; 128] ltac:(by_bytes) _ _ (A1 [0; 255; 128]))|].
  split; [exact (A3 [0; 255; 128] ltac:(by_bytes))|].
  split; [exact (A5 7 8364 ltac:(vm_compute; discriminate) ltac:(discriminate) ltac:(lia) eq_refl)|].
  exact (A5 19 (-1) ltac:(vm_compute; discriminate) ltac:(discriminate) ltac:(lia) eq_refl).
Qed.
(* c13_lit: Section variables unquote / unquoteChar (no hypotheses): a concrete unquoteChar handling one escape *)
Definition uqc (body : list Z) (q : Z) : option (Z * bool * list Z) :=
  match body with
  | [92; 110] => Some (10, false, [])            (* \n *)
  | [92; c] => if c =? q then Some (q, false, []) else None
  | [c] => if c =? q then None else Some (c, false, [])
  | _ => None
  end.
Definition uq (text : list Z) : option (list Z) :=
  match text with 34 :: r => Some (removelast r) | _ => None end.
Lemma nv_c13_lit :
  compile_char uqc [39; 92; 110; 39] = Ok (mkValue 1 (Zn 10) PNone) /\
  compile_char uqc [39; 92; 39; 39] = Ok (mkValue 1 (Zn 39) PNone) /\
  token_Char uqc (39 :: [92; 34] ++ [39]) = Ok 0 /\
  compile_string uq [34; 104; 105; 34] = Ok (mkValue 64 (Zn 0) (PStr [104; 105])) /\ compile_string uq [96; 104; 96] = Panic.
Proof.
  destruct (C13.c13_lit uq uqc) as (A1 & A2 & A3).
  split; [exact (A2 [92; 110] 39 39 10 false [] eq_refl)|].
  split; [exact (A2 [92; 39] 39 39 39 false [] eq_refl)|].
  split; [exact (A1 [92; 34] 39 39)|].
  split; [exact (A3 [34; 104; 105; 34])|exact (A3 [96; 104; 96])].
Qed.
