(* non-vacuity witnesses for Props/C04.v *)
From Coq Require Import ZArith Floats Bool List String Lia.
From GV Require Import GoSpec.GoPrim Gen.ValueOps_gen Gen.Tables_gen Model.VM Gen.Steps_gen Proofs.C04_ops Proofs.Steps_agree Proofs.C04_vm.
From GV Require Props.C04.
Import ListNotations.
Open Scope string_scope.
Open Scope Z_scope.

(* c04_ops / c04_const: typed t, in_range t a, in_range t b  -- boundary operands of each typed width *)
Lemma nv_c04_ops :
  Value_opAdd (V I32 2147483647) (V I32 1) = Ok (V I32 (-2147483648)) /\
  Value_opDiv (V I8 (-128)) (V I8 (-1)) = Ok (V I8 (-128)) /\
  Value_opMod (V U32 4294967295) (V U32 0) = Panic /\
  Value_opBitLsh (V U8 255) (V U8 7) = Ok (V U8 128) /\
  Value_opLt (V U32 4294967295) (V U32 0) = Ok (B false).
Proof.
  pose proof (C04.c04_ops I32 2147483647 1 eq_refl eq_refl eq_refl) as H1.
  pose proof (C04.c04_ops I8 (-128) (-1) eq_refl eq_refl eq_refl) as H2.
  pose proof (C04.c04_ops U32 4294967295 0 eq_refl eq_refl eq_refl) as H3.
  pose proof (C04.c04_ops U8 255 7 eq_refl eq_refl eq_refl) as H4.
  split; [rewrite (proj1 H1); reflexivity|].
  split; [destruct H2 as (_&_&_&E&_); rewrite E; reflexivity|].
  split; [destruct H3 as (_&_&_&_&E&_); rewrite E; reflexivity|].
  split; [destruct H4 as (_&_&_&_&_&E&_); rewrite E; reflexivity|].
  destruct H3 as (_&_&_&_&_&_&_&_&_&_&E&_). rewrite E. reflexivity.
Qed.
Lemma nv_c04_const :
  Value_opAdd (V U8 250) (Untyped 10) = Ok (V U8 4) /\ Value_opSub (Untyped 0) (V U32 1) = V U32 4294967295.
Proof.
  pose proof (C04.c04_const U8 250 10 eq_refl eq_refl eq_refl) as H1.
  pose proof (C04.c04_const U32 1 0 eq_refl eq_refl eq_refl) as H2.
  split.
  - rewrite (proj1 H1). reflexivity.
  - destruct H2 as (_&_&_&E&_). rewrite E. reflexivity.
Qed.
(* c04_incdec: typed t, in_range t a, in_range t |d|, in_range I64 d *)
Lemma nv_c04_incdec :
  Value_incDec (V I8 (-128)) (-127) = Ok (V I8 1) /\ Value_incDec (V U32 4294967295) 4294967295 = Ok (V U32 4294967294).
Proof.
  split.
  - rewrite (C04.c04_incdec I8 (-128) (-127) eq_refl eq_refl eq_refl eq_refl). reflexivity.
  - rewrite (C04.c04_incdec U32 4294967295 4294967295 eq_refl eq_refl eq_refl eq_refl). reflexivity.
Qed.
(* c04_assign: conjunct 1 (typed, in_range), conjunct 3 (vt v <> untypedInt, vt v <> TypeNil) *)
Lemma nv_c04_assign :
  Value_assign (Untyped 255) TypeUint8 = V U8 255 /\
  Value_assign (V I8 (-3)) TypeInt32 = V I8 (-3) /\
  Value_assign (mkValue TypeString (Zn 0) (PStr [104])) TypeInt32 = mkValue TypeString (Zn 0) (PStr [104]).
Proof.
  destruct C04.c04_assign as (A1 & _ & A3 & _).
  split; [exact (A1 U8 255 eq_refl eq_refl)|]. split; apply A3; cbn; discriminate.
Qed.
(* c04_conv: conjunct 1 (typed t, typed t', in_range), 3, 4 and 5 (Ztrunc f = Some z, in_range);
   conjunct 5 (float64 -> uint32, added after the audit) on a value above the int32 range *)
Lemma nv_c04_conv :
  Value_convert (V I32 (-1)) TypeUint8 = Ok (V U8 255) /\
  Value_convert (V U32 4294967295) TypeInt8 = Ok (V I8 (-1)) /\
  Value_convert (F (-3.75)%float) TypeInt32 = Ok (V I32 (-3)) /\
  Value_convert (F (200.5)%float) TypeUint8 = Ok (V U8 200) /\
  Value_convert (F (-128.5)%float) TypeInt8 = Ok (V I8 (-128)) /\
  Value_convert (F (4000000000.75)%float) TypeUint32 = Ok (V U32 4000000000).
Proof.
  destruct C04.c04_conv as (A1 & _ & A3 & A4 & A5).
  split; [exact (A1 I32 U8 (-1) eq_refl eq_refl eq_refl)|].
  split; [exact (A1 U32 I8 4294967295 eq_refl eq_refl eq_refl)|].
  split; [apply A3; vm_compute; reflexivity|].
  split; [apply (A4 U8); [right; reflexivity|vm_compute; reflexivity|reflexivity]|].
  split; [apply (A4 I8); [left; reflexivity|vm_compute; reflexivity|reflexivity]|].
  apply A5; vm_compute; reflexivity.
Qed.
(* c04_wf: wf_value v, wf_value b -- mixed typed / untyped / float operands *)
Lemma nv_c04_wf :
  wf_value (V U8 200) /\ wf_value (Untyped 100) /\ wf_value (F 0.5%float) /\
  wf_value (Value_opMul (V U8 200) (Untyped 100)) /\ Value_opMul (V U8 200) (Untyped 100) = V U8 32.
Proof.
  assert (W1 : wf_value (V U8 200)) by (left; split; [reflexivity|exists 200; split; reflexivity]).
  assert (W2 : wf_value (Untyped 100)) by (repeat right; reflexivity).
  assert (W3 : wf_value (F 0.5%float)) by (right; right; right; right; left; split; [reflexivity|eexists; reflexivity]).
  split; [exact W1|]. split; [exact W2|]. split; [exact W3|].
  split; [exact (proj1 (proj2 (C04.c04_wf _ _ W1 W2)))|reflexivity].
Qed.

(* c04_vm_*: In (name, sw, f) vm_binops, icode i = C name, znth slots (iA i) = Some l ...
   totalisation check: C name is code_of's default -999 for an unknown name; every name the theorems range over is a real,
   distinct opcode, so `icode i = C name` never holds through the default *)
Lemma nv_c04_opcode_names_real :
  let names := (map (fun x => fst (fst x)) vm_binops ++ map fst vm_local_binops ++
               ["codeIncDec"; "codeLocalIncDec"; "codeCast"; "codeConvert"; "codeLocalSet"; "codeGlobalSet"])%list in
  forallb (fun n => negb (C n =? -999)) names = true /\ NoDup (map C names).
Proof.
  split; [vm_compute; reflexivity|].
  vm_compute. repeat (constructor; [cbn; intuition discriminate|]). constructor.
Qed.
Definition st0 : st := mkSt [V I32 5; V U8 9] [] [] [].
Lemma nv_c04_vm :
  (* GT = LT with operands swapped: 3 > 7 is false (a = 3 pushed first) *)
  step_gen (mkI c_Gt 0 0 0 77) [] [V I32 7; V I32 3] st0 = Some (SNext [] [B false] st0) /\
  (* DIV by zero: runtime error *)
  step_gen (mkI c_Div 0 0 0 77) [] [V I32 0; V I32 3] st0 = Some (SFail "runtime error" st0) /\
  step1 (fun _ n => n) (fun _ _ _ => None) (fun _ _ _ _ => None) (fun _ _ => None) (fun _ _ _ => None) (fun _ _ _ _ => None)
        [] 0 (mkI c_Sub 0 0 0 77) [V I8 1] [V I8 (-128); V I8 127; V I8 0] st0 = SNext [V I8 1] [V I8 (-1); V I8 0] st0 /\
  step_gen (mkI c_IncDec (-1) 0 0 77) [] [V U8 0] st0 = Some (SNext [] [V U8 255] st0) /\
  step_gen (mkI c_LocalIncDec 1 2 0 77) [V U8 0; V I8 126] [] st0 = Some (SNext [V U8 0; V I8 (-128)] [] st0) /\
  step_gen (mkI c_Cast TypeUint8 0 0 77) [] [Untyped 7] st0 = Some (SNext [] [V U8 7] st0) /\
  step_gen (mkI c_Convert TypeInt8 0 0 77) [] [V I32 200] st0 = Some (SNext [] [V I8 (-56)] st0) /\
  (* LOCALSET / GLOBALSET: the constant adopts the type of the variable's current value *)
  step_gen (mkI c_LocalSet 1 0 0 77) [V I32 0; V U8 1] [Untyped 44] st0 = Some (SNext [V I32 0; V U8 44] [] st0) /\
  step_gen (mkI c_GlobalSet 1 0 0 77) [] [Untyped 44] st0 = Some (SNext [] [] (mkSt [V I32 5; V U8 44] [] [] [])) /\
  step_gen (mkI c_LocalMul 0 1 0 77) [V I32 65536; V I32 65536] [nilV] st0 = Some (SNext [V I32 65536; V I32 65536] [V I32 0; nilV] st0).
Proof.
  split; [rewrite (C04.c04_vm_binop "codeGt" true (BRes Value_opLt)) by (cbn; try tauto; reflexivity); reflexivity|].
  split; [rewrite (C04.c04_vm_binop "codeDiv" false (BRes Value_opDiv)) by (cbn; try tauto; reflexivity); reflexivity|].
  split; [rewrite (C04.c04_vm_binop_model "codeSub" false (BPlain Value_opSub)) by (cbn; try tauto; reflexivity); reflexivity|].
  split; [rewrite C04.c04_vm_incdec by reflexivity; reflexivity|].
  split; [rewrite (C04.c04_vm_localincdec _ _ _ _ (V I8 126)) by reflexivity; reflexivity|].
  split; [rewrite C04.c04_vm_cast by reflexivity; reflexivity|].
  split; [rewrite C04.c04_vm_convert by reflexivity; reflexivity|].
  split; [rewrite (C04.c04_vm_localset _ _ _ _ _ (V U8 1)) by reflexivity; reflexivity|].
  split; [rewrite (C04.c04_vm_globalset _ _ _ _ _ (V U8 9)) by reflexivity; reflexivity|].
  rewrite (C04.c04_vm_localop "codeLocalMul" (BPlain Value_opMul)) with (l1 := V I32 65536) (l2 := V I32 65536) by (cbn; try tauto; reflexivity).
  reflexivity.
Qed.
