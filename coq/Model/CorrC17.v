(* Correspondence for the reload machine: a history driven through the real API
   (Load on swapped fstest.MapFS contents, vm.Call / vm.Func / vm.Get / vm.Set,
   Value.GetAttr / SetAttr, NewStruct, script driver functions) must be answered
   by Model/Reload.v in the same way.  The instruction list of every Load is
   decompiled by the harness from the code the real compiler produced for that
   load (top-level instructions only; a body is identified by the first PUSH
   constant inside its FUNC). *)
From Coq Require Import ZArith List Bool.
From GV Require Import Model.Reload Model.Corr.
Import ListNotations.
Open Scope Z_scope.

Inductive cop :=
| CLoad (is : list instr)                         (* Load returned nil *)
| CStore (l : loc) (e : expr)
| CCall (p : path) (tag : Z) (recv : option Z)    (* body tag printed; for a method also the receiver's id field *)
| CSame (p q : path) (b : bool)                   (* VerifSameObject *)
| CGlobal (n : name) (z : Z)                      (* scalar read back with vm.Get *)
| CFailStore (l : loc) (e : expr)                 (* the implementation reported a run-time error: so must the model *)
| CFailCall (p : path).

Inductive ccase := CCase (idf : name) (ops : list cop).

Definition recv_ok (idf : name) (st : state) (r : option addr) (id : option Z) : bool :=
  match r, id with
  | None, None => true
  | Some a, Some z =>
      match nth_error (insts st) a with
      | Some o => match lookup idf (ifields o) with Some (VInt z') => z =? z' | _ => false end
      | None => false
      end
  | _, _ => false
  end.

Definition no_prog (_ : nat) : list instr := [].

Fixpoint run_cops (idf : name) (st : state) (ops : list cop) : bool :=
  match ops with
  | [] => true
  | CLoad is :: r => match exec_list st is with Some st1 => run_cops idf st1 r | None => false end
  | CStore l e :: r => match step no_prog st (HStore l e) with Some (st1, _) => run_cops idf st1 r | None => false end
  | CCall p tag rv :: r =>
      match step no_prog st (HCall p) with
      | Some (st1, [OCall b a]) => (b =? tag) && recv_ok idf st1 a rv && run_cops idf st1 r
      | _ => false
      end
  | CSame p q b :: r =>
      match step no_prog st (HSame p q) with
      | Some (st1, [OSame b']) => Bool.eqb b b' && run_cops idf st1 r
      | _ => false
      end
  | CGlobal n z :: r => match gget st n with VInt z' => (z =? z') && run_cops idf st r | _ => false end
  | CFailStore l e :: r => match step no_prog st (HStore l e) with Some _ => false | None => run_cops idf st r end
  | CFailCall p :: r => match step no_prog st (HCall p) with Some _ => false | None => run_cops idf st r end
  end.

Definition run_ccase (c : ccase) : bool := match c with CCase idf ops => run_cops idf init_state ops end.
Definition xmismatches (base : Z) (cs : list ccase) : list Z := mismatches_from run_ccase base cs.
