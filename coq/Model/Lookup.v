(* Lookup: transcription of /repo/lookup.go (the symbol table with "~"-renaming
   for shadowing) and of the compiler's scope handling (compiler.go Begin / End /
   Shadow), together with the specification of Go's block scoping it refines. *)
From Coq Require Import ZArith List String Ascii Bool Lia PeanoNat.
Import ListNotations.
Open Scope string_scope.

(* ---- the implementation model -------------------------------------------- *)

(* keyToIndex as an association list (at most one entry per key), indexToKey, cap;
   len(l.data) = length indexToKey: slots are never reused *)
Record lookup := mkLookup { k2i : list (string * nat); i2k : list string; lcap : nat }.

Definition new_lookup : lookup := mkLookup [] [] 0.

Fixpoint kget (k : string) (m : list (string * nat)) : option nat :=
  match m with
  | [] => None
  | (k', n) :: r => if String.eqb k k' then Some n else kget k r
  end.
Fixpoint kdel (k : string) (m : list (string * nat)) : list (string * nat) :=
  match m with
  | [] => []
  | (k', n) :: r => if String.eqb k k' then kdel k r else (k', n) :: kdel k r
  end.
Definition kset (k : string) (n : nat) (m : list (string * nat)) : list (string * nat) := (k, n) :: kdel k m.

Definition llen (l : lookup) : nat := List.length (i2k l).
Definition exists_ (l : lookup) (k : string) : bool := match kget k (k2i l) with Some _ => true | None => false end.

(* Index: the index of the key, creating it if required *)
Definition index (l : lookup) (k : string) : lookup * nat :=
  match kget k (k2i l) with
  | Some n => (l, n)
  | None => let n := llen l in
            (mkLookup (kset k n (k2i l)) (i2k l ++ [k]) (Nat.max (lcap l) (S n)), n)
  end.

Definition tilde (k : string) : string := String "~"%char k.

(* shadow: if key is bound { shadow("~"+key); m["~"+key] = n; delete(m, key) }.
   The recursion follows the chain key, ~key, ~~key ...; fuel = number of keys + 1. *)
Fixpoint shadow (fuel : nat) (m : list (string * nat)) (k : string) : list (string * nat) :=
  match fuel with
  | O => m
  | S f => match kget k m with
           | Some n => kdel k (kset (tilde k) n (shadow f m (tilde k)))
           | None => m
           end
  end.
(* unshadow: if "~"+key is bound { m[key] = n; delete(m, "~"+key); unshadow("~"+key) } *)
Fixpoint unshadow (fuel : nat) (m : list (string * nat)) (k : string) : list (string * nat) :=
  match fuel with
  | O => m
  | S f => match kget (tilde k) m with
           | Some n => unshadow f (kdel (tilde k) (kset k n m)) (tilde k)
           | None => m
           end
  end.

Definition chain_fuel (m : list (string * nat)) : nat := S (List.length m).

(* Shadow(key): shadow(key); return Index(key) *)
Definition lshadow (l : lookup) (k : string) : lookup * nat :=
  index (mkLookup (shadow (chain_fuel (k2i l)) (k2i l) k) (i2k l) (lcap l)) k.

Fixpoint set_nth (l : list string) (n : nat) (v : string) : list string :=
  match l, n with
  | [], _ => []
  | _ :: r, O => v :: r
  | x :: r, S n' => x :: set_nth r n' v
  end.

(* Drop(t): for i := 1..t { n := len - i; key := indexToKey[n]; if key == "" continue;
            delete(m, key); indexToKey[n] = ""; unshadow(key) } *)
Fixpoint drop_loop (t : nat) (i : nat) (l : lookup) : lookup :=
  match t with
  | O => l
  | S t' =>
      let n := llen l - i in
      let key := nth n (i2k l) "" in
      let l' := if String.eqb key "" then l
                else let m1 := kdel key (k2i l) in
                     mkLookup (unshadow (chain_fuel m1) m1 key) (set_nth (i2k l) n "") (lcap l) in
      drop_loop t' (S i) l'
  end.
Definition drop (l : lookup) (t : nat) : lookup := drop_loop t 1 l.

(* ---- the compiler's use of it ---------------------------------------------- *)

Record cscope := mkScope { locals : lookup; scope : list nat }.
Definition new_scope : cscope := mkScope new_lookup [].

Definition c_begin (c : cscope) : cscope := mkScope (locals c) (llen (locals c) :: scope c).
(* compiler.Shadow: n, ok := keyToIndex[key]; if ok && n < scope[top] { Locals.Shadow(key) } else { Locals.Index(key) } *)
Definition c_declare (c : cscope) (k : string) : cscope * nat :=
  let top := hd 0 (scope c) in
  let (l', n) := match kget k (k2i (locals c)) with
                 | Some n => if Nat.ltb n top then lshadow (locals c) k else index (locals c) k
                 | None => index (locals c) k
                 end in
  (mkScope l' (scope c), n).
Definition c_end (c : cscope) : cscope :=
  let b := llen (locals c) in
  let a := hd 0 (scope c) in
  mkScope (drop (locals c) (b - a)) (tl (scope c)).
(* name occurrence: Locals.Exists(key) ? Some (Locals.Index(key)) : global *)
Definition c_resolve (c : cscope) (k : string) : option nat := kget k (k2i (locals c)).

(* ---- the specification: Go's block scoping ----------------------------------- *)

(* a stack of blocks, innermost first; each block binds names to variable identities
   (identity = the order of creation, which is also the slot) *)
Record senv := mkSenv { blocks : list (list (string * nat)); fresh : nat }.
Definition s_new : senv := mkSenv [] 0.
Definition s_begin (e : senv) : senv := mkSenv ([] :: blocks e) (fresh e).
Definition s_end (e : senv) : senv := mkSenv (tl (blocks e)) (fresh e).
Definition s_declare (e : senv) (k : string) : senv * nat :=
  match blocks e with
  | [] => (e, 0)                                       (* no open block: not a local declaration *)
  | b :: r => match kget k b with
              | Some n => (e, n)                       (* redeclaration in the same block (multi :=) *)
              | None => (mkSenv (((k, fresh e) :: b) :: r) (S (fresh e)), fresh e)
              end
  end.
Fixpoint s_find (k : string) (bs : list (list (string * nat))) : option nat :=
  match bs with
  | [] => None
  | b :: r => match kget k b with Some n => Some n | None => s_find k r end
  end.
Definition s_resolve (e : senv) (k : string) : option nat := s_find k (blocks e).

(* operation sequences *)
Inductive sop := SBegin | SEnd | SDeclare (k : string) | SResolve (k : string) | STemp (k : string).
(* STemp: a compiler temporary (Locals.Index of a position string for switch/range): takes a slot in the
   current block without shadowing *)

Definition c_step (c : cscope) (o : sop) : cscope * option (option nat) :=
  match o with
  | SBegin => (c_begin c, None)
  | SEnd => (c_end c, None)
  | SDeclare k => let (c', n) := c_declare c k in (c', Some (Some n))
  | SResolve k => (c, Some (c_resolve c k))
  | STemp k => let (l', n) := index (locals c) k in (mkScope l' (scope c), Some (Some n))
  end.
Definition s_step (e : senv) (o : sop) : senv * option (option nat) :=
  match o with
  | SBegin => (s_begin e, None)
  | SEnd => (s_end e, None)
  | SDeclare k => let (e', n) := s_declare e k in (e', Some (Some n))
  | SResolve k => (e, Some (s_resolve e k))
  | STemp k => let (e', n) := s_declare e k in (e', Some (Some n))
  end.

Fixpoint c_run (c : cscope) (os : list sop) : list (option (option nat)) :=
  match os with [] => [] | o :: r => let (c', a) := c_step c o in a :: c_run c' r end.
Fixpoint s_run (e : senv) (os : list sop) : list (option (option nat)) :=
  match os with [] => [] | o :: r => let (e', a) := s_step e o in a :: s_run e' r end.

(* well-bracketed sequences of operations on valid names, starting inside a function (one open block) *)
Definition valid_name (k : string) : bool :=
  match k with EmptyString => false | String c _ => negb (Ascii.eqb c "~"%char) end.
Fixpoint well_formed (depth : nat) (os : list sop) : bool :=
  match os with
  | [] => true
  | SBegin :: r => well_formed (S depth) r
  | SEnd :: r => match depth with O => false | S d => well_formed d r end
  | SDeclare k :: r => valid_name k && Nat.ltb 0 depth && well_formed depth r
  | STemp _ :: _ => false        (* compiler temporaries are outside the specification *)
  | SResolve k :: r => valid_name k && well_formed depth r
  end.
