(* Cursor: the token-cursor discipline of goatlang's parser (parse.go, symbol.go) as a small machine.

   The parser state that decides termination is the cursor p.N into the finite token list:
     p.Next()             p.Token = p.Tokens[p.N]; p.N++      panics when p.N is outside the list
     p.Advance(sym)       panics, or p.Next()
     p.N -= 2             (dataNud, newLed; followed by p.Next() and getData's p.Advance("{"))
   Everything else a nud/led function does is building tree nodes or panicking.  A function body is
   written in the language [prog]; data-dependent decisions (which symbol is current, which branch of an
   if, whether a loop condition holds) are taken by an ORACLE, so a program stands for all its runs.
   Data panics (nil dereferences, failed conversions) are not written out: a panic ends the run, so
   leaving them out only removes terminating runs.

   [goat_table] is a HAND transcription of the control skeleton of:
     parse.go   parse, Statement, Block, Expression, doExpression
     symbol.go  every Nud and Led of the symbol table (inlined into doExpression), getArgs, getReturns,
                getType, getDecl (declareNud, constNud), getData, getCase
   Loops covered (each `for` of those files): parse:21  Block:68  doExpression:97  getArgs:67
     getReturns:101  returnNud:149  callLed:169  ifNud:183  importNud:306  commaLed:323
     getType interface:357 / struct:377,379  getDecl:412  declareNud:455  constNud:474  getData:531
     switchNud:621  getCase:646.
   Not covered: loops over already-built slices (range loops over t.Tokens, plural(...), Copy/Replace), which
   are bounded by the tree built so far. *)
From Coq Require Import ZArith List Bool Lia.
Import ListNotations.
Open Scope Z_scope.

Inductive prog :=
| Skip | Panic
| Next                    (* p.Next() *)
| Back2                   (* p.N -= 2 *)
| Seq (a b : prog)
| Choice (a b : prog)     (* a data-dependent branch *)
| Loop (b : prog)         (* for cond { b }  /  for { ... break ... } : the oracle decides whether an iteration starts *)
| Break
| Call (f : nat).

Inductive out := ONorm (c : Z) | OBrk (c : Z) | OPanic.
Definition ret (x : out) : out := match x with OBrk c => ONorm c | _ => x end.

Section Sem.
  Variable tbl : nat -> prog.
  Variable n : Z.                 (* len(p.Tokens) *)
  Variable oracle : nat -> bool.

  (* Exec p c k out k': from cursor c, with the oracle read from position k, p ends with [out] *)
  Inductive Exec : prog -> Z -> nat -> out -> nat -> Prop :=
  | E_Skip : forall c k, Exec Skip c k (ONorm c) k
  | E_Panic : forall c k, Exec Panic c k OPanic k
  | E_Next : forall c k, 0 <= c < n -> Exec Next c k (ONorm (c + 1)) k
  | E_NextOut : forall c k, ~ (0 <= c < n) -> Exec Next c k OPanic k          (* index out of range *)
  | E_Back2 : forall c k, Exec Back2 c k (ONorm (c - 2)) k
  | E_Seq : forall a b c k c' k' o k'', Exec a c k (ONorm c') k' -> Exec b c' k' o k'' -> Exec (Seq a b) c k o k''
  | E_SeqBrk : forall a b c k c' k', Exec a c k (OBrk c') k' -> Exec (Seq a b) c k (OBrk c') k'
  | E_SeqPanic : forall a b c k k', Exec a c k OPanic k' -> Exec (Seq a b) c k OPanic k'
  | E_ChoiceL : forall a b c k o k', oracle k = true -> Exec a c (S k) o k' -> Exec (Choice a b) c k o k'
  | E_ChoiceR : forall a b c k o k', oracle k = false -> Exec b c (S k) o k' -> Exec (Choice a b) c k o k'
  | E_LoopExit : forall b c k, oracle k = false -> Exec (Loop b) c k (ONorm c) (S k)
  | E_LoopIter : forall b c k c' k' o k'', oracle k = true -> Exec b c (S k) (ONorm c') k' ->
      Exec (Loop b) c' k' o k'' -> Exec (Loop b) c k o k''
  | E_LoopBrk : forall b c k c' k', oracle k = true -> Exec b c (S k) (OBrk c') k' -> Exec (Loop b) c k (ONorm c') k'
  | E_LoopPanic : forall b c k k', oracle k = true -> Exec b c (S k) OPanic k' -> Exec (Loop b) c k OPanic k'
  | E_Break : forall c k, Exec Break c k (OBrk c) k
  | E_Call : forall f c k o k', Exec (tbl f) c k o k' -> Exec (Call f) c k (ret o) k'.
End Sem.

(* ---- the static progress check ------------------------------------------------------------------------
   g = a lower bound on (cursor - cursor at function entry) where p starts; the result bounds the same
   quantity where p ends normally / by break (None = no such exit).  A loop body must gain at least one
   token; a call must happen at a non-negative gain and either after at least one consumed token or to a
   function of lower rank. *)
Definition ext := option Z.
Definition emin (a b : ext) : ext :=
  match a, b with
  | None, x => x
  | x, None => x
  | Some x, Some y => Some (Z.min x y)
  end.

Section Check.
  Variable rank : nat -> nat.
  Variable gain : nat -> Z.       (* what a call of f is guaranteed to consume *)
  Variable nf : nat.              (* number of functions *)
  Variable self : nat.

  Fixpoint chk (g : Z) (p : prog) : option (ext * ext) :=
    match p with
    | Skip => Some (Some g, None)
    | Panic => Some (None, None)
    | Next => Some (Some (g + 1), None)
    | Back2 => Some (Some (g - 2), None)
    | Seq a b =>
        match chk g a with
        | None => None
        | Some (None, ba) => Some (None, ba)
        | Some (Some g', ba) =>
            match chk g' b with
            | None => None
            | Some (nb, bb) => Some (nb, emin ba bb)
            end
        end
    | Choice a b =>
        match chk g a, chk g b with
        | Some (na, ba), Some (nb, bb) => Some (emin na nb, emin ba bb)
        | _, _ => None
        end
    | Loop b =>
        match chk g b with
        | Some (nb, bb) =>
            if match nb with None => true | Some x => g + 1 <=? x end
            then Some (emin (Some g) bb, None) else None
        | None => None
        end
    | Break => Some (None, Some g)
    | Call f =>
        if (0 <=? g) && ((1 <=? g) || (rank f <? rank self)%nat) && (f <? nf)%nat
        then Some (Some (g + gain f), None) else None
    end.
End Check.

Definition fun_ok (tbl : nat -> prog) (rank : nat -> nat) (gain : nat -> Z) (nf : nat) (f : nat) : bool :=
  match chk rank gain nf f 0 (tbl f) with
  | Some (nb, None) => match nb with None => true | Some x => gain f <=? x end
  | _ => false
  end.
Definition table_ok (tbl : nat -> prog) (rank : nat -> nat) (gain : nat -> Z) (nf : nat) : bool :=
  forallb (fun_ok tbl rank gain nf) (seq 0 nf).

(* ---- goatlang's parser ---------------------------------------------------------------------------------- *)

Declare Scope prog_scope.
Delimit Scope prog_scope with prog.
Infix ";;" := Seq (at level 61, right associativity) : prog_scope.
Open Scope prog_scope.

Definition Advance : prog := Choice Panic Next.          (* p.Advance(sym) *)
Definition Opt (p : prog) : prog := Choice p Skip.       (* if cond { p } *)
Fixpoint OneOf (l : list prog) : prog :=                 (* a switch / a dispatch through the symbol table *)
  match l with [] => Panic | [p] => p | p :: r => Choice p (OneOf r) end.

Definition F_parse := 0%nat.      Definition F_Statement := 1%nat.   Definition F_Block := 2%nat.
Definition F_Expression := 3%nat. Definition F_doExpression := 4%nat. Definition F_getArgs := 5%nat.
Definition F_getReturns := 6%nat. Definition F_getType := 7%nat.     Definition F_getDecl := 8%nat.
Definition F_getData := 9%nat.    Definition F_getCase := 10%nat.
Definition goat_nf := 11%nat.

Definition ExprList : prog :=      (* for cur != X { Expression; if cur != "," { break }; Advance(",") } *)
  Loop (Call F_Expression ;; Choice Break Advance).

Definition nuds : list prog := [
  Skip;                                                              (* nudSelf, nudNil *)
  Panic;                                                             (* nullNud, getSymbol: unknown symbol *)
  Call F_doExpression;                                               (* notNud, negateNud, complementNud *)
  Call F_Expression ;; Advance;                                      (* parenNud *)
  Next;                                                              (* skipNud *)
  Opt Advance;                                                       (* stackNud *)
  (* funcNud *)
  Choice (Choice (Call F_getArgs ;; Advance) Advance) Skip ;; Call F_getArgs ;; Call F_getReturns ;; Call F_Block;
  ExprList;                                                          (* returnNud *)
  (* ifNud: for { cond; [; cond]; block; if !else break; else; if !if { block; break }; if } *)
  Loop (Call F_Expression ;; Opt (Advance ;; Call F_Expression) ;; Call F_Block ;;
        Choice Break (Advance ;; Choice (Call F_Block ;; Break) Advance));
  (* forNud *)
  Choice (Call F_Block)
    (Call F_Expression ;;
     OneOf [Call F_Expression ;; Call F_Block;                       (* range forms *)
            Call F_Block;                                            (* for cond { *)
            Advance ;; Call F_Expression ;; Advance ;; Call F_Expression ;; Call F_Block]);
  Advance ;; Call F_getType ;; Opt (Advance ;; Call F_Expression) ;; Advance;   (* makeNud *)
  Advance;                                                           (* packageNud *)
  (* importNud; appendAlias = Advance("(string)") *)
  Choice (Advance ;; Loop (Choice (Advance ;; Advance) Advance) ;; Advance) Advance;
  (* declareNud, constNud *)
  Choice (Advance ;; Loop (Call F_getDecl) ;; Advance) (Call F_getDecl);
  Advance ;; Opt Advance ;; Call F_getType;                          (* typeNud *)
  (* switchNud *)
  Opt (Call F_Expression) ;; Advance ;;
    Loop (OneOf [Advance ;; Call F_Expression ;; Advance ;; Call F_getCase;
                 Advance ;; Advance ;; Call F_getCase;
                 Break]) ;; Advance;
  Call F_getType ;; Opt (Call F_getData);                            (* sliceNud *)
  Advance ;; Call F_getType ;; Advance ;; Call F_getType ;; Call F_getData;     (* mapNud *)
  Back2 ;; Next ;; Call F_getData                                    (* dataNud: p.N -= 2; p.Next(); getData *)
].

Definition leds : list prog := [
  Call F_doExpression;                                               (* ledInfix *)
  Skip;                                                              (* ledPostfix, ellipsisLed *)
  Panic;                                                             (* nullLed, getSymbol *)
  Call F_Expression;                                                 (* assignLed *)
  ExprList ;; Advance;                                               (* callLed *)
  Call F_Expression ;; Loop (Advance ;; Call F_Expression);          (* commaLed: for { Expression; if != "," break; Advance } *)
  Opt (Call F_Expression) ;; Opt (Advance ;; Opt (Call F_Expression)) ;; Advance;   (* indexLed *)
  Back2 ;; Next ;; Call F_getData                                    (* newLed *)
].

Definition goat_table (f : nat) : prog :=
  nth f [
    (* parse *)        Next ;; Loop (Call F_Statement);
    (* Statement *)    Call F_Expression;
    (* Block *)        Advance ;; Loop (Call F_Statement) ;; Advance;
    (* Expression *)   Call F_doExpression;
    (* doExpression *) Next ;; OneOf nuds ;; Loop (Next ;; OneOf leds);
    (* getArgs *)      Advance ;; Loop (Opt Advance ;; Opt (Call F_getType) ;; Choice Break Advance) ;; Advance;
    (* getReturns *)   Choice (Advance ;; Loop (Call F_getType ;; Choice Break Advance) ;; Advance) (Opt (Call F_getType));
    (* getType *)      Next ;; OneOf [
                         Call F_getType;                                                   (* [] * ... *)
                         Advance ;; Call F_getType ;; Advance ;; Call F_getType;           (* map *)
                         Skip;                                                             (* basic types *)
                         Opt (Advance ;; Advance);                                         (* name [. name] *)
                         Advance ;; Loop (Choice Advance (Advance ;; Call F_getArgs ;; Call F_getReturns)) ;; Advance;   (* interface *)
                         Call F_getArgs ;; Call F_getReturns;                              (* func *)
                         Advance ;; Loop (Loop (Choice Advance (Advance ;; Choice Break Advance)) ;; Call F_getType) ;; Advance;  (* struct *)
                         Panic];
    (* getDecl *)      Choice Advance
                         (Advance ;; Loop (Advance ;; Advance) ;;
                          OneOf [Skip;
                                 Advance ;; Call F_Expression;
                                 Call F_getType ;; Opt (Advance ;; Call F_Expression)]);
    (* getData *)      Advance ;; Loop (Call F_Expression ;; Opt (Advance ;; Call F_Expression) ;; Choice Break Advance) ;; Advance;
    (* getCase *)      Loop (Call F_Statement)
  ] Panic.

(* what a returning call is guaranteed to consume *)
Definition goat_gain (f : nat) : Z := nth f [1; 1; 2; 1; 1; 2; 0; 1; 1; 2; 0] 0.
(* calls made before any token is consumed go to lower ranks:
   getCase > Statement > Expression > doExpression > getData (dataNud re-reads "{"), getReturns > getType *)
Definition goat_rank (f : nat) : nat := nth f [4; 3; 0; 2; 1; 0; 1; 0; 0; 0; 4]%nat 0%nat.
