(* Correspondence cases for C07: the verified checker Model/StackCheck.v check_code is run
   (vm_compute) on the REAL compiler output of generated programs and of the repository's
   test-table inputs.  A case records the code list exactly as the compiler hook returned it
   (opcode number, A, B, C; source positions dropped), the frame's slot count, the number of
   globals, the required exit depth, and the verdict the harness predicted with its unverified Go
   mirror of the checker: real code of a valid program carries [true]; mutants of real code (the
   negative control) and inputs that are not Go programs carry whatever the mirror said.  A case
   fails when the verified checker disagrees with the prediction -- for a valid program that
   means: the verified checker rejects real compiler output. *)
From Coq Require Import ZArith List Bool String.
From GV Require Import Model.VM Model.StackCheck Model.Corr.
Import ListNotations.
Open Scope Z_scope.

Definition I (c a b : Z) : instr := mkI c a b 0 0.
Definition J (c a b cc : Z) : instr := mkI c a b cc 0.

Inductive ccase :=
| CCheck (codes : list instr) (nslots nglobals : Z) (final : option Z) (expected_accept : bool)
| CReject (codes : list instr) (nslots nglobals : Z) (final : option Z) (pc depth : Z).
    (* rejected, and the diagnostic variant names this absolute pc and static depth *)

Definition run_ccase (c : ccase) : bool :=
  match c with
  | CCheck codes ns ng final acc =>
      Bool.eqb (check_code ng ns final codes) acc &&
      match check_code_diag ng ns final codes with DOk => acc | DBad _ _ _ => negb acc end
  | CReject codes ns ng final pc d =>
      negb (check_code ng ns final codes) &&
      match check_code_diag ng ns final codes with DBad pc' d' _ => (pc' =? pc) && (d' =? d) | DOk => false end
  end.

Definition xmismatches (base : Z) (cs : list ccase) : list Z := mismatches_from run_ccase base cs.
