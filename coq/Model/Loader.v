(* Loader: transcription of the two loops of /repo/load.go loadImports -- the
   discovery worklist (lines "todo := ...") and the ordering loop that hands the
   package trees to the compiler -- over an abstract file system:
   [imports p = Some l] : p is a script package whose files import l (in source order),
   [imports p = None]   : p does not exist on disk (a native package). *)
From Coq Require Import List String Bool PeanoNat Lia.
Import ListNotations.
Open Scope string_scope.

Section Loader.
  Variable imports : string -> option (list string).

  Fixpoint mem (k : string) (l : list string) : bool :=
    match l with [] => false | x :: r => String.eqb k x || mem k r end.
  Fixpoint aget {A} (k : string) (m : list (string * A)) : option A :=
    match m with [] => None | (k', v) :: r => if String.eqb k k' then Some v else aget k r end.
  Fixpoint adel {A} (k : string) (m : list (string * A)) : list (string * A) :=
    match m with [] => [] | (k', v) :: r => if String.eqb k k' then adel k r else (k', v) :: adel k r end.
  Fixpoint remove_str (k : string) (l : list string) : list string :=
    match l with [] => [] | x :: r => if String.eqb k x then remove_str k r else x :: remove_str k r end.

  (* state of the discovery loop: todo stack (top = last element in Go; here head = top),
     packages (key -> is it a script package), deps (only script packages have an entry) *)
  Record disc := mkDisc { packages : list (string * bool); deps : list (string * list string) }.

  (* for len(todo) > 0 { pkg := pop; if visited continue; load; packages[pkg] = p; deps[pkg] = {};
       for each import pk (source order) { todo = append(todo, pk); deps[pkg][pk] = true } } *)
  Fixpoint discover (fuel : nat) (todo : list string) (d : disc) : option disc :=
    match fuel with
    | O => None
    | S f =>
        match todo with
        | [] => Some d
        | pkg :: rest =>
            if mem pkg (map fst (packages d)) then discover f rest d
            else match imports pkg with
                 | None => discover f rest (mkDisc ((pkg, false) :: packages d) (deps d))
                 | Some imps =>
                     (* pushing in source order onto a stack: the last import is popped first *)
                     discover f (rev imps ++ rest) (mkDisc ((pkg, true) :: packages d) ((pkg, imps) :: deps d))
                 end
        end
    end.

  (* slices.Sort(keys): insertion sort by String.leb *)
  Fixpoint insert_sorted (k : string) (l : list string) : list string :=
    match l with
    | [] => [k]
    | x :: r => if String.leb k x then k :: l else x :: insert_sorted k r
    end.
  Definition sort_keys (l : list string) : list string := fold_right insert_sorted [] l.

  (* first key whose remaining dependency set is empty *)
  Fixpoint first_ready (keys : list string) (dp : list (string * list string)) : option string :=
    match keys with
    | [] => None
    | k :: r => match aget k dp with
                | Some (_ :: _) => first_ready r dp
                | _ => Some k               (* empty set, or no entry (native package) *)
                end
    end.

  (* for len(packages) > 0 { pkg := first ready key, or error (import cycle); delete(deps, pkg);
       for each d in deps { delete(d, pkg) }; delete(packages, pkg); remove pkg from keys; res = append(res, pkg) } *)
  Fixpoint order_loop (n : nat) (keys : list string) (dp : list (string * list string)) : option (list string) :=
    match n with
    | O => match keys with [] => Some [] | _ => None end
    | S n' =>
        match keys with
        | [] => Some []
        | _ => match first_ready keys dp with
               | None => None                                   (* import cycle *)
               | Some pkg =>
                   let dp' := map (fun e => (fst e, remove_str pkg (snd e))) (adel pkg dp) in
                   match order_loop n' (remove_str pkg keys) dp' with
                   | Some r => Some (pkg :: r)
                   | None => None
                   end
               end
        end
    end.

  Inductive load_result := LoadOk (order : list string) | LoadCycle | LoadFuel.

  (* budget for the discovery loop: one iteration per stack entry; at most 1 + (number of import
     edges of the packages visited) entries are ever pushed *)
  Definition load (budget : nat) (top : string) : load_result :=
    match discover budget [top] (mkDisc [] []) with
    | None => LoadFuel
    | Some d =>
        let keys := sort_keys (map fst (packages d)) in
        match order_loop (List.length keys) keys (deps d) with
        | Some l => LoadOk l
        | None => LoadCycle
        end
    end.
End Loader.

(* What Load then runs (compiler.go compilePkgs, vm.go Load): the package trees are compiled one after the
   other in list order and the code is concatenated; inside one package treeSort puts the init calls after the
   top-level declarations (C16).  Projected to "which package does each piece of code belong to", for a package
   with [nf p] files with top-level code and one init: *)
Definition run_events (nf : string -> nat) (order : list string) : list string :=
  flat_map (fun p => repeat p (S (nf p))) order.
