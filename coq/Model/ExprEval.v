(* ExprEval: what goatlang computes for an expression tree of the Pratt core over int32
   variables -- the opcode the compiler picks for each operator symbol (infixMap /
   prefixMap of compiler.go, regenerated into Gen/Tables_gen.v) executed as do.go does
   (binary opcodes call the Value.op* methods regenerated into Gen/ValueOps_gen.v;
   NEGATE multiplies by the untyped constant -1; BITCOMPLEMENT xors with all ones
   converted to the operand's type) -- and what Go computes for the same tree. *)
From Coq Require Import ZArith List String Bool.
From GV Require Import GoSpec.GoPrim GoSpec.GoPrec Gen.ValueOps_gen Gen.Tables_gen Model.PrattInst.
Import ListNotations.
Open Scope string_scope.
Open Scope Z_scope.

(* the Value method executed for a binary opcode constant name (do.go) *)
Definition binop_of_code (code : string) : option (value -> value -> res value) :=
  if String.eqb code "codeAdd" then Some Value_opAdd
  else if String.eqb code "codeSub" then Some (fun a b => Ok (Value_opSub a b))
  else if String.eqb code "codeMul" then Some (fun a b => Ok (Value_opMul a b))
  else if String.eqb code "codeDiv" then Some Value_opDiv
  else if String.eqb code "codeMod" then Some Value_opMod
  else if String.eqb code "codeBitAnd" then Some (fun a b => Ok (Value_opBitAnd a b))
  else if String.eqb code "codeBitOr" then Some (fun a b => Ok (Value_opBitOr a b))
  else if String.eqb code "codeBitXor" then Some (fun a b => Ok (Value_opBitXor a b))
  else if String.eqb code "codeBitLsh" then Some Value_opBitLsh
  else if String.eqb code "codeBitRsh" then Some Value_opBitRsh
  else None.

(* goatlang: compile picks infixMap[symbol]; unary "-" is NEGATE, "^" is BITCOMPLEMENT *)
Fixpoint eval_goat (env : string -> value) (t : tree) : res value :=
  match t with
  | Atom _ x => Ok (env x)
  | Paren t' => eval_goat env t'
  | Bin op l r =>
      a <- eval_goat env l ;;
      b <- eval_goat env r ;;
      match assoc op infixMap with
      | Some code => match binop_of_code code with Some f => f a b | None => Unmodelled end
      | None => Unmodelled
      end
  | Un UNeg t' =>
      a <- eval_goat env t' ;;
      Ok (Value_opMul a (fn_newUntypedInt (-1)))
  | Un UCompl t' =>
      a0 <- eval_goat env t' ;;
      let a := Value_assign a0 TypeNil in
      b <- Value_convert (fn_Uint32 4294967295) (vt a) ;;
      Ok (Value_opBitXor a b)
  | Un UNot _ => Unmodelled
  end.

(* Go: the operators of the Go specification on int32 (GoSpec/GoPrim.v) *)
Definition go_binop (op : string) : option (Z -> Z -> res Z) :=
  if String.eqb op "+" then Some (fun a b => Ok (iadd I32 a b))
  else if String.eqb op "-" then Some (fun a b => Ok (isub I32 a b))
  else if String.eqb op "*" then Some (fun a b => Ok (imul I32 a b))
  else if String.eqb op "/" then Some (iquo I32)
  else if String.eqb op "%" then Some (irem I32)
  else if String.eqb op "&" then Some (fun a b => Ok (iand I32 a b))
  else if String.eqb op "|" then Some (fun a b => Ok (ior I32 a b))
  else if String.eqb op "^" then Some (fun a b => Ok (ixor I32 a b))
  else if String.eqb op "<<" then Some (ishl I32)
  else if String.eqb op ">>" then Some (ishr I32)
  else None.
Fixpoint eval_go (env : string -> Z) (t : tree) : res Z :=
  match t with
  | Atom _ x => Ok (env x)
  | Paren t' => eval_go env t'
  | Bin op l r =>
      a <- eval_go env l ;;
      b <- eval_go env r ;;
      match go_binop op with Some f => f a b | None => Unmodelled end
  | Un UNeg t' => a <- eval_go env t' ;; Ok (ineg I32 a)
  | Un UCompl t' => a <- eval_go env t' ;; Ok (inot I32 a)
  | Un UNot _ => Unmodelled
  end.

(* expressions built from int32 variables with the arithmetic, bitwise and shift operators *)
Definition arith_ops : list string := ["+"; "-"; "*"; "/"; "%"; "&"; "|"; "^"; "<<"; ">>"].
Fixpoint arith (t : tree) : bool :=
  match t with
  | Atom is_int _ => negb is_int               (* variables only: untyped constants have their own typing rules *)
  | Paren t' => arith t'
  | Bin op l r => existsb (String.eqb op) arith_ops && arith l && arith r
  | Un UNeg t' | Un UCompl t' => arith t'
  | Un UNot _ => false
  end.
