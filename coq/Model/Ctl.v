(* Ctl -- transcription of the control-flow cases of /repo/compiler.go (optimizer off)
   over an abstract instruction set, and of the matching cases of /repo/do.go.

   Every abstract instruction stands for exactly ONE real instruction, so list
   positions, block lengths and relative jump offsets are those of the real code
   (tie: Model/CorrC06.v compares `compile` with the real compiler's output,
   instruction for instruction, on generated skeleton programs).

     emit(l)   PUSH l; GLOBALGET main.emit; CALL 1 0      (statement: 0 results)
     c(k)      PUSH k; GLOBALGET main.c;    CALL 1 1
     rs(k)     PUSH k; GLOBALGET main.rs;   CALL 1 1
     tg(k)     PUSH k; GLOBALGET main.tg;   CALL 1 1

   Jumps are relative: JUMP A does N += A and then the interpreter loop does N++
   (do.go).  BREAK and CONTINUE are placeholder opcodes which the enclosing
   for/range (both) or switch (BREAK only; case blocks and the default block)
   rewrites into JUMPs once the lengths of the surrounding blocks are known.
   Local slots are handed out by a counter that never goes back inside a
   function (lookup.Index appends, lookup.Drop does not shrink): L is the number
   of slots handed out so far. *)
From Coq Require Import ZArith List Bool.
From GV Require Import GoSpec.GoCtl.
Import ListNotations.
Open Scope Z_scope.

Inductive fn := FEmit | FCond | FLen | FTag.

Inductive cinstr :=
| CPush (z : Z)                       (* PUSH z *)
| CGet (f : fn)                       (* GLOBALGET main.emit / main.c / main.rs / main.tg *)
| CCall (nargs nrets : Z)             (* CALL nargs nrets *)
| CLocalSet (v : nat)                 (* LOCALSET $v *)
| CLocalGet (v : nat)                 (* LOCALGET $v *)
| CEq                                 (* EQ *)
| CJump (d : Z)                       (* JUMP d *)
| CJumpFalse (d : Z)                  (* JUMPFALSE d *)
| CJumpTrue (d : Z)                   (* JUMPTRUE d *)
| COr (d : Z)                         (* OR d *)
| CRange (r : nat) (d : Z)            (* RANGE $r d *)
| CIter (r k v : nat) (d : Z)         (* ITER $r $k:$v d *)
| CReturn (n : Z)                     (* RETURN n *)
| CBreak                              (* BREAK placeholder *)
| CContinue.                          (* CONTINUE placeholder *)

Definition code := list cinstr.
Definition len (c : code) : Z := Z.of_nat (length c).

(* ---- compiler ---------------------------------------------------------- *)

Definition c_call (f : fn) (k : Z) (nrets : Z) : code := [CPush k; CGet f; CCall 1 nrets].
Definition c_emit (l : Z) : code := c_call FEmit l 0.
Definition c_cond (k : Z) : code := c_call FCond k 1.
Definition c_len (k : Z) : code := c_call FLen k 1.
Definition c_tag (k : Z) : code := c_call FTag k 1.
Definition c_simple (o : option Z) : code := match o with Some l => c_emit l | None => [] end.
Definition c_optcond (o : option Z) : code := match o with Some k => c_cond k | None => [] end.

(* `for n, ins := range block { switch ins.Code { case codeBreak: ... case codeContinue: ... } }`:
   brk n / cnt n give the A operand of the JUMP replacing a placeholder found at index n *)
Fixpoint rewrite (brk cnt : Z -> option Z) (n : Z) (b : code) : code :=
  match b with
  | [] => []
  | i :: r =>
      (match i with
       | CBreak => match brk n with Some d => CJump d | None => i end
       | CContinue => match cnt n with Some d => CJump d | None => i end
       | _ => i
       end) :: rewrite brk cnt (n + 1) r
  end.

(* number of local slots a statement allocates: range takes two (the iterator and the shared
   blank key/value slot), a tagged switch one (the tag) *)
Fixpoint slots (s : stmt) : nat :=
  match s with
  | If _ _ t e => slots_block t + slots_block e
  | For _ _ _ b => slots_block b
  | Range _ b => 2 + slots_block b
  | Switch tag cs _ d => (match tag with Some _ => 1 | None => 0 end) + slots_block d + slots_cases cs
  | _ => 0
  end
with slots_block (b : block) : nat :=
  match b with BNil => 0 | BCons s b' => slots s + slots_block b' end
with slots_cases (cs : cases) : nat :=
  match cs with CNil => 0 | CCons _ _ b cs' => slots_block b + slots_cases cs' end.

(* one alternative of a case clause: tagged `v; LOCALGET tag; EQ`, tagless the condition itself *)
Definition one_guard (isv : bool) (v : nat) (g : Z) : code :=
  if isv then [CPush g; CLocalGet v; CEq] else c_cond g.
(* further alternatives: OR len(one) keeps a true verdict and skips the alternative *)
Fixpoint more_guards (isv : bool) (v : nat) (gs : list Z) : code :=
  match gs with
  | [] => []
  | g :: r => (COr (len (one_guard isv v g)) :: one_guard isv v g) ++ more_guards isv v r
  end.
Definition guards (isv : bool) (v : nat) (g : Z) (gs : list Z) : code :=
  one_guard isv v g ++ more_guards isv v gs.

Fixpoint compile (L : nat) (s : stmt) : code :=
  match s with
  | Emit l => c_emit l
  | Break => [CBreak]
  | Continue => [CContinue]
  | Return => [CReturn 0]
  | If init c thn els =>                                   (* case "if" *)
      let thenI := compile_block L thn in
      let elseI := compile_block (L + slots_block thn)%nat els in
      c_simple init ++ c_cond c ++
      (if len elseI =? 0 then CJumpFalse (len thenI) :: thenI
       else CJumpFalse (len thenI + 1) :: thenI ++ CJump (len elseI) :: elseI)
  | For init cond post body =>                             (* case "for" *)
      let cnd := c_optcond cond in
      let block := compile_block L body in
      let pst := c_simple post in
      c_simple init ++
      (if 0 <? len cnd then [CJump (len block + len pst)] else []) ++
      rewrite (fun n => Some (len block - n + len pst + len cnd)) (fun n => Some (len block - n - 1)) 0 block ++
      pst ++
      (if 0 <? len cnd then cnd ++ [CJumpTrue (- (len block + len pst + len cnd + 1))]
       else [CJump (- (len block + len pst + 1))])
  | Range k body =>                                        (* case "range" *)
      let r := L in
      let kv := (L + 1)%nat in
      let block := compile_block (L + 2)%nat body in
      c_len k ++ [CRange r (len block)] ++
      rewrite (fun n => Some (len block - n)) (fun n => Some (len block - n - 1)) 0 block ++
      [CIter r kv kv (- (len block + 1))]
  | Switch tag cs _ dflt =>                                (* case "switch" *)
      let stmt := match tag with Some k => c_tag k ++ [CLocalSet L] | None => [] end in
      let isv := match tag with Some _ => true | None => false end in
      let L1 := if isv then (L + 1)%nat else L in
      let def0 := compile_block L1 dflt in
      let defBlock := rewrite (fun n => Some (len def0 - n - 1)) (fun _ => None) 0 def0 in
      let out := compile_cases isv L (L1 + slots_block dflt)%nat (len defBlock) cs in
      stmt ++ out ++ defBlock
  end
with compile_block (L : nat) (b : block) : code :=
  match b with
  | BNil => []
  | BCons s b' => compile L s ++ compile_block (L + slots s)%nat b'
  end
(* `for i := len(cases)-1; i >= 0; i--`: the later cases are compiled first (they get the lower
   slots) and each chunk is put in front of what was produced so far *)
with compile_cases (isv : bool) (v : nat) (L : nat) (ldef : Z) (cs : cases) : code :=
  match cs with
  | CNil => []
  | CCons g gs body cs' =>
      let out := compile_cases isv v L ldef cs' in
      let cs0 := compile_block (L + slots_cases cs')%nat body in
      let csBlock := rewrite (fun n => Some (len cs0 - n + len out + ldef)) (fun _ => None) 0 cs0 in
      guards isv v g gs ++ [CJumpFalse (len csBlock + 1)] ++ csBlock ++ [CJump (len out + ldef)] ++ out
  end.

(* a function body `func t() { s }` *)
Definition compile_ctl (b : block) : code := compile_block 0 b.

(* ---- machine (do.go) ---------------------------------------------------- *)

Inductive sval :=
| SInt (z : Z)            (* an int *)
| SBool (b : bool)
| SFn (f : fn)            (* one of the four functions of the skeleton program *)
| SLen (n : nat)          (* a slice of length n *)
| SCount (n : nat)        (* a range iterator with n elements left *)
| SJunk.                  (* anything else (zero slot, key/value of a blank range) *)

Record cfg := mkCfg { pc : Z; ctr : trace; stk : list sval; sl : nat -> sval }.

Definition upd (s : nat -> sval) (i : nat) (x : sval) : nat -> sval :=
  fun j => if Nat.eqb j i then x else s j.

Definition fetch (C : code) (p : Z) : option cinstr :=
  if p <? 0 then None else nth_error C (Z.to_nat p).

Inductive sres :=
| Next (c : cfg)          (* executed one instruction *)
| Returned (c : cfg)      (* executed RETURN *)
| Stuck.                  (* run-time error (or placeholder opcode: "unknown code") *)

Section Machine.
  Variable orc : oracle.

  Definition step (C : code) (c : cfg) : sres :=
    let p := pc c in
    match fetch C p with
    | None => Stuck
    | Some i =>
      match i with
      | CPush z => Next (mkCfg (p + 1) (ctr c) (SInt z :: stk c) (sl c))
      | CGet f => Next (mkCfg (p + 1) (ctr c) (SFn f :: stk c) (sl c))
      | CCall nargs nrets =>
          match stk c with
          | SFn f :: SInt k :: rest =>
              if negb (nargs =? 1) then Stuck else
              match f with
              | FEmit => if nrets =? 0 then Next (mkCfg (p + 1) (EvEmit k :: ctr c) rest (sl c)) else Stuck   (* "incorrect returns" *)
              | FCond => if nrets =? 1 then Next (mkCfg (p + 1) (EvCond k :: ctr c) (SBool (o_cond orc (ctr c) k) :: rest) (sl c)) else Stuck
              | FLen => if nrets =? 1 then Next (mkCfg (p + 1) (EvRange k :: ctr c) (SLen (o_len orc (ctr c) k) :: rest) (sl c)) else Stuck
              | FTag => if nrets =? 1 then Next (mkCfg (p + 1) (EvTag k :: ctr c) (SInt (o_tag orc (ctr c) k) :: rest) (sl c)) else Stuck
              end
          | _ => Stuck
          end
      | CLocalSet v =>
          match stk c with
          | x :: rest => Next (mkCfg (p + 1) (ctr c) rest (upd (sl c) v x))
          | _ => Stuck
          end
      | CLocalGet v => Next (mkCfg (p + 1) (ctr c) (sl c v :: stk c) (sl c))
      | CEq =>
          match stk c with
          | SInt b :: SInt a :: rest => Next (mkCfg (p + 1) (ctr c) (SBool (a =? b) :: rest) (sl c))
          | _ => Stuck
          end
      | CJump d => Next (mkCfg (p + d + 1) (ctr c) (stk c) (sl c))
      | CJumpFalse d =>
          match stk c with
          | SBool b :: rest => Next (mkCfg (if b then p + 1 else p + d + 1) (ctr c) rest (sl c))
          | _ => Stuck
          end
      | CJumpTrue d =>
          match stk c with
          | SBool b :: rest => Next (mkCfg (if b then p + d + 1 else p + 1) (ctr c) rest (sl c))
          | _ => Stuck
          end
      | COr d =>
          match stk c with
          | SBool b :: rest => if b then Next (mkCfg (p + d + 1) (ctr c) (stk c) (sl c))
                               else Next (mkCfg (p + 1) (ctr c) rest (sl c))
          | _ => Stuck
          end
      | CRange r d =>
          match stk c with
          | SLen n :: rest => Next (mkCfg (p + d + 1) (ctr c) rest (upd (sl c) r (SCount n)))
          | _ => Stuck
          end
      | CIter r k v d =>
          match sl c r with
          | SCount (S n) => Next (mkCfg (p + d + 1) (ctr c) (stk c) (upd (upd (upd (sl c) r (SCount n)) k SJunk) v SJunk))
          | SCount O => Next (mkCfg (p + 1) (ctr c) (stk c) (sl c))
          | _ => Stuck
          end
      | CReturn _ => Returned c
      | CBreak | CContinue => Stuck
      end
    end.

  Inductive result :=
  | Finished (t : trace) (s : list sval)     (* ran off the end of the code: N >= len(codes) *)
  | Ret_at (p : Z) (t : trace) (s : list sval)  (* RETURN executed at p *)
  | Error (p : Z)
  | OutOfFuel.

  Fixpoint run (fuel : nat) (C : code) (c : cfg) : result :=
    match fuel with O => OutOfFuel | S f =>
    if len C <=? pc c then Finished (ctr c) (stk c) else
    match step C c with
    | Next c' => run f C c'
    | Returned c' => Ret_at (pc c') (ctr c') (stk c')
    | Stuck => Error (pc c)
    end end.

  Definition init_cfg : cfg := mkCfg 0 [] [] (fun _ => SJunk).
End Machine.
