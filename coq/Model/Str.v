(* Str: executable transcription of goatlang's string operations
   (value.go: stringT Get/Len/Slice/Range/Set, Value.Get/Len/Slice/Range,
   Value.convert string/slice cases, Value.data; do.go: codeGet, codeFastGetInt,
   codeLen, codeSlice incl. the nil = omitted-upper-bound rule, codeRange /
   codeIter, codeConvert, codeCopy; token.go: token.Char, token.Unquote;
   compiler.go cases "(char)" and "(string)").

   A Go string is a byte list (list Z, bytes 0..255).  The Go primitives the
   code is written with -- s[i], s[i:j], len(s), `for i, r := range s`,
   string(rune), []byte(s), string(bytes), copy -- are given their Go meaning
   by the definitions of section "Go primitives" below and GoSpec/Utf8.v
   (validated against the real Go runtime by `harness c13-corr`).  Run-time
   panics are explicit [Panic] results.  Comparison and concatenation are the
   generated Value_opLt / Value_opLte / Value_opEq / Value_opAdd of
   Gen/ValueOps_gen.v (not restated here). *)
From Coq Require Import ZArith List Bool.
From GV Require Import GoSpec.GoPrim GoSpec.Utf8 Gen.ValueOps_gen.
Import ListNotations.
Open Scope Z_scope.

(* ---- Go primitives on strings / byte slices ------------------------------- *)

Definition blen {A} (s : list A) : Z := Z.of_nat (length s).

(* s[i]: run-time panic "index out of range" unless 0 <= i < len(s) *)
Definition go_index (s : list Z) (i : Z) : res Z :=
  if (i <? 0) || (blen s <=? i) then Panic else Ok (nth (Z.to_nat i) s 0).

(* s[i:j]: run-time panic "slice bounds out of range" unless 0 <= i <= j <= len(s) *)
Definition go_slice {A} (s : list A) (i j : Z) : res (list A) :=
  if (i <? 0) || (j <? i) || (blen s <? j) then Panic
  else Ok (firstn (Z.to_nat (j - i)) (skipn (Z.to_nat i) s)).

(* copy(dst, src): overwrites the first min(len(dst), len(src)) elements of dst *)
Definition go_copy {A} (dst src : list A) : list A :=
  let n := Nat.min (length dst) (length src) in (firstn n src ++ skipn n dst)%list.

(* ---- value.go: stringT ------------------------------------------------------ *)

(* func (s stringT) Get(a Value) (Value, bool) { return Uint8(s[a.Int()]), true } *)
Definition stringT_Get (s : list Z) (a : value) : res (value * bool) :=
  b <- go_index s (Value_Int a) ;;
  Ok (fn_Uint8 b, true).

(* func (s stringT) Set(k, v Value) { panic("unsupported") } -- likewise Append, Delete, GetAttr, SetAttr *)
Definition stringT_Set (s : list Z) (k v : value) : res unit := Panic.

(* func (s stringT) Len() int { return len(s) } *)
Definition stringT_Len (s : list Z) : Z := blen s.

(* func (s stringT) Slice(i, j int) Value { return String(string(s[i:j])) } *)
Definition stringT_Slice (s : list Z) (i j : Z) : res value :=
  r <- go_slice s i j ;;
  Ok (fn_String r).

(* func (s stringT) Range(): the loop `for i, v := range s` fills r (runes) and
   offsets (byte offsets) -- Go's range statement is Utf8.go_range; the closure
   returned walks them with the counter n *)
Record str_iter := mkIter { it_r : list Z; it_offsets : list Z; it_n : nat }.

Definition stringT_Range (s : list Z) : str_iter :=
  mkIter (map snd (go_range s)) (map fst (go_range s)) 0.

(* the closure: if n >= len(r) { return Nil(), Nil(), false }; k, v := Int(offsets[n]), r[n]; n++; return k, Int32(v), true *)
Definition iter_next (it : str_iter) : (value * value * bool) * str_iter :=
  if (length (it_r it) <=? it_n it)%nat then ((fn_Nil, fn_Nil, false), it)
  else ((fn_Int (nth (it_n it) (it_offsets it) 0), fn_Int32 (nth (it_n it) (it_r it) 0), true),
        mkIter (it_r it) (it_offsets it) (S (it_n it))).

(* ---- value.go: Value wrappers (receiver holding a string object) ------------- *)

(* func (v Value) Get(key Value): v.value != nil -> v.value.Get(key) *)
Definition Value_Get (v key : value) : res (value * bool) :=
  match vval v with
  | PStr s => stringT_Get s key
  | _ => Unmodelled                       (* slices, maps, structs: other properties *)
  end.

(* func (v Value) Len() int *)
Definition Value_Len (v : value) : res Z :=
  match vval v with
  | PStr s => Ok (stringT_Len s)
  | PNone => Ok 0
  | PRef _ => Unmodelled
  end.

(* func (v Value) Slice(i, j int) Value: v.value != nil -> v.value.Slice(i, j) *)
Definition Value_Slice (v : value) (i j : Z) : res value :=
  match vval v with
  | PStr s => stringT_Slice s i j
  | _ => Unmodelled
  end.

Definition Value_Set (v k x : value) : res unit :=
  match vval v with
  | PStr s => stringT_Set s k x
  | _ => Unmodelled
  end.

(* ---- value.go: Value.convert, the cases the translator leaves Unmodelled ------- *)

(* case TypeSlice, operand not a slice:
     data := []byte(v.String()); s[k] = Byte(data[k]); return newSlice(TypeUint8, s)
   result: (type tag of the slice, its elements) *)
Definition convert_to_slice (v : value) : res (Z * list value) :=
  if Type_base (vt v) =? TypeSlice then Unmodelled      (* returns the operand itself *)
  else if vt v =? TypeString then
    s <- as_str (vval v) ;;
    Ok (fn_sliceType TypeUint8, map fn_Byte s)
  else Unmodelled.                                      (* v.String() of a non-string: fmt *)

(* case TypeString, operand neither string nor numeric:
     data := v.data(); b[k] = byte(data[k].num); return String(string(b)) *)
Definition convert_data_to_string (data : list value) : value :=
  fn_String (map (fun e => cvt U8 (vnum e)) data).

(* string(x) for string / numeric operands is the generated Value_convert v TypeString *)
Definition convert_to_string (v : value) : res value := Value_convert v TypeString.

(* ---- do.go ------------------------------------------------------------------------ *)

(* case codeGet: v.stack[top], _ = r.Get(k) *)
Definition code_get (r k : value) : res value :=
  p <- Value_Get r k ;; Ok (fst p).

(* case codeFastGetInt: val, _ := r.Get(Int(int(i.B))) *)
Definition code_fast_get_int (r : value) (b : Z) : res value := code_get r (fn_Int b).

(* case codeLen: if r.value != nil { Int(r.Len()) } else { Int(0) } *)
Definition code_len (r : value) : res value :=
  if payload_is_nil (vval r) then Ok (fn_Int 0)
  else n <- Value_Len r ;; Ok (fn_Int n).

(* case codeSlice: i, j := a.Int(), b.Int(); if b.t == TypeNil { j = r.Len() }; r.Slice(i, j) *)
Definition code_slice (r a b : value) : res value :=
  let i := Value_Int a in
  j <- (if vt b =? TypeNil then Value_Len r else Ok (Value_Int b)) ;;
  Value_Slice r i j.

(* case codeRange + codeIter over a string: the loop body sees (key, value) for every
   successful next(); the loop ends at the first ok = false *)
Fixpoint iter_all (fuel : nat) (it : str_iter) : list (value * value) :=
  match fuel with
  | O => []
  | S f => let '((k, v, ok), it') := iter_next it in
           if ok then (k, v) :: iter_all f it' else []
  end.
Definition code_range_string (s : list Z) : list (value * value) :=
  iter_all (S (length s)) (stringT_Range s).

(* case codeCopy with a string source: copy(a.data(), b.convert(TypeSlice).data()) *)
Definition code_copy_string (dst : list value) (b : value) : res (list value) :=
  src <- convert_to_slice b ;;
  Ok (go_copy dst (snd src)).

(* ---- token.go / compiler.go: literals ------------------------------------------------ *)

Section Literals.
  (* strconv.Unquote(s): None = error *)
  Variable unquote : list Z -> option (list Z).
  (* strconv.UnquoteChar(s, quote) = (value, multibyte, tail); None = error *)
  Variable unquoteChar : list Z -> Z -> option (Z * bool * list Z).

  (* func (t *token) Char() rune {
       value, _, _, _ := strconv.UnquoteChar(t.Text[1:len(t.Text)-1], '\'')
       return value }            -- the error is dropped: value is then 0 *)
  Definition token_Char (text : list Z) : res Z :=
    body <- go_slice text 1 (blen text - 1) ;;
    match unquoteChar body 39 with
    | Some (v, _, _) => Ok v
    | None => Ok 0
    end.

  (* func (t *token) Unquote() string: panicf on error *)
  Definition token_Unquote (text : list Z) : res (list Z) :=
    match unquote text with Some v => Ok v | None => Panic end.

  (* compiler.go "(char)": codePush A: reg(tok.Char()); exec codePush: newUntypedInt(A) *)
  Definition compile_char (text : list Z) : res value :=
    v <- token_Char text ;; Ok (fn_newUntypedInt v).

  (* compiler.go "(string)": String(tok.Unquote()) *)
  Definition compile_string (text : list Z) : res value :=
    s <- token_Unquote text ;; Ok (fn_String s).
End Literals.
