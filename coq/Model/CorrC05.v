(* Correspondence cases for the expression core: token list + the tree dump the
   real parser produced ("ERR" when it reported an error). *)
From Coq Require Import ZArith List String Bool.
From GV Require Import GoSpec.GoPrec Model.Pratt Model.PrattInst Model.Corr.
Import ListNotations.
Open Scope string_scope.

Inductive pcase := CParse (ts : list tok) (observed : string).

Definition run_pcase (c : pcase) : bool :=
  match c with
  | CParse ts obs =>
      match goat_parse ts with
      | inl (t, []) => String.eqb (dump t) obs
      | inl (_, _ :: _) => false
      | inr _ => String.eqb obs "ERR"
      end
  end.
Definition pmismatches (base : Z) (cs : list pcase) : list Z := mismatches_from run_pcase base cs.
