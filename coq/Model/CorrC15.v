(* Correspondence for the loader order (C15) and for treeSort (C16). *)
From Coq Require Import ZArith List String Bool.
From GV Require Import Model.Loader Model.TreeSort Model.Corr Gen.Tables_gen.
Import ListNotations.
Open Scope string_scope.

(* graph: script packages with their imports; everything else is native *)
Inductive lcase :=
  | CLoad (graph : list (string * list string)) (top : string) (observed : option (list string))
  (* files: number of files with top-level code per script package; observed: the package of EVERY marker line
     (top-level code of each file, init) in the order the lines were printed *)
  | CLoadE (graph : list (string * list string)) (files : list (string * nat)) (top : string) (observed : list string).

Definition imports_of (g : list (string * list string)) (p : string) : option (list string) := aget p g.
Fixpoint strs_eqb (a b : list string) : bool :=
  match a, b with [], [] => true | x :: a', y :: b' => String.eqb x y && strs_eqb a' b' | _, _ => false end.

Definition run_lcase (c : lcase) : bool :=
  match c with
  | CLoad g top obs =>
      let budget := S (List.length g + fold_right (fun e n => List.length (snd e) + n)%nat 0%nat g) in
      match load (imports_of g) budget top, obs with
      | LoadOk l, Some o =>
          (* the observation lists the script packages in the order their top-level code ran *)
          strs_eqb (filter (fun p => match aget p g with Some _ => true | None => false end) l) o
      | LoadCycle, None => true
      | _, _ => false
      end
  | CLoadE g files top obs =>
      let budget := S (List.length g + fold_right (fun e n => List.length (snd e) + n)%nat 0%nat g) in
      match load (imports_of g) budget top with
      | LoadOk l =>
          strs_eqb (run_events (fun p => match aget p files with Some n => n | None => 0%nat end)
                      (filter (fun p => match aget p g with Some _ => true | None => false end) l)) obs
      | _ => false
      end
  end.
Definition lmismatches (base : Z) (cs : list lcase) : list Z := mismatches_from run_lcase base cs.

(* treeSort: nodes = (symbol, id); observed = ids in sorted order *)
Inductive tcase := CSort (nodes : list (string * Z)) (observed : list Z).
Fixpoint zs_eqb (a b : list Z) : bool :=
  match a, b with [], [] => true | x :: a', y :: b' => Z.eqb x y && zs_eqb a' b' | _, _ => false end.
Definition node_prio (n : string * Z) : Z :=
  let p := prio_of priority (fst n) in if priority_desc then p else (- p)%Z.
Definition run_tcase (c : tcase) : bool :=
  match c with
  | CSort nodes obs => zs_eqb (map snd (tree_sort node_prio nodes)) obs
  end.
Definition tmismatches (base : Z) (cs : list tcase) : list Z := mismatches_from run_tcase base cs.
