(* The Pratt core instantiated with the table regenerated from symbol.go. *)
From Coq Require Import ZArith List String Bool.
From GV Require Import GoSpec.GoPrec Model.Pratt Gen.Tables_gen.
Import ListNotations.
Open Scope string_scope.
Open Scope Z_scope.

Fixpoint assoc {A} (k : string) (l : list (string * A)) : option A :=
  match l with
  | [] => None
  | (k', v) :: l' => if String.eqb k k' then Some v else assoc k l'
  end.

Definition lbp_of (s : string) : Z :=
  match assoc s symbols with Some (l, _, _) => l | None => 0 end.
Definition led_of (s : string) : string :=
  match assoc s symbols with Some (_, _, l) => l | None => "" end.
Definition nud_of (s : string) : string :=
  match assoc s symbols with Some (_, n, _) => n | None => "" end.
(* binary operators of the expression core: in Go's operator set and handled by ledInfix *)
Definition infix_of (s : string) : bool :=
  existsb (String.eqb s) binops && String.eqb (led_of s) "ledInfix".
Definition rbp_of (o : option Z) (sym : string) : Z :=
  match o with Some n => n | None => lbp_of sym end.
Definition neg_bp := rbp_of negate_rbp "-".
Definition compl_bp := rbp_of complement_rbp "^".
Definition not_bp := rbp_of not_rbp "!".

Definition goat_parse (ts : list tok) : (tree * list tok) + perr :=
  parse lbp_of infix_of neg_bp compl_bp not_bp commaBP ts.

(* decidable table conditions (evaluated by vm_compute on the generated table) *)
Definition table_ok_b : bool :=
  forallb (fun o => infix_of o) binops &&
  forallb (fun o1 => forallb (fun o2 => Bool.eqb (lbp_of o1 <? lbp_of o2) (go_prec o1 <? go_prec o2)) binops) binops &&
  forallb (fun o => (0 <? lbp_of o) && (commaBP <? lbp_of o) && (lbp_of o <=? neg_bp) && (lbp_of o <=? compl_bp) && (lbp_of o <=? not_bp)) binops &&
  (lbp_of ")" =? 0) &&
  String.eqb (nud_of "-") "negateNud" && String.eqb (nud_of "^") "complementNud" && String.eqb (nud_of "!") "notNud" &&
  String.eqb (nud_of "(") "parenNud" &&
  (* postfix forms bind tighter than the prefix operators: -a.b, -f(x), -a[i] *)
  forallb (fun p => (neg_bp <? lbp_of p) && (compl_bp <? lbp_of p) && (not_bp <? lbp_of p)) ["."; "("; "["].
