(* Reload: the "reload machine" -- what loading a package into a VM that already
   ran an earlier version of it does to function objects, struct type objects,
   instances and package-level variables.  Transcribed from /repo:

     do.go      codeGlobalFunc, codeGlobalZero, codeGlobalSet, codeGlobalStruct,
                codeSetMethod, codeNewStruct, codeGetAttr, codeSetAttr
     value.go   funcT, structT, newStructByIndex, structT.GetIndex / SetIndex,
                newMethod, addField, syncFields, addMethod, Value.IsNil
     lookup.go  Read / Write / Assign (the global store vm.globals)
     intmap.go  Set (insert or replace) / Assign (replace only when present)
     vm.go      Load: compile all packages, run the top-level code again
     tree.go    treeSort: type (80) > method (60) > function (50) > var (0)

   Object identity is what matters: a Go pointer is an address into one of three
   heaps (function objects, struct type objects, struct instances); heaps only
   grow (no garbage collection: unreachable objects are unobservable).

   Names are indices of the VM's global lookup (vm.globals): a key keeps its index
   for the life of the VM, field and method names are looked up under their bare
   name, so a `name` below is exactly the register the real instruction carries. *)
From Coq Require Import ZArith List Bool Lia.
Import ListNotations.
Open Scope Z_scope.

Definition name := Z.
Definition addr := nat.
Definition body := Z.      (* identifies one compiled function body (funcT.Value, a closure over a code slice) *)

(* Value: scalars carry no pointer; the three reference kinds carry Value.value *)
Inductive val :=
| VNil                     (* Value{} and typed nils: IsNil() = true *)
| VInt (z : Z)
| VFunc (a : addr)         (* *funcT *)
| VType (a : addr)         (* *structT stored by GLOBALSTRUCT: the type object *)
| VInst (a : addr).        (* *structT made by NEWSTRUCT: an instance *)

(* contents of a funcT.  newMethod(obj, f) builds a NEW funcT whose closure holds the
   receiver and the POINTER f, and calls f.Value when invoked: FBound recv f *)
Inductive fobj :=
| FBody (b : body)
| FBound (recv : addr) (f : addr).

(* structT of a type: Fields = default field values, Methods = *intMap shared with every instance *)
Record tyobj := mkTy { tfields : list (name * val); tmethods : list (name * val) }.
(* structT of an instance: its own copy of Fields; Lookup/Methods pointers shared with the type object *)
Record iobj := mkInst { ity : addr; ifields : list (name * val) }.

Record state := mkState {
  funcs : list fobj;
  types : list tyobj;
  insts : list iobj;
  globals : list (name * val);        (* lookup.data through keyToIndex; absent = Value{} *)
  slots : list val                    (* Values the host keeps (vm.Get / results of vm.Call) *)
}.
Definition init_state : state := mkState [] [] [] [] [].

(* ---- association lists: intMap / lookup --------------------------------- *)
Fixpoint lookup {V} (k : name) (l : list (name * V)) : option V :=
  match l with
  | [] => None
  | (k', v) :: r => if k =? k' then Some v else lookup k r
  end.
(* intMap.Set, lookup.Write: replace or insert *)
Fixpoint upsert {V} (k : name) (v : V) (l : list (name * V)) : list (name * V) :=
  match l with
  | [] => [(k, v)]
  | (k', v') :: r => if k =? k' then (k', v) :: r else (k', v') :: upsert k v r
  end.
(* intMap.Assign: replace when present, otherwise nothing happens *)
Fixpoint assign {V} (k : name) (v : V) (l : list (name * V)) : list (name * V) :=
  match l with
  | [] => []
  | (k', v') :: r => if k =? k' then (k', v) :: r else (k', v') :: assign k v r
  end.
(* heap update in place *)
Fixpoint upd {A} (l : list A) (n : nat) (x : A) : list A :=
  match l, n with
  | [], _ => []
  | _ :: r, O => x :: r
  | y :: r, S n' => y :: upd r n' x
  end.

Definition gget (st : state) (n : name) : val :=
  match lookup n (globals st) with Some v => v | None => VNil end.
Definition is_nil (v : val) : bool := match v with VNil => true | _ => false end.

Definition set_funcs (st : state) (f : list fobj) := mkState f (types st) (insts st) (globals st) (slots st).
Definition set_types (st : state) (t : list tyobj) := mkState (funcs st) t (insts st) (globals st) (slots st).
Definition set_insts (st : state) (i : list iobj) := mkState (funcs st) (types st) i (globals st) (slots st).
Definition set_globals (st : state) (g : list (name * val)) := mkState (funcs st) (types st) (insts st) g (slots st).
Definition set_slots (st : state) (s : list val) := mkState (funcs st) (types st) (insts st) (globals st) s.
Definition gset (st : state) (n : name) (v : val) := set_globals st (upsert n v (globals st)).

(* ---- paths, expressions --------------------------------------------------- *)
Inductive path :=
| PGlobal (n : name)               (* GLOBALGET n / vm.Get *)
| PSlot (k : nat)                  (* a Value kept by the host *)
| PAttr (p : path) (a : name).     (* GETATTR a / Value.GetAttr *)

(* structT.GetIndex(k): a field if Fields has k; otherwise newMethod(s, Methods[k].getFunc()),
   a fresh function object on EVERY access; raw.getFunc() panics when there is no such method *)
Definition get_index (st : state) (i : addr) (a : name) : option (state * val) :=
  match nth_error (insts st) i with
  | None => None
  | Some o =>
      match lookup a (ifields o) with
      | Some v => Some (st, v)
      | None =>
          match nth_error (types st) (ity o) with
          | None => None
          | Some t =>
              match lookup a (tmethods t) with
              | Some (VFunc f) => Some (set_funcs st (funcs st ++ [FBound i f]), VFunc (length (funcs st)))
              | _ => None
              end
          end
      end
  end.

Fixpoint eval_path (st : state) (p : path) : option (state * val) :=
  match p with
  | PGlobal n => Some (st, gget st n)
  | PSlot k => match nth_error (slots st) k with Some v => Some (st, v) | None => None end
  | PAttr q a =>
      match eval_path st q with
      | Some (st1, VInst i) => get_index st1 i a
      | _ => None                       (* nil receiver: run-time panic; other receivers are not modelled *)
      end
  end.

Inductive arg := AConst (z : Z) | APath (p : path).
Inductive expr :=
| EArg (a : arg)
| ENew (t : name) (fs : list (name * arg)).     (* &T{a: x, ...}: NEWSTRUCT T n *)

Definition eval_arg (st : state) (a : arg) : option (state * val) :=
  match a with
  | AConst z => Some (st, VInt z)
  | APath p => eval_path st p
  end.
(* the field values are pushed left to right before NEWSTRUCT *)
Fixpoint eval_args (st : state) (fs : list (name * arg)) : option (state * list (name * val)) :=
  match fs with
  | [] => Some (st, [])
  | (k, a) :: r =>
      match eval_arg st a with
      | Some (st1, v) =>
          match eval_args st1 r with
          | Some (st2, vs) => Some (st2, (k, v) :: vs)
          | None => None
          end
      | None => None
      end
  end.
(* newStructByIndex(base, data): Fields = base.Fields.Copy(); SetIndex(k, v) for each pair (Assign: only existing fields) *)
Definition set_fields (fields : list (name * val)) (vs : list (name * val)) : list (name * val) :=
  fold_left (fun acc kv => assign (fst kv) (snd kv) acc) vs fields.
Definition eval_expr (st : state) (e : expr) : option (state * val) :=
  match e with
  | EArg a => eval_arg st a
  | ENew t fs =>
      match eval_args st fs with
      | Some (st1, vs) =>
          match gget st1 t with
          | VType ta =>
              match nth_error (types st1) ta with
              | Some ty => Some (set_insts st1 (insts st1 ++ [mkInst ta (set_fields (tfields ty) vs)]), VInst (length (insts st1)))
              | None => None
              end
          | _ => None
          end
      | None => None
      end
  end.

(* ---- the top-level instructions that matter ------------------------------- *)
Inductive instr :=
| GlobalStruct (t : name) (fields : list (name * val))   (* GLOBALREF k; ZERO ty; ...; STRUCT 2n; GLOBALSTRUCT t *)
| SetMethod (t : name) (m : name) (b : body)             (* FUNC ...; GLOBALGET t; SETMETHOD m *)
| GlobalFunc (n : name) (b : body)                       (* FUNC ...; GLOBALFUNC n *)
| GlobalZero (n : name) (zero : val)                     (* GLOBALZERO n ty *)
| GlobalSet (n : name) (e : expr).                       (* <e>; GLOBALSET n *)

(* `*f = *val`: the existing function object gets the new contents; the funcT that FUNC had just
   allocated for `val` is dropped at once (never stored anywhere), so it is not given an address *)
Definition overwrite (st : state) (a : addr) (b : body) : option state :=
  if (a <? length (funcs st))%nat then Some (set_funcs st (upd (funcs st) a (FBody b))) else None.

Definition exec_instr (st : state) (i : instr) : option state :=
  match i with
  | GlobalFunc n b =>
      match gget st n with
      | VNil => Some (gset (set_funcs st (funcs st ++ [FBody b])) n (VFunc (length (funcs st))))
      | VFunc a => overwrite st a b
      | _ => None                                        (* fnc.value.( *funcT) panics *)
      end
  | GlobalZero n z =>
      if is_nil (gget st n) then Some (gset st n z) else Some st
  | GlobalSet n e =>
      match eval_expr st e with
      | Some (st1, v) => Some (gset st1 n v)
      | None => None
      end
  | GlobalStruct t fields =>
      match gget st t with
      | VNil => Some (gset (set_types st (types st ++ [mkTy fields []])) t (VType (length (types st))))
      | VType ta =>                                      (* prev.syncFields(cur): addField for every field of cur *)
          match nth_error (types st) ta with
          | Some ty => Some (set_types st (upd (types st) ta
                          (mkTy (fold_left (fun acc kv => upsert (fst kv) (snd kv) acc) fields (tfields ty)) (tmethods ty))))
          | None => None
          end
      | _ => None
      end
  | SetMethod t m b =>
      match gget st t with
      | VType ta =>
          match nth_error (types st) ta with
          | Some ty =>
              match lookup m (tmethods ty) with
              | Some (VFunc a) => overwrite st a b       (* addMethod: *f = *val.value.( *funcT) *)
              | _ => Some (set_types (set_funcs st (funcs st ++ [FBody b])) (upd (types st) ta
                             (mkTy (tfields ty) (upsert m (VFunc (length (funcs st))) (tmethods ty)))))
              end
          | None => None
          end
      | _ => None                                        (* v.value.( *structT) panics *)
      end
  end.

Fixpoint exec_list (st : state) (is : list instr) : option state :=
  match is with
  | [] => Some st
  | i :: r => match exec_instr st i with Some st1 => exec_list st1 r | None => None end
  end.

(* ---- histories ---------------------------------------------------------------- *)
Inductive loc :=
| LSlot                              (* the host keeps the Value *)
| LGlobal (n : name)                 (* GLOBALSET from a script / vm.Set *)
| LField (p : path) (f : name).      (* SETATTR f / Value.SetAttr *)

Inductive hop :=
| HLoad (v : nat)
| HStore (l : loc) (e : expr)        (* capture: copy a reference (or a scalar, or a new instance) somewhere *)
| HCall (p : path)                   (* call through whatever the path yields *)
| HSame (p q : path).                (* are the two Values the same object *)

Inductive obs :=
| OCall (b : body) (recv : option addr)
| OSame (same : bool).

(* CALL on a function value: read the CURRENT contents of the function object *)
Definition call_obs (st : state) (v : val) : option obs :=
  match v with
  | VFunc c =>
      match nth_error (funcs st) c with
      | Some (FBody b) => Some (OCall b None)
      | Some (FBound r f) =>
          match nth_error (funcs st) f with
          | Some (FBody b) => Some (OCall b (Some r))
          | _ => None
          end
      | None => None
      end
  | _ => None
  end.

Definition same_obj (v w : val) : option bool :=
  match v, w with
  | VFunc a, VFunc b | VType a, VType b | VInst a, VInst b => Some (a =? b)%nat
  | VNil, _ | _, VNil | VInt _, _ | _, VInt _ => None
  | _, _ => Some false
  end.

Definition store (st : state) (l : loc) (v : val) : option state :=
  match l with
  | LSlot => Some (set_slots st (slots st ++ [v]))
  | LGlobal n => Some (gset st n v)
  | LField p f =>
      match eval_path st p with
      | Some (st1, VInst i) =>
          match nth_error (insts st1) i with
          | Some o => Some (set_insts st1 (upd (insts st1) i (mkInst (ity o) (assign f v (ifields o)))))
          | None => None
          end
      | _ => None
      end
  end.

Section Run.
  Variable prog : nat -> list instr.      (* version number -> its top-level code *)

  Definition step (st : state) (o : hop) : option (state * list obs) :=
    match o with
    | HLoad v => match exec_list st (prog v) with Some st1 => Some (st1, []) | None => None end
    | HStore l e =>
        match eval_expr st e with
        | Some (st1, v) => match store st1 l v with Some st2 => Some (st2, []) | None => None end
        | None => None
        end
    | HCall p =>
        match eval_path st p with
        | Some (st1, v) => match call_obs st1 v with Some ob => Some (st1, [ob]) | None => None end
        | None => None
        end
    | HSame p q =>
        match eval_path st p with
        | Some (st1, v) =>
            match eval_path st1 q with
            | Some (st2, w) => match same_obj v w with Some b => Some (st2, [OSame b]) | None => None end
            | None => None
            end
        | None => None
        end
    end.

  Fixpoint run (st : state) (h : list hop) : option (state * list obs) :=
    match h with
    | [] => Some (st, [])
    | o :: r =>
        match step st o with
        | Some (st1, ob) =>
            match run st1 r with
            | Some (st2, obs) => Some (st2, (ob ++ obs)%list)
            | None => None
            end
        | None => None
        end
    end.
End Run.

(* ---- package versions that differ in function and method bodies only ------- *)
Inductive vdecl :=
| VZero (n : name) (zero : val)      (* var n T *)
| VSet (n : name) (e : expr).        (* var n = e *)

Record sig := mkSig {
  stypes : list (name * list (name * val));
  smethods : list (name * name);
  sfuncs : list name;
  svars : list vdecl
}.
Record bodies := mkBodies { fbody : name -> body; mbody : name -> name -> body }.

Definition vinstr (d : vdecl) : instr :=
  match d with VZero n z => GlobalZero n z | VSet n e => GlobalSet n e end.
(* the order treeSort gives the top-level code *)
Definition version_of (S : sig) (B : bodies) : list instr :=
  (map (fun tf => GlobalStruct (fst tf) (snd tf)) (stypes S)
   ++ map (fun tm => SetMethod (fst tm) (snd tm) (mbody B (fst tm) (snd tm))) (smethods S)
   ++ map (fun n => GlobalFunc n (fbody B n)) (sfuncs S)
   ++ map vinstr (svars S))%list.

Inductive fkey := KFunc (n : name) | KMeth (t m : name).
Definition body_of (B : bodies) (k : fkey) : body :=
  match k with KFunc n => fbody B n | KMeth t m => mbody B t m end.

(* where the function object of a declared function / method lives *)
Definition fn_addr (st : state) (k : fkey) : option addr :=
  match k with
  | KFunc n => match gget st n with VFunc a => Some a | _ => None end
  | KMeth t m =>
      match gget st t with
      | VType ta =>
          match nth_error (types st) ta with
          | Some ty => match lookup m (tmethods ty) with Some (VFunc a) => Some a | _ => None end
          | None => None
          end
      | _ => None
      end
  end.
