(* Data types for the peephole rule table emitted by go2v (Gen/Tables_gen.v). *)
From Coq Require Import ZArith List String.
Import ListNotations.

Inductive field := FA | FB | FC.
Inductive operand :=
| OZero
| OField (idx : nat) (f : field)
| ONeg (o : operand)
| OJoin (a b : operand).
Inductive cond :=
| CSame (i : nat) (f : field) (j : nat) (g : field)     (* in[n+i].f == in[n+j].g *)
| CConst (i : nat) (f : field) (c : Z)                  (* in[n+i].f == c *)
| CNotConst (i : nat) (f : field) (c : Z).              (* in[n+i].f != c *)
Record rule := mkRule {
  r_codes : list string;     (* opcode constant names of the window, in order *)
  r_conds : list cond;
  r_out : string;            (* opcode constant name of the fused instruction *)
  r_A : operand; r_B : operand; r_C : operand;
  r_pos : nat                (* index of the window instruction whose Pos is kept *)
}.
