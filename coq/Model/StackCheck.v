(* StackCheck: a static checker for the operand-stack discipline of compiled code.

   [effect i] is the static effect of one instruction on the operand stack of its frame, read off
   /repo/do.go (and Model/VM.v [step1] for the modelled opcodes): how many operands it needs, how many
   it leaves, and where control goes next.  [check_code] decides, for an instruction list, that

     - every reachable pc has ONE static operand depth (a join with a different depth is a
       rejection: a loop body or the arms of a branch must leave the stack as they found it),
     - the depth never goes below zero (no instruction reaches below the frame's operands),
     - every branch lands in [0, len] of the same list,
     - every LOCAL* operand names one of the frame's own slots, every GLOBAL* operand an existing global,
     - CALL-like instructions find their arguments (and the function value) and leave the requested results,
     - every exit (RETURN or the end of the list) has the depth [final] when [final = Some n],
     - the body of every FUNC satisfies the same conditions in its own frame (its slots, depth 0 at
       entry, exactly nrets operands at every exit).

   The decision is a translation validation: an unverified worklist pass [infer] proposes a depth per
   pc, and [verify] checks the proposal instruction by instruction.  Soundness (Proofs/C07_check.v)
   depends on [verify] only. *)
From Coq Require Import ZArith List String Ascii Bool Lia FSets.FMapPositive.
From GV Require Import GoSpec.GoPrim Gen.Tables_gen Model.VM.
Import ListNotations.
Open Scope string_scope.
Open Scope Z_scope.

(* opcodes outside Model/VM.v: effect taken from do.go *)
Definition c_NewMap : Z := Eval vm_compute in C "codeNewMap".
Definition c_GetOk : Z := Eval vm_compute in C "codeGetOk".
Definition c_Delete : Z := Eval vm_compute in C "codeDelete".
Definition c_Struct : Z := Eval vm_compute in C "codeStruct".
Definition c_GlobalStruct : Z := Eval vm_compute in C "codeGlobalStruct".
Definition c_NewStruct : Z := Eval vm_compute in C "codeNewStruct".
Definition c_SetMethod : Z := Eval vm_compute in C "codeSetMethod".

(* ---- the static effect of an instruction ------------------------------------------------- *)

Inductive eff :=
| EStep (pops push : Z)                 (* needs [pops] operands, replaces them by [push], falls through *)
| EJump (pops dl : Z)                   (* pops, then N += dl *)
| EBranch (need pf pj dl : Z)           (* needs [need]; falls through after popping pf, or pops pj and N += dl *)
| ECall (pre xa xr : Z)                 (* pops [pre] (the function value), then a call taking xa arguments, leaving xr results *)
| ERet                                  (* leaves the frame *)
| EStop (pops : Z)                      (* PANIC: needs its operand, never continues *)
| EFunc (args rets slots blen : Z)      (* pushes a function value and skips header + body *)
| EBad (why : string).

Definition is_binop (c : Z) : bool :=
  (c =? c_Add) || (c =? c_Sub) || (c =? c_Mul) || (c =? c_Div) || (c =? c_Mod) || (c =? c_Lt) || (c =? c_Gt) ||
  (c =? c_Lte) || (c =? c_Gte) || (c =? c_Eq) || (c =? c_Neq) || (c =? c_BitAnd) || (c =? c_BitOr) ||
  (c =? c_BitXor) || (c =? c_BitLsh) || (c =? c_BitRsh).
Definition is_localbin (c : Z) : bool :=
  (c =? c_LocalAdd) || (c =? c_LocalSub) || (c =? c_LocalMul) || (c =? c_LocalDiv).
Definition is_unop (c : Z) : bool :=
  (c =? c_IncDec) || (c =? c_Convert) || (c =? c_Cast) || (c =? c_Negate) || (c =? c_BitComplement) ||
  (c =? c_Not) || (c =? c_Len) || (c =? c_Make) || (c =? c_GetAttr).

Definition effect (i : instr) : eff :=
  let c := icode i in
  if c <? 0 then EBad "placeholder opcode (BREAK/CONTINUE/TODO left in the code)"
  else if c =? c_Pass then EStep 0 0
  else if (c =? c_Push) || (c =? c_GlobalRef) || (c =? c_Zero) then EStep 0 1
  else if c =? c_Pop then EStep 1 0
  else if is_binop c then EStep 2 1
  else if is_localbin c then EStep 0 1
  else if is_unop c then EStep 1 1
  else if c =? c_LocalIncDec then EStep 0 0
  else if (c =? c_And) || (c =? c_Or) then EBranch 1 1 0 (iA i)
  else if (c =? c_GlobalSet) || (c =? c_GlobalFunc) || (c =? c_LocalSet) then EStep 1 0
  else if (c =? c_GlobalZero) || (c =? c_LocalZero) then EStep 0 0
  else if (c =? c_GlobalGet) || (c =? c_Const) || (c =? c_LocalGet) then EStep 0 1
  else if c =? c_Return then ERet
  else if c =? c_Jump then EJump 0 (iA i)
  else if (c =? c_JumpFalse) || (c =? c_JumpTrue) then EBranch 1 1 1 (iA i)
  else if c =? c_Panic then EStop 1
  else if c =? c_Func then let '(args, rets) := splitParams (iA i) in EFunc args rets (iB i) (iC i)
  else if (c =? c_Call) || (c =? c_CallVariadic) then ECall 1 (iA i) (iB i)
  else if c =? c_FastCall then ECall 0 (iB i) (iC i)
  else if c =? c_FastCallAttr then let '(c1, c2) := splitParams (iC i) in ECall 0 c1 c2
  else if c =? c_Get then EStep 2 1
  else if c =? c_Set then EStep 3 0
  else if (c =? c_FastGetInt) || (c =? c_FastGet) || (c =? c_FastGetAttr) then EStep 0 1
  else if (c =? c_FastSetInt) || (c =? c_FastSet) || (c =? c_FastSetAttr) then EStep 1 0
  else if c =? c_SetAttr then EStep 2 0
  else if c =? c_NewSlice then EStep (iB i) 1
  else if c =? c_Range then EJump 1 (iB i)
  else if c =? c_Iter then EBranch 0 0 0 (iC i)
  else if c =? c_Slice then EStep 3 1
  else if c =? c_Append then (if iA i <? 1 then EBad "APPEND without operands" else EStep (iA i) 1)
  else if c =? c_Copy then EStep 2 (if iB i =? 0 then 0 else 1)
  (* outside Model/VM.v *)
  else if c =? c_NewMap then (if Z.odd (iC i) then EBad "NEWMAP with an odd operand count" else EStep (iC i) 1)
  else if c =? c_GetOk then EStep 2 2
  else if c =? c_Delete then EStep 2 0
  else if c =? c_Struct then (if Z.odd (iA i) then EBad "STRUCT with an odd operand count" else EStep (iA i) 1)
  else if c =? c_GlobalStruct then EStep 1 0
  else if c =? c_NewStruct then (if Z.odd (iB i) then EBad "NEWSTRUCT with an odd operand count" else EStep (iB i) 1)
  else if c =? c_SetMethod then EStep 2 0
  else EBad "opcode the dispatch loop does not execute".

(* local slots (relative to the frame base) and global indices the instruction reads or writes *)
Definition slot_refs (i : instr) : list Z :=
  let c := icode i in
  if is_localbin c then [iA i; iB i]
  else if (c =? c_LocalIncDec) || (c =? c_LocalGet) || (c =? c_LocalSet) || (c =? c_LocalZero) ||
          (c =? c_FastGetInt) || (c =? c_FastSetInt) || (c =? c_FastGet) || (c =? c_FastSet) ||
          (c =? c_FastGetAttr) || (c =? c_FastSetAttr) || (c =? c_FastCallAttr) || (c =? c_Range) then [iA i]
  else if c =? c_Iter then let '(b1, b2) := splitParams (iB i) in [iA i; b1; b2]
  else [].
Definition global_refs (i : instr) : list Z :=
  let c := icode i in
  if (c =? c_GlobalSet) || (c =? c_GlobalZero) || (c =? c_GlobalFunc) || (c =? c_GlobalGet) || (c =? c_Const) ||
     (c =? c_FastCall) || (c =? c_GlobalStruct) || (c =? c_NewStruct) then [iA i]
  else if (c =? c_FastGet) || (c =? c_FastSet) then [iB i]
  else [].

(* ---- depth maps ---------------------------------------------------------------------------- *)

Module PM := PositiveMap.
Definition dmap := PM.t Z.
Definition key (pc : Z) : positive := Z.to_pos (pc + 1).
Definition dget {A} (m : PM.t A) (pc : Z) : option A := if pc <? 0 then None else PM.find (key pc) m.
Definition dset {A} (m : PM.t A) (pc : Z) (d : A) : PM.t A := PM.add (key pc) d m.

Fixpoint index_from (pc : Z) (l : list instr) (a : PM.t instr) : PM.t instr :=
  match l with [] => a | i :: r => index_from (pc + 1) r (dset a pc i) end.

(* successors (pc', depth') of instruction i at pc with depth d *)
Definition succs (i : instr) (pc d : Z) : list (Z * Z) :=
  match effect i with
  | EStep p q => [(pc + 1, d - p + q)]
  | EJump p dl => [(pc + dl + 1, d - p)]
  | EBranch _ pf pj dl => [(pc + 1, d - pf); (pc + dl + 1, d - pj)]
  | ECall pre xa xr => [(pc + 1, d - pre - xa + xr)]
  | EFunc a r _ b => [(pc + (Z.abs a + r + b) + 1, d + 1)]
  | _ => []
  end.

(* the proposal: depth-first propagation from (0, 0); the first depth that reaches a pc stays *)
Fixpoint infer (fuel : nat) (arr : PM.t instr) (len : Z) (work : list (Z * Z)) (m : dmap) : dmap :=
  match fuel with
  | O => m
  | S f =>
    match work with
    | [] => m
    | (pc, d) :: w =>
        if (pc <? 0) || (len <? pc) then infer f arr len w m
        else match dget m pc with
             | Some _ => infer f arr len w m
             | None =>
                 let m' := dset m pc d in
                 match dget arr pc with
                 | None => infer f arr len w m'
                 | Some i => infer f arr len (succs i pc d ++ w)%list m'
                 end
             end
    end
  end.

Definition infer_map (codes : list instr) : dmap :=
  let n := List.length codes in
  infer (4 + 3 * n) (index_from 0 codes (PM.empty instr)) (Z.of_nat n) [(0, 0)] (PM.empty Z).

(* ---- the verified part ---------------------------------------------------------------------- *)

Definition final_ok (final : option Z) (d : Z) : bool :=
  match final with None => true | Some n => d =? n end.

Definition tgt_ok (len : Z) (m : dmap) (pc' d' : Z) : bool :=
  (0 <=? pc') && (pc' <=? len) && (0 <=? d') && match dget m pc' with Some x => x =? d' | None => false end.

Definition refs_ok (n : Z) (l : list Z) : bool := forallb (fun x => (0 <=? x) && (x <? n)) l.

(* the body of the FUNC at pc, exactly as step1 extracts it *)
Definition func_body (codes : list instr) (pc nargs rets blen : Z) : list instr :=
  skipn (Z.to_nat (nargs + rets)) (firstn (Z.to_nat (nargs + rets + blen)) (skipn (Z.to_nat (pc + 1)) codes)).

Definition check_instr (chk_body : Z -> Z -> list instr -> bool) (ng ns : Z) (final : option Z)
                       (codes : list instr) (len : Z) (m : dmap) (pc : Z) (i : instr) (d : Z) : bool :=
  refs_ok ns (slot_refs i) && refs_ok ng (global_refs i) &&
  match effect i with
  | EStep p q => (0 <=? p) && (p <=? d) && tgt_ok len m (pc + 1) (d - p + q)
  | EJump p dl => (0 <=? p) && (p <=? d) && tgt_ok len m (pc + dl + 1) (d - p)
  | EBranch need pf pj dl => (need <=? d) && tgt_ok len m (pc + 1) (d - pf) && tgt_ok len m (pc + dl + 1) (d - pj)
  | ECall pre xa xr => (0 <=? xa) && (0 <=? xr) && (pre + xa <=? d) && tgt_ok len m (pc + 1) (d - pre - xa + xr)
  | ERet => final_ok final d
  | EStop p => p <=? d
  | EFunc args rets slots blen =>
      let nargs := Z.abs args in
      let n := nargs + rets + blen in
      (0 <=? rets) && (0 <=? blen) && (nargs <=? slots) && (pc + 1 + n <=? len) && tgt_ok len m (pc + n + 1) (d + 1) &&
      chk_body slots rets (func_body codes pc nargs rets blen)
  | EBad _ => false
  end.

Fixpoint verify_from (chk : Z -> instr -> bool) (pc : Z) (l : list instr) : bool :=
  match l with [] => true | i :: r => chk pc i && verify_from chk (pc + 1) r end.

Definition check_at (chk_body : Z -> Z -> list instr -> bool) (ng ns : Z) (final : option Z)
                    (codes : list instr) (len : Z) (m : dmap) (pc : Z) (i : instr) : bool :=
  match dget m pc with None => true | Some d => check_instr chk_body ng ns final codes len m pc i d end.

Definition verify (chk_body : Z -> Z -> list instr -> bool) (ng ns : Z) (final : option Z)
                  (codes : list instr) (m : dmap) : bool :=
  let len := zlen codes in
  (0 <=? ns) &&
  match dget m 0 with Some d0 => d0 =? 0 | None => false end &&
  verify_from (check_at chk_body ng ns final codes len m) 0 codes &&
  match dget m len with None => true | Some d => final_ok final d end.

(* fuel bounds the nesting of FUNC bodies; each body is strictly shorter than the list holding it *)
Fixpoint check_code_f (fuel : nat) (ng ns : Z) (final : option Z) (codes : list instr) : bool :=
  match fuel with
  | O => false
  | S f => verify (fun slots rets body => check_code_f f ng slots (Some rets) body) ng ns final codes (infer_map codes)
  end.

Definition check_code (nglobals nslots : Z) (final : option Z) (codes : list instr) : bool :=
  check_code_f (S (List.length codes)) nglobals nslots final codes.

(* static depth at a pc, and at the exits, as the checker sees them (for reporting) *)
Definition depth_at (codes : list instr) (pc : Z) : option Z := dget (infer_map codes) pc.

(* ---- what the soundness theorems say (Proofs/C07_*.v, Props/C07.v) ------------------------------ *)

(* The invariant on VM states: at least [ng] globals, and every function object on the heap has a
   checked body (in its own frame: its slot count, exactly nrets operands at every exit), slots for
   its parameters and one type per parameter and result.  FUNC creates only such objects (its body is
   a sub-list of checked code, checked recursively); natives and data objects are unconstrained. *)
Definition obj_ok (ng : Z) (o : hobj) : Prop :=
  match o with
  | HFunc nargs nrets variadic vtype nslots types body =>
      0 <= nargs <= nslots /\ 0 <= nrets /\ zlen types = nargs + nrets /\
      (variadic = true -> 1 <= nargs) /\
      exists fuel, check_code_f fuel ng nslots (Some nrets) body = true
  | _ => True
  end.
Definition heap_ok (ng : Z) (h : list hobj) : Prop := Forall (obj_ok ng) h.
Definition st_ok (ng : Z) (s : st) : Prop := ng <= zlen (globals s) /\ heap_ok ng (heap s).

(* The two ways the model can be stuck that are NOT operand-stack, slot, global-index or code-shape
   accesses: dangling heap references (GLOBALFUNC assigning a function value whose object is not on
   the heap; ITER over an iterator whose position lies outside its backing array).  Excluding them
   needs a heap-shape invariant, which is not C07's subject; every other RStuck is excluded. *)
Definition heap_reason (w : string) : Prop := w = "func object" \/ w = "bad array".

(* an exit of an instruction list: its end, or a RETURN *)
Definition is_exit (codes : list instr) (pc : Z) : Prop :=
  znth codes pc = None \/ exists i, znth codes pc = Some i /\ icode i = c_Return.

(* ---- diagnostics (not used by the proofs): first offending pc and the reason ------------------ *)

Definition dec_str (z : Z) : string :=
  let bs := dec z in
  List.fold_right (fun b acc => String (ascii_of_N (Z.to_N b)) acc) EmptyString bs.

Definition why_tgt (len : Z) (m : dmap) (pc' d' : Z) : option string :=
  if negb ((0 <=? pc') && (pc' <=? len)) then Some ("branch target " ++ dec_str pc' ++ " outside the function")
  else if d' <? 0 then Some "operand stack underflow"
  else match dget m pc' with
       | Some x => if x =? d' then None
                   else Some ("pc " ++ dec_str pc' ++ " is reached with operand depth " ++ dec_str d' ++ " and with depth " ++ dec_str x)
       | None => Some ("no depth proposed for successor " ++ dec_str pc')
       end.
Definition orelse (a b : option string) : option string := match a with Some _ => a | None => b end.
Definition must_be (b : bool) (why : string) : option string := if b then None else Some why.

Inductive diag := DOk | DBad (pc : Z) (depth : Z) (why : string).

Definition why_instr (ng ns : Z) (final : option Z) (len : Z) (m : dmap) (pc : Z) (i : instr) (d : Z) : option string :=
  orelse (must_be (refs_ok ns (slot_refs i)) "local slot operand outside the frame's slots")
 (orelse (must_be (refs_ok ng (global_refs i)) "global operand outside the globals")
  match effect i with
  | EStep p q => orelse (must_be (0 <=? p) "negative operand count")
                (orelse (must_be (p <=? d) "operand stack underflow") (why_tgt len m (pc + 1) (d - p + q)))
  | EJump p dl => orelse (must_be (p <=? d) "operand stack underflow") (why_tgt len m (pc + dl + 1) (d - p))
  | EBranch need pf pj dl => orelse (must_be (need <=? d) "operand stack underflow")
                            (orelse (why_tgt len m (pc + 1) (d - pf)) (why_tgt len m (pc + dl + 1) (d - pj)))
  | ECall pre xa xr => orelse (must_be ((0 <=? xa) && (0 <=? xr)) "negative argument or result count")
                      (orelse (must_be (pre + xa <=? d) "call arguments missing from the operand stack")
                              (why_tgt len m (pc + 1) (d - pre - xa + xr)))
  | ERet => must_be (final_ok final d) ("RETURN with operand depth " ++ dec_str d ++ ", the frame must leave " ++
                                      match final with Some n => dec_str n | None => "?" end)
  | EStop p => must_be (p <=? d) "operand stack underflow"
  | EFunc args rets slots blen =>
      let nargs := Z.abs args in
      let n := nargs + rets + blen in
      orelse (must_be ((0 <=? rets) && (0 <=? blen) && (nargs <=? slots) && (pc + 1 + n <=? len)) "malformed FUNC header")
             (why_tgt len m (pc + n + 1) (d + 1))
  | EBad w => Some w
  end).

(* base = absolute pc of codes[0] in the outermost list *)
Fixpoint diag_from (diag_code : Z -> Z -> Z -> list instr -> diag)
                   (ng ns : Z) (final : option Z) (codes : list instr) (len : Z) (m : dmap) (base pc : Z) (l : list instr) : diag :=
  match l with
  | [] => DOk
  | i :: r =>
      let here :=
        match dget m pc with
        | None => DOk
        | Some d =>
            match why_instr ng ns final len m pc i d with
            | Some w => DBad (base + pc) d w
            | None =>
                match effect i with
                | EFunc args rets slots blen =>
                    let nargs := Z.abs args in
                    diag_code (base + pc + 1 + nargs + rets) slots rets (func_body codes pc nargs rets blen)
                | _ => DOk
                end
            end
        end in
      match here with
      | DOk => diag_from diag_code ng ns final codes len m base (pc + 1) r
      | bad => bad
      end
  end.

Fixpoint diag_code_f (fuel : nat) (ng : Z) (base ns : Z) (final : option Z) (codes : list instr) : diag :=
  match fuel with
  | O => DBad base 0 "nesting fuel"
  | S f =>
      let len := zlen codes in
      let m := infer_map codes in
      if ns <? 0 then DBad base 0 "negative slot count" else
      match dget m 0 with
      | Some 0 =>
          match diag_from (fun b s r body => diag_code_f f ng b s (Some r) body) ng ns final codes len m base 0 codes with
          | DOk => match dget m len with
                   | None => DOk
                   | Some d => if final_ok final d then DOk
                               else DBad (base + len) d ("the frame ends with operand depth " ++ dec_str d ++ ", it must leave " ++
                                                         match final with Some n => dec_str n | None => "?" end)
                   end
          | bad => bad
          end
      | _ => DBad base 0 "no entry depth"
      end
  end.

Definition check_code_diag (nglobals nslots : Z) (final : option Z) (codes : list instr) : diag :=
  diag_code_f (S (List.length codes)) nglobals 0 nslots final codes.
