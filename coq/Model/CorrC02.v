(* Correspondence for the peephole optimizer: n passes of the model over the generated rule table
   must produce exactly the instruction list n passes of the real doOptimize produced. *)
From Coq Require Import ZArith List Bool.
From GV Require Import Model.VM Model.Peephole Model.Corr Gen.Tables_gen.
Import ListNotations.
Open Scope Z_scope.

Inductive ocase := COpt (code : list instr) (passes : Z) (observed : list instr).

Definition instr_eqb (a b : instr) : bool :=
  (icode a =? icode b) && (iA a =? iA b) && (iB a =? iB b) && (iC a =? iC b) && (ipos a =? ipos b).
Fixpoint instrs_eqb (a b : list instr) : bool :=
  match a, b with [], [] => true | x :: a', y :: b' => instr_eqb x y && instrs_eqb a' b' | _, _ => false end.
Definition run_ocase (c : ocase) : bool :=
  match c with COpt code n obs => instrs_eqb (iter_opt (Z.to_nat n) peephole_rules code) obs end.
Definition omismatches (base : Z) (cs : list ocase) : list Z := mismatches_from run_ocase base cs.
