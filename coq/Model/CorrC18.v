(* Correspondence for C18 (Model/Incr.v): for a generated program and one cutting of it into
   chunks, the harness exports (VerifEvalTrace, optimizer on) the compiled code and slot count of
   the single call, and of every chunk evaluated in turn on one VM.  A case checks, by computation:
   - the single call's code is the concatenation of the chunks' codes with the top-level slots of
     chunk k renumbered by the slots of the chunks before it ([assemble]; positions ignored): same
     opcodes, same GLOBAL INDICES (interning happens in the same order), same jump offsets -- this
     also shows that the top-level peephole pass fires across no chunk boundary;
   - its slot count is the sum of the chunks' slot counts, below [slot_limit];
   - every chunk's code satisfies the hypotheses of the run theorem: [closedb] (jumps stay inside,
     no top-level RETURN, function bodies complete) and [slots_okb] (slot operands within its slots). *)
From Coq Require Import ZArith List Bool.
From GV Require Import GoSpec.GoPrim Model.VM Model.Incr Model.Corr.
Import ListNotations.
Open Scope Z_scope.

Inductive ccase := CChunks (whole : list instr) (wslots : Z) (chunks : list chunk).

Definition run_ccase (c : ccase) : bool :=
  match c with
  | CChunks whole wslots chunks =>
      code_eqb whole (assemble 0 chunks) && (wslots =? total_slots chunks) && (wslots <? slot_limit) && forallb chunk_okb chunks
  end.
Definition xmismatches (base : Z) (cs : list ccase) : list Z := mismatches_from run_ccase base cs.
