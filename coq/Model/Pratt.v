(* Pratt: transcription of the expression core of goatlang's parser
   (parse.go doExpression; symbol.go ledInfix, nudSelf, negateNud,
   complementNud, notNud, parenNud), parameterised by the binding-power table.
   The table itself comes from Gen/Tables_gen.v (regenerated from symbol.go). *)
From Coq Require Import ZArith List String Bool.
From GV Require Import GoSpec.GoPrec.
Import ListNotations.
Open Scope string_scope.
Open Scope Z_scope.

Section Pratt.
  Variable lbp : string -> Z.                 (* Lbp of a symbol; 0 when the table has none *)
  Variable infix : string -> bool.            (* Led = ledInfix *)
  Variables neg_rbp compl_rbp not_rbp : Z.    (* operand binding power of the prefix operators *)
  Variable paren_rbp : Z.                     (* commaBP: parenNud parses with Expression(commaBP) *)

  Definition tok_lbp (t : tok) : Z :=
    match t with TSym s => lbp s | TAtom _ _ => 0 end.     (* "(int)" / "(name)" have Lbp 0 *)
  (* the token after the end of input is "(eof)", Lbp 0 *)
  Definition cur_lbp (ts : list tok) : Z := match ts with t :: _ => tok_lbp t | [] => 0 end.

  Inductive perr := PErrFuel | PErrSyntax.

  (* doExpression(rbp): t := next; left := nud(t); while rbp < lbp(cur) { t := next; left := led(t, left) }
     One unit of fuel per nud; every nud consumes a token, so |tokens|+1 suffices (pratt_fuel). *)
  Fixpoint expr (fuel : nat) (rbp : Z) (ts : list tok) : (tree * list tok) + perr :=
    match fuel with
    | O => inr PErrFuel
    | S fuel =>
        let nud :=
          match ts with
          | [] => inr PErrSyntax                               (* nullNud on (eof) *)
          | TAtom i s :: rest => inl (Atom i s, rest)          (* nudSelf *)
          | TSym s :: rest =>
              if String.eqb s "(" then
                match expr fuel paren_rbp rest with
                | inl (e, TSym c :: rest') => if String.eqb c ")" then inl (Paren e, rest') else inr PErrSyntax
                | inl _ => inr PErrSyntax
                | inr e => inr e
                end
              else if String.eqb s "-" then
                match expr fuel neg_rbp rest with inl (e, r) => inl (Un UNeg e, r) | inr e => inr e end
              else if String.eqb s "^" then
                match expr fuel compl_rbp rest with inl (e, r) => inl (Un UCompl e, r) | inr e => inr e end
              else if String.eqb s "!" then
                match expr fuel not_rbp rest with inl (e, r) => inl (Un UNot e, r) | inr e => inr e end
              else inr PErrSyntax
          end in
        match nud with
        | inr e => inr e
        | inl (lft, rest) => led_loop fuel rbp lft rest
        end
    end
  with led_loop (fuel : nat) (rbp : Z) (lft : tree) (ts : list tok) : (tree * list tok) + perr :=
    match fuel with
    | O => if rbp <? cur_lbp ts then inr PErrFuel else inl (lft, ts)
    | S fuel =>
        match ts with
        | TSym s :: rest =>
            if rbp <? lbp s then
              if infix s then
                match expr fuel (lbp s) rest with           (* ledInfix: operand := doExpression(Lbp) *)
                | inl (rgt, rest') => led_loop fuel rbp (Bin s lft rgt) rest'
                | inr e => inr e
                end
              else inr PErrSyntax                           (* a led outside the modelled core *)
            else inl (lft, ts)
        | _ => inl (lft, ts)
        end
    end.

  Definition parse (ts : list tok) : (tree * list tok) + perr := expr (S (S (List.length ts))) 0 ts.
End Pratt.

(* rendering as the real parser's tree dump: parentheses vanish (parenNud
   returns the inner expression); negateNud folds "-" into an integer literal
   and renames the node "negate"; complementNud renames to "complement";
   token.String prints (text child child). *)
Fixpoint erase (t : tree) : tree :=
  match t with
  | Atom _ _ => t
  | Paren t => erase t
  | Bin op l r => Bin op (erase l) (erase r)
  | Un UNeg t => match erase t with
                 | Atom true s => if prefix "-" s then Un UNeg (Atom true s) else Atom true ("-" ++ s)
                 | e => Un UNeg e
                 end
  | Un u t => Un u (erase t)
  end.
Fixpoint dump_erased (t : tree) : string :=
  match t with
  | Atom _ s => s
  | Paren t => dump_erased t
  | Bin op l r => "(" ++ op ++ " " ++ dump_erased l ++ " " ++ dump_erased r ++ ")"
  | Un UNeg t => "(negate " ++ dump_erased t ++ ")"
  | Un UCompl t => "(complement " ++ dump_erased t ++ ")"
  | Un UNot t => "(! " ++ dump_erased t ++ ")"
  end.
Definition dump (t : tree) : string := dump_erased (erase t).
