(* Correspondence for the symbol table: an operation sequence run on the model
   must give the slot answers the real lookup/compiler scope code gave. *)
From Coq Require Import ZArith List String Bool PeanoNat.
From GV Require Import Model.Lookup Model.Corr.
Import ListNotations.

Inductive scase := CScope (ops : list sop) (answers : list (option (option nat))) (cap : nat).

Definition ans_eqb (a b : option (option nat)) : bool :=
  match a, b with
  | None, None => true
  | Some None, Some None => true
  | Some (Some x), Some (Some y) => Nat.eqb x y
  | _, _ => false
  end.
Fixpoint anss_eqb (a b : list (option (option nat))) : bool :=
  match a, b with [], [] => true | x :: a', y :: b' => ans_eqb x y && anss_eqb a' b' | _, _ => false end.

Fixpoint c_final (c : cscope) (os : list sop) : cscope :=
  match os with [] => c | o :: r => c_final (fst (c_step c o)) r end.

Definition run_scase (c : scase) : bool :=
  match c with
  | CScope ops answers cap =>
      anss_eqb (c_run (c_begin new_scope) ops) answers &&
      Nat.eqb (lcap (locals (c_final (c_begin new_scope) ops))) cap
  end.
Definition smismatches (base : Z) (cs : list scase) : list Z := mismatches_from run_scase base cs.
