(* OMap: transcription of stringMap / numericMap of /repo/value.go (a Go map
   plus an insertion-ordered key list that drives `range`).  One model for both
   key kinds: K is the key type with a boolean equality (strings as byte lists,
   numeric keys as the Z payload of Value.num). *)
From Coq Require Import ZArith List Bool Lia Permutation.
Import ListNotations.

Section OMap.
  Context {K V : Type}.
  Variable keqb : K -> K -> bool.
  Variable assignV : V -> Z -> V.          (* v.assign(valueType) *)
  Variable zeroV : Z -> V.                 (* newZero(valueType) *)

  (* m.data as an association list without duplicate keys; m.keys; m.valueType *)
  Record omap := mkOMap { data : list (K * V); keys : list K; vtype : Z }.

  Fixpoint lookup (k : K) (d : list (K * V)) : option V :=
    match d with
    | [] => None
    | (k', v) :: r => if keqb k k' then Some v else lookup k r
    end.
  Fixpoint remove (k : K) (d : list (K * V)) : list (K * V) :=
    match d with
    | [] => []
    | (k', v) :: r => if keqb k k' then remove k r else (k', v) :: remove k r
    end.
  Fixpoint upsert (k : K) (v : V) (d : list (K * V)) : list (K * V) :=
    match d with
    | [] => [(k, v)]
    | (k', v') :: r => if keqb k k' then (k', v) :: r else (k', v') :: upsert k v r
    end.
  Definition mem (k : K) (d : list (K * V)) : bool := match lookup k d with Some _ => true | None => false end.
  Definition kmem (k : K) (l : list K) : bool := existsb (keqb k) l.

  (* newStringMap / newNumericMap(keyType, valueType, in): keys[i/2] = k_i; data[k_i] = v_i.assign(valueType)
     (a literal with a repeated key leaves the repetition in keys; Go rejects such literals) *)
  Fixpoint from_pairs (vt : Z) (ps : list (K * V)) (m : omap) : omap :=
    match ps with
    | [] => m
    | (k, v) :: r => from_pairs vt r (mkOMap (upsert k (assignV v vt) (data m)) (keys m ++ [k]) vt)
    end.
  Definition new_map (vt : Z) (ps : list (K * V)) : omap := from_pairs vt ps (mkOMap [] [] vt).

  Definition len (m : omap) : nat := length (data m).

  (* Get: (value, ok); a missing key gives the zero value of the element type *)
  Definition get (m : omap) (k : K) : V * bool :=
    match lookup k (data m) with
    | Some v => (v, true)
    | None => (zeroV (vtype m), false)
    end.

  (* Set: the key is appended to keys unless it is already live or already listed
     (a deleted key stays listed until the next compaction) *)
  Definition set (m : omap) (k : K) (v : V) : omap :=
    let ks := if mem k (data m) then keys m
              else if (length (keys m) =? length (data m))%nat then keys m ++ [k]
              else if kmem k (keys m) then keys m else keys m ++ [k] in
    mkOMap (upsert k (assignV v (vtype m)) (data m)) ks (vtype m).

  (* Delete: delete(m.data, k); if len(m.data) >= len(m.keys)>>1 { return }; m.keys = maps.Keys(m.data).
     [order] is what maps.Keys returns on this call: the live keys in an arbitrary order (an oracle;
     theorems quantify over every order that is a permutation of the live keys). *)
  Definition delete (m : omap) (k : K) (order : list K) : omap :=
    let d := remove k (data m) in
    if (length (keys m) / 2 <=? length d)%nat then mkOMap d (keys m) (vtype m)
    else mkOMap d order (vtype m).
  Definition order_ok (m : omap) (k : K) (order : list K) : Prop :=
    Permutation order (map fst (remove k (data m))).

  (* Range: r := m.keys (snapshot); each step skips the keys that are not live in the CURRENT data.
     [next m r] = the next visited key/value and the rest of the snapshot. *)
  Fixpoint next (m : omap) (r : list K) : option (K * V * list K) :=
    match r with
    | [] => None
    | k :: r' => match lookup k (data m) with
                 | Some v => Some (k, v, r')
                 | None => next m r'
                 end
    end.

  (* a whole loop whose body performs arbitrary map operations between visits *)
  Inductive op := OSet (k : K) (v : V) | ODelete (k : K) (order : list K).
  Definition apply (m : omap) (o : op) : omap :=
    match o with OSet k v => set m k v | ODelete k order => delete m k order end.
  Definition apply_all (m : omap) (os : list op) : omap := fold_left apply os m.

  (* fuel = length of the snapshot; body k = the operations the loop body performs when it visits k *)
  Fixpoint range_loop (fuel : nat) (m : omap) (r : list K) (body : K -> list op) : list K * omap :=
    match fuel with
    | O => ([], m)
    | S f => match next m r with
             | None => ([], m)
             | Some (k, _, r') =>
                 let m' := apply_all m (body k) in
                 let (vs, mf) := range_loop f m' r' body in (k :: vs, mf)
             end
    end.
  Definition range (m : omap) (body : K -> list op) : list K * omap :=
    range_loop (S (length (keys m))) m (keys m) body.
End OMap.

Arguments mkOMap {K V}.
Arguments OSet {K V}.
Arguments ODelete {K V}.
