(* Run-level correspondence: the model VM executes the code the real compiler
   produced (hook VerifLoadTrace) from the globals snapshot taken before the run,
   and must print what the real VM printed, succeed or fail alike, and fail at
   the same source position. *)
From Coq Require Import ZArith List String Bool.
From GV Require Import GoSpec.GoPrim Gen.ValueOps_gen Model.VM Model.Corr.
Import ListNotations.
Open Scope Z_scope.

Inductive gentry := GVal (v : value) | GNative (name : string).

Inductive rcase :=
| CRun (codes : list instr) (slots : Z) (nglobals : Z) (globals : list (Z * gentry))
       (out : list Z) (ok : bool) (errpos : Z).

Fixpoint init_globals (es : list (Z * gentry)) (s : st) : st :=
  match es with
  | [] => s
  | (i, GVal v) :: r => init_globals r (set_global s i v)
  | (i, GNative n) :: r =>
      let (s1, a) := alloc s (HNative n) in
      init_globals r (set_global s1 i (refV TypeFunc a))
  end.

Fixpoint bytes_eq (a b : list Z) : bool :=
  match a, b with [], [] => true | x :: a', y :: b' => Z.eqb x y && bytes_eq a' b' | _, _ => false end.

(* 0 = agree, 1 = disagree, 2 = outside the modelled fragment, 3 = fuel *)
Definition run_rcase (c : rcase) : Z :=
  match c with
  | CRun codes slots ng gl out ok errpos =>
      let s0 := init_globals gl (mkSt (repeat nilV (Z.to_nat ng)) [] [] []) in
      match run (fun _ n => n) (fun _ _ _ => None) (fun _ _ _ _ => None) (fun _ _ => None) (fun _ _ _ => None) (fun _ _ _ _ => None) (Z.to_nat 400000) codes slots s0 with
      | RDone _ ops s => if ok && bytes_eq (VM.out s) out && (match ops with [] => true | _ => false end) then 0 else 1
      | RFail _ pos s => if negb ok && bytes_eq (VM.out s) out && (pos =? errpos) then 0 else 1
      | RStuck _ => 1
      | RFuel => 3
      | RUnmod _ => 2
      end
  end.

Fixpoint rmism_from (n : Z) (cs : list rcase) : list Z :=
  match cs with
  | [] => []
  | c :: r => let k := run_rcase c in
              if k =? 0 then rmism_from (n + 1) r
              else if k =? 1 then n :: rmism_from (n + 1) r
              else (- (n + 1)) :: rmism_from (n + 1) r     (* negative: not comparable (unmodelled / fuel) *)
  end.
Definition rmismatches (base : Z) (cs : list rcase) : list Z := rmism_from base cs.
