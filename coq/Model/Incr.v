(* Incr: what cutting a program into successive VM.Eval calls changes.

   vm.go Eval: tokenize, parse, loadImports, then
     cmp := &compiler{Globals: v.globals (SHARED), Locals: newLookup() (FRESH per call),
                      Imports: opts.evalImports (the host's map; cli.go shares one per session),
                      PackageName: "main"}
     codes, slots := cmp.run(tree);  v.run(codes, slots)   -- a fresh stack of [slots] nil cells

   The model keeps exactly the interaction points between one call and the next:

   * the interning state of Globals (Model/Lookup.v [lookup], [index]; Globals never shadows or
     drops) and the global VALUES, which the compiler READS (compiler.go "call": Globals.Read(i).t ==
     typeType decides conversion vs call; typeFromToken / "make" read the type number) and WRITES
     ("type" declarations Globals.Write(idx, newType ..); string / float literals Globals.Set(text, ..));
   * the Imports map ("import" fills it, "." reads it);
   * the top-level slots: Locals.Index only appends (lookup.go Drop blanks keys, len(data) never
     shrinks), so a statement compiled when Locals.Len() = b uses the slots b, b+1, ..: its code is the
     code it has at b = 0 with the slot operands renumbered ([shift_code]); c.Locals.Cap() slots are
     allocated for the run;
   * the code itself, run by Model/VM.v [exec].

   A top-level statement is an interaction tree over this interface ([tstmt]): ANY deterministic
   compile function that talks to Globals only through Index / Exists / Read / Write(Set) is such a
   tree, so the theorems quantify over all of them; [s_*] below transcribe the cases of
   compiler.go that matter (definitions, calls-or-conversions, type declarations).

   Abstractions (listed as assumptions in checks/c18.py):
   - instruction positions (line/column, relative to the text of the call) are part of the
     statement: they only feed error messages and backtraces;
   - the peephole pass over the top-level code (c.optimize(c.compileAll(..))) is statement-local:
     no rule fires across a statement boundary (checked by c18-corr on real code). *)
From Coq Require Import ZArith List String Ascii Bool Lia.
From GV Require Import GoSpec.GoPrim Gen.ValueOps_gen Gen.Tables_gen Model.Lookup Model.VM.
Import ListNotations.
Open Scope Z_scope.

(* ---- 1. top-level code ---------------------------------------------------------------------- *)

(* codeFunc A=joinParams(args, rets) B=slots C=len(block) is followed by |args|+rets type
   instructions and the body; executing it skips them (do.go) *)
Definition func_len (i : instr) : Z :=
  let '(a, r) := splitParams (iA i) in Z.abs a + r + iC i.

(* opcodes whose A (resp. B) operand is a slot of the current frame (do.go: v.stack[baseN+int(i.A)]) *)
Definition slotA (c : Z) : bool :=
  (c =? c_LocalGet) || (c =? c_LocalSet) || (c =? c_LocalZero) || (c =? c_LocalIncDec) ||
  (c =? c_FastGetInt) || (c =? c_FastSetInt) || (c =? c_Range) || (c =? c_Iter) ||
  (c =? c_FastGet) || (c =? c_FastSet) || (c =? c_FastGetAttr) || (c =? c_FastSetAttr) || (c =? c_FastCallAttr) ||
  (c =? c_LocalAdd) || (c =? c_LocalSub) || (c =? c_LocalMul) || (c =? c_LocalDiv).
Definition slotB (c : Z) : bool :=
  (c =? c_LocalAdd) || (c =? c_LocalSub) || (c =? c_LocalMul) || (c =? c_LocalDiv).

(* renumbering of the slots by b.  ITER carries two slots in B = joinParams(k, v) =
   ((k+32768) land 65535) * 65536 + ((v+32768) land 65535): adding b to both halves adds b*65537 *)
Definition shift_instr (b : Z) (i : instr) : instr :=
  let c := icode i in
  mkI c (iA i + (if slotA c then b else 0))
        (iB i + (if slotB c then b else if c =? c_Iter then b * 65537 else 0))
        (iC i) (ipos i).

(* function bodies (the [func_len] instructions after a FUNC) run in their own frame: not renumbered.
   [skip] = number of instructions of an enclosing body still to pass over *)
Fixpoint shift_code (b : Z) (skip : nat) (c : list instr) : list instr :=
  match c with
  | [] => []
  | i :: r =>
      match skip with
      | S k => i :: shift_code b k r
      | O => if icode i =? c_Func then i :: shift_code b (Z.to_nat (func_len i)) r
             else shift_instr b i :: shift_code b O r
      end
  end.

(* which positions hold top-level instructions (true) and which lie inside a function body (false) *)
Fixpoint tops (skip : nat) (c : list instr) : list bool :=
  match c with
  | [] => []
  | i :: r =>
      match skip with
      | S k => false :: tops k r
      | O => true :: tops (if icode i =? c_Func then Z.to_nat (func_len i) else O) r
      end
  end.
Fixpoint final_skip (skip : nat) (c : list instr) : nat :=
  match c with
  | [] => skip
  | i :: r =>
      match skip with
      | S k => final_skip k r
      | O => final_skip (if icode i =? c_Func then Z.to_nat (func_len i) else O) r
      end
  end.
(* no function body runs past the end of the block *)
Definition completeb (c : list instr) : bool := Nat.eqb (final_skip O c) O.

(* relative jump operands by opcode (do.go: v.frame.N += d, then the loop's N++) *)
Definition jumps (i : instr) : list Z :=
  let c := icode i in
  if (c =? c_Jump) || (c =? c_JumpFalse) || (c =? c_JumpTrue) || (c =? c_And) || (c =? c_Or) then [iA i]
  else if c =? c_Range then [iB i]
  else if c =? c_Iter then [iC i]
  else [].

Definition top_or_end (c : list instr) (p : Z) : bool :=
  (0 <=? p) && ((p =? zlen c) || nth (Z.to_nat p) (tops O c) false).

(* [closedb c]: every top-level instruction of c is no RETURN, every jump it can take lands on a
   top-level instruction of c or exactly at its end (so c "falls through"), and so does the
   instruction after it; a FUNC skips exactly its types and body, which lie within c *)
Definition closed_at (c : list instr) (pc : nat) : bool :=
  match nth_error c pc with
  | None => true
  | Some i =>
      if negb (nth pc (tops O c) false) then true else
      negb (icode i =? c_Return) &&
      (if icode i =? c_Func then (0 <=? func_len i) && top_or_end c (Z.of_nat pc + func_len i + 1)
       else top_or_end c (Z.of_nat pc + 1) &&
            forallb (fun d => top_or_end c (Z.of_nat pc + d + 1)) (jumps i))
  end.
Definition closedb (c : list instr) : bool :=
  forallb (closed_at c) (seq 0 (List.length c)) && completeb c.

(* slot operands of a top-level instruction *)
Definition slot_uses (i : instr) : list Z :=
  let c := icode i in
  (if slotA c then [iA i] else []) ++ (if slotB c then [iB i] else []) ++
  (if c =? c_Iter then let '(b1, b2) := splitParams (iB i) in [b1; b2] else []).
(* every slot operand of the top-level instructions of c lies in [0, n); the B operand of an ITER is a
   genuine pair of 16-bit halves *)
Fixpoint slots_okb_from (skip : nat) (n : Z) (c : list instr) : bool :=
  match c with
  | [] => true
  | i :: r =>
      match skip with
      | S k => slots_okb_from k n r
      | O => if icode i =? c_Func then slots_okb_from (Z.to_nat (func_len i)) n r
             else forallb (fun a => (0 <=? a) && (a <? n)) (slot_uses i) &&
                  (if icode i =? c_Iter then (0 <=? iB i) && (iB i <? 4294967296) else true) &&
                  slots_okb_from O n r
      end
  end.
Definition slots_okb (c : list instr) (n : Z) : bool := (0 <=? n) && slots_okb_from O n c.

(* a chunk as the VM sees it: its code compiled with a fresh Locals (slot base 0) and Locals.Cap() *)
Definition chunk := (list instr * Z)%type.
(* the code of the single call: the chunks' codes, each renumbered by the slots allocated before it *)
Fixpoint assemble (base : Z) (cs : list chunk) : list instr :=
  match cs with
  | [] => []
  | (c, n) :: r => (shift_code base O c ++ assemble (base + n) r)%list
  end.
Fixpoint total_slots (cs : list chunk) : Z :=
  match cs with [] => 0 | (_, n) :: r => n + total_slots r end.

(* what the run theorem asks of a chunk: closed code that uses its own slots only *)
Definition chunk_okb (ch : chunk) : bool := closedb (fst ch) && slots_okb (fst ch) (snd ch).
(* joinParams packs slot numbers into 16 bits (offset 32768): a call has fewer than 2^15 top-level slots *)
Definition slot_limit : Z := 32768.

(* comparison of code up to positions *)
Definition instr_eqb (a b : instr) : bool :=
  (icode a =? icode b) && (iA a =? iA b) && (iB a =? iB b) && (iC a =? iC b).
Fixpoint code_eqb (a b : list instr) : bool :=
  match a, b with
  | [], [] => true
  | x :: a', y :: b' => instr_eqb x y && code_eqb a' b'
  | _, _ => false
  end.

(* ---- 2. compile time --------------------------------------------------------------------------- *)

(* what the compiler inspects of a global's value *)
Definition view_type (v : value) : option Z := if vt v =? typeType then Some (Value_Int v) else None.
Definition view_int (v : value) : Z := Value_Int v.

(* a top-level statement = its compilation as an interaction with Globals / Imports *)
Inductive tstmt :=
| TEmit (code : list instr) (nslots : Z)              (* done: the code (at slot base 0) and the slots it allocates *)
| TIndex (k : string) (cont : Z -> tstmt)             (* Globals.Index(k): interns k if new *)
| TExists (k : string) (cont : bool -> tstmt)         (* Globals.Exists(k) *)
| TReadType (i : Z) (cont : option Z -> tstmt)        (* v := Globals.Read(i); v.t == typeType ? Some v.Int() : None *)
| TReadInt (i : Z) (cont : Z -> tstmt)                (* Globals.Read(i).Int()   ("make" of a named type) *)
| TWrite (i : Z) (v : value) (cont : tstmt)           (* Globals.Write(i, v) / Set *)
| TImport (alias pkg : string) (cont : tstmt)         (* c.Imports[alias] = pkg *)
| TImported (alias : string) (cont : option string -> tstmt)   (* pkg, ok := c.Imports[alias] *)
| TPanic (msg : string).                              (* panicf: compile error; effects so far persist *)

Record cstate := mkC { c_lk : lookup; c_vals : list value; c_imps : list (string * string) }.

Fixpoint imp_get (k : string) (m : list (string * string)) : option string :=
  match m with [] => None | (a, p) :: r => if String.eqb k a then Some p else imp_get k r end.

Fixpoint compile_stmt (t : tstmt) (g : cstate) : option chunk * cstate :=
  match t with
  | TEmit code n => (Some (code, n), g)
  | TIndex k cont =>
      let (lk', n) := index (c_lk g) k in
      (* a new key appends Value{} to l.data *)
      let vals' := if exists_ (c_lk g) k then c_vals g else (c_vals g ++ [nilV])%list in
      compile_stmt (cont (Z.of_nat n)) (mkC lk' vals' (c_imps g))
  | TExists k cont => compile_stmt (cont (exists_ (c_lk g) k)) g
  | TReadType i cont =>
      match znth (c_vals g) i with
      | Some v => compile_stmt (cont (view_type v)) g
      | None => (None, g)                                (* index out of range: recovered as a compile error *)
      end
  | TReadInt i cont =>
      match znth (c_vals g) i with
      | Some v => compile_stmt (cont (view_int v)) g
      | None => (None, g)
      end
  | TWrite i v cont =>
      match znth (c_vals g) i with
      | Some _ => compile_stmt cont (mkC (c_lk g) (zset (c_vals g) i v) (c_imps g))
      | None => (None, g)
      end
  | TImport a p cont => compile_stmt cont (mkC (c_lk g) (c_vals g) ((a, p) :: c_imps g))
  | TImported a cont => compile_stmt (cont (imp_get a (c_imps g))) g
  | TPanic _ => (None, g)
  end.

(* the indices whose value the compilation of t from g inspects *)
Fixpoint stmt_reads (t : tstmt) (g : cstate) : list Z :=
  match t with
  | TEmit _ _ => []
  | TIndex k cont =>
      let (lk', n) := index (c_lk g) k in
      let vals' := if exists_ (c_lk g) k then c_vals g else (c_vals g ++ [nilV])%list in
      stmt_reads (cont (Z.of_nat n)) (mkC lk' vals' (c_imps g))
  | TExists k cont => stmt_reads (cont (exists_ (c_lk g) k)) g
  | TReadType i cont =>
      i :: match znth (c_vals g) i with Some v => stmt_reads (cont (view_type v)) g | None => [] end
  | TReadInt i cont =>
      i :: match znth (c_vals g) i with Some v => stmt_reads (cont (view_int v)) g | None => [] end
  | TWrite i v cont =>
      match znth (c_vals g) i with
      | Some _ => stmt_reads cont (mkC (c_lk g) (zset (c_vals g) i v) (c_imps g))
      | None => []
      end
  | TImport a p cont => stmt_reads cont (mkC (c_lk g) (c_vals g) ((a, p) :: c_imps g))
  | TImported a cont => stmt_reads (cont (imp_get a (c_imps g))) g
  | TPanic _ => []
  end.

(* compiler.run on the statements of one call, the top-level Locals holding [base] slots at its start.
   Result: the code and Locals.Cap(); None = compile error (Globals keeps what was interned / written) *)
Fixpoint compile_top (p : list tstmt) (base : Z) (g : cstate) : option chunk * cstate :=
  match p with
  | [] => (Some ([], base), g)
  | t :: r =>
      match compile_stmt t g with
      | (None, g1) => (None, g1)
      | (Some (c, n), g1) =>
          match compile_top r (base + n) g1 with
          | (None, g2) => (None, g2)
          | (Some (cr, tot), g2) => (Some ((shift_code base O c ++ cr)%list, tot), g2)
          end
      end
  end.
Fixpoint top_reads (p : list tstmt) (g : cstate) : list Z :=
  match p with
  | [] => []
  | t :: r => (stmt_reads t g ++ top_reads r (snd (compile_stmt t g)))%list
  end.

(* one compile per chunk, each with fresh Locals (base 0), Globals / Imports threaded through *)
Fixpoint compile_chunks (cs : list (list tstmt)) (g : cstate) : option (list chunk) * cstate :=
  match cs with
  | [] => (Some [], g)
  | p :: r =>
      match compile_top p 0 g with
      | (None, g1) => (None, g1)
      | (Some ch, g1) =>
          match compile_chunks r g1 with
          | (None, g2) => (None, g2)
          | (Some chs, g2) => (Some (ch :: chs), g2)
          end
      end
  end.

(* every code a statement can emit keeps its function bodies to itself *)
Inductive wf_stmt : tstmt -> Prop :=
| WfEmit code n : completeb code = true -> wf_stmt (TEmit code n)
| WfIndex k cont : (forall z, wf_stmt (cont z)) -> wf_stmt (TIndex k cont)
| WfExists k cont : (forall b, wf_stmt (cont b)) -> wf_stmt (TExists k cont)
| WfReadType i cont : (forall o, wf_stmt (cont o)) -> wf_stmt (TReadType i cont)
| WfReadInt i cont : (forall z, wf_stmt (cont z)) -> wf_stmt (TReadInt i cont)
| WfWrite i v cont : wf_stmt cont -> wf_stmt (TWrite i v cont)
| WfImport a p cont : wf_stmt cont -> wf_stmt (TImport a p cont)
| WfImported a cont : (forall o, wf_stmt (cont o)) -> wf_stmt (TImported a cont)
| WfPanic m : wf_stmt (TPanic m).


(* [stable v v' i]: the compiler cannot tell v from v' at index i *)
Definition stable (v v' : list value) (i : Z) : Prop :=
  match znth v i, znth v' i with
  | Some a, Some b => view_type a = view_type b /\ view_int a = view_int b
  | None, None => True
  | _, _ => False
  end.
Definition vagree (S : Z -> Prop) (v v' : list value) : Prop :=
  List.length v = List.length v' /\ forall i, S i -> stable v v' i.
(* same interning table, same imports, global values that agree on S *)
Definition csim (S : Z -> Prop) (g g' : cstate) : Prop :=
  c_lk g = c_lk g' /\ c_imps g = c_imps g' /\ vagree S (c_vals g) (c_vals g').
Fixpoint chunks_reads (cs : list (list tstmt)) (g : cstate) : list Z :=
  match cs with
  | [] => []
  | p :: r => (top_reads p g ++ chunks_reads r (snd (compile_top p 0 g)))%list
  end.

(* ---- 3. Eval ------------------------------------------------------------------------------------- *)

Record mstate := mkM { m_lk : lookup; m_imps : list (string * string); m_vm : st }.
Definition set_globals (s : st) (gl : list value) : st := mkSt gl (heap s) (out s) (bt s).

Inductive eres :=
| EOk (rets : list value)                  (* the values left above the slots, bottom first *)
| ECompileErr
| ERunErr (msg : string) (pos : Z)
| EAbort (r : result).                     (* out of fuel / outside the modelled fragment *)

Section Eval.
  Variable grow : Z -> Z -> Z.
  Variable ext_get : st -> value -> value -> option (res value).
  Variable ext_set : st -> value -> value -> value -> option (res st).
  Variable ext_len : st -> value -> option Z.
  Variable ext_getattr : st -> value -> Z -> option (res (value * st)).
  Variable ext_setattr : st -> value -> Z -> value -> option (res st).
  Notation run := (VM.run grow ext_get ext_set ext_len ext_getattr ext_setattr).
  Notation exec := (VM.exec grow ext_get ext_set ext_len ext_getattr ext_setattr).

  (* share = the host passes the same evalImports map to every call (cli.go); otherwise each call
     starts from an empty map *)
  Variable share : bool.

  Definition cstate_of (m : mstate) : cstate := mkC (m_lk m) (globals (m_vm m)) (m_imps m).
  Definition keep_imps (m : mstate) (g : cstate) : list (string * string) := if share then c_imps g else m_imps m.

  Definition eval1 (fuel : nat) (m : mstate) (p : list tstmt) : eres * mstate :=
    match compile_top p 0 (cstate_of m) with
    | (None, g') => (ECompileErr, mkM (c_lk g') (keep_imps m g') (set_globals (m_vm m) (c_vals g')))
    | (Some (code, n), g') =>
        let s := set_globals (m_vm m) (c_vals g') in
        match run fuel code n s with
        | RDone _ ops s' => (EOk (rev ops), mkM (c_lk g') (keep_imps m g') s')
        | RFail msg pos s' => (ERunErr msg pos, mkM (c_lk g') (keep_imps m g') s')
        | r => (EAbort r, mkM (c_lk g') (keep_imps m g') s)
        end
    end.

  (* the REPL: one Eval per chunk on the same VM; a failing chunk does not stop the session *)
  Fixpoint eval_seq (fuel : nat) (m : mstate) (cs : list (list tstmt)) : list eres * mstate :=
    match cs with
    | [] => ([], m)
    | p :: r => let (e, m1) := eval1 fuel m p in
                let (es, m2) := eval_seq fuel m1 r in (e :: es, m2)
    end.

  (* the runs of the chunks one after the other, each on fresh nil slots and an empty operand
     stack; stops at the first chunk that does not complete; a chunk that is not the last must
     leave no operands (statements leave none; an expression statement leaves its value) *)
  Fixpoint run_seq (fuel : nat) (cs : list chunk) (s : st) : result :=
    match cs with
    | [] => RDone [] [] s
    | (c, n) :: r =>
        match r with
        | [] => run fuel c n s
        | _ :: _ =>
            match run fuel c n s with
            | RDone _ [] s' => run_seq fuel r s'
            | RDone _ (_ :: _) _ => RStuck "operands left by a chunk that is not the last"
            | other => other
            end
        end
    end.
  (* ---- the hypotheses and observations of the run theorem ---- *)
  Definition map_slots (F : list value -> list value) (r : result) : result :=
    match r with RDone sl ops s => RDone (F sl) ops s | _ => r end.

  (* the outcomes a host can observe: completion, or a run error *)
  Definition observable (r : result) : Prop :=
    match r with RDone _ _ _ | RFail _ _ _ => True | _ => False end.
  (* same operands left, same state (globals, heap, output, backtrace); the final slots are not observable *)
  Definition same_outcome (r whole : result) : Prop :=
    match r with
    | RDone _ ops s => exists sl, whole = RDone sl ops s
    | _ => whole = r
    end.

  (* the hypotheses of the Eval theorem, chunk by chunk along the incremental session (every chunk
     compiles and runs to its end):
     chunk_okb          the chunk's code is closed and uses its own slots only (booleans: c18-corr checks them)
     no_leftover        a chunk that is not the last leaves no operands
     globals_len        running does not change the length of the globals table
     reads_stable       what the LATER chunks' compilation inspects of the globals ([view_type], [view_int])
                        is the same before and after this chunk's run
     writes_invisible   this chunk's run commutes with the compile-time effects of the later chunks on the
                        globals (new nil entries, type values, literals): it neither reads nor overwrites them *)
  Fixpoint incr_hyps (fuel : nat) (m : mstate) (cs : list (list tstmt)) : Prop :=
    match cs with
    | [] => True
    | p :: rest =>
        match compile_top p 0 (cstate_of m) with
        | (Some (c, n), g1) =>
            chunk_okb (c, n) = true /\
            match run fuel c n (set_globals (m_vm m) (c_vals g1)) with
            | RDone _ ops s1 =>
                let gpost := mkC (c_lk g1) (globals s1) (c_imps g1) in
                (rest <> [] -> ops = []) /\
                List.length (globals s1) = List.length (c_vals g1) /\
                Forall (stable (globals s1) (c_vals g1)) (chunks_reads rest gpost) /\
                (forall chs gA gB, compile_chunks rest g1 = (Some chs, gA) -> compile_chunks rest gpost = (Some chs, gB) ->
                   exists sl, run fuel c n (set_globals (m_vm m) (c_vals gA)) = RDone sl ops (set_globals s1 (c_vals gB))) /\
                incr_hyps fuel (mkM (c_lk g1) (c_imps g1) s1) rest
            | _ => False
            end
        | _ => False
        end
    end.

  Definition is_ok (e : eres) : Prop := exists r, e = EOk r.
End Eval.

(* ---- 4. transcription of the compiler.go cases that matter ------------------------------------- *)
Open Scope string_scope.

Definition pI (c a b cc : Z) : instr := mkI c a b cc 0.

(* "(name)" at top level: expPrefix, then builtin, then a fresh main.<name> (compiler.go "(name)") *)
Definition resolve (name : string) (k : Z -> tstmt) : tstmt :=
  TExists ("main." ++ name) (fun e =>
    if e then TIndex ("main." ++ name) k
    else TExists ("builtin." ++ name) (fun b =>
      if b then TIndex ("builtin." ++ name) k else TIndex ("main." ++ name) k)).

(* x := <int literal>   ->   PUSH n; GLOBALSET main.x *)
Definition s_define_int (x : string) (n : Z) : tstmt :=
  TIndex ("main." ++ x) (fun ix => TEmit [pI c_Push n 0 0; pI c_GlobalSet ix 0 0] 0).
(* x := y   ->   GLOBALGET y; GLOBALSET main.x *)
Definition s_define_name (x y : string) : tstmt :=
  resolve y (fun iy => TIndex ("main." ++ x) (fun ix => TEmit [pI c_GlobalGet iy 0 0; pI c_GlobalSet ix 0 0] 0)).
(* x := f(<int literal>): compiler.go "call" on a "(name)": the callee's CURRENT value decides *)
Definition s_define_call (x f : string) (n : Z) : tstmt :=
  resolve f (fun jf =>
    TReadType jf (fun ty =>
      TIndex ("main." ++ x) (fun ix =>
        match ty with
        | Some t => TEmit [pI c_Push n 0 0; pI c_Convert t 0 0; pI c_GlobalSet ix 0 0] 0
        | None => TEmit [pI c_Push n 0 0; pI c_FastCall jf 1 1; pI c_GlobalSet ix 0 0] 0   (* GLOBALGET f; CALL 1 1, fused *)
        end))).
(* type T <basic type>: no code, Globals.Write(idx, newType(t)) at compile time *)
Definition s_type_basic (T : string) (t : Z) : tstmt :=
  TIndex ("main." ++ T) (fun i => TWrite i (fn_newType t) (TEmit [] 0)).
(* import "pkg" / use of pkg.Member *)
Definition s_import (pkg : string) : tstmt := TImport pkg pkg (TEmit [] 0).
Definition s_define_member (x pkg member : string) : tstmt :=
  TImported pkg (fun o =>
    match o with
    | Some p => TExists (p ++ "." ++ member) (fun e =>
                  if e then TIndex (p ++ "." ++ member) (fun im => TIndex ("main." ++ x) (fun ix =>
                              TEmit [pI c_GlobalGet im 0 0; pI c_GlobalSet ix 0 0] 0))
                  else TPanic "undefined")
    | None => resolve pkg (fun ip => TIndex member (fun im => TIndex ("main." ++ x) (fun ix =>
                TEmit [pI c_GlobalGet ip 0 0; pI c_GetAttr im 0 0; pI c_GlobalSet ix 0 0] 0)))
    end).
