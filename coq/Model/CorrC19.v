(* Correspondence for C19: (a) the constructor / accessor definitions generated
   from value.go against the values and answers of the real host API; (b) the
   adapter model (Model/Call.v) against what the real CALL / CALLVARIADIC
   instruction and VM.Func did with logging natives, bound methods, script
   functions and natives that call back into the VM. *)
From Coq Require Import ZArith List Bool Floats.
From GV Require Import GoSpec.GoPrim Gen.ValueOps_gen Model.Call Model.Corr.
Import ListNotations.
Open Scope Z_scope.

(* ---- (a) constructors and accessors ------------------------------------------------ *)

(* k: 0 Int, 1 Int32, 2 Uint, 3 Uint32, 4 Int8, 5 Byte, 6 Uint8 *)
Inductive rcase :=
| RCtorZ (k : Z) (x : Z) (v : value)     (* constructor k applied to x built v *)
| RCtorF (f : float) (v : value)
| RCtorB (b : bool) (v : value)
| RCtorS (s : list Z) (v : value)
| RAccZ (k : Z) (v : value) (r : Z)      (* accessor k applied to v answered r *)
| RAccF (v : value) (f : float)
| RAccB (v : value) (b : bool).

Definition ctorZ (k x : Z) : option value :=
  match k with
  | 0 => Some (fn_Int x) | 1 => Some (fn_Int32 x) | 2 => Some (fn_Uint x) | 3 => Some (fn_Uint32 x)
  | 4 => Some (fn_Int8 x) | 5 => Some (fn_Byte x) | 6 => Some (fn_Uint8 x) | _ => None
  end.
Definition accZ (k : Z) (v : value) : option Z :=
  match k with
  | 0 => Some (Value_Int v) | 1 => Some (Value_Int32 v) | 2 => Some (Value_Uint v) | 3 => Some (Value_Uint32 v)
  | 4 => Some (Value_Int8 v) | 5 => Some (Value_Byte v) | 6 => Some (Value_Uint8 v) | _ => None
  end.

Definition run_rcase (c : rcase) : bool :=
  match c with
  | RCtorZ k x v => match ctorZ k x with Some m => value_same m v | None => false end
  | RCtorF f v => value_same (fn_Float64 (Fn f)) v
  | RCtorB b v => value_same (fn_Bool b) v
  | RCtorS s v => value_same (fn_String s) v
  | RAccZ k v r => match accZ k v with Some m => m =? r | None => false end
  | RAccF v f => num_same (Value_Float64 v) (Fn f)
  | RAccB v b => Bool.eqb (Value_Bool v) b
  end.
Definition rmismatches (base : Z) (cs : list rcase) : list Z := mismatches_from run_rcase base cs.

(* ---- (b) adapter ---------------------------------------------------------------------- *)

Fixpoint cell_eqb (a b : cell) : bool :=
  match a, b with
  | CVal x, CVal y => value_same x y
  | CPack t xs, CPack u ys =>
      (t =? u) && (fix go (xs ys : list cell) : bool :=
                     match xs, ys with
                     | [], [] => true
                     | x :: xs', y :: ys' => cell_eqb x y && go xs' ys'
                     | _, _ => false
                     end) xs ys
  | CFn h, CFn k => h =? k
  | _, _ => false
  end.
Fixpoint cells_eqb (a b : list cell) : bool :=
  match a, b with
  | [], [] => true
  | x :: a', y :: b' => cell_eqb x y && cells_eqb a' b'
  | _, _ => false
  end.

(* what the harness' callback does once it has logged its arguments *)
Inductive beh := BRet (outs : list cell) | BRaise (payload : list cell).

(* the function under test *)
Inductive fdesc :=
| DNative (form argc rets : Z) (b : beh)          (* NewFunc(argc, rets, <callback of form 0..5>) *)
| DMethod (obj : cell) (d : fdesc)                (* newMethod(obj, d) *)
| DScript (args rets : Z) (variadic : bool) (vtype : Z) (atys rtys : list Z) (sel : list Z)
                                                  (* a script function returning its sel-th parameters *)
| DNested (form argc rets : Z) (inner : fdesc) (k : Z).
                                                  (* native calling vm.Func(inner, k, args...), answering its results / re-raising *)

Definition first (o : list cell) : cres cell :=
  match o with x :: _ => Good x | [] => Fail EUnmodelled end.

Definition nat_of (form : Z) (fin : list cell -> cres (list cell)) : native :=
  match form with
  | 0 => N00 (_ <~ fin [] ;; Good tt)
  | 1 => N01 (o <~ fin [] ;; first o)
  | 2 => NN0 (fun a => _ <~ fin a ;; Good tt)
  | 3 => NN1 (fun a => o <~ fin a ;; first o)
  | 4 => NNM fin
  | _ => NNV (fun a va => fin (a ++ [CPack (-1) va]))
  end.

Fixpoint select (sel : list Z) (a : list cell) : cres (list cell) :=
  match sel with
  | [] => Good []
  | i :: sel' => match nth_error a (Z.to_nat i) with
                 | Some c => r <~ select sel' a ;; Good (c :: r)
                 | None => Fail EUnmodelled
                 end
  end.

(* the last cell of a variadic native's log is the spread list: flatten it for the inner call *)
Definition flat_args (form : Z) (a : list cell) : list cell :=
  if form =? 5 then
    match pop a with Some (fx, CPack _ va) => fx ++ va | _ => a end
  else a.

(* spy = true: the callback raises what it received instead of answering *)
Fixpoint model_fn (spy : bool) (d : fdesc) : funcT :=
  match d with
  | DNative form argc rets b =>
      NewFunc argc rets (nat_of form (fun a =>
        if spy then Fail (ERaised a) else match b with BRet o => Good o | BRaise p => Fail (ERaised p) end))
  | DMethod obj d' => newMethod obj (model_fn spy d')
  | DScript args rets variadic vtype atys rtys sel =>
      let f := newFunc (if variadic then - args else args) rets (mkFunc args rets atys rtys (select sel)) in
      mkFuncT (Args f) (Rets f) (Variadic f) vtype (Body f)
  | DNested form argc rets inner k =>
      let fin := model_fn false inner in
      let env := fun h : Z => if h =? 2 then Some fin else None in
      NewFunc argc rets (nat_of form (fun a =>
        if spy then Fail (ERaised a) else vm_func env (CFn 2) k (flat_args form a)))
  end.

Inductive recv := RNot | RGot (l : list cell) | RSkip.
Inductive obs := OStack (st : list cell) | OErr (class : Z) (payload : list cell).

(* class: 1 incorrect args, 2 incorrect returns, 10+k run-time panic k, 20 raised *)
Definition err_same (e : cerr) (class : Z) (payload : list cell) : bool :=
  match e with
  | EIncorrectArgs => class =? 1
  | EIncorrectReturns => class =? 2
  | ERuntime k => class =? 10 + k
  | ERaised p => (class =? 20) && cells_eqb p payload
  | EUnmodelled => true
  end.

Definition obs_same (m : cres (list cell)) (o : obs) : bool :=
  match m, o with
  | Good st, OStack st' => cells_eqb st st'
  | Fail EUnmodelled, _ => true
  | Fail e, OErr c p => err_same e c p
  | _, _ => false
  end.

Definition recv_same (m : cres (list cell)) (r : recv) : bool :=
  match r, m with
  | RSkip, _ => true
  | RGot l, Fail (ERaised l') => cells_eqb l l'
  | RGot _, Fail EUnmodelled => true
  | RGot _, _ => false
  | RNot, Fail (ERaised _) => false
  | RNot, _ => true
  end.

Inductive acase :=
| AExec (d : fdesc) (spread : bool) (lo args : list cell) (A B : Z) (r : recv) (o : obs)
    (* real exec loop on the stack lo ++ args ++ [fnc]: one CALL (spread: CALLVARIADIC) {A, B} *)
| AFunc (d : option fdesc) (other : cell) (xRets : Z) (params : list cell) (r : recv) (o : obs).
    (* VM.Func(fnc, xRets, params...); d = None: fnc is the non-function value [other] *)

Definition run_acase (c : acase) : bool :=
  match c with
  | AExec d spread lo args A B r o =>
      let go (spy : bool) :=
        let env := fun h : Z => if h =? 1 then Some (model_fn spy d) else None in
        (if spread then op_call_variadic else op_call) env (lo ++ args ++ [CFn 1]) A B in
      obs_same (go false) o && recv_same (go true) r
  | AFunc d other xRets params r o =>
      let go (spy : bool) :=
        match d with
        | Some d => vm_func (fun h : Z => if h =? 1 then Some (model_fn spy d) else None) (CFn 1) xRets params
        | None => vm_func (fun _ => None) other xRets params
        end in
      obs_same (go false) o && recv_same (go true) r
  end.
Definition amismatches (base : Z) (cs : list acase) : list Z := mismatches_from run_acase base cs.
