(* Correspondence cases for the value layer: each case carries the inputs and
   the result observed on the implementation; [mismatches] returns the indices
   of the cases on which the model disagrees.  Evaluated with vm_compute from
   harness-written files under coq/Cases. *)
From Coq Require Import ZArith List Bool Floats.
From GV Require Import GoSpec.GoPrim Gen.ValueOps_gen.
Import ListNotations.
Open Scope Z_scope.

Inductive vcase :=
| CBin (op : Z) (a b : value) (r : res value)
| CAssign (v : value) (t : Z) (r : value)
| CConvert (v : value) (t : Z) (r : res value)
| CCvt (t : ity) (f : float) (r : Z)          (* GoPrim validation: real Go T(f) *)
| CArith (t : ity) (op : Z) (a b : Z) (r : res Z). (* GoPrim validation: real Go a op b *)

Definition bin_model (op : Z) (a b : value) : res value :=
  match op with
  | 0 => Value_opAdd a b
  | 1 => Ok (Value_opSub a b)
  | 2 => Ok (Value_opMul a b)
  | 3 => Value_opDiv a b
  | 4 => Value_opMod a b
  | 5 => Value_opBitLsh a b
  | 6 => Value_opBitRsh a b
  | 7 => Ok (Value_opBitAnd a b)
  | 8 => Ok (Value_opBitOr a b)
  | 9 => Ok (Value_opBitXor a b)
  | 10 => Value_opLt a b
  | 11 => Value_opLte a b
  | 12 => Value_opEq a b
  | 13 => Value_opNeq a b
  | _ => Unmodelled
  end.

Definition arith_spec (t : ity) (op : Z) (a b : Z) : res Z :=
  match op with
  | 0 => Ok (iadd t a b) | 1 => Ok (isub t a b) | 2 => Ok (imul t a b)
  | 3 => iquo t a b | 4 => irem t a b | 5 => ishl t a b | 6 => ishr t a b
  | 7 => Ok (iand t a b) | 8 => Ok (ior t a b) | 9 => Ok (ixor t a b)
  | 14 => Ok (iandnot t a b) | 15 => Ok (inot t a) | 16 => Ok (ineg t a)
  | _ => Unmodelled
  end.

Definition run_vcase (c : vcase) : bool :=
  match c with
  | CBin op a b r => res_same value_same (bin_model op a b) r
  | CAssign v t r => value_same (Value_assign v t) r
  | CConvert v t r => res_same value_same (Value_convert v t) r
  | CCvt t f r => cvt t (Fn f) =? r
  | CArith t op a b r => res_same Z.eqb (arith_spec t op a b) r
  end.

Fixpoint mismatches_from {A} (run : A -> bool) (n : Z) (cs : list A) : list Z :=
  match cs with
  | [] => []
  | c :: cs' => if run c then mismatches_from run (n + 1) cs' else n :: mismatches_from run (n + 1) cs'
  end.
Definition vmismatches (base : Z) (cs : list vcase) : list Z := mismatches_from run_vcase base cs.
