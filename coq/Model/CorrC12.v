(* Correspondence for the robin-hood table: an operation history run on the
   model must reproduce every Get/Len answer and the final table cell by cell. *)
From Coq Require Import ZArith List Bool.
From GV Require Import GoSpec.GoPrim Gen.ValueOps_gen Model.IntMap Model.Corr.
Import ListNotations.

Inductive iop :=
| ISet (k : Z) (v : value)
| IAssign (k : Z) (v : value)
| IGet (k : Z) (r : option value)
| IDel (k : Z)
| ILen (n : Z).

Definition zero_value : value := mkValue 0 (Zn 0) PNone.
Definition assign_value (nw old : value) : value := Value_assign nw (vt old).
Definition vmap := @imap value.

Inductive icase := CIMap (alloc : Z) (ops : list iop) (sz tot : Z) (final : list (Z * Z * value)).

Definition opt_same (a b : option value) : bool :=
  match a, b with Some x, Some y => value_same x y | None, None => true | _, _ => false end.

Fixpoint run_iops (m : vmap) (ops : list iop) : option vmap :=
  match ops with
  | [] => Some m
  | ISet k v :: r => match set zero_value m k v with Some m' => run_iops m' r | None => None end
  | IAssign k v :: r => match assign zero_value assign_value m k v with Some m' => run_iops m' r | None => None end
  | IGet k e :: r => match get zero_value m k with Some g => if opt_same g e then run_iops m r else None | None => None end
  | IDel k :: r => match delete zero_value m k with Some m' => run_iops m' r | None => None end
  | ILen n :: r => if Z.eqb (Z.of_nat (len m)) n then run_iops m r else None
  end.

Fixpoint cells_same (cs : list (@cell value)) (obs : list (Z * Z * value)) : bool :=
  match cs, obs with
  | [], [] => true
  | c :: cs', (d, k, v) :: obs' =>
      Z.eqb (Z.of_nat (cdist c)) d && (if Z.eqb d 0 then true else Z.eqb (ckey c) k && value_same (cval c) v) && cells_same cs' obs'
  | _, _ => false
  end.

Definition run_icase (c : icase) : bool :=
  match c with
  | CIMap alloc ops sz tot final =>
      match run_iops (newIntMap zero_value (Z.to_nat alloc)) ops with
      | Some m => Z.eqb (Z.of_nat (size m)) sz && Z.eqb (Z.of_nat (total m)) tot && cells_same (cells m) final
      | None => false
      end
  end.
Definition imismatches (base : Z) (cs : list icase) : list Z := mismatches_from run_icase base cs.
