(* Model of goatlang's embedding / call adapter layer (value.go: newFunc, NewFunc,
   newMethod; vm.go: mkFunc, call, callReady, VM.Func, VM.Call; do.go: CALL,
   CALLVARIADIC).  Only the stack discipline is modelled:

   - the VM stack is a [list cell], the TOP is the END of the list (Go's append);
   - a function value is a handle [CFn h] resolved through a heap [env] to a
     [funcT] record with the fields of value.go's funcT; its body is a Gallina
     function from the whole stack to the whole stack (value.go: Value func(v *VM));
   - a native Go callback is a Gallina function on argument lists; the six
     signature forms accepted by NewFunc are the constructors of [native];
   - every Go run-time panic of this layer is an explicit [Fail] result -- never a
     default value -- and errors propagate through [cbind] exactly like a Go panic
     unwinds to the recover() in VM.Func. *)
From Coq Require Import ZArith List Bool Lia.
From GV Require Import GoSpec.GoPrim Gen.ValueOps_gen.
Import ListNotations.
Open Scope Z_scope.

(* ---- stack cells ---------------------------------------------------------------- *)

(* CVal: scalars, strings, opaque objects and nil values of the nillable types (a nil slice is
   CVal (mkValue slicetype 0 PNone)); CPack et items: a non-nil slice value with element type et
   (what NewSlice(et, items) builds); CFn h: a function value. *)
Inductive cell :=
| CVal (v : value)
| CPack (et : Z) (items : list cell)
| CFn (h : Z).

Inductive cerr :=
| EIncorrectArgs                 (* panic("incorrect args")    -- callReady *)
| EIncorrectReturns              (* panic("incorrect returns") -- callReady *)
| ERuntime (what : Z)            (* Go run-time panic: 1 slice bounds, 2 makeslice len, 3 index,
                                    4 not a function (type assertion), 5 nil dereference *)
| ERaised (payload : list cell)  (* panic(err) raised by a native callback or by script code *)
| EUnmodelled.

Inductive cres (A : Type) := Good (a : A) | Fail (e : cerr).
Arguments Good {A} a.
Arguments Fail {A} e.

Definition cbind {A B} (x : cres A) (f : A -> cres B) : cres B :=
  match x with Good a => f a | Fail e => Fail e end.
Notation "x <~ e ;; k" := (cbind e (fun x => k)) (at level 61, e at next level, right associativity).

Definition slen (st : list cell) : Z := Z.of_nat (length st).

(* st[i:] and st[:i] with Go's bounds check (i := len(st) - n) *)
Definition split_top (n : Z) (st : list cell) : cres (list cell * list cell) :=
  let i := slen st - n in
  if (i <? 0) || (slen st <? i) then Fail (ERuntime 1)
  else Good (firstn (Z.to_nat i) st, skipn (Z.to_nat i) st).

(* st[:n] *)
Definition slice_to (n : Z) (st : list cell) : cres (list cell) :=
  if (n <? 0) || (slen st <? n) then Fail (ERuntime 1) else Good (firstn (Z.to_nat n) st).

(* st[len(st)-n:] *)
Definition last_n (n : Z) (st : list cell) : cres (list cell) :=
  p <~ split_top n st ;; Good (snd p).

Definition pop (st : list cell) : option (list cell * cell) :=
  match rev st with [] => None | x :: r => Some (rev r, x) end.

(* ---- values ---------------------------------------------------------------------- *)

(* Value.assign on a cell: slices and functions are neither untyped nor nil: unchanged *)
Definition assign_cell (t : Z) (c : cell) : cell :=
  match c with CVal v => CVal (Value_assign v t) | _ => c end.

(* NewSlice(et, items): every item is assigned to the element type *)
Definition pack (et : Z) (items : list cell) : cell := CPack et (map (assign_cell et) items).

(* Value.data(): the items of a slice; a value without an object part (a nil slice, a
   scalar) has Len() = 0: no items; other objects go through Len/Range (not modelled) *)
Definition data (c : cell) : cres (list cell) :=
  match c with
  | CPack _ items => Good items
  | CVal v => match vval v with PNone => Good [] | _ => Fail EUnmodelled end
  | CFn _ => Fail (ERuntime 5)
  end.

Fixpoint assign_zip (tys : list Z) (cs : list cell) : list cell :=
  match tys, cs with
  | t :: tys', c :: cs' => assign_cell t c :: assign_zip tys' cs'
  | _, _ => cs
  end.

(* ---- function values ------------------------------------------------------------- *)

Record funcT := mkFuncT {
  Args : Z; Rets : Z; Variadic : bool; VariadicType : Z;
  Body : list cell -> cres (list cell)
}.

(* value.go newFunc: a negative argc marks a variadic function *)
Definition newFunc (argc rets : Z) (f : list cell -> cres (list cell)) : funcT :=
  let variadic := argc <? 0 in
  let argc' := if variadic then - argc else argc in
  mkFuncT argc' rets variadic 0 f.

(* the six callback signatures of NewFunc *)
Inductive native :=
| N00 (f : cres unit)                                           (* func(vm *VM) *)
| N01 (f : cres cell)                                           (* func(vm *VM) Value *)
| NN0 (f : list cell -> cres unit)                              (* func(vm *VM, args []Value) *)
| NN1 (f : list cell -> cres cell)                              (* func(vm *VM, args []Value) Value *)
| NNM (f : list cell -> cres (list cell))                       (* func(vm *VM, args []Value) []Value *)
| NNV (f : list cell -> list cell -> cres (list cell)).         (* func(vm *VM, args []Value, vargs ...Value) []Value *)

Definition NewFunc (argc rets : Z) (n : native) : funcT :=
  match n with
  | N00 f => newFunc argc rets (fun st => _ <~ f ;; Good st)
  | N01 f => newFunc argc rets (fun st => v <~ f ;; Good (st ++ [v]))
  | NN0 f => newFunc argc rets (fun st =>
      p <~ split_top argc st ;; let (lo, a) := p in
      _ <~ f a ;; Good lo)
  | NN1 f => newFunc argc rets (fun st =>
      p <~ split_top argc st ;; let (lo, a) := p in
      v <~ f a ;; Good (lo ++ [v]))
  | NNM f => newFunc argc rets (fun st =>
      p <~ split_top argc st ;; let (lo, a) := p in
      vs <~ f a ;; Good (lo ++ vs))
  | NNV f => newFunc (- argc) rets (fun st =>
      p <~ split_top argc st ;; let (lo, a) := p in
      if argc - 1 <? 0 then Fail (ERuntime 1) else               (* a[:argc-1] *)
      match nth_error a (Z.to_nat (argc - 1)) with                (* a[argc-1] *)
      | None => Fail (ERuntime 3)
      | Some last =>
          vargs <~ data last ;;
          vs <~ f (firstn (Z.to_nat (argc - 1)) a) vargs ;; Good (lo ++ vs)
      end)
  end.

(* value.go newMethod: the receiver is inserted below the arguments; the new function
   value inherits VariadicType, so that surplus arguments are packed as for f itself *)
Definition newMethod (obj : cell) (f : funcT) : funcT :=
  let xArgs := Args f - 1 in
  let vArgs := if Variadic f then - xArgs else xArgs in
  let m := newFunc vArgs (Rets f) (fun st =>
    if xArgs <? 0 then Fail (ERuntime 2) else                     (* make([]Value, xArgs) *)
    p <~ split_top xArgs st ;; let (lo, a) := p in
    Body f (lo ++ [obj] ++ a)) in
  mkFuncT (Args m) (Rets m) (Variadic m) (VariadicType f) (Body m).

(* vm.go mkFunc: a script function.  [code] stands for the compiled body: it
   receives the parameters (already assigned to the declared parameter types) and
   answers the values it left above its frame. *)
Definition mkFunc (args rets : Z) (atys rtys : list Z) (code : list cell -> cres (list cell))
    (st : list cell) : cres (list cell) :=
  if slen st - args <? 0 then Fail (ERuntime 3) else             (* v.stack[len-args+i] *)
  p <~ split_top args st ;; let (lo, a) := p in
  pushed <~ code (assign_zip atys a) ;;
  let st' := lo ++ pushed in
  if slen st' - rets <? 0 then Fail (ERuntime 3) else
  p2 <~ split_top rets st' ;; let (lo2, r) := p2 in
  Good (lo2 ++ assign_zip rtys r).

(* ---- calling --------------------------------------------------------------------- *)

Definition callReady (st : list cell) (ft : funcT) (xArgs xRets : Z) : cres (list cell) :=
  if negb (xArgs =? Args ft) then Fail EIncorrectArgs else
  let top := slen st - xArgs in
  st' <~ Body ft st ;;
  let fRets := slen st' - top in
  if fRets <? xRets then Fail EIncorrectReturns
  else if xRets <? fRets then slice_to (top + xRets) st'
  else Good st'.

(* vm.go call: the value handed to the variadic parameter.  nVarArgs == 0: the NIL slice of the
   declared variadic type, Value{t: ft.VariadicType} (a value without object part: data gives no
   items, nothing is allocated); otherwise NewSlice(ft.VariadicType.value(), varArgs) *)
Definition nil_slice (vtype : Z) : cell := CVal (mkValue vtype (Zn 0) PNone).
Definition variadic_cell (vtype nVarArgs : Z) (varArgs : list cell) : cell :=
  if nVarArgs =? 0 then nil_slice vtype else pack (Type_value vtype) varArgs.

Definition call (st : list cell) (ft : funcT) (xArgs xRets : Z) : cres (list cell) :=
  if negb (Variadic ft) then callReady st ft xArgs xRets else
  let nVarArgs := xArgs - Args ft + 1 in
  if nVarArgs <? 0 then Fail (ERuntime 2) else                    (* make([]Value, nVarArgs) *)
  let e := slen st - nVarArgs in
  if e <? 0 then Fail (ERuntime 1) else                           (* v.stack[end:] *)
  let varArgs := skipn (Z.to_nat e) st in
  let st1 := firstn (Z.to_nat e) st ++ [variadic_cell (VariadicType ft) nVarArgs varArgs] in
  callReady st1 ft (xArgs - nVarArgs + 1) xRets.

Section Heap.
  Variable env : Z -> option funcT.

  (* Value.getFunc: v.value.( *funcT ) *)
  Definition getFunc (c : cell) : cres funcT :=
    match c with
    | CFn h => match env h with Some f => Good f | None => Fail (ERuntime 4) end
    | _ => Fail (ERuntime 4)
    end.

  (* do.go: case codeCall / case codeCallVariadic *)
  Definition op_call (st : list cell) (A B : Z) : cres (list cell) :=
    match pop st with
    | None => Fail (ERuntime 3)
    | Some (st', top) => f <~ getFunc top ;; call st' f A B
    end.

  Definition op_call_variadic (st : list cell) (A B : Z) : cres (list cell) :=
    match pop st with
    | None => Fail (ERuntime 3)
    | Some (st', top) => f <~ getFunc top ;; callReady st' f A B
    end.

  (* VM.Func: a fresh VM whose stack is params ++ [fnc] runs one CALL
     instruction {A: len(params), B: xRets}; the answer is the last xRets cells *)
  Definition vm_func (fnc : cell) (xRets : Z) (params : list cell) : cres (list cell) :=
    st <~ op_call (params ++ [fnc]) (slen params) xRets ;;
    last_n xRets st.

  (* VM.Call(name, ...) = VM.Func(globals.Get(name), ...) *)
  Definition vm_call {N : Type} (globals : N -> cell) (name : N) (xRets : Z) (params : list cell) : cres (list cell) :=
    vm_func (globals name) xRets params.
End Heap.
