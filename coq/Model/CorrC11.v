(* Correspondence for script slices: a history over a pool of slice variables,
   run on Model/Slice.v, must give every answer the implementation gave (host-side
   Value API and the real opcodes through VerifExec), the capacity of every slice it
   produced (VerifCap; for a reallocating append this number is also the growth
   oracle handed to the model), and the contents of every variable. *)
From Coq Require Import ZArith List Bool.
From GV Require Import GoSpec.GoPrim GoSpec.GoSlice GoSpec.GoSliceHist Gen.ValueOps_gen Model.Slice Model.Corr.
Import ListNotations.

Inductive spref := RNone | RVar (z : nat) | RStr (s : list Z).

Inductive hop :=
| HNil (x : nat) (t : Z)                                         (* Value{t: sliceType(t)} *)
| HHost (x : nat) (t : Z) (vs : list value) (extra : nat) (c : Z) (* goatlang.NewSlice(t, vs[:n:n+extra]) *)
| HLitOp (x : nat) (t : Z) (vs : list value) (c : Z)             (* NEWSLICE *)
| HMakeOp (x : nat) (t : Z) (n : value) (ok : bool) (c : Z)      (* MAKE *)
| HGet (x : nat) (k : value) (r : res value)                     (* Value.Get / GET / FASTGETINT *)
| HSet (x : nat) (k v : value) (ok : bool)                       (* Value.Set / SET / FASTSETINT *)
| HSlice (x y : nat) (i j : Z) (ok : bool) (c : Z)               (* Value.Slice *)
| HSliceOp (x y : nat) (a b : value) (ok : bool) (c : Z)         (* SLICE *)
| HAppend (x y : nat) (items : list value) (c : Z)               (* Value.Append *)
| HAppendOp (x y : nat) (vs : list value) (sp : spref) (c : Z)   (* APPEND A B *)
| HCopyOp (x : nat) (src : spref)                                (* COPY *)
| HLen (x : nat) (n : Z)                                         (* Value.Len *)
| HLenOp (x : nat) (v : value)                                   (* LEN *)
| HIsNil (x : nat) (b : bool)                                    (* v.value == nil *)
| HRange (x : nat) (visits : list (value * value * list hop))    (* Value.Range with operations between the calls *)
| HCheck (x : nat) (elems : list value).                         (* contents read back through Get *)

(* observed capacity: -1 for a Value that holds no *sliceT *)
Definition gcap (g : gval) : Z := match g with GNil _ => -1 | GSl _ d => Z.of_nat (scap d) end.

Fixpoint values_same (a b : list value) : bool :=
  match a, b with
  | [], [] => true
  | x :: a', y :: b' => value_same x y && values_same a' b'
  | _, _ => false
  end.

Definition store_res (x : nat) (c : Z) (s : state) (r : vstore * gval) : option state :=
  let (st', g) := r in
  if (gcap g =? c)%Z then Some (st', pset (snd s) x g) else None.

Definition oracle (c : Z) : nat -> nat -> nat := fun _ _ => Z.to_nat c.

Fixpoint run_hops (fuel : nat) (s : state) (ops : list hop) : option state :=
  match fuel with O => None | S f =>
  match ops with
  | [] => Some s
  | o :: r =>
    let (st, p) := s in
    let next :=
      match o with
      | HNil x t => Some (st, pset p x (GNil (fn_sliceType t)))
      | HHost x t vs extra c => store_res x c s (host_NewSlice st t vs extra)
      | HLitOp x t vs c => store_res x c s (code_newslice st t vs)
      | HMakeOp x t n ok c =>
          match code_make st t n with
          | Ok r' => if ok then store_res x c s r' else None
          | Panic => if ok then None else Some s
          | Unmodelled => None
          end
      | HGet x k r' => if res_same value_same (Value_Get st (pget p x) k) r' then Some s else None
      | HSet x k v ok =>
          match Value_Set st (pget p x) k v with
          | Ok st' => if ok then Some (st', p) else None
          | Panic => if ok then None else Some s
          | Unmodelled => None
          end
      | HSlice x y i j ok c =>
          match Value_Slice (pget p y) i j with
          | Ok g => if ok then store_res x c s (st, g) else None
          | Panic => if ok then None else Some s
          | Unmodelled => None
          end
      | HSliceOp x y a b ok c =>
          match code_slice (pget p y) a b with
          | Ok g => if ok then store_res x c s (st, g) else None
          | Panic => if ok then None else Some s
          | Unmodelled => None
          end
      | HAppend x y items c => store_res x c s (Value_Append (oracle c) st (pget p y) items (Z.to_nat c))
      | HAppendOp x y vs sp c =>
          let extra := spread_items st (match sp with RNone => SpNone | RVar z => SpSlice (pget p z) | RStr b => SpStr b end) in
          store_res x c s (code_append (oracle c) st (pget p y) (vs ++ extra)%list)
      | HCopyOp x src =>
          match src with
          | RVar z => Some (fst (code_copy st (pget p x) (CSlice (pget p z))), p)
          | RStr b => Some (fst (code_copy st (pget p x) (CStr b)), p)
          | RNone => None
          end
      | HLen x n => if (Z.of_nat (Value_Len (pget p x)) =? n)%Z then Some s else None
      | HLenOp x v => if value_same (code_len (pget p x)) v then Some s else None
      | HIsNil x b => if Bool.eqb (g_isnil (pget p x)) b then Some s else None
      | HRange x visits => run_visits f s (pget p x) 0 visits
      | HCheck x elems => if values_same (cells st (gdata (pget p x))) elems then Some s else None
      end in
    match next with Some s' => run_hops f s' r | None => None end
  end end
with run_visits (fuel : nat) (s : state) (g : gval) (n : nat) (visits : list (value * value * list hop)) : option state :=
  match fuel with O => None | S f =>
  match visits with
  | [] => match range_next (fst s) g n with None => Some s | Some _ => None end     (* the implementation stopped: so must the model *)
  | (k, v, body) :: vs =>
      match range_next (fst s) g n with
      | Some (k', v') =>
          if value_same k k' && value_same v v' then
            match run_hops f s body with
            | Some s' => run_visits f s' g (S n) vs
            | None => None
            end
          else None
      | None => None
      end
  end end.

Inductive scase := CHist (nvars : nat) (ops : list hop).

Definition run_scase (c : scase) : bool :=
  match c with
  | CHist n ops => match run_hops 4000 ([], repeat (GNil 0) n) ops with Some _ => true | None => false end
  end.
Definition xmismatches (base : Z) (cs : list scase) : list Z := mismatches_from run_scase base cs.
