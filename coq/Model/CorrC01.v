(* Correspondence for the expression evaluation model (Model/ExprEval.v): token list + variable values +
   what the real implementation returned + what real Go computes. *)
From Coq Require Import ZArith List String Bool.
From GV Require Import GoSpec.GoPrim GoSpec.GoPrec Gen.ValueOps_gen Model.Pratt Model.PrattInst Model.ExprEval Model.Corr.
Import ListNotations.
Open Scope string_scope.
Open Scope Z_scope.

Inductive ecase := CExpr (ts : list tok) (env : list (string * Z)) (observed : res Z) (go : res Z).

Fixpoint lookup_env (env : list (string * Z)) (x : string) : Z :=
  match env with [] => 0 | (k, v) :: r => if String.eqb x k then v else lookup_env r x end.

Definition resz_same (a b : res Z) : bool :=
  match a, b with Ok x, Ok y => x =? y | Panic, Panic => true | _, _ => false end.

Definition run_ecase (c : ecase) : bool :=
  match c with
  | CExpr ts env obs go =>
      match goat_parse ts with
      | inl (t, []) =>
          let e := lookup_env env in
          let m := match eval_goat (fun x => mkValue TypeInt32 (Zn (e x)) PNone) t with
                   | Ok v => if vt v =? TypeInt32 then match vnum v with Zn z => Ok z | _ => Unmodelled end else Unmodelled
                   | Panic => Panic
                   | Unmodelled => Unmodelled
                   end in
          resz_same m obs && resz_same (eval_go e t) go
      | _ => false
      end
  end.
Definition emismatches (base : Z) (cs : list ecase) : list Z := mismatches_from run_ecase base cs.
