(* Correspondence for C13: each case carries inputs and what the real
   implementation (S*/X* cases: goatlang through its public Value API, the
   verif hooks and the exec loop) or the real Go runtime (G* cases: validation
   of GoSpec/Utf8.v, Model/Str.v's Go primitives and GoPrim's byte order)
   answered; [cmismatches] lists the indices on which the model disagrees. *)
From Coq Require Import ZArith List Bool.
From GV Require Import GoSpec.GoPrim GoSpec.Utf8 Gen.ValueOps_gen Model.Str Model.Corr.
Import ListNotations.
Open Scope Z_scope.

Inductive scase :=
(* --- goatlang, host API --- *)
| SGet (s : list Z) (k : value) (r : res (value * bool)) (after : list Z)      (* String(s).Get(k) *)
| SLen (s : list Z) (n : Z)                                                   (* String(s).Len() *)
| SSlice (s : list Z) (i j : Z) (r : res value) (after : list Z)              (* String(s).Slice(i, j) *)
| SSet (s : list Z) (k x : value) (r : res unit) (after : list Z)             (* String(s).Set(k, x) *)
| SRange (s : list Z) (visits : list (value * value)) (tail_ok : bool)        (* next() until false, then once more *)
| SToBytes (s : list Z) (t : Z) (elems : list value)                          (* convert(TypeSlice) *)
| SFromData (elems : list value) (r : value)                                  (* NewSlice(uint8, elems).convert(TypeString) *)
| SToString (v : value) (r : res value)                                       (* v.convert(TypeString), v string or numeric *)
| SBin (op : Z) (a b : value) (r : res value) (a' b' : list Z)                (* operator + operands re-read afterwards *)
(* --- goatlang, exec loop (do.go) --- *)
| XGet (s : list Z) (k : value) (r : res value)                               (* codeGet *)
| XFastGetInt (s : list Z) (b : Z) (r : res value)                            (* codeFastGetInt *)
| XLen (s : list Z) (r : res value)                                           (* codeLen *)
| XSlice (s : list Z) (a b : value) (r : res value)                           (* codeSlice, b may be nil *)
| XRange (s : list Z) (visits : list (value * value))                         (* codeRange/codeIter loop *)
| XConvert (v : value) (r : res value)                                        (* codeConvert A=TypeString *)
| XCopy (dst : list value) (s : list Z) (r : res (list value)) (after : list Z) (* codeCopy *)
(* --- the Go runtime --- *)
| GDecode (s : list Z) (r : Z) (w : Z)                                        (* utf8.DecodeRuneInString *)
| GRange (s : list Z) (pairs : list (Z * Z))                                  (* for i, r := range s *)
| GEncode (r : Z) (bs : list Z)                                               (* string(rune(r)) *)
| GRunes (s : list Z) (rs : list Z) (valid : bool)                            (* []rune(s), utf8.ValidString(s) *)
| GIndex (s : list Z) (i : Z) (r : res Z)                                     (* s[i] *)
| GSlice (s : list Z) (i j : Z) (r : res (list Z))                            (* s[i:j] *)
| GCmp (s t : list Z) (lt le eq : bool)                                       (* s < t, s <= t, s == t *)
| GCopy (dst src : list Z) (r : list Z).                                      (* copy(dst, src) *)

Fixpoint list_same {A} (eq : A -> A -> bool) (a b : list A) : bool :=
  match a, b with
  | [], [] => true
  | x :: a', y :: b' => eq x y && list_same eq a' b'
  | _, _ => false
  end.
Definition pair_same (p q : value * value) : bool := value_same (fst p) (fst q) && value_same (snd p) (snd q).
Definition getres_same (p q : value * bool) : bool := value_same (fst p) (fst q) && Bool.eqb (snd p) (snd q).
Definition zz_same (p q : Z * Z) : bool := (fst p =? fst q) && (snd p =? snd q).
Definition unit_same (a b : unit) : bool := true.

Definition run_scase (c : scase) : bool :=
  match c with
  | SGet s k r after => res_same getres_same (Value_Get (fn_String s) k) r && bytes_eqb s after
  | SLen s n => res_same Z.eqb (Value_Len (fn_String s)) (Ok n)
  | SSlice s i j r after => res_same value_same (Value_Slice (fn_String s) i j) r && bytes_eqb s after
  | SSet s k x r after => res_same unit_same (Value_Set (fn_String s) k x) r && bytes_eqb s after
  | SRange s visits tail_ok =>
      list_same pair_same (code_range_string s) visits &&
      Bool.eqb tail_ok false
  | SToBytes s t elems =>
      match convert_to_slice (fn_String s) with
      | Ok (t', l) => (t =? t') && list_same value_same l elems
      | _ => false
      end
  | SFromData elems r => value_same (convert_data_to_string elems) r
  | SToString v r => res_same value_same (convert_to_string v) r
  | SBin op a b r a' b' =>
      res_same value_same (bin_model op a b) r &&
      payload_eqb (vval a) (PStr a') && payload_eqb (vval b) (PStr b')
  | XGet s k r => res_same value_same (code_get (fn_String s) k) r
  | XFastGetInt s b r => res_same value_same (code_fast_get_int (fn_String s) b) r
  | XLen s r => res_same value_same (code_len (fn_String s)) r
  | XSlice s a b r => res_same value_same (code_slice (fn_String s) a b) r
  | XRange s visits => list_same pair_same (code_range_string s) visits
  | XConvert v r => res_same value_same (convert_to_string v) r
  | XCopy dst s r after =>
      res_same (list_same value_same) (code_copy_string dst (fn_String s)) r && bytes_eqb s after
  | GDecode s r w => let '(r', w') := decode_rune s in (r =? r') && (w =? Z.of_nat w')
  | GRange s pairs => list_same zz_same (go_range s) pairs
  | GEncode r bs => bytes_eqb (utf8_encode r) bs
  | GRunes s rs valid => list_same Z.eqb (go_runes s) rs && Bool.eqb (valid_utf8 s) valid
  | GIndex s i r => res_same Z.eqb (go_index s i) r
  | GSlice s i j r => res_same bytes_eqb (go_slice s i j) r
  | GCmp s t lt le eq => Bool.eqb (bytes_ltb s t) lt && Bool.eqb (bytes_leb s t) le && Bool.eqb (bytes_eqb s t) eq
  | GCopy dst src r => bytes_eqb (go_copy dst src) r
  end.

Definition cmismatches (base : Z) (cs : list scase) : list Z := mismatches_from run_scase base cs.
