(* Correspondence for printing.  The harness (harness/c14.go, `c14-corr`) builds values through
   the host API and scripts, walks the resulting object graph (identity through VerifSameObject,
   so cyclic graphs become cyclic heaps), calls the real Value.String() / fmt.Println / fmt.Sprint
   under a watchdog and writes:
     CString   heap description, value, observation of Value.String()
     CPrintln  heap, operands, what fmt.Println wrote to the VM's stdout
     CSprint   heap, operands, the string fmt.Sprint returned
   and, to validate the SPECIFICATION against the real fmt package:
     CSpec     a Go value (as gtop) and what fmt.Sprint (fmt.Sprintf("%+v") for struct pointers)
               of the native Go value returned
     CSpecLn   operands and what fmt.Sprintln of the native values returned
     CDec      an integer and strconv's decimal rendering
   Floats: [ftab] lists (float, fmt.Sprint(float)) for every float occurring in the case;
   fmt_float is instantiated by the table lookup -- float printing is never re-implemented here. *)
From Coq Require Import ZArith List Bool Floats String.
From GV Require Import GoSpec.GoPrim GoSpec.GoFmt Model.Print Model.Corr.
Import ListNotations.
Open Scope Z_scope.

Inductive obs := OStr (s : bytes) | OPanic | OTimeout.

Definition ftable := list (float * bytes).
Fixpoint lookup_float (tab : ftable) (f : float) : bytes :=
  match tab with
  | [] => bs "?float-not-in-table"
  | (x, s) :: r => if float_same x f then s else lookup_float r f
  end.

Inductive pcase :=
| CString (tab : ftable) (hp : list (addr * object)) (v : value) (o : obs)
| CPrintln (tab : ftable) (hp : list (addr * object)) (vs : list value) (o : obs)
| CSprint (tab : ftable) (hp : list (addr * object)) (vs : list value) (o : obs)
| CSpec (tab : ftable) (g : gtop) (s : bytes)
| CSpecLn (tab : ftable) (gs : list gtop) (s : bytes)
| CDec (z : Z) (s : bytes).

Definition same_obs (r : res bytes) (o : obs) : bool :=
  match r, o with
  | Ok s, OStr s' => bytes_eqb s s'
  | Panic, OPanic => true
  | _, _ => false           (* Unmodelled: the harness only builds modelled values; a timeout never matches *)
  end.

Definition run_pcase (c : pcase) : bool :=
  match c with
  | CString tab hp v o => same_obs (string_top (lookup_float tab) (heap_of hp) v) o
  | CPrintln tab hp vs o => same_obs (fmt_Println (lookup_float tab) (heap_of hp) vs) o
  | CSprint tab hp vs o => same_obs (fmt_Sprint (lookup_float tab) (heap_of hp) vs) o
  | CSpec tab g s => bytes_eqb (go_fmt_top (lookup_float tab) g) s
  | CSpecLn tab gs s => bytes_eqb (go_println (lookup_float tab) gs) s
  | CDec z s => bytes_eqb (print_Z z) s && match parse_dec s with Some z' => z' =? z | None => false end
  end.

Definition pmismatches (base : Z) (cs : list pcase) : list Z := mismatches_from run_pcase base cs.
