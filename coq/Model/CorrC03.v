(* Correspondence for Model/Host.v (C03).  An input is run twice on the implementation, without and
   with the dump options; the first run fixes how far the stages get (that determines the behaviours
   the adversary of the model picks), the parse hook supplies the facts about the top tree that the
   unprotected glue looks at (a nil child; per import path of the top tree: whether strconv.Unquote
   accepts it, which package it names -- equal paths get equal names, "" is Eval's own top package --
   and whether rawLoadPackage's fs.Glob rejects the pattern built from it: an unclosed [ or a trailing \), and the model must then predict the outcome of the second run: Ok, the error prefix, or
   the site of the escaping panic. *)
From Coq Require Import ZArith List String Bool.
From GV Require Import Model.Loader Model.Host Model.Corr.
Import ListNotations.
Open Scope string_scope.

Inductive obs := OOk | OErr (prefix : string) | OEsc (site : string).

(* what is known about one import path of the top tree *)
Inductive pfact :=
| PBad                        (* strconv.Unquote rejects the literal *)
| PGlobErr (name : string)    (* fs.Glob rejects a pattern rawLoadPackage builds from it (never with a nil fs) *)
| PName (name : string).      (* an ordinary path *)

Inductive c03case :=
| CEvalCase (sys_nil tree_dump code_dump has_nil : bool) (paths : list pfact) (base observed : obs)
| CLoadCase (tree_dump code_dump has_nil : bool) (base observed : obs).

Definition bad_text : string := "<not unquotable>".
Definition unq (s : string) : bool := negb (String.eqb s bad_text).
Definition path_text (f : pfact) : string := match f with PBad => bad_text | PGlobErr n => n | PName n => n end.
Definition is_glob_err (f : pfact) : bool := match f with PGlobErr _ => true | _ => false end.

(* the statements of a top tree with the observed facts *)
Definition mk_top (has_nil : bool) (paths : list pfact) : list tree :=
  let imp := match paths with
             | [] => @nil tree
             | _ => [TNode "import" "import"
                       (flat_map (fun f : pfact => [TNode "(name)" "n" []; TNode "(string)" (path_text f) []]) paths)]
             end in
  (imp ++ [if has_nil then TNode "/" "/" [TNode "(name)" "x" []; TNil] else TNode "(name)" "x" []])%list.

Definition is_err (o : obs) (p : string) : bool := match o with OErr q => String.eqb p q | _ => false end.
Definition is_esc (o : obs) : bool := match o with OEsc _ => true | _ => false end.

Definition ok_state : vmstate := mkVmstate ["nil"] [0%Z] 0%Z [].
(* "error in run: unexpected returns: ..." and a run-time error share the prefix "error in run: " *)
Definition comp_of (fails : bool) : comp_beh := if fails then CPanic false else CRet ["nil"] [].
Definition run_of (fails : bool) : run_beh := if fails then RPanic ok_state else RRet.

Definition eval_adv_of (has_nil : bool) (paths : list pfact) (base : obs) : eval_adv :=
  mkEvalAdv
    (if is_err base "error in tokenize: " then ScanErr [] else ScanOk [])
    (if is_err base "error in parse: " then PPanic else PRet (mk_top has_nil paths))
    (if is_esc base then FPanic
     else if existsb is_glob_err paths || is_err base "error in loadImports: " then FErr
     else FRet (fun _ => None) (fun _ => []) 1000)
    (comp_of (is_err base "error in compile (imports): "))
    (run_of (is_err base "error in run (imports): "))
    (comp_of (is_err base "error in compile: "))
    (run_of (is_err base "error in run: ")).

(* the model's escape sites, as the harness names them (the callee of the entry point on the panicking stack) *)
Definition site_of (w : string) : string :=
  if prefix "loadImports" w || prefix "loadPackage" w then "load"
  else if prefix "treeDump" w then "treeDump"
  else if prefix "codeDump" w then "codeDump"
  else if prefix "btErr" w then "btErr"
  else w.

Definition obs_eqb (a b : obs) : bool :=
  match a, b with
  | OOk, OOk => true
  | OErr p, OErr q => String.eqb p q
  | OEsc s, OEsc t => String.eqb s t
  | _, _ => false
  end.
Definition obs_of (o : outcome) : option obs :=
  match o with
  | Ok => Some OOk
  | Err p => Some (OErr p)
  | Escape w => Some (OEsc (site_of w))
  | Hang _ => None
  end.

Definition load_adv_of (has_nil : bool) (base : obs) : load_adv :=
  mkLoadAdv
    (if is_esc base then TopPanic else if is_err base "error in load: " then TopErr else TopRet (mk_top has_nil []))
    (FRet (fun _ => None) (fun _ => []) 1000)
    (comp_of (is_err base "error in compile: "))
    (run_of (is_err base "error in run: "))
    0.

Definition run_c03case (c : c03case) : bool :=
  match c with
  | CEvalCase sys_nil td cd has_nil paths base observed =>
      (* the run without options must itself be what the model says for these facts *)
      match obs_of (eval_model unq sys_nil (mkOpt false false false) (eval_adv_of has_nil paths base)),
            obs_of (eval_model unq sys_nil (mkOpt td cd false) (eval_adv_of has_nil paths base)) with
      | Some b, Some o => obs_eqb b base && obs_eqb o observed
      | _, _ => false
      end
  | CLoadCase td cd has_nil base observed =>
      match obs_of (load_model unq false "main" (mkOpt false false false) (load_adv_of has_nil base)),
            obs_of (load_model unq false "main" (mkOpt td cd false) (load_adv_of has_nil base)) with
      | Some b, Some o => obs_eqb b base && obs_eqb o observed
      | _, _ => false
      end
  end.

Definition xmismatches (base : Z) (cs : list c03case) : list Z := mismatches_from run_c03case base cs.
