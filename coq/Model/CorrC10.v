(* Correspondence for script maps: a history run on the OMap model must give
   every answer the implementation gave (host-side Value API). *)
From Coq Require Import ZArith List Bool.
From GV Require Import GoSpec.GoPrim Gen.ValueOps_gen Model.OMap Model.Corr.
Import ListNotations.

Section Run.
  Context {K : Type} (keqb : K -> K -> bool).
  Definition assignV (v : value) (t : Z) : value := Value_assign v t.
  Definition zeroV (t : Z) : value := fn_newZero t.

  Inductive hop :=
  | HSet (k : K) (v : value)
  | HDel (k : K) (order : list K)
  | HGet (k : K) (v : value) (ok : bool)
  | HLen (n : Z)
  | HRange (visits : list (K * value * list hop)).   (* visited key, value seen, operations done in the body *)

  Fixpoint klist_eqb (a b : list K) : bool :=
    match a, b with [] , [] => true | x :: a', y :: b' => keqb x y && klist_eqb a' b' | _, _ => false end.

  (* fuel bounds the nesting of ranges inside range bodies *)
  Fixpoint run_hops (fuel : nat) (m : @omap K value) (ops : list hop) : option (@omap K value) :=
    match fuel with O => None | S f =>
    match ops with
    | [] => Some m
    | HSet k v :: r => run_hops f (set keqb assignV m k v) r
    | HDel k order :: r => run_hops f (delete keqb m k order) r
    | HGet k v ok :: r => let (v', ok') := get keqb zeroV m k in
                          if value_same v v' && Bool.eqb ok ok' then run_hops f m r else None
    | HLen n :: r => if Z.eqb (Z.of_nat (len m)) n then run_hops f m r else None
    | HRange visits :: r =>
        match run_visits f m (keys m) visits with
        | Some m' => run_hops f m' r
        | None => None
        end
    end end
  with run_visits (fuel : nat) (m : @omap K value) (snap : list K) (visits : list (K * value * list hop)) : option (@omap K value) :=
    match fuel with O => None | S f =>
    match visits with
    | [] => match next keqb m snap with None => Some m | Some _ => None end       (* the implementation stopped: so must the model *)
    | (k, v, body) :: vs =>
        match next keqb m snap with
        | Some (k', v', snap') =>
            if keqb k k' && value_same v v' then
              match run_hops f m body with
              | Some m' => run_visits f m' snap' vs
              | None => None
              end
            else None
        | None => None
        end
    end end.
End Run.

Inductive mcase :=
| CMapZ (vt : Z) (init : list (Z * value)) (ops : list (@hop Z))
| CMapS (vt : Z) (init : list (list Z * value)) (ops : list (@hop (list Z))).

Definition run_mcase (c : mcase) : bool :=
  match c with
  | CMapZ vt init ops => match run_hops Z.eqb 4000 (new_map Z.eqb assignV vt init) ops with Some _ => true | None => false end
  | CMapS vt init ops => match run_hops bytes_eqb 4000 (new_map bytes_eqb assignV vt init) ops with Some _ => true | None => false end
  end.
Definition mmismatches (base : Z) (cs : list mcase) : list Z := mismatches_from run_mcase base cs.
