(* Peephole: the generic window matcher of compiler.doOptimize over the rule table
   regenerated from /repo/compiler.go by go2v (Gen/Tables_gen.v peephole_rules:
   rule order, side conditions, operand maps and kept Pos included). *)
From Coq Require Import ZArith List String Bool.
From GV Require Import Model.PeepTypes Model.VM Gen.Tables_gen.
Import ListNotations.
Open Scope Z_scope.

Definition dummy_instr : instr := mkI (-999) 0 0 0 0.
Definition field_of (i : instr) (f : field) : Z := match f with FA => iA i | FB => iB i | FC => iC i end.
Definition win (w : list instr) (k : nat) : instr := nth k w dummy_instr.

Fixpoint eval_operand (w : list instr) (o : operand) : Z :=
  match o with
  | OZero => 0
  | OField k f => field_of (win w k) f
  | ONeg o' => - eval_operand w o'
  | OJoin a b => joinParams (eval_operand w a) (eval_operand w b)
  end.
Definition cond_ok (w : list instr) (c : cond) : bool :=
  match c with
  | CSame i f j g => field_of (win w i) f =? field_of (win w j) g
  | CConst i f v => field_of (win w i) f =? v
  | CNotConst i f v => negb (field_of (win w i) f =? v)
  end.
Fixpoint codes_match (names : list string) (w : list instr) : bool :=
  match names, w with
  | [], _ => true
  | n :: ns, i :: w' => (icode i =? C n) && codes_match ns w'
  | _ :: _, [] => false                       (* n < len(in) - k fails: the window does not fit *)
  end.
Definition rule_matches (r : rule) (w : list instr) : bool :=
  codes_match (r_codes r) w && forallb (cond_ok w) (r_conds r).
Definition rule_len (r : rule) : nat := List.length (r_codes r).
Definition fused (r : rule) (w : list instr) : instr :=
  mkI (C (r_out r)) (eval_operand w (r_A r)) (eval_operand w (r_B r)) (eval_operand w (r_C r)) (ipos (win w (r_pos r))).

Fixpoint first_match (rs : list rule) (w : list instr) : option rule :=
  match rs with
  | [] => None
  | r :: rs' => if rule_matches r w then Some r else first_match rs' w
  end.

(* for n := 0; n < len(in); n++ { switch { case <rule k matches at n>: out = append(out, fused); n += len-1 ... default: out = append(out, in[n]) } } *)
Fixpoint do_optimize_fuel (fuel : nat) (rs : list rule) (code : list instr) : list instr :=
  match fuel with
  | O => code
  | S f =>
      match code with
      | [] => []
      | i :: rest =>
          match first_match rs code with
          | Some r => fused r code :: do_optimize_fuel f rs (skipn (rule_len r) code)
          | None => i :: do_optimize_fuel f rs rest
          end
      end
  end.
Definition do_optimize (rs : list rule) (code : list instr) : list instr :=
  do_optimize_fuel (S (List.length code)) rs code.

(* compiler.optimize: doOptimize applied optimize_passes (= 2) times when the flag is on *)
Fixpoint iter_opt (n : nat) (rs : list rule) (code : list instr) : list instr :=
  match n with O => code | S n' => iter_opt n' rs (do_optimize rs code) end.
Definition optimize (on : bool) (code : list instr) : list instr :=
  if on then iter_opt optimize_passes peephole_rules code else code.
