(* Print: transcription of goatlang's rendering of values
   (/repo/value.go: Value.String, Value.safeStr, sliceT/stringMap/numericMap/structT
   .String and .SafeStr, Type.isSafeStr; /repo/builtins.go: sprint, vaSprint, fmt.Print,
   fmt.Println, fmt.Sprint, print, println).

   Objects live in a heap [addr -> option object]; the heap may be cyclic.  The Go code is
   three layers deep and NONE of the layers recurses through the heap:
     string_top     Value.String: scalars itself, containers through String()
     safe_str       Value.safeStr of an element of the top container: SafeStr() of the element
     safe_str_leaf  Value.safeStr of an element inside SafeStr(): only reached when
                    isSafeStr() holds for the element's type, i.e. for non-containers
   so all three are plain (fuel-free, total) Gallina functions.

   Representation: [value] of GoSpec/GoPrim.v (tag, number, payload); a container value holds
   [PRef a]; Go dispatches String()/SafeStr() on the DYNAMIC type of v.value, the model on the
   kind of the object stored at [a].  A struct is its field list in declaration order
   (s.Order with s.Lookup/s.Fields already resolved).  Map objects list their entries in the
   order Go's `range m.data` happens to produce (unspecified for more than one entry).
   Results: [Ok s]; [Panic] (v.value.(stringT) on a string-typed value without payload);
   [Unmodelled] for values outside the modelled universe (functions, wrapped host objects,
   dangling addresses, scalar-tagged values carrying a reference). *)
From Coq Require Import ZArith List Bool Floats Lia String.
From GV Require Import GoSpec.GoPrim GoSpec.GoFmt Gen.ValueOps_gen.
Import ListNotations.
Open Scope Z_scope.

Definition addr := Z.

Inductive object :=
| OSlice (data : list value)                              (* sliceT.data *)
| OStrMap (entries : list (bytes * value))                (* stringMap.data in range order *)
| ONumMap (keyType : Z) (entries : list (num * value))    (* numericMap.keyType, .data in range order *)
| OStruct (fields : list (bytes * value)).                (* structT: Order, with Fields.Get(Lookup[k]) *)

Definition heap := addr -> option object.

Definition is_int_tag (t : Z) : bool :=
  (t =? TypeInt32) || (t =? TypeUint32) || (t =? TypeInt8) || (t =? TypeUint8) || (t =? untypedInt).

Section Print.
  Variable fmt_float : float -> bytes.     (* fmt.Sprint(float64) *)
  Variable h : heap.

  (* Value.String; [obj_str] is what fmt.Sprint(v.value) does with the object (its String method).
     fmt recovers a panic raised inside a String method and prints a %!v(PANIC=...) text: that
     text is not modelled. *)
  Definition value_string (obj_str : object -> res bytes) (v : value) : res bytes :=
    let t := Type_base (vt v) in
    if t =? TypeNil then Ok (bs "nil")
    else if t =? TypeBool then Ok (if num_eqb (vnum v) (Zn 0) then bs "false" else bs "true")
    else if is_int_tag t then Ok (print_Z (cvt I64 (vnum v)))          (* fmt.Sprint(int(v.num)) *)
    else if t =? TypeFloat64 then Ok (fmt_float (as_float (vnum v)))
    else if t =? TypeString then as_str (vval v)
    else match vval v with
         | PNone =>
             if (t =? TypeStruct) || (t =? TypeFunc) then Ok (bs "nil")
             else if t =? TypeSlice then Ok (bs "[]")
             else if t =? TypeMap then Ok (bs "map[]")
             else Ok (bs "<nil>")                                       (* fmt.Sprint(nil) *)
         | PRef a =>
             match h a with
             | Some o => match obj_str o with Ok s => Ok s | _ => Unmodelled end
             | None => Unmodelled
             end
         | PStr _ => Unmodelled
         end.

  (* layer 3: v.safeStr() where v.t.isSafeStr(): v.value is not a container, so v.String() *)
  Definition safe_str_leaf (v : value) : res bytes :=
    match vval v with
    | PRef _ => Unmodelled
    | _ => value_string (fun _ => Unmodelled) v
    end.

  (* the pieces of a container: opening text, items (text before the element, element), closing
     text, and what SafeStr returns when an element is itself a container *)
  Definition num_key (kt : Z) (k : num) : res bytes :=        (* Value{t: m.keyType, num: k}.String() *)
    value_string (fun _ => Unmodelled) (mkValue kt k PNone).
  Definition obj_open (o : object) : bytes :=
    match o with OSlice _ => bs "[" | OStrMap _ | ONumMap _ _ => bs "map[" | OStruct _ => bs "&{" end.
  Definition obj_close (o : object) : bytes :=
    match o with OStruct _ => bs "}" | _ => bs "]" end.
  Definition obj_dots (o : object) : bytes :=
    match o with OSlice _ => bs "[...]" | OStrMap _ | ONumMap _ _ => bs "map[...]" | OStruct _ => bs "&{...}" end.
  Definition obj_items (o : object) : list (res bytes * value) :=
    match o with
    | OSlice d => map (fun v => (Ok [], v)) d
    | OStrMap es => map (fun e => (Ok (fst e ++ bs ":")%list, snd e)) es
    | ONumMap kt es => map (fun e => (k <- num_key kt (fst e) ;; Ok (k ++ bs ":")%list, snd e)) es
    | OStruct fs => map (fun e => (Ok (fst e ++ bs ":")%list, snd e)) fs
    end.

  (* SafeStr(): the loop stops with "[...]" at the first element whose type is a container *)
  Fixpoint safe_items (items : list (res bytes * value)) : res (option (list bytes)) :=
    match items with
    | [] => Ok (Some [])
    | (pre, v) :: r =>
        if Type_isSafeStr (vt v) then
          p <- pre ;; s <- safe_str_leaf v ;; rest <- safe_items r ;;
          Ok (match rest with Some l => Some ((p ++ s)%list :: l) | None => None end)
        else Ok None
    end.
  Definition obj_safe_str (o : object) : res bytes :=
    r <- safe_items (obj_items o) ;;
    Ok (match r with Some l => (obj_open o ++ join_sp l ++ obj_close o)%list | None => obj_dots o end).

  (* layer 2: v.safeStr() of an element of the top-level container *)
  Definition safe_str (v : value) : res bytes :=
    match vval v with
    | PRef a => match h a with Some o => obj_safe_str o | None => Unmodelled end
    | _ => value_string (fun _ => Unmodelled) v
    end.

  (* String() of a container *)
  Fixpoint str_items (items : list (res bytes * value)) : res (list bytes) :=
    match items with
    | [] => Ok []
    | (pre, v) :: r => p <- pre ;; s <- safe_str v ;; rest <- str_items r ;; Ok ((p ++ s)%list :: rest)
    end.
  Definition obj_string (o : object) : res bytes :=
    l <- str_items (obj_items o) ;; Ok (obj_open o ++ join_sp l ++ obj_close o)%list.

  (* layer 1: Value.String *)
  Definition string_top (v : value) : res bytes := value_string obj_string v.

  (* builtins.go *)
  Definition sprint (v : value) : res bytes := string_top v.
  Fixpoint sprint_all (va : list value) : res (list bytes) :=
    match va with
    | [] => Ok []
    | a :: r => s <- sprint a ;; rest <- sprint_all r ;; Ok (s :: rest)
    end.
  Definition va_sprint (va : list value) : res bytes :=            (* strings.Join(res, " ") *)
    l <- sprint_all va ;; Ok (join_sp l).
  Definition fmt_Sprint := va_sprint.
  Definition fmt_Print := va_sprint.                               (* written to stdout *)
  Definition fmt_Println (va : list value) : res bytes :=          (* fmt.Fprintln(stdout, vaSprint) *)
    s <- va_sprint va ;; Ok (s ++ [10])%list.
End Print.

(* ---- which part of the heap the rendering looks at ------------------------------- *)

Definition vref (v : value) : list addr := match vval v with PRef a => [a] | _ => [] end.
Definition obj_values (o : object) : list value :=
  match o with
  | OSlice d => d
  | OStrMap es => map snd es
  | ONumMap _ es => map snd es
  | OStruct fs => map snd fs
  end.
(* addresses reachable from v in one step / in two steps *)
Definition reach1 (v : value) : list addr := vref v.
Definition reach2 (h : heap) (v : value) : list addr :=
  flat_map (fun a => match h a with Some o => flat_map vref (obj_values o) | None => [] end) (vref v).

(* finite heaps for evaluation *)
Fixpoint heap_of (l : list (addr * object)) : heap :=
  fun a => match l with
           | [] => None
           | (b, o) :: r => if a =? b then Some o else heap_of r a
           end.
