(* TreeSort: /repo/tree.go treeSort = sort.SliceStable of the top-level nodes by
   descending priority of their symbol (table regenerated from tree.go by go2v),
   and /repo/load.go joinFiles. *)
From Coq Require Import ZArith List String Bool.
Import ListNotations.
Open Scope string_scope.
Open Scope Z_scope.

Section Sort.
  Context {A : Type}.
  Variable prio : A -> Z.

  (* stable insertion sort, descending (fold_right inserts the LAST node first, so an earlier node goes in front of later nodes of equal priority) *)
  Fixpoint insert_desc (x : A) (l : list A) : list A :=
    match l with
    | [] => [x]
    | y :: r => if prio y <=? prio x then x :: l else y :: insert_desc x r
    end.
  Definition tree_sort (l : list A) : list A := fold_right insert_desc [] l.
End Sort.

(* priority[a.Symbol]: a missing key of a Go map reads as 0 *)
Fixpoint prio_of (table : list (string * Z)) (sym : string) : Z :=
  match table with
  | [] => 0
  | (k, v) :: r => if String.eqb sym k then v else prio_of r sym
  end.

(* joinFiles: the first file whole, then every later file without its first node (the package clause) *)
Definition join_files {A} (files : list (list A)) : list A :=
  match files with
  | [] => []
  | f :: r => (f ++ List.concat (map (@tl A) r))%list
  end.
