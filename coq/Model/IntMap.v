(* IntMap: transcription of /repo/intmap.go (robin-hood hashing with backward-shift
   deletion; hash = identity; table size a power of two >= 16).  The unbounded
   `for {}` probing loops of the Go code run here on an explicit budget
   (the table size); exhausting it is the distinct result [None] and theorem
   c12_budget shows it never happens under the invariant. *)
From Coq Require Import ZArith List Bool Lia PeanoNat.
Import ListNotations.

Section IntMap.
  Context {V : Type}.
  Variable vzero : V.                    (* Value{} *)
  Variable assignV : V -> V -> V.        (* assignV new old = new.assign(old.t) *)

  Record cell := mkCell { cdist : nat; ckey : Z; cval : V }.
  Definition empty_cell : cell := mkCell 0 0%Z vzero.

  (* mask = size - 1 is implicit: i &= mask is i mod size for a power of two *)
  Record imap := mkMap { cells : list cell; total : nat; size : nat; mn : nat; mx : nat }.

  Definition intMapMin : nat := 16.

  Definition get_cell (cs : list cell) (i : nat) : cell := nth i cs empty_cell.
  Fixpoint set_cell (cs : list cell) (i : nat) (c : cell) : list cell :=
    match cs, i with
    | [], _ => []
    | _ :: r, O => c :: r
    | x :: r, S i' => x :: set_cell r i' c
    end.

  (* intMapHash(k) & mask *)
  Definition home (sz : nat) (k : Z) : nat := Z.to_nat (k mod Z.of_nat sz).
  Definition next (sz i : nat) : nat := (i + 1) mod sz.

  (* m.init(size, total) *)
  Definition init (sz tot : nat) : imap :=
    mkMap (repeat empty_cell sz) tot sz (sz / 4) (sz * 3 / 4).

  (* newIntMap(alloc): size := 16; for size < alloc<<1 { size <<= 1 } *)
  Fixpoint grow_to (fuel sz need : nat) : nat :=
    match fuel with
    | O => sz
    | S f => if sz <? need then grow_to f (sz * 2) need else sz
    end.
  Definition newIntMap (alloc : nat) : imap := init (grow_to 64 intMapMin (alloc * 2)) 0.

  (* m.insert(i, key, value): the displaced pair is carried along *)
  Fixpoint insert_loop (fuel sz : nat) (cs : list cell) (i : nat) (p : cell) : option (list cell) :=
    match fuel with
    | O => None
    | S f =>
        let c := get_cell cs i in
        if cdist c <? cdist p then
          let cs' := set_cell cs i p in
          if cdist c =? 0 then Some cs'
          else insert_loop f sz cs' (next sz i) (mkCell (S (cdist c)) (ckey c) (cval c))
        else insert_loop f sz cs (next sz i) (mkCell (S (cdist p)) (ckey p) (cval p))
    end.
  Definition insert (sz : nat) (cs : list cell) (k : Z) (v : V) : option (list cell) :=
    insert_loop (2 * sz) sz cs (home sz k) (mkCell 1 k v).

  (* m.resize(size) *)
  Fixpoint reinsert (sz : nat) (old : list cell) (cs : list cell) : option (list cell) :=
    match old with
    | [] => Some cs
    | c :: r =>
        if cdist c =? 0 then reinsert sz r cs
        else match insert sz cs (ckey c) (cval c) with
             | Some cs' => reinsert sz r cs'
             | None => None
             end
    end.
  Definition resize (m : imap) (sz : nat) : option imap :=
    let sz := if sz <? intMapMin then intMapMin else sz in
    if sz =? size m then Some m
    else let m0 := init sz (total m) in
         match reinsert sz (cells m) (cells m0) with
         | Some cs => Some (mkMap cs (total m0) (size m0) (mn m0) (mx m0))
         | None => None
         end.

  (* m.Get(key) *)
  Fixpoint get_loop (fuel sz : nat) (cs : list cell) (i : nat) (k : Z) : option (option V) :=
    match fuel with
    | O => None
    | S f =>
        let c := get_cell cs i in
        if cdist c =? 0 then Some None
        else if Z.eqb (ckey c) k then Some (Some (cval c))
        else get_loop f sz cs (next sz i) k
    end.
  Definition get (m : imap) (k : Z) : option (option V) :=
    get_loop (S (size m)) (size m) (cells m) (home (size m) k) k.

  (* m.Set(key, value) *)
  Fixpoint set_loop (fuel : nat) (m : imap) (i : nat) (k : Z) (v : V) : option imap :=
    match fuel with
    | O => None
    | S f =>
        let c := get_cell (cells m) i in
        if cdist c =? 0 then
          match insert (size m) (cells m) k v with
          | None => None
          | Some cs =>
              let m' := mkMap cs (S (total m)) (size m) (mn m) (mx m) in
              if mx m' <? total m' then resize m' (size m' * 2) else Some m'
          end
        else if Z.eqb (ckey c) k then
          Some (mkMap (set_cell (cells m) i (mkCell (cdist c) (ckey c) v)) (total m) (size m) (mn m) (mx m))
        else set_loop f m (next (size m) i) k v
    end.
  Definition set (m : imap) (k : Z) (v : V) : option imap :=
    set_loop (S (size m)) m (home (size m) k) k v.

  (* m.Assign(key, value): only existing keys; the stored value keeps its type *)
  Fixpoint assign_loop (fuel : nat) (m : imap) (i : nat) (k : Z) (v : V) : option imap :=
    match fuel with
    | O => None
    | S f =>
        let c := get_cell (cells m) i in
        if cdist c =? 0 then Some m
        else if Z.eqb (ckey c) k then
          Some (mkMap (set_cell (cells m) i (mkCell (cdist c) (ckey c) (assignV v (cval c)))) (total m) (size m) (mn m) (mx m))
        else assign_loop f m (next (size m) i) k v
    end.
  Definition assign (m : imap) (k : Z) (v : V) : option imap :=
    assign_loop (S (size m)) m (home (size m) k) k v.

  (* m.Delete(key): backward shift until a cell with distance <= 1 *)
  Fixpoint shift_loop (fuel : nat) (m : imap) (prev i : nat) : option imap :=
    match fuel with
    | O => None
    | S f =>
        let c := get_cell (cells m) i in
        if cdist c <=? 1 then
          let p := get_cell (cells m) prev in
          let m' := mkMap (set_cell (cells m) prev (mkCell 0 (ckey p) (cval p))) (total m - 1) (size m) (mn m) (mx m) in
          if total m' <? mn m' then resize m' (size m' / 2) else Some m'
        else
          let m' := mkMap (set_cell (cells m) prev (mkCell (cdist c - 1) (ckey c) (cval c))) (total m) (size m) (mn m) (mx m) in
          shift_loop f m' i (next (size m) i)
    end.
  Fixpoint delete_loop (fuel : nat) (m : imap) (i : nat) (k : Z) : option imap :=
    match fuel with
    | O => None
    | S f =>
        let c := get_cell (cells m) i in
        if cdist c =? 0 then Some m
        else if Z.eqb (ckey c) k then shift_loop (S (size m)) m i (next (size m) i)
        else delete_loop f m (next (size m) i) k
    end.
  Definition delete (m : imap) (k : Z) : option imap :=
    delete_loop (S (size m)) m (home (size m) k) k.

  Definition copy (m : imap) : imap := m.     (* values are immutable in the model: copying the slice = sharing *)
  Definition len (m : imap) : nat := total m.

  (* the abstraction: the association list of the occupied cells *)
  Definition contents (m : imap) : list (Z * V) :=
    map (fun c => (ckey c, cval c)) (filter (fun c => negb (cdist c =? 0)) (cells m)).
End IntMap.

Arguments mkCell {V}.
Arguments mkMap {V}.
