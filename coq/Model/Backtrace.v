(* Backtrace: derived definitions for property C20 over Model/VM.v.

   1. The error text of VM.btErr as a list of positions: the position of the
      failing instruction, then the non-zero backtrace entries, innermost first
      (the model's [bt] has its head = the most recent push, btErr walks the Go
      slice from its end).
   2. A GHOST-instrumented copy of the dispatch loop: [gexec]/[gcall] are
      [exec]/[call_fn] with two extra pieces of bookkeeping that the machine
      itself does not have and that nothing in the computation depends on:
        - [chain]: the call instructions of the calls that are active, innermost
          first.  It is a PARAMETER of the recursion: the body of a callee is run
          with [ci :: chain] where [ci] is the call instruction, and after the
          callee returned the caller continues with its own [chain].  So it is the
          active call chain by construction.
        - [g_at]: the instruction at which a failure was RAISED (the instruction
          whose step failed, or the call instruction when the failure is raised at
          the call boundary: wrong argument count, result count, not a function).
      Proofs/C20_bt.v shows that the ghost does not change the result (erasure)
      and that the machine's own backtrace [bt] and the reported position agree
      with the ghost at every failure. *)
From Coq Require Import ZArith List String Bool.
From GV Require Import GoSpec.GoPrim Gen.ValueOps_gen Gen.Tables_gen Model.VM.
Import ListNotations.
Open Scope string_scope.
Open Scope Z_scope.

(* newPos (compiler.go): file index << 48 | function-name index << 32 | line << 16 | column *)
Definition col_of (p : Z) : Z := p mod 65536.
Definition line_of (p : Z) : Z := (p / 65536) mod 65536.
Definition func_of (p : Z) : Z := (p / 4294967296) mod 65536.
Definition mk_pos (fn line col : Z) : Z := fn * 4294967296 + line * 65536 + col.
Definition same_line (p q : Z) : Prop := line_of p = line_of q /\ func_of p = func_of q.
Definition same_lineb (p q : Z) : bool := (line_of p =? line_of q) && (func_of p =? func_of q).

(* btErr: first line = position of frame.Codes[frame.N]; then one line per non-zero backtrace entry *)
Definition nonzero (p : Z) : bool := negb (p =? 0).
Definition err_trace (pos : Z) (b : list Z) : list Z := pos :: filter nonzero b.
Definition result_trace (r : result) : option (list Z) :=
  match r with RFail _ pos s => Some (err_trace pos (bt s)) | _ => None end.
(* what the property speaks about: (function, line) per text line *)
Definition trace_lines (t : list Z) : list (Z * Z) := map (fun p => (func_of p, line_of p)) t.

Record ghost := mkG { g_chain : list instr; g_at : option instr }.

Section Ghost.
  Variable grow : Z -> Z -> Z.
  Variable ext_get : st -> value -> value -> option (res value).
  Variable ext_set : st -> value -> value -> value -> option (res st).
  Variable ext_len : st -> value -> option Z.
  Variable ext_getattr : st -> value -> Z -> option (res (value * st)).
  Variable ext_setattr : st -> value -> Z -> value -> option (res st).

  Notation step1 := (step1 grow ext_get ext_set ext_len ext_getattr ext_setattr).

  Definition raised (chain : list instr) (i : instr) : ghost := mkG chain (Some i).
  Definition quiet (chain : list instr) : ghost := mkG chain None.

  (* textually exec / call_fn of Model/VM.v; the only additions are [chain], [ci] (the call instruction,
     whose position is the [pos] argument of call_fn) and the ghost component of the result *)
  Fixpoint gexec (fuel : nat) (codes : list instr) (pc : Z) (slots ops : list value) (s : st)
                 (chain : list instr) {struct fuel} : result * ghost :=
    match fuel with
    | O => (RFuel, quiet chain)
    | S f =>
      match znth codes pc with
      | None => (RDone slots ops s, quiet chain)
      | Some i =>
          match step1 codes pc i slots ops s with
          | SNext slots' ops' s' => gexec f codes (pc + 1) slots' ops' s' chain
          | SJump d slots' ops' s' => gexec f codes (pc + d + 1) slots' ops' s' chain
          | SCall pack fa xArgs xRets slots' ops' s' =>
              match gcall f pack fa xArgs xRets i ops' s' chain with
              | (COk ops'' s'', _) => gexec f codes (pc + 1) slots' ops'' s'' chain
              | (CErr r, g) => (r, g)                   (* a failure below is handed up untouched *)
              end
          | SRet slots' ops' s' => (RDone slots' ops' s', quiet chain)
          | SFail msg s' => (RFail msg (ipos i) s', raised chain i)
          | SStuck w => (RStuck w, quiet chain)
          | SUnmod w => (RUnmod w, quiet chain)
          end
      end
    end

  with gcall (fuel : nat) (pack : bool) (fa : Z) (xArgs xRets : Z) (ci : instr) (ops : list value) (s : st)
             (chain : list instr) {struct fuel} : cres * ghost :=
    let pos := ipos ci in
    match fuel with
    | O => (CErr RFuel, quiet chain)
    | S f =>
      match hget s fa with
      | Some (HNative name) =>
          if (String.eqb name "builtin.println") || (String.eqb name "builtin.print") ||
             (String.eqb name "fmt.Println") || (String.eqb name "fmt.Print") then
            if negb pack then (CErr (RUnmod "native with spread"), quiet chain) else
            match popn (Z.to_nat xArgs) ops [] with
            | Some (args, rest) =>
                match all_some (map to_string args) with
                | Some strs =>
                    let line := if (String.eqb name "builtin.println") || (String.eqb name "fmt.Println")
                                then (join_sp strs ++ [10])%list else join_sp strs in
                    if 0 <? xRets then (CErr (RFail "incorrect returns" pos s), raised chain ci)
                    else (COk rest (emit s line), quiet chain)
                | None => (CErr (RUnmod "printing of this value kind"), quiet chain)
                end
            | None => (CErr (RStuck "native arguments"), quiet chain)
            end
          else (CErr (RUnmod "native function"), quiet chain)
      | Some (HFunc nargs nrets variadic vtype nslots types body) =>
          let packed :=
            if variadic && pack then
              let nVar := xArgs - nargs + 1 in
              if nVar <? 0 then inr (RFail "runtime error" pos s) else
              match popn (Z.to_nat nVar) ops [] with
              | Some (vargs, rest) =>
                  let (s1, sv) := variadic_arg s vtype nVar vargs in
                  inl (sv :: rest, xArgs - nVar + 1, s1)
              | None => inr (RStuck "variadic arguments")
              end
            else inl (ops, xArgs, s) in
          match packed with
          | inr r => (CErr r, raised chain ci)
          | inl (ops1, xArgs1, s1) =>
              if negb (xArgs1 =? nargs) then (CErr (RFail "incorrect args" pos s1), raised chain ci) else
              match popn (Z.to_nat nargs) ops1 [] with
              | None => (CErr (RStuck "arguments"), quiet chain)
              | Some (args, rest) =>
                  let typed := map (fun p => Value_assign (fst p) (snd p)) (combine args types) in
                  let slots := (typed ++ repeat nilV (Z.to_nat (nslots - nargs)))%list in
                  (* the callee's body runs with the call instruction on top of the caller's chain *)
                  match gexec f body 0 slots [] (push_bt s1 pos) (ci :: chain) with
                  | (RDone _ rops s2, _) =>
                      (* the callee has returned: from here on the active calls are the caller's again *)
                      let results := rev rops in
                      let n := zlen results in
                      if n <? nrets then (CErr (RFail "missing return" pos (pop_bt s2)), raised chain ci) else
                      let rtypes := skipn (Z.to_nat nargs) types in
                      let keep := firstn (Z.to_nat (n - nrets)) results in
                      let top := skipn (Z.to_nat (n - nrets)) results in
                      let results' := (keep ++ map (fun p => Value_assign (fst p) (snd p)) (combine top rtypes))%list in
                      if n <? xRets then (CErr (RFail "incorrect returns" pos (pop_bt s2)), raised chain ci)
                      else (COk (rev (firstn (Z.to_nat xRets) results') ++ rest)%list (pop_bt s2), quiet chain)
                  | (r, g) => (CErr r, g)               (* a failure inside the callee is handed up untouched *)
                  end
              end
          end
      | Some _ => (CErr (RFail "interface conversion" pos s), raised chain ci)
      | None => (CErr (RFail "interface conversion" pos s), raised chain ci)
      end
    end.

  Definition grun (fuel : nat) (codes : list instr) (nslots : Z) (s : st) : result * ghost :=
    gexec fuel codes 0 (repeat nilV (Z.to_nat nslots)) [] s [].
End Ghost.

(* the error text the ghost predicts: position of the raising instruction, then the positions of the
   active call instructions, innermost first (zero positions -- the synthetic CALL of VM.Func -- are not printed) *)
Definition ghost_trace (g : ghost) : option (list Z) :=
  match g_at g with
  | Some i => Some (ipos i :: filter nonzero (map ipos (g_chain g)))
  | None => None
  end.
