(* Host: the public entry points of /repo/vm.go (Eval, Load, Call, Func) as compositions of
   stages.  What is modelled EXACTLY is the glue between the stages and every recover handler
   (what it dereferences or indexes); what is OVER-APPROXIMATED is the body of a stage: it is
   a "behaviour" picked by an adversary -- it returns some value, returns an error, or panics in
   some state.  The outcome seen by the embedding host is

     Ok | Err prefix | Escape where | Hang stage

   Escape = a Go panic leaves the entry point (no recover on the way, or the recover handler
   itself panics).  Hang = the stage does not return.

   Exact parts, with their source anchors:
     tokenize   token.go:113-153  res = append(scanned, eof) always; no recover
     parse      parse.go:12-27    p.Token is nil until the first p.Next(); the handler reads p.Token.Pos
     loadImports load.go:26-113   deferred recover: EVERY panic inside (pk.Unquote() on an import path, a nil node)
                                  becomes an error; rawLoadPackage(nil fs, _) = os.ErrNotExist (load.go:171), so with
                                  a nil fs.FS every imported package counts as missing (built-in);
                                  packages with no nodes are replaced by the synthetic (_ (package _ name));
                                  order = Model/Loader.v
     Eval glue  vm.go:187-236     pkgs[:len(pkgs)-1], pkgs[len(pkgs)-1:], treeDump, codeDump outside any recover
     Load glue  vm.go:136-165     loadPackage / loadFile (deferred recoverLoad around reading the top package),
                                  treeDump(all), compilePkgs, codeDump, run, "error in run: unexpected returns"
     treeDump   vm.go:167-176     t.String() (token.go:42: a nil receiver prints "<nil>"), s[3:len(s)-1]
     codeDump   vm.go:178-185     Pos.String -> pos.info (compiler.go:90-99: l.Key(idx)[1:]); instruction.String -> g.Key(operand)
     compiler.run handler compiler.go:175-183   nil-safe
     VM.run / Func handler  vm.go:58-79 btErr: clamps frame.N, Pos.String of the instruction and of every
                                  non-zero backtrace entry
     newPos     compiler.go:78-94 (c(fileIdx)<<48)|(c(funcIdx)<<32)|(c(line)<<16)|c(column), c = clamp16 *)
From Coq Require Import ZArith List String Bool Lia.
From GV Require Import Model.Loader.
Import ListNotations.
Open Scope string_scope.
Open Scope Z_scope.

Inductive stage := STokenize | SParse | SLoad | SCompile | SRun.
Inductive outcome := Ok | Err (prefix : string) | Escape (where_ : string) | Hang (s : stage).

(* result of one stage *)
Inductive sres (A : Type) := SOk (a : A) | SErr | SEscape (where_ : string) | SHang.
Arguments SOk {A} a. Arguments SErr {A}. Arguments SEscape {A} where_. Arguments SHang {A}.

(* ---- tokens and trees ------------------------------------------------------------------ *)

Record tok := mkTok { tsym : string; ttext : string }.
Definition eof : tok := mkTok "(eof)" "(eof)".

(* *token: nil, or a node with Symbol, Text and children *)
Inductive tree := TNil | TNode (sym text : string) (kids : list tree).

Definition kids_of (t : tree) : list tree := match t with TNil => [] | TNode _ _ k => k end.
Definition text_of (t : tree) : string := match t with TNil => "" | TNode _ x _ => x end.

(* ---- tokenize ---------------------------------------------------------------------------- *)

(* the text/scanner loop: returns the tokens scanned so far, with or without an error; it has no
   recover, so a panic in it would leave Eval *)
Inductive scan_beh := ScanOk (l : list tok) | ScanErr (l : list tok) | ScanPanic.

Definition tokenize_model (b : scan_beh) : sres (list tok) :=
  match b with
  | ScanOk l => SOk (l ++ [eof])%list         (* res = append(res, eof); return res, nil *)
  | ScanErr _ => SErr
  | ScanPanic => SEscape "tokenize"
  end.

(* ---- parse ------------------------------------------------------------------------------- *)

(* after the first p.Next() the body returns or panics; p.Token is only ever assigned from
   p.Tokens[p.N] (parse.go:78), so it is non-nil from then on.  What parse returns is always the node
   res = &token{Text: "_"} with the statements appended (parse.go:13,23): the behaviour supplies the statements *)
Inductive parse_beh := PRet (stmts : list tree) | PPanic.

Definition parse_model (tokens : list tok) (b : parse_beh) : sres tree :=
  match tokens with
  | [] => SEscape "parse handler: p.Token is nil"     (* p.Next() indexes Tokens[0]; handler reads p.Token.Pos *)
  | _ :: _ => match b with PRet stmts => SOk (TNode "" "_" stmts) | PPanic => SErr end
  end.

(* ---- positions --------------------------------------------------------------------------- *)

Definition two64 : Z := 2 ^ 64.
(* clamp16 keeps a field from spilling into its neighbour *)
Definition clamp16 (n : Z) : Z := if n <? 0 then 0 else if 65535 <? n then 65535 else n.
Definition pack_pos (fi fu line col : Z) : Z :=
  (Z.lor (Z.lor (Z.lor (Z.shiftl fi 48) (Z.shiftl fu 32)) (Z.shiftl line 16)) col) mod two64.
Definition new_pos (fi fu line col : Z) : Z := pack_pos (clamp16 fi) (clamp16 fu) (clamp16 line) (clamp16 col).
Definition pos_file (p : Z) : Z := Z.land (Z.shiftr p 48) 65535.
Definition pos_func (p : Z) : Z := Z.land (Z.shiftr p 32) 65535.

(* l.Key(idx)[1:] : index in range and the key non-empty *)
Definition key_tail_ok (keys : list string) (idx : Z) : bool :=
  match nth_error keys (Z.to_nat idx) with
  | Some k => negb (String.eqb k "")
  | None => false
  end.
(* pos.String(l) = pos.info(l): both keys *)
Definition pos_string_ok (keys : list string) (p : Z) : bool :=
  key_tail_ok keys (pos_file p) && key_tail_ok keys (pos_func p).

(* ---- tree dump ----------------------------------------------------------------------------- *)

Fixpoint concat_sp (l : list string) : string :=
  match l with [] => "" | [x] => x | x :: r => x ++ " " ++ concat_sp r end.

(* token.String; a nil receiver prints "<nil>" *)
Fixpoint tstr (t : tree) : string :=
  match t with
  | TNil => "<nil>"
  | TNode _ text kids =>
      match kids with
      | [] => text
      | _ => "(" ++ text ++ " " ++
             concat_sp ((fix go (l : list tree) : list string := match l with [] => [] | k :: r => tstr k :: go r end) kids) ++ ")"
      end
  end.

(* one iteration of treeDump: s := t.String(); s = s[3:len(s)-1] *)
Definition dump_one_ok (t : tree) : bool := (4 <=? String.length (tstr t))%nat.
(* treeDump(w, trees): nothing happens when w == nil *)
Definition tree_dump_ok (on : bool) (trees : list tree) : bool :=
  if on then forallb dump_one_ok trees else true.

(* ---- code dump ------------------------------------------------------------------------------- *)

(* an instruction as codeDump sees it: its Pos and the operands instruction.String passes to g.Key *)
Record dins := mkDins { dpos : Z; dkeys : list Z }.
Definition key_ok (keys : list string) (idx : Z) : bool :=
  match nth_error keys (Z.to_nat idx) with Some _ => (0 <=? idx) | None => false end.
Definition dins_ok (keys : list string) (i : dins) : bool :=
  pos_string_ok keys (dpos i) && forallb (key_ok keys) (dkeys i).
Definition code_dump_ok (on : bool) (keys : list string) (code : list dins) : bool :=
  if on then forallb (dins_ok keys) code else true.

(* ---- the recover handler of VM.run and VM.Func: btErr ---------------------------------------- *)

(* n := frame.N; if n >= len(Codes) { n = len-1 }; if n >= 0 { Codes[n].Pos.String } ;
   for every backtrace entry != 0: pos.String *)
Definition bt_err_ok (keys : list string) (codes : list Z) (n : Z) (bt : list Z) : bool :=
  let len := Z.of_nat (List.length codes) in
  let n' := if len <=? n then len - 1 else n in
  (if 0 <=? n'
   then match nth_error codes (Z.to_nat n') with
        | Some p => pos_string_ok keys p
        | None => false                                   (* index out of range inside the handler *)
        end
   else true)
  && forallb (fun p => if p =? 0 then true else pos_string_ok keys p) bt.

(* state of the running VM when a panic is raised (what btErr reads) *)
Record vmstate := mkVmstate { vkeys : list string; vcodes : list Z; vN : Z; vbt : list Z }.

Inductive run_beh := RRet | RPanic (s : vmstate) | RHang.

Definition run_model (b : run_beh) : sres unit :=
  match b with
  | RRet => SOk tt
  | RPanic s => if bt_err_ok (vkeys s) (vcodes s) (vN s) (vbt s) then SErr else SEscape "btErr"
  | RHang => SHang
  end.

(* ---- compile: compiler.run's handler is nil-safe, so every panic becomes an error ------------- *)

Inductive comp_beh := CRet (keys : list string) (code : list dins) | CPanic (cur_is_nil : bool).
Definition compile_model (b : comp_beh) : sres (list string * list dins) :=
  match b with
  | CRet k c => SOk (k, c)
  | CPanic _ => SErr             (* if c.cur != nil { ... c.cur.Pos ... } else { ... } *)
  end.

(* ---- loadImports ------------------------------------------------------------------------------- *)

Section Load.
  Variable unquotable : string -> bool.       (* strconv.Unquote accepts this token text *)

  (* first iteration of the discovery loop on the top tree:
       for _, t := range p.Tokens { if t.Symbol != "import" { continue }
         for i := 1; i < len(t.Tokens); i += 2 { pk := t.Tokens[i]; pk.Unquote() ... } }
     None = a panic (nil node, or Unquote's panicf) -- caught by loadImports' recover *)
  Fixpoint odd_paths (l : list tree) : option (list string) :=
    match l with
    | _ :: TNode _ tx _ :: r => if unquotable tx then option_map (cons tx) (odd_paths r) else None
    | _ :: TNil :: _ => None
    | _ => Some []
    end.
  Fixpoint top_imports (nodes : list tree) : option (list string) :=
    match nodes with
    | [] => Some []
    | TNil :: _ => None
    | TNode sy _ ks :: r =>
        if String.eqb sy "import"
        then match odd_paths ks, top_imports r with Some a, Some b => Some (a ++ b)%list | _, _ => None end
        else top_imports r
    end.

  (* if len(tok.Tokens) == 0 { tok = (_ (package _ pkg)) } *)
  Definition synthetic (pkg : string) : tree :=
    TNode "_" "_" [TNode "package" "package" [TNode "" "_" []; TNode "" pkg []]].
  Definition fix_empty (pkg : string) (t : tree) : tree :=
    match kids_of t with [] => synthetic pkg | _ => t end.

  (* the rest of the loader (reading, tokenizing and parsing the files of the imported packages,
     rawLoadPackage's checks) is a behaviour: it yields the import graph and the raw tree of every
     package, an error, or a panic -- which the deferred recover of loadImports turns into an error *)
  (* the tree of an imported package is joinFiles' symAtPos(pos, "_") with the nodes of its files, or
     &token{} (no nodes) for a package that is not on disk: the behaviour supplies the nodes *)
  Inductive files_beh :=
  | FRet (imports : string -> option (list string)) (nodes : string -> list tree) (budget : nat)
  | FErr
  | FPanic.

  (* total number of import entries of the packages in U: the discovery worklist of Model/Loader.v needs at
     most 2 + weight U iterations when U contains top and is closed under imports (Proofs/C03_host.v) *)
  Definition weight (imports : string -> option (list string)) (U : list string) : nat :=
    fold_right (fun q n => match imports q with Some l => List.length l + n | None => n end)%nat 0%nat U.

  Definition load_imports_model (sys_is_nil : bool) (topPkg : string) (top : tree) (b : files_beh) : sres (list tree) :=
    match top_imports (kids_of top) with
    | None => SErr                                   (* recovered: "error parsing string: ..." *)
    | Some paths =>
        let finish (imports : string -> option (list string)) (raw : string -> tree) (budget : nat) :=
          match load imports budget topPkg with
          | LoadOk order => SOk (map (fun p => fix_empty p (if String.eqb p topPkg then top else raw p)) order)
          | LoadCycle => SErr
          | LoadFuel => SHang
          end in
        let top_only := fun p => if String.eqb p topPkg then Some paths else None in
        if sys_is_nil || match paths with [] => true | _ => false end
        then (* nothing is read from sys, or every rawLoadPackage(nil, _) is os.ErrNotExist: only the top package has imports *)
             finish top_only (fun _ => TNode "_" "_" []) (S (S (weight top_only (topPkg :: paths))))
        else match b with
             | FPanic => SErr                                      (* recovered *)
             | FErr => SErr
             | FRet imports nodes budget =>
                 finish (fun p => if String.eqb p topPkg then Some paths else imports p)
                        (fun p => TNode "_" "_" (nodes p)) budget
             end
    end.
End Load.

(* ---- Eval ------------------------------------------------------------------------------------------ *)

Record options := mkOpt { tree_dump : bool; code_dump : bool; eval_imports : bool }.

Record eval_adv := mkEvalAdv {
  ea_scan : scan_beh; ea_parse : parse_beh; ea_files : files_beh;
  ea_cimp : comp_beh; ea_rimp : run_beh; ea_comp : comp_beh; ea_run : run_beh }.

Definition bind {A} (r : sres A) (pfx : string) (st : stage) (k : A -> outcome) : outcome :=
  match r with
  | SOk a => k a
  | SErr => Err pfx
  | SEscape w => Escape w
  | SHang => Hang st
  end.

(* pkgs[:len(pkgs)-1] / pkgs[len(pkgs)-1:] : both panic on an empty list, outside any recover *)
Definition split_last {A} (l : list A) : option (list A * A) :=
  match rev l with [] => None | x :: r => Some (rev r, x) end.

Definition eval_model (unq : string -> bool) (sys_is_nil : bool) (o : options) (a : eval_adv) : outcome :=
  bind (tokenize_model (ea_scan a)) "error in tokenize: " STokenize (fun tokens =>
  bind (parse_model tokens (ea_parse a)) "error in parse: " SParse (fun tree =>
  bind (load_imports_model unq sys_is_nil "" tree (ea_files a)) "error in loadImports: " SLoad (fun pkgs =>
  match split_last pkgs with
  | None => Escape "Eval: pkgs[:len(pkgs)-1] on an empty list"
  | Some (imps, top) =>
      bind (compile_model (ea_cimp a)) "error in compile (imports): " SCompile (fun _ =>
      bind (run_model (ea_rimp a)) "error in run (imports): " SRun (fun _ =>
      if negb (tree_dump_ok (tree_dump o) [top]) then Escape "treeDump" else
      bind (compile_model (ea_comp a)) "error in compile: " SCompile (fun kc =>
      if negb (code_dump_ok (code_dump o) (fst kc) (snd kc)) then Escape "codeDump" else
      bind (run_model (ea_run a)) "error in run: " SRun (fun _ => Ok))))
  end))).

(* ---- Load ------------------------------------------------------------------------------------------- *)

(* loadPackage / loadFile: rawLoadPackage or rawLoadFile on the argument (a behaviour: the nodes of
   joinFiles' / parse's "_" tree, an error, or a panic), treeSort (a permutation of the top-level nodes),
   then loadImports.  Both functions run under `defer recoverLoad(&pkgs, &err)` (load.go:114-139): a panic while
   the argument package is read (e.g. `*package`: first.Tokens[0] on a bare package token) is returned as an
   error, which Load prefixes with "error in load: " *)
Inductive rawtop_beh := TopRet (nodes : list tree) | TopErr | TopPanic.

Record load_adv := mkLoadAdv {
  la_top : rawtop_beh; la_files : files_beh; la_comp : comp_beh; la_run : run_beh; la_rets : nat }.

Definition load_model (unq : string -> bool) (sys_is_nil : bool) (topPkg : string) (o : options) (a : load_adv) : outcome :=
  match la_top a with
  | TopPanic => Err "error in load: "           (* recovered by recoverLoad *)
  | TopErr => Err "error in load: "
  | TopRet nodes =>
      let top := TNode "_" "_" nodes in
      bind (load_imports_model unq sys_is_nil topPkg top (la_files a)) "error in load: " SLoad (fun pkgs =>
      if negb (tree_dump_ok (tree_dump o) pkgs) then Escape "treeDump" else
      bind (compile_model (la_comp a)) "error in compile: " SCompile (fun kc =>
      if negb (code_dump_ok (code_dump o) (fst kc) (snd kc)) then Escape "codeDump" else
      bind (run_model (la_run a)) "error in run: " SRun (fun _ =>
      match la_rets a with O => Ok | S _ => Err "error in run: " end)))       (* "error in run: unexpected returns: ..." *)
  end.

(* ---- Func / Call ------------------------------------------------------------------------------------- *)

(* Func: frame.Codes = [CALL] with Pos 0; exec inside the deferred recover; on return
   vm.stack[len(vm.stack)-xRets:] is evaluated inside the same function, so a bad slice is recovered
   too: the handler then sees the restored frame (Codes = [CALL], N = 1 after the loop) *)
Inductive func_beh := FnRet (stack_len : Z) (keys : list string) | FnPanic (s : vmstate) | FnHang.

Definition func_model (xRets : Z) (b : func_beh) : outcome :=
  match b with
  | FnRet len keys =>
      if (0 <=? xRets) && (xRets <=? len) then Ok
      else if bt_err_ok keys [0] 1 [] then Err "" else Escape "btErr"
  | FnPanic s => if bt_err_ok (vkeys s) (vcodes s) (vN s) (vbt s) then Err "" else Escape "btErr"
  | FnHang => Hang SRun
  end.
(* Call(name, ...) = Func(globals.Get(name), ...): lookup.Get creates a missing key and reads data[n] *)
Definition call_model := func_model.

(* ---- the entry points together ------------------------------------------------------------------------ *)

Inductive entry :=
| EEval (sys_is_nil : bool) (o : options) (a : eval_adv)
| ELoad (sys_is_nil : bool) (topPkg : string) (o : options) (a : load_adv)
| ECall (xRets : Z) (b : func_beh)
| EFunc (xRets : Z) (b : func_beh).

Definition entry_model (unq : string -> bool) (e : entry) : outcome :=
  match e with
  | EEval n o a => eval_model unq n o a
  | ELoad n p o a => load_model unq n p o a
  | ECall x b => call_model x b
  | EFunc x b => func_model x b
  end.

(* ---- the invariants of the stage bodies ----------------------------------------------------------------
   Each is either proved on a detailed model or listed as an assumption tested by the harness; see
   Proofs/C03_host.v and checks/c03.py. *)

(* the key table of the globals: no key is empty ("nil", "true", "false", then "#file", "#func", "pkg.name",
   literal texts ...), and it only grows *)
Definition keys_ok (keys : list string) : Prop := keys <> [] /\ Forall (fun k => k <> "") keys.

(* a Pos is 0 or was stamped by newPos with indices that lookup.Index returned (so they are inside the table);
   line and column are arbitrary *)
Definition stamped (keys : list string) (p : Z) : Prop :=
  p = 0 \/ exists fi fu line col,
       p = new_pos fi fu line col /\ 0 <= fi < Z.of_nat (List.length keys) /\ 0 <= fu < Z.of_nat (List.length keys).

Definition vmstate_ok (s : vmstate) : Prop :=
  keys_ok (vkeys s) /\ Forall (stamped (vkeys s)) (vcodes s) /\ Forall (stamped (vkeys s)) (vbt s).
Definition run_beh_ok (b : run_beh) : Prop := match b with RPanic s => vmstate_ok s | _ => True end.
Definition func_beh_ok (b : func_beh) : Prop :=
  match b with
  | FnPanic s => vmstate_ok s
  | FnRet _ keys => keys_ok keys
  | FnHang => True
  end.
Definition comp_beh_ok (dump : bool) (b : comp_beh) : Prop :=
  match b with
  | CRet keys code => dump = true ->
      keys_ok keys /\ Forall (fun i => stamped keys (dpos i) /\ forallb (key_ok keys) (dkeys i) = true) code
  | CPanic _ => True
  end.
(* every package tree the loader sees has the text "_" (parse.go:13, load.go joinFiles) or no nodes at all *)
Definition raw_tree_ok (t : tree) : Prop := kids_of t = [] \/ text_of t = "_".
