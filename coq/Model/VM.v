(* VM: executable transcription of /repo/do.go (exec) and /repo/vm.go (mkFunc,
   call, callReady, run) for the CORE fragment: scalars, locals and globals,
   control flow, function values and calls (variadic included), slices, range,
   println.  Opcodes outside the fragment (maps, structs, attributes, natives
   other than print/println) give the distinct result [RUnmod]; such programs
   are outside the run-level correspondence and are counted as such.

   Frames are split into [slots] (the function's local slots) and [ops] (its
   operand stack, head = top).  In the Go code both live on one flat stack; an
   operand access that would reach below the frame's operands is the distinct
   result [RStuck] here (theorem C07 shows checked code never does that). *)
From Coq Require Import ZArith List String Ascii Bool Lia.
From GV Require Import GoSpec.GoPrim Gen.ValueOps_gen Gen.Tables_gen.
Import ListNotations.
Open Scope string_scope.
Open Scope Z_scope.

Record instr := mkI { icode : Z; iA : Z; iB : Z; iC : Z; ipos : Z }.

(* ---- opcode numbering: names from codes.go via the generated table ---------- *)

Fixpoint code_of (name : string) (t : list (string * Z)) : Z :=
  match t with [] => -999 | (k, v) :: r => if String.eqb name k then v else code_of name r end.
Definition C (name : string) : Z := code_of name opcodes.

(* opcode constants, evaluated once from the generated table *)
Definition c_Add : Z := Eval vm_compute in C "codeAdd".
Definition c_And : Z := Eval vm_compute in C "codeAnd".
Definition c_Append : Z := Eval vm_compute in C "codeAppend".
Definition c_BitAnd : Z := Eval vm_compute in C "codeBitAnd".
Definition c_BitComplement : Z := Eval vm_compute in C "codeBitComplement".
Definition c_BitLsh : Z := Eval vm_compute in C "codeBitLsh".
Definition c_BitOr : Z := Eval vm_compute in C "codeBitOr".
Definition c_BitRsh : Z := Eval vm_compute in C "codeBitRsh".
Definition c_BitXor : Z := Eval vm_compute in C "codeBitXor".
Definition c_Call : Z := Eval vm_compute in C "codeCall".
Definition c_CallVariadic : Z := Eval vm_compute in C "codeCallVariadic".
Definition c_Cast : Z := Eval vm_compute in C "codeCast".
Definition c_Const : Z := Eval vm_compute in C "codeConst".
Definition c_Convert : Z := Eval vm_compute in C "codeConvert".
Definition c_Copy : Z := Eval vm_compute in C "codeCopy".
Definition c_Div : Z := Eval vm_compute in C "codeDiv".
Definition c_Eq : Z := Eval vm_compute in C "codeEq".
Definition c_FastCall : Z := Eval vm_compute in C "codeFastCall".
Definition c_FastGetInt : Z := Eval vm_compute in C "codeFastGetInt".
Definition c_FastSetInt : Z := Eval vm_compute in C "codeFastSetInt".
Definition c_Func : Z := Eval vm_compute in C "codeFunc".
Definition c_Get : Z := Eval vm_compute in C "codeGet".
Definition c_GlobalFunc : Z := Eval vm_compute in C "codeGlobalFunc".
Definition c_GlobalGet : Z := Eval vm_compute in C "codeGlobalGet".
Definition c_GlobalRef : Z := Eval vm_compute in C "codeGlobalRef".
Definition c_GlobalSet : Z := Eval vm_compute in C "codeGlobalSet".
Definition c_GlobalZero : Z := Eval vm_compute in C "codeGlobalZero".
Definition c_Gt : Z := Eval vm_compute in C "codeGt".
Definition c_Gte : Z := Eval vm_compute in C "codeGte".
Definition c_IncDec : Z := Eval vm_compute in C "codeIncDec".
Definition c_Iter : Z := Eval vm_compute in C "codeIter".
Definition c_Jump : Z := Eval vm_compute in C "codeJump".
Definition c_JumpFalse : Z := Eval vm_compute in C "codeJumpFalse".
Definition c_JumpTrue : Z := Eval vm_compute in C "codeJumpTrue".
Definition c_Len : Z := Eval vm_compute in C "codeLen".
Definition c_LocalAdd : Z := Eval vm_compute in C "codeLocalAdd".
Definition c_LocalDiv : Z := Eval vm_compute in C "codeLocalDiv".
Definition c_LocalGet : Z := Eval vm_compute in C "codeLocalGet".
Definition c_LocalIncDec : Z := Eval vm_compute in C "codeLocalIncDec".
Definition c_LocalMul : Z := Eval vm_compute in C "codeLocalMul".
Definition c_LocalSet : Z := Eval vm_compute in C "codeLocalSet".
Definition c_LocalSub : Z := Eval vm_compute in C "codeLocalSub".
Definition c_LocalZero : Z := Eval vm_compute in C "codeLocalZero".
Definition c_Lt : Z := Eval vm_compute in C "codeLt".
Definition c_Lte : Z := Eval vm_compute in C "codeLte".
Definition c_Make : Z := Eval vm_compute in C "codeMake".
Definition c_Mod : Z := Eval vm_compute in C "codeMod".
Definition c_Mul : Z := Eval vm_compute in C "codeMul".
Definition c_Negate : Z := Eval vm_compute in C "codeNegate".
Definition c_Neq : Z := Eval vm_compute in C "codeNeq".
Definition c_NewSlice : Z := Eval vm_compute in C "codeNewSlice".
Definition c_Not : Z := Eval vm_compute in C "codeNot".
Definition c_Or : Z := Eval vm_compute in C "codeOr".
Definition c_Panic : Z := Eval vm_compute in C "codePanic".
Definition c_Pass : Z := Eval vm_compute in C "codePass".
Definition c_Pop : Z := Eval vm_compute in C "codePop".
Definition c_Push : Z := Eval vm_compute in C "codePush".
Definition c_Range : Z := Eval vm_compute in C "codeRange".
Definition c_Return : Z := Eval vm_compute in C "codeReturn".
Definition c_Set : Z := Eval vm_compute in C "codeSet".
Definition c_Slice : Z := Eval vm_compute in C "codeSlice".
Definition c_Sub : Z := Eval vm_compute in C "codeSub".
Definition c_Zero : Z := Eval vm_compute in C "codeZero".

Definition c_FastGet : Z := Eval vm_compute in C "codeFastGet".
Definition c_FastSet : Z := Eval vm_compute in C "codeFastSet".
Definition c_GetAttr : Z := Eval vm_compute in C "codeGetAttr".
Definition c_SetAttr : Z := Eval vm_compute in C "codeSetAttr".
Definition c_FastGetAttr : Z := Eval vm_compute in C "codeFastGetAttr".
Definition c_FastSetAttr : Z := Eval vm_compute in C "codeFastSetAttr".
Definition c_FastCallAttr : Z := Eval vm_compute in C "codeFastCallAttr".

(* joinParams / splitParams of compiler.go *)
Definition joinParams (a b : Z) : Z := Z.lor (Z.shiftl (Z.land (a + 32768) 65535) 16) (Z.land (b + 32768) 65535).
Definition splitParams (v : Z) : Z * Z :=
  (Z.land (Z.shiftr v 16) 65535 - 32768, Z.land v 65535 - 32768).

(* ---- heap ---------------------------------------------------------------------- *)

Inductive hobj :=
| HFunc (nargs nrets : Z) (variadic : bool) (vtype : Z) (slots : Z) (types : list Z) (body : list instr)
| HNative (name : string)
| HArr (cells : list value)                              (* backing array *)
| HSlice (elemT : Z) (arr : Z) (off len cap : Z)         (* slice header over a backing array *)
| HNext (arr : Z) (off len pos : Z)                      (* sliceT.Range iterator (reads the array lazily) *)
| HNextNil
| HOpaque.                                               (* an object outside the modelled fragment *)

Record st := mkSt { globals : list value; heap : list hobj; out : list Z; bt : list Z }.

Inductive result :=
| RDone (slots ops : list value) (s : st)
| RFail (msg : string) (pos : Z) (s : st)      (* run-time error: recovered by VM.run and turned into an error *)
| RStuck (why : string)                         (* operand access below the frame / malformed code *)
| RFuel
| RUnmod (what : string).

Definition nilV : value := mkValue 0 (Zn 0) PNone.
Definition refV (tag : Z) (a : Z) : value := mkValue tag (Zn 0) (PRef a).

Definition znth {A} (l : list A) (n : Z) : option A :=
  if n <? 0 then None else nth_error l (Z.to_nat n).
Fixpoint nset {A} (l : list A) (n : nat) (v : A) : list A :=
  match l, n with
  | [], _ => []
  | _ :: r, O => v :: r
  | x :: r, S n' => x :: nset r n' v
  end.
Definition zset {A} (l : list A) (n : Z) (v : A) : list A :=
  if n <? 0 then l else nset l (Z.to_nat n) v.
Definition zlen {A} (l : list A) : Z := Z.of_nat (List.length l).
Fixpoint ztake {A} (n : nat) (l : list A) : list A := firstn n l.
Definition alloc (s : st) (o : hobj) : st * Z :=
  (mkSt (globals s) (heap s ++ [o])%list (out s) (bt s), zlen (heap s)).
Definition hget (s : st) (a : Z) : option hobj := znth (heap s) a.
Definition hset (s : st) (a : Z) (o : hobj) : st := mkSt (globals s) (zset (heap s) a o) (out s) (bt s).
Definition addr_of (v : value) : option Z := match vval v with PRef a => Some a | _ => None end.

(* ---- printing of the scalar kinds (Value.String for ints, bools, strings) ---- *)

Fixpoint digits (fuel : nat) (n : Z) (acc : list Z) : list Z :=
  match fuel with
  | O => acc
  | S f => if n <? 10 then (48 + n) :: acc else digits f (n / 10) ((48 + n mod 10) :: acc)
  end.
Definition dec (z : Z) : list Z :=
  if z <? 0 then 45 :: digits 70 (- z) [] else digits 70 z [].
Definition str_bytes (s : string) : list Z :=
  map (fun c => Z.of_N (N_of_ascii c)) (list_ascii_of_string s).

Definition to_string (v : value) : option (list Z) :=
  let b := Type_base (vt v) in
  if b =? TypeNil then Some (str_bytes "nil")
  else if b =? TypeBool then Some (str_bytes (if Value_Bool v then "true" else "false"))
  else if (b =? TypeInt32) || (b =? TypeUint32) || (b =? TypeInt8) || (b =? TypeUint8) || (b =? untypedInt) then
    Some (dec (Value_Int v))
  else if b =? TypeString then match vval v with PStr s => Some s | _ => None end
  else None.

Fixpoint join_sp (l : list (list Z)) : list Z :=
  match l with
  | [] => []
  | [x] => x
  | x :: r => (x ++ 32 :: join_sp r)%list
  end.
Fixpoint all_some {A} (l : list (option A)) : option (list A) :=
  match l with
  | [] => Some []
  | Some x :: r => match all_some r with Some r' => Some (x :: r') | None => None end
  | None :: _ => None
  end.

(* ---- value helpers ------------------------------------------------------------- *)

Definition lift (r : res value) (pos : Z) (s : st) (k : value -> result) : result :=
  match r with
  | Ok v => k v
  | Panic => RFail "runtime error" pos s
  | Unmodelled => RUnmod "value operator"
  end.

(* Value.Get / Set / Len on the modelled object kinds *)
Definition slice_parts (s : st) (v : value) : option (Z * Z * Z * Z * Z) :=   (* elemT, arr, off, len, cap *)
  match addr_of v with
  | Some a => match hget s a with Some (HSlice e arr off len cap) => Some (e, arr, off, len, cap) | _ => None end
  | None => None
  end.
Definition arr_cells (s : st) (arr : Z) : list value :=
  match hget s arr with Some (HArr c) => c | _ => [] end.

Definition is_slice_tag (t : Z) : bool := Type_base t =? TypeSlice.

(* allocate a fresh backing array + header *)
Definition new_slice (s : st) (elemT : Z) (cells : list value) : st * value :=
  let (s1, arr) := alloc s (HArr cells) in
  let (s2, h) := alloc s1 (HSlice elemT arr 0 (zlen cells) (zlen cells)) in
  (s2, refV (fn_sliceType elemT) h).

(* call (vm.go): the value handed to the variadic parameter.  No surplus arguments (nVarArgs == 0): the
   NIL slice of the declared variadic type, Value{t: ft.VariadicType}: nothing is allocated, the heap is
   unchanged.  Otherwise NewSlice(ft.VariadicType.value(), varArgs): a new slice of the element type
   whose cells are the surplus arguments assigned to it, in order. *)
Definition variadic_arg (s : st) (vtype : Z) (nVar : Z) (vargs : list value) : st * value :=
  if nVar =? 0 then (s, mkValue vtype (Zn 0) PNone)
  else let e := Type_value vtype in new_slice s e (map (fun a => Value_assign a e) vargs).

Section Exec.
  (* capacity chosen by Go's append when it must reallocate: an oracle (old cap, needed len) -> new cap *)
  Variable grow : Z -> Z -> Z.
  (* objects outside the modelled fragment (maps, structs, host objects): their Get / Set / Len /
     getIndex / setIndex as an oracle; None = not modelled.  Theorems quantify over every oracle. *)
  Variable ext_get : st -> value -> value -> option (res value).
  Variable ext_set : st -> value -> value -> value -> option (res st).
  Variable ext_len : st -> value -> option Z.
  Variable ext_getattr : st -> value -> Z -> option (res (value * st)).
  Variable ext_setattr : st -> value -> Z -> value -> option (res st).

  Definition obj_get (s : st) (r k : value) (pos : Z) : res value + string :=
    if is_slice_tag (vt r) then
      match slice_parts s r with
      | Some (_, arr, off, len, _) =>
          let i := Value_Int k in
          if (0 <=? i) && (i <? len) then
            match znth (arr_cells s arr) (off + i) with Some v => inl (Ok v) | None => inr "bad array" end
          else inl Panic
      | None => inl Panic                      (* nil slice: v.value.Get on nil interface panics *)
      end
    else if vt r =? TypeString then
      match vval r with
      | PStr b => let i := Value_Int k in
                  match (if (0 <=? i) then znth b i else None) with
                  | Some c => inl (Ok (fn_Uint8 c))
                  | None => inl Panic
                  end
      | _ => inl Panic
      end
    else match ext_get s r k with Some rv => inl rv | None => inr "Get on unmodelled object" end.

  Definition obj_set (s : st) (r k v : value) : (res st) + string :=
    if is_slice_tag (vt r) then
      match slice_parts s r with
      | Some (e, arr, off, len, _) =>
          let i := Value_Int k in
          if (0 <=? i) && (i <? len) then
            inl (Ok (hset s arr (HArr (zset (arr_cells s arr) (off + i) (Value_assign v e)))))
          else inl Panic
      | None => inl Panic
      end
    else match ext_set s r k v with Some rs => inl rs | None => inr "Set on unmodelled object" end.

  Definition obj_len (s : st) (r : value) : option Z :=
    if is_slice_tag (vt r) then
      match slice_parts s r with Some (_, _, _, len, _) => Some len | None => Some 0 end
    else if vt r =? TypeString then match vval r with PStr b => Some (zlen b) | _ => Some 0 end
    else if vt r =? TypeNil then Some 0
    else ext_len s r.

  (* pop n operands: returns them bottom-first (the order they were pushed) *)
  Fixpoint popn (n : nat) (ops : list value) (acc : list value) : option (list value * list value) :=
    match n with
    | O => Some (acc, ops)
    | S n' => match ops with
              | [] => None
              | x :: r => popn n' r (x :: acc)
              end
    end.

  Definition bin_of (c : Z) : option (value -> value -> res value) :=
    if c =? c_Add then Some Value_opAdd
    else if c =? c_Sub then Some (fun a b => Ok (Value_opSub a b))
    else if c =? c_Mul then Some (fun a b => Ok (Value_opMul a b))
    else if c =? c_Div then Some Value_opDiv
    else if c =? c_Mod then Some Value_opMod
    else if c =? c_Lt then Some Value_opLt
    else if c =? c_Gt then Some (fun a b => Value_opLt b a)
    else if c =? c_Lte then Some Value_opLte
    else if c =? c_Gte then Some (fun a b => Value_opLte b a)
    else if c =? c_Eq then Some Value_opEq
    else if c =? c_Neq then Some Value_opNeq
    else if c =? c_BitAnd then Some (fun a b => Ok (Value_opBitAnd a b))
    else if c =? c_BitOr then Some (fun a b => Ok (Value_opBitOr a b))
    else if c =? c_BitXor then Some (fun a b => Ok (Value_opBitXor a b))
    else if c =? c_BitLsh then Some Value_opBitLsh
    else if c =? c_BitRsh then Some Value_opBitRsh
    else None.
  Definition local_bin_of (c : Z) : option (value -> value -> res value) :=
    if c =? c_LocalAdd then Some Value_opAdd
    else if c =? c_LocalSub then Some (fun a b => Ok (Value_opSub a b))
    else if c =? c_LocalMul then Some (fun a b => Ok (Value_opMul a b))
    else if c =? c_LocalDiv then Some Value_opDiv
    else None.

  Definition set_global (s : st) (i : Z) (v : value) : st := mkSt (zset (globals s) i v) (heap s) (out s) (bt s).
  Definition push_bt (s : st) (p : Z) : st := mkSt (globals s) (heap s) (out s) (p :: bt s).
  Definition pop_bt (s : st) : st := mkSt (globals s) (heap s) (out s) (tl (bt s)).
  Definition emit (s : st) (b : list Z) : st := mkSt (globals s) (heap s) (out s ++ b)%list (bt s).

  Inductive sres :=
  | SNext (slots ops : list value) (s : st)                       (* continue with the next instruction *)
  | SJump (d : Z) (slots ops : list value) (s : st)               (* v.frame.N += d, then the loop's N++ *)
  | SCall (pack : bool) (fa : Z) (xArgs xRets : Z) (slots ops : list value) (s : st)
                                                                   (* call / callReady on function object fa; ops = operands below the callee *)
  | SRet (slots ops : list value) (s : st)
  | SFail (msg : string) (s : st)
  | SStuck (why : string)
  | SUnmod (what : string).

  Definition slift (r : res value) (s : st) (k : value -> sres) : sres :=
    match r with
    | Ok v => k v
    | Panic => SFail "runtime error" s
    | Unmodelled => SUnmod "value operator"
    end.

  (* one instruction of the dispatch loop of do.go (everything except the body of a call) *)
  Definition step1 (codes : list instr) (pc : Z) (i : instr) (slots ops : list value) (s : st) : sres :=
        let c := icode i in
        let pos := ipos i in
        if c =? c_Pass then SNext slots ops s
        else if (c =? c_Push) || (c =? c_GlobalRef) then SNext slots (fn_newUntypedInt (iA i) :: ops) s
        else if c =? c_Pop then match ops with _ :: r => SNext slots r s | [] => SStuck "POP" end
        else match bin_of c with
        | Some op =>
            match ops with
            | b :: a :: r => slift (op a b) s (fun v => SNext slots (v :: r) s)
            | _ => SStuck "binary operator"
            end
        | None =>
        match local_bin_of c with
        | Some op =>
            match znth slots (iA i), znth slots (iB i) with
            | Some a, Some b => slift (op a b) s (fun v => SNext slots (v :: ops) s)
            | _, _ => SStuck "local slot"
            end
        | None =>
        if c =? c_IncDec then
          match ops with a :: r => slift (Value_incDec a (iA i)) s (fun v => SNext slots (v :: r) s) | [] => SStuck "INCDEC" end
        else if c =? c_LocalIncDec then
          match znth slots (iA i) with
          | Some a => slift (Value_incDec a (iB i)) s (fun v => SNext (zset slots (iA i) v) ops s)
          | None => SStuck "local slot"
          end
        else if c =? c_Convert then
          match ops with a :: r => slift (Value_convert a (iA i)) s (fun v => SNext slots (v :: r) s) | [] => SStuck "CONVERT" end
        else if c =? c_Cast then
          match ops with a :: r => SNext slots (Value_assign a (iA i) :: r) s | [] => SStuck "CAST" end
        else if c =? c_Negate then
          match ops with a :: r => SNext slots (Value_opMul a (fn_newUntypedInt (-1)) :: r) s | [] => SStuck "NEGATE" end
        else if c =? c_BitComplement then
          match ops with
          | a0 :: r => let a := Value_assign a0 TypeNil in
                       slift (Value_convert (fn_Uint32 4294967295) (vt a)) s (fun b => SNext slots (Value_opBitXor a b :: r) s)
          | [] => SStuck "BITCOMPLEMENT"
          end
        else if c =? c_Not then
          match ops with a :: r => SNext slots (fn_Bool (negb (Value_Bool a)) :: r) s | [] => SStuck "NOT" end
        else if c =? c_Zero then SNext slots (fn_newZero (iA i) :: ops) s
        else if c =? c_And then
          match ops with a :: r => if negb (Value_Bool a) then SJump (iA i) slots ops s else SNext slots r s | [] => SStuck "AND" end
        else if c =? c_Or then
          match ops with a :: r => if Value_Bool a then SJump (iA i) slots ops s else SNext slots r s | [] => SStuck "OR" end
        else if c =? c_GlobalSet then
          match ops, znth (globals s) (iA i) with
          | a :: r, Some old => SNext slots r (set_global s (iA i) (Value_assign a (vt old)))
          | [], _ => SStuck "GLOBALSET" | _, None => SStuck "global index"
          end
        else if c =? c_GlobalZero then
          match znth (globals s) (iA i) with
          | Some old => if Value_IsNil old then SNext slots ops (set_global s (iA i) (Value_assign (fn_newZero (iB i)) (vt old)))
                        else SNext slots ops s
          | None => SStuck "global index"
          end
        else if c =? c_GlobalFunc then
          match ops, znth (globals s) (iA i) with
          | v :: r, Some old =>
              if Value_IsNil old then SNext slots r (set_global s (iA i) v)
              else match addr_of old, addr_of v with
                   | Some ao, Some av => match hget s av with
                                         | Some o => SNext slots r (hset s ao o)         (* *fnc = *val : replaced in place *)
                                         | None => SStuck "func object"
                                         end
                   | _, _ => SFail "interface conversion" s
                   end
          | [], _ => SStuck "GLOBALFUNC" | _, None => SStuck "global index"
          end
        else if (c =? c_GlobalGet) || (c =? c_Const) then
          match znth (globals s) (iA i) with Some v => SNext slots (v :: ops) s | None => SStuck "global index" end
        else if c =? c_LocalGet then
          match znth slots (iA i) with Some v => SNext slots (v :: ops) s | None => SStuck "local slot" end
        else if c =? c_LocalSet then
          match ops, znth slots (iA i) with
          | v :: r, Some old => SNext (zset slots (iA i) (Value_assign v (vt old))) r s
          | [], _ => SStuck "LOCALSET" | _, None => SStuck "local slot"
          end
        else if c =? c_LocalZero then
          match znth slots (iA i) with Some _ => SNext (zset slots (iA i) (fn_newZero (iB i))) ops s | None => SStuck "local slot" end
        else if c =? c_Return then SRet slots ops s
        else if c =? c_Jump then SJump (iA i) slots ops s
        else if c =? c_JumpFalse then
          match ops with a :: r => if Value_Bool a then SNext slots r s else SJump (iA i) slots r s | [] => SStuck "JUMPFALSE" end
        else if c =? c_JumpTrue then
          match ops with a :: r => if Value_Bool a then SJump (iA i) slots r s else SNext slots r s | [] => SStuck "JUMPTRUE" end
        else if c =? c_Panic then
          match ops with
          | a :: r => match to_string a with
                      | Some b => SFail "panic" s
                      | None => SUnmod "panic message"
                      end
          | [] => SStuck "PANIC"
          end
        else if c =? c_Func then
          let '(args, rets) := splitParams (iA i) in
          let nargs := Z.abs args in
          let n := nargs + rets + iC i in
          let tokens := firstn (Z.to_nat n) (skipn (Z.to_nat (pc + 1)) codes) in
          if zlen tokens <? n then SStuck "FUNC body" else
          let types := map iA (firstn (Z.to_nat (nargs + rets)) tokens) in
          let body := skipn (Z.to_nat (nargs + rets)) tokens in
          let vtype := if args <? 0 then match znth types (nargs - 1) with Some t => t | None => 0 end else 0 in
          let (s1, a) := alloc s (HFunc nargs rets (args <? 0) vtype (iB i) types body) in
          SJump n slots (refV TypeFunc a :: ops) s1
        else if (c =? c_Call) || (c =? c_CallVariadic) then
          match ops with
          | fv :: r => match addr_of fv with
                       | Some a => SCall (c =? c_Call) a (iA i) (iB i) slots r s
                       | None => SFail "interface conversion" s
                       end
          | [] => SStuck "CALL"
          end
        else if c =? c_FastCall then
          match znth (globals s) (iA i) with
          | Some fv => match addr_of fv with
                       | Some a => SCall true a (iB i) (iC i) slots ops s
                       | None => SFail "interface conversion" s
                       end
          | None => SStuck "global index"
          end
        else if c =? c_Get then
          match ops with
          | k :: r :: rest => match obj_get s r k pos with
                              | inl rv => slift rv s (fun v => SNext slots (v :: rest) s)
                              | inr w => SUnmod w
                              end
          | _ => SStuck "GET"
          end
        else if c =? c_Set then
          match ops with
          | key :: obj :: v :: rest => match obj_set s obj key v with
                                       | inl (Ok s') => SNext slots rest s'
                                       | inl _ => SFail "runtime error" s
                                       | inr w => SUnmod w
                                       end
          | _ => SStuck "SET"
          end
        else if c =? c_FastGetInt then
          match znth slots (iA i) with
          | Some r => match obj_get s r (fn_newUntypedInt (iB i)) pos with
                      | inl rv => slift rv s (fun v => SNext slots (v :: ops) s)
                      | inr w => SUnmod w
                      end
          | None => SStuck "local slot"
          end
        else if c =? c_FastSetInt then
          match ops, znth slots (iA i) with
          | v :: rest, Some r => match obj_set s r (fn_newUntypedInt (iB i)) v with
                                 | inl (Ok s') => SNext slots rest s'
                                 | inl _ => SFail "runtime error" s
                                 | inr w => SUnmod w
                                 end
          | [], _ => SStuck "FASTSETINT" | _, None => SStuck "local slot"
          end
        else if c =? c_FastGet then
          match znth slots (iA i), znth (globals s) (iB i) with
          | Some r, Some k => match obj_get s r k pos with
                              | inl rv => slift rv s (fun v => SNext slots (v :: ops) s)
                              | inr w => SUnmod w
                              end
          | None, _ => SStuck "local slot" | _, None => SStuck "global index"
          end
        else if c =? c_FastSet then
          match ops, znth slots (iA i), znth (globals s) (iB i) with
          | v :: rest, Some r, Some k => match obj_set s r k v with
                                         | inl (Ok s') => SNext slots rest s'
                                         | inl _ => SFail "runtime error" s
                                         | inr w => SUnmod w
                                         end
          | [], _, _ => SStuck "FASTSET" | _, None, _ => SStuck "local slot" | _, _, None => SStuck "global index"
          end
        else if c =? c_GetAttr then
          match ops with
          | r :: rest => match ext_getattr s r (iA i) with
                         | Some (Ok (v, s')) => SNext slots (v :: rest) s'
                         | Some _ => SFail "runtime error" s
                         | None => SUnmod "getIndex"
                         end
          | [] => SStuck "GETATTR"
          end
        else if c =? c_SetAttr then
          match ops with
          | obj :: v :: rest => match ext_setattr s obj (iA i) v with
                                | Some (Ok s') => SNext slots rest s'
                                | Some _ => SFail "runtime error" s
                                | None => SUnmod "setIndex"
                                end
          | _ => SStuck "SETATTR"
          end
        else if c =? c_FastGetAttr then
          match znth slots (iA i) with
          | Some r => match ext_getattr s r (iB i) with
                      | Some (Ok (v, s')) => SNext slots (v :: ops) s'
                      | Some _ => SFail "runtime error" s
                      | None => SUnmod "getIndex"
                      end
          | None => SStuck "local slot"
          end
        else if c =? c_FastSetAttr then
          match ops, znth slots (iA i) with
          | v :: rest, Some obj => match ext_setattr s obj (iB i) v with
                                   | Some (Ok s') => SNext slots rest s'
                                   | Some _ => SFail "runtime error" s
                                   | None => SUnmod "setIndex"
                                   end
          | [], _ => SStuck "FASTSETATTR" | _, None => SStuck "local slot"
          end
        else if c =? c_FastCallAttr then
          match znth slots (iA i) with
          | Some obj => match ext_getattr s obj (iB i) with
                        | Some (Ok (fv, s')) =>
                            match addr_of fv with
                            | Some a => let '(c1, c2) := splitParams (iC i) in SCall true a c1 c2 slots ops s'
                            | None => SFail "interface conversion" s'
                            end
                        | Some _ => SFail "runtime error" s
                        | None => SUnmod "getIndex"
                        end
          | None => SStuck "local slot"
          end
        else if c =? c_Len then
          match ops with
          | r :: rest => match obj_len s r with
                         | Some n => SNext slots (fn_Int n :: rest) s
                         | None => SUnmod "Len on unmodelled object"
                         end
          | [] => SStuck "LEN"
          end
        else if c =? c_NewSlice then
          match popn (Z.to_nat (iB i)) ops [] with
          | Some (elems, rest) =>
              let (s1, v) := new_slice s (iA i) (map (fun e => Value_assign e (iA i)) elems) in
              SNext slots (v :: rest) s1
          | None => SStuck "NEWSLICE"
          end
        else if c =? c_Make then
          match ops with
          | l :: rest =>
              let n := Value_Int l in
              if n <? 0 then SFail "runtime error" s else
              if 100000 <? n then SUnmod "huge make" else
              let (s1, v) := new_slice s (iA i) (repeat (Value_assign (fn_newZero (iA i)) (iA i)) (Z.to_nat n)) in
              SNext slots (v :: rest) s1
          | [] => SStuck "MAKE"
          end
        else if c =? c_Range then
          match ops with
          | a :: rest =>
              if negb (is_slice_tag (vt a) || (vt a =? TypeNil)) then SUnmod "range over unmodelled object" else
              let it := match slice_parts s a with
                        | Some (_, arr, off, len, _) => HNext arr off len 0
                        | None => HNextNil
                        end in
              let (s1, h) := alloc s it in
              match znth slots (iA i) with
              | Some _ => SJump (iB i) (zset slots (iA i) (refV typeNext h)) rest s1
              | None => SStuck "local slot"
              end
          | [] => SStuck "RANGE"
          end
        else if c =? c_Iter then
          match znth slots (iA i) with
          | Some itv =>
              match addr_of itv with
              | Some h =>
                  match hget s h with
                  | Some (HNext arr off len p) =>
                      if p <? len then
                        match znth (arr_cells s arr) (off + p) with
                        | Some v =>
                            let '(b1, b2) := splitParams (iB i) in
                            let s1 := hset s h (HNext arr off len (p + 1)) in
                            match znth slots b1, znth slots b2 with
                            | Some _, Some _ => SJump (iC i) (zset (zset slots b1 (fn_Int p)) b2 v) ops s1
                            | _, _ => SStuck "local slot"
                            end
                        | None => SStuck "bad array"
                        end
                      else SNext slots ops s
                  | Some HNextNil => SNext slots ops s
                  | _ => SFail "interface conversion" s
                  end
              | None => SFail "interface conversion" s
              end
          | None => SStuck "local slot"
          end
        else if c =? c_Slice then
          match ops with
          | b :: a :: r :: rest =>
              let i := Value_Int a in
              if is_slice_tag (vt r) then
                match slice_parts s r with
                | Some (e, arr, off, len, cap) =>
                    let j := if vt b =? TypeNil then len else Value_Int b in
                    if (0 <=? i) && (i <=? j) && (j <=? cap) then
                      let (s1, h) := alloc s (HSlice e arr (off + i) (j - i) (cap - i)) in
                      SNext slots (refV (vt r) h :: rest) s1
                    else SFail "runtime error" s
                | None =>
                    let j := if vt b =? TypeNil then 0 else Value_Int b in
                    if (i =? 0) && (j =? 0) then
                      let (s1, v) := new_slice s (Type_value (vt r)) [] in SNext slots (v :: rest) s1
                    else SFail "runtime error" s
                end
              else if vt r =? TypeString then
                match vval r with
                | PStr bs =>
                    let len := zlen bs in
                    let j := if vt b =? TypeNil then len else Value_Int b in
                    if (0 <=? i) && (i <=? j) && (j <=? len) then
                      SNext slots (fn_String (firstn (Z.to_nat (j - i)) (skipn (Z.to_nat i) bs)) :: rest) s
                    else SFail "runtime error" s
                | _ => SFail "runtime error" s
                end
              else SUnmod "Slice on unmodelled object"
          | _ => SStuck "SLICE"
          end
        else if c =? c_Append then
          match popn (Z.to_nat (iA i)) ops [] with
          | Some (sv :: vs0, rest) =>
              (* spread: the last argument's elements replace it *)
              let vs_opt :=
                if iB i =? 1 then
                  match rev vs0 with
                  | lastv :: front =>
                      match slice_parts s lastv with
                      | Some (_, arr, off, len, _) =>
                          Some (rev front ++ firstn (Z.to_nat len) (skipn (Z.to_nat off) (arr_cells s arr)))%list
                      | None => if is_slice_tag (vt lastv) || (vt lastv =? TypeNil) then Some (rev front) else None
                      end
                  | [] => None
                  end
                else Some vs0 in
              match vs_opt with
              | None => SUnmod "append spread of unmodelled object"
              | Some vs =>
                  if negb (is_slice_tag (vt sv) || (vt sv =? TypeNil)) then SUnmod "append to unmodelled object" else
                  match slice_parts s sv with
                  | Some (e, arr, off, len, cap) =>
                      let k := zlen vs in
                      if len + k <=? cap then
                        (* in place: write the items after the current length, then NewSlice re-assigns every element *)
                        let cells := arr_cells s arr in
                        let written := (firstn (Z.to_nat (off + len)) cells ++ vs ++ skipn (Z.to_nat (off + len + k)) cells)%list in
                        let typed := (firstn (Z.to_nat off) written ++
                                      map (fun x => Value_assign x e) (firstn (Z.to_nat (len + k)) (skipn (Z.to_nat off) written)) ++
                                      skipn (Z.to_nat (off + len + k)) written)%list in
                        let s1 := hset s arr (HArr typed) in
                        let (s2, h) := alloc s1 (HSlice e arr off (len + k) cap) in
                        SNext slots (refV (vt sv) h :: rest) s2
                      else
                        let cap' := grow cap (len + k) in
                        let olds := firstn (Z.to_nat len) (skipn (Z.to_nat off) (arr_cells s arr)) in
                        let cells := (map (fun x => Value_assign x e) (olds ++ vs) ++ repeat nilV (Z.to_nat (cap' - (len + k))))%list in
                        let (s1, na) := alloc s (HArr cells) in
                        let (s2, h) := alloc s1 (HSlice e na 0 (len + k) cap') in
                        SNext slots (refV (vt sv) h :: rest) s2
                  | None =>
                      (* nil slice: NewSlice(s.t.value(), copy of vs) *)
                      let e := Type_value (vt sv) in
                      let (s1, v) := new_slice s e (map (fun x => Value_assign x e) vs) in
                      SNext slots (mkValue (fn_sliceType e) (vnum v) (vval v) :: rest) s1
                  end
              end
          | Some ([], _) => SStuck "APPEND without operands"
          | None => SStuck "APPEND"
          end
        else if c =? c_Copy then
          match ops with
          | b :: a :: rest =>
              match slice_parts s a with
              | Some (e, darr, doff, dlen, _) =>
                  let src :=
                    match slice_parts s b with
                    | Some (_, sarr, soff, slen, _) => Some (firstn (Z.to_nat slen) (skipn (Z.to_nat soff) (arr_cells s sarr)))
                    | None => if vt b =? TypeString then match vval b with PStr bs => Some (map fn_Byte bs) | _ => None end
                              else if is_slice_tag (vt b) then Some [] else None
                    end in
                  match src with
                  | Some items =>
                      let n := Z.min dlen (zlen items) in
                      let cells := arr_cells s darr in
                      let cells' := (firstn (Z.to_nat doff) cells ++ firstn (Z.to_nat n) items ++ skipn (Z.to_nat (doff + n)) cells)%list in
                      SNext slots (if iB i =? 0 then rest else fn_Int n :: rest) (hset s darr (HArr cells'))    (* B: the count is used *)
                  | None => SUnmod "copy from unmodelled object"
                  end
              | None => if is_slice_tag (vt a) then SNext slots (if iB i =? 0 then rest else fn_Int 0 :: rest) s else SUnmod "copy to unmodelled object"
              end
          | _ => SStuck "COPY"
          end
        else if (c <? 0) then SFail "unknown code" s       (* BREAK / CONTINUE / TODO placeholders left in the code *)
        else SUnmod "opcode"
        end end.

  Inductive cres := COk (ops : list value) (s : st) | CErr (r : result).

  (* exec: the dispatch loop; call_fn: call / callReady / mkFunc (vm.go).  One unit of fuel per instruction and per call. *)
  Fixpoint exec (fuel : nat) (codes : list instr) (pc : Z) (slots ops : list value) (s : st) {struct fuel} : result :=
    match fuel with
    | O => RFuel
    | S f =>
      match znth codes pc with
      | None => RDone slots ops s                      (* v.frame.N reached len(codes) *)
      | Some i =>
          match step1 codes pc i slots ops s with
          | SNext slots' ops' s' => exec f codes (pc + 1) slots' ops' s'
          | SJump d slots' ops' s' => exec f codes (pc + d + 1) slots' ops' s'
          | SCall pack fa xArgs xRets slots' ops' s' =>
              match call_fn f pack fa xArgs xRets (ipos i) ops' s' with
              | COk ops'' s'' => exec f codes (pc + 1) slots' ops'' s''
              | CErr r => r
              end
          | SRet slots' ops' s' => RDone slots' ops' s'
          | SFail msg s' => RFail msg (ipos i) s'
          | SStuck w => RStuck w
          | SUnmod w => RUnmod w
          end
      end
    end

  (* call (vm.go): variadic packing; callReady: argument count check, body, result count check / truncation;
     mkFunc: backtrace push, parameter typing, slots, exec, result typing, backtrace pop. *)
  with call_fn (fuel : nat) (pack : bool) (fa : Z) (xArgs xRets : Z) (pos : Z) (ops : list value) (s : st)
               {struct fuel} : cres :=
    match fuel with
    | O => CErr RFuel
    | S f =>
      match hget s fa with
      | Some (HNative name) =>
          (* the print family: variadic natives registered with argc 1: every argument is packed *)
          if (String.eqb name "builtin.println") || (String.eqb name "builtin.print") ||
             (String.eqb name "fmt.Println") || (String.eqb name "fmt.Print") then
            if negb pack then CErr (RUnmod "native with spread") else
            match popn (Z.to_nat xArgs) ops [] with
            | Some (args, rest) =>
                match all_some (map to_string args) with
                | Some strs =>
                    let line := if (String.eqb name "builtin.println") || (String.eqb name "fmt.Println")
                                then (join_sp strs ++ [10])%list else join_sp strs in
                    if 0 <? xRets then CErr (RFail "incorrect returns" pos s) else COk rest (emit s line)
                | None => CErr (RUnmod "printing of this value kind")
                end
            | None => CErr (RStuck "native arguments")
            end
          else CErr (RUnmod "native function")
      | Some (HFunc nargs nrets variadic vtype nslots types body) =>
          (* call: pack surplus arguments of a variadic function (none: the nil slice of the variadic type) *)
          let packed :=
            if variadic && pack then
              let nVar := xArgs - nargs + 1 in
              if nVar <? 0 then inr (RFail "runtime error" pos s) else
              match popn (Z.to_nat nVar) ops [] with
              | Some (vargs, rest) =>
                  let (s1, sv) := variadic_arg s vtype nVar vargs in
                  inl (sv :: rest, xArgs - nVar + 1, s1)
              | None => inr (RStuck "variadic arguments")
              end
            else inl (ops, xArgs, s) in
          match packed with
          | inr r => CErr r
          | inl (ops1, xArgs1, s1) =>
              if negb (xArgs1 =? nargs) then CErr (RFail "incorrect args" pos s1) else
              match popn (Z.to_nat nargs) ops1 [] with
              | None => CErr (RStuck "arguments")
              | Some (args, rest) =>
                  let typed := map (fun p => Value_assign (fst p) (snd p)) (combine args types) in
                  let slots := (typed ++ repeat nilV (Z.to_nat (nslots - nargs)))%list in
                  match exec f body 0 slots [] (push_bt s1 pos) with
                  | RDone _ rops s2 =>
                      let results := rev rops in                   (* bottom first *)
                      let n := zlen results in
                      if n <? nrets then CErr (RFail "missing return" pos (pop_bt s2)) else     (* mkFunc: frame and backtrace restored, then panic("missing return") *)
                      (* result typing applies to the TOP nrets cells *)
                      let rtypes := skipn (Z.to_nat nargs) types in
                      let keep := firstn (Z.to_nat (n - nrets)) results in
                      let top := skipn (Z.to_nat (n - nrets)) results in
                      let results' := (keep ++ map (fun p => Value_assign (fst p) (snd p)) (combine top rtypes))%list in
                      if n <? xRets then CErr (RFail "incorrect returns" pos (pop_bt s2))
                      else COk (rev (firstn (Z.to_nat xRets) results') ++ rest)%list (pop_bt s2)
                  | r => CErr r
                  end
              end
          end
      | Some _ => CErr (RFail "interface conversion" pos s)
      | None => CErr (RFail "interface conversion" pos s)
      end
    end.

  (* VM.run(codes, slots): a fresh stack of [slots] nil cells; the values left above them are returned *)
  Definition run (fuel : nat) (codes : list instr) (nslots : Z) (s : st) : result :=
    exec fuel codes 0 (repeat nilV (Z.to_nat nslots)) [] s.
End Exec.
