(* Correspondence cases for C06 (written by harness/c06.go).
   KCode: the body of `func tN() { skeleton }` as compiled by the real compiler with the
          optimizer off, mapped one-to-one to abstract instructions, must equal
          compile_ctl skeleton (offsets and slot numbers included).
   KRun:  the trace printed by the real VM running that code (optimizer off) must be the trace of
          the abstract machine of Model/Ctl.v AND of the GoSpec/GoCtl.v evaluator under the same oracle.
   KRef:  the trace the harness predicted with its Go rendering of GoCtl (sent when the real VM
          differed from it: certifies the expected trace of a failing input).
   KSem:  the trace printed by the program built with the Go toolchain must be the trace of the
          GoSpec/GoCtl.v evaluator under the same oracle. *)
From Coq Require Import ZArith List Bool.
From GV Require Import GoSpec.GoCtl Model.Ctl Model.Corr.
Import ListNotations.
Open Scope Z_scope.

Inductive rins := RI (i : cinstr) | RX (opcode : Z).

Definition fn_eqb (a b : fn) : bool :=
  match a, b with FEmit, FEmit | FCond, FCond | FLen, FLen | FTag, FTag => true | _, _ => false end.

Definition cinstr_eqb (a b : cinstr) : bool :=
  match a, b with
  | CPush x, CPush y => x =? y
  | CGet f, CGet g => fn_eqb f g
  | CCall a1 b1, CCall a2 b2 => (a1 =? a2) && (b1 =? b2)
  | CLocalSet x, CLocalSet y => Nat.eqb x y
  | CLocalGet x, CLocalGet y => Nat.eqb x y
  | CEq, CEq => true
  | CJump x, CJump y => x =? y
  | CJumpFalse x, CJumpFalse y => x =? y
  | CJumpTrue x, CJumpTrue y => x =? y
  | COr x, COr y => x =? y
  | CRange r1 d1, CRange r2 d2 => Nat.eqb r1 r2 && (d1 =? d2)
  | CIter r1 k1 v1 d1, CIter r2 k2 v2 d2 => Nat.eqb r1 r2 && Nat.eqb k1 k2 && Nat.eqb v1 v2 && (d1 =? d2)
  | CReturn x, CReturn y => x =? y
  | CBreak, CBreak => true
  | CContinue, CContinue => true
  | _, _ => false
  end.

Definition rins_eqb (a : cinstr) (b : rins) : bool :=
  match b with RI i => cinstr_eqb a i | RX _ => false end.

Fixpoint code_eqb (a : code) (b : list rins) : bool :=
  match a, b with
  | [], [] => true
  | x :: a', y :: b' => rins_eqb x y && code_eqb a' b'
  | _, _ => false
  end.

Definition event_eqb (a b : event) : bool :=
  match a, b with
  | EvEmit x, EvEmit y | EvCond x, EvCond y | EvRange x, EvRange y | EvTag x, EvTag y => x =? y
  | _, _ => false
  end.

Fixpoint trace_eqb (a b : trace) : bool :=
  match a, b with
  | [], [] => true
  | x :: a', y :: b' => event_eqb x y && trace_eqb a' b'
  | _, _ => false
  end.

(* the functions c, rs, tg of the generated programs answer from a vector: the i-th evaluated condition
   gets bit (i mod cm) of cb, the i-th range expression a slice whose length is the 2-bit digit (i mod 4)
   of lv, the i-th switch tag the 4-bit digit (i mod 4) of tv *)
Fixpoint count_ev (f : event -> bool) (tr : trace) : Z :=
  match tr with
  | [] => 0
  | e :: r => (if f e then 1 else 0) + count_ev f r
  end.
Definition is_cond (e : event) := match e with EvCond _ => true | _ => false end.
Definition is_range (e : event) := match e with EvRange _ => true | _ => false end.
Definition is_tag (e : event) := match e with EvTag _ => true | _ => false end.

Definition vec_oracle (cb cm lv tv : Z) : oracle :=
  mkOracle (fun tr _ => Z.testbit cb (count_ev is_cond tr mod cm))
           (fun tr _ => Z.to_nat (Z.land (Z.shiftr lv (2 * (count_ev is_range tr mod 4))) 3))
           (fun tr _ => Z.land (Z.shiftr tv (4 * (count_ev is_tag tr mod 4))) 15).

Inductive ccase :=
| KCode (b : block) (real : list rins)
| KRun (b : block) (cb cm lv tv : Z) (obs : list event)    (* real VM, optimizer off *)
| KRef (b : block) (cb cm lv tv : Z) (pred : list event)   (* the harness's rendering of GoCtl *)
| KSem (b : block) (cb cm lv tv : Z) (obs : list event).   (* Go toolchain *)

Definition spec_trace (b : block) (o : oracle) (t : list event) : bool :=
  match exec_block o 5000 b [] with
  | Some (Normal, t') | Some (Ret, t') => trace_eqb (rev t') t
  | _ => false
  end.

Definition run_ccase (c : ccase) : bool :=
  match c with
  | KCode b real => code_eqb (compile_ctl b) real
  | KRun b cb cm lv tv obs =>
      (* the abstract machine on the model's code AND Go's semantics both give the observed trace *)
      match run (vec_oracle cb cm lv tv) 20000 (compile_ctl b) init_cfg with
      | Finished t [] | Ret_at _ t [] => trace_eqb (rev t) obs
      | _ => false
      end && spec_trace b (vec_oracle cb cm lv tv) obs
  | KRef b cb cm lv tv t => spec_trace b (vec_oracle cb cm lv tv) t
  | KSem b cb cm lv tv t => spec_trace b (vec_oracle cb cm lv tv) t
  end.

Definition xmismatches (base : Z) (cs : list ccase) : list Z := mismatches_from run_ccase base cs.
