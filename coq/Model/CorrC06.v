(* Correspondence cases for C06 (written by harness/c06.go).
   KCode: the body of `func tN() { skeleton }` as compiled by the real compiler with the
          optimizer off, mapped one-to-one to abstract instructions, must equal
          compile_ctl skeleton (offsets and slot numbers included).
   KRun:  the trace printed by the real VM running that code (optimizer off) must be the trace of
          the abstract machine of Model/Ctl.v under the same oracle.
   KSem:  the trace printed by the program built with the Go toolchain must be the trace of the
          GoSpec/GoCtl.v evaluator under the same oracle. *)
From Coq Require Import ZArith List Bool.
From GV Require Import GoSpec.GoCtl Model.Ctl Model.Corr.
Import ListNotations.
Open Scope Z_scope.

Inductive rins := RI (i : cinstr) | RX (opcode : Z).

Definition fn_eqb (a b : fn) : bool :=
  match a, b with FEmit, FEmit | FCond, FCond | FLen, FLen | FTag, FTag => true | _, _ => false end.

Definition cinstr_eqb (a b : cinstr) : bool :=
  match a, b with
  | CPush x, CPush y => x =? y
  | CGet f, CGet g => fn_eqb f g
  | CCall a1 b1, CCall a2 b2 => (a1 =? a2) && (b1 =? b2)
  | CLocalSet x, CLocalSet y => Nat.eqb x y
  | CLocalGet x, CLocalGet y => Nat.eqb x y
  | CEq, CEq => true
  | CJump x, CJump y => x =? y
  | CJumpFalse x, CJumpFalse y => x =? y
  | CJumpTrue x, CJumpTrue y => x =? y
  | COr x, COr y => x =? y
  | CRange r1 d1, CRange r2 d2 => Nat.eqb r1 r2 && (d1 =? d2)
  | CIter r1 k1 v1 d1, CIter r2 k2 v2 d2 => Nat.eqb r1 r2 && Nat.eqb k1 k2 && Nat.eqb v1 v2 && (d1 =? d2)
  | CReturn x, CReturn y => x =? y
  | CBreak, CBreak => true
  | CContinue, CContinue => true
  | _, _ => false
  end.

Definition rins_eqb (a : cinstr) (b : rins) : bool :=
  match b with RI i => cinstr_eqb a i | RX _ => false end.

Fixpoint code_eqb (a : code) (b : list rins) : bool :=
  match a, b with
  | [], [] => true
  | x :: a', y :: b' => rins_eqb x y && code_eqb a' b'
  | _, _ => false
  end.

Definition event_eqb (a b : event) : bool :=
  match a, b with
  | EvEmit x, EvEmit y | EvCond x, EvCond y | EvRange x, EvRange y | EvTag x, EvTag y => x =? y
  | _, _ => false
  end.

Fixpoint trace_eqb (a b : trace) : bool :=
  match a, b with
  | [], [] => true
  | x :: a', y :: b' => event_eqb x y && trace_eqb a' b'
  | _, _ => false
  end.

(* the functions c, rs, tg of the generated programs: n counts their calls *)
Fixpoint ncalls (tr : trace) : Z :=
  match tr with
  | [] => 0
  | EvEmit _ :: r => ncalls r
  | _ :: r => ncalls r + 1
  end.

Definition pat_oracle (sd : Z) : oracle :=
  mkOracle (fun tr k => let n := ncalls tr + 1 in (((n * n + k) * sd) mod 7) <? 4)
           (fun tr k => let n := ncalls tr + 1 in Z.to_nat ((n + k + sd) mod 3))
           (fun tr k => let n := ncalls tr + 1 in (n + k + sd) mod 4).

Inductive ccase :=
| KCode (b : block) (real : list rins)
| KRun (b : block) (sd : Z) (obs : list event)
| KSem (b : block) (sd : Z) (obs : list event).

Definition run_ccase (c : ccase) : bool :=
  match c with
  | KCode b real => code_eqb (compile_ctl b) real
  | KRun b sd obs =>
      match run (pat_oracle sd) 20000 (compile_ctl b) init_cfg with
      | Finished t [] | Ret_at _ t [] => trace_eqb (rev t) obs
      | _ => false
      end
  | KSem b sd obs =>
      match exec_block (pat_oracle sd) 5000 b [] with
      | Some (Normal, t) | Some (Ret, t) => trace_eqb (rev t) obs
      | _ => false
      end
  end.

Definition xmismatches (base : Z) (cs : list ccase) : list Z := mismatches_from run_ccase base cs.
