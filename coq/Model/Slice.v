(* Slice: transcription of goatlang's slice layer (/repo/value.go sliceT, NewSlice,
   newSlice, the nil handling of Value.Get/Set/Len/Range/Append/Slice, Value.data,
   convert(TypeSlice); /repo/do.go NEWSLICE, MAKE, SLICE, APPEND, COPY, GET, SET, LEN,
   RANGE/ITER).

   sliceT.data IS a Go slice ([]Value): it is modelled by a GoSpec.GoSlice descriptor over a
   store of arrays of [value]; the cells of a []Value that nobody wrote hold Value{}
   ([nilV]).  What is transcribed here is what the wrappers ADD to Go's own slice
   operations: the element-type assignment v.assign(valueType), the nil cases, the
   operand decoding of the opcodes.  Run-time panics (recovered by the VM into errors)
   are [Panic] results. *)
From Coq Require Import ZArith List Bool Lia.
From GV Require Import GoSpec.GoPrim GoSpec.GoSlice GoSpec.GoSliceHist Gen.ValueOps_gen.
Import ListNotations.

(* nilV = Value{}, vstore, assign_to t v = v.assign(t), and the statement type [op] come from
   GoSpec/GoSliceHist.v *)

(* a Value whose type has base TypeSlice:
   GNil t   = Value{t: t, value: nil}                                     (var s []T)
   GSl vt d = Value{t: sliceType(vt), value: &sliceT{valueType: vt, data: d}}
              (d itself may be a nil []Value: newSlice(vt, nil)) *)
Inductive gval := GNil (t : Z) | GSl (valueType : Z) (d : slice).

(* v.t.value() for nil values, s.valueType otherwise *)
Definition elemty (g : gval) : Z := match g with GNil t => Type_value t | GSl ety _ => ety end.
(* Value.data(): t.data for a *sliceT; for a nil Value make([]Value, 0) (no cells either way) *)
Definition gdata (g : gval) : slice := match g with GNil _ => SNil | GSl _ d => d end.
(* v.value == nil, what `s == nil` tests (Value.Equals) *)
Definition g_isnil (g : gval) : bool := match g with GNil _ => true | GSl _ _ => false end.


(* func newSlice(valueType, data) *)
Definition newSlice (ety : Z) (d : slice) : gval := GSl ety d.

(* func NewSlice(valueType, data): for i, v := range data { data[i] = v.assign(valueType) } --
   IN PLACE in the array data points into -- then newSlice *)
Definition NewSlice (st : vstore) (ety : Z) (d : slice) : vstore * gval :=
  (match d with
   | SNil => st
   | SMk a o _ _ => arr_write st a o (map (assign_to ety) (cells st d))
   end, newSlice ety d).

(* ---- host-side Value API ------------------------------------------------------------- *)

(* Value.Get: v.value != nil || base == TypeSlice -> v.value.Get(key) (a nil interface call
   panics); sliceT.Get: s.data[k.Int()] *)
Definition Value_Get (st : vstore) (g : gval) (k : value) : res value :=
  match g with
  | GNil _ => Panic
  | GSl _ d => index st d (Value_Int k)
  end.

(* Value.Set: v.value.Set(key, value); sliceT.Set: s.data[k.Int()] = v.assign(s.valueType) *)
Definition Value_Set (st : vstore) (g : gval) (k v : value) : res vstore :=
  match g with
  | GNil _ => Panic
  | GSl ety d => set st d (Value_Int k) (Value_assign v ety)
  end.

(* Value.Len *)
Definition Value_Len (g : gval) : nat := match g with GNil _ => 0 | GSl _ d => slen d end.

(* Value.Range / sliceT.Range: r := s.data (the descriptor is fixed when the loop starts);
   the n-th call returns Int(n), r[n] read from the CURRENT array contents *)
Definition range_next (st : vstore) (g : gval) (n : nat) : option (value * value) :=
  match g with
  | GNil _ => None
  | GSl _ d => if (n <? slen d)%nat then
                 match nth_error (cells st d) n with
                 | Some v => Some (fn_Int (Z.of_nat n), v)
                 | None => None
                 end
               else None
  end.
(* a whole loop whose body does not touch the slice *)
Definition Value_Range (st : vstore) (g : gval) : list (value * value) :=
  match g with
  | GNil _ => []
  | GSl _ d => combine (map (fun n => fn_Int (Z.of_nat n)) (seq 0 (slen d))) (cells st d)
  end.

(* Value.Slice(i, j): nil value with 0,0 -> newSlice(v.t.value(), nil) (a NON-nil Value);
   nil value otherwise -> nil interface call panics; sliceT.Slice: newSlice(valueType, data[i:j]) *)
Definition Value_Slice (g : gval) (i j : Z) : res gval :=
  match g with
  | GNil t => if (i =? 0)%Z && (j =? 0)%Z then Ok (newSlice (Type_value t) SNil) else Panic
  | GSl ety d => match reslice d i j with Ok d' => Ok (newSlice ety d') | Panic => Panic | Unmodelled => Unmodelled end
  end.

(* Value.Append(items...): nil value -> newSlice(v.t.value(), items): the argument slice
   itself becomes the data, NOT assigned to the element type ([c] = its capacity, chosen by
   the caller; no items = a nil argument slice);
   sliceT.Append: NewSlice(s.valueType, append(s.data, items...)) *)
Definition Value_Append (grow : nat -> nat -> nat) (st : vstore) (g : gval) (items : list value) (c : nat)
  : vstore * gval :=
  match g with
  | GNil t =>
      match items with
      | [] => (st, newSlice (Type_value t) SNil)
      | _ => let c' := Nat.max (length items) c in
             ((st ++ [items ++ repeat nilV (c' - length items)])%list,
              newSlice (Type_value t) (SMk (length st) 0 (length items) c'))
      end
  | GSl ety d => let (st1, d1) := append_ nilV grow st d items in NewSlice st1 ety d1
  end.

(* goatlang.NewSlice(valueType, data) called by a host with a fresh slice holding vs and
   [extra] spare cells *)
Definition host_NewSlice (st : vstore) (ety : Z) (vs : list value) (extra : nat) : vstore * gval :=
  NewSlice (st ++ [vs ++ repeat nilV extra])%list ety (SMk (length st) 0 (length vs) (length vs + extra)).

(* ---- opcodes (do.go) ------------------------------------------------------------------ *)

(* LEN: r.value != nil ? Int(r.Len()) : Int(0) *)
Definition code_len (g : gval) : value := fn_Int (Z.of_nat (Value_Len g)).

(* GET (and FASTGETINT with k = Int(B)): r.Get(k), the ok flag dropped *)
Definition code_get := Value_Get.
(* SET value obj key (and FASTSETINT): obj.Set(key, value) *)
Definition code_set (st : vstore) (value_ : value) (obj : gval) (key : value) : res vstore :=
  Value_Set st obj key value_.

(* SLICE r a b: i, j := a.Int(), b.Int(); if b.t == TypeNil { j = r.Len() }; r.Slice(i, j) *)
Definition code_slice (r : gval) (a b : value) : res gval :=
  let i := Value_Int a in
  let j := if (vt b =? TypeNil)%Z then Z.of_nat (Value_Len r) else Value_Int b in
  Value_Slice r i j.

(* NEWSLICE A=type B=count: s := make([]Value, B); copy(s, stack top B); NewSlice(A, s) *)
Definition code_newslice (st : vstore) (t : Z) (vs : list value) : vstore * gval :=
  let (st1, d) := lit st vs in NewSlice st1 t d.

(* MAKE A=type: l := top.Int(); s := make([]Value, l) (panics when l < 0); s[j] = newZero(A);
   NewSlice(A, s) *)
Definition code_make (st : vstore) (t : Z) (n : value) : res (vstore * gval) :=
  match make_ st (Value_Int n) (fn_newZero t) with
  | Ok (st1, d) => Ok (NewSlice st1 t d)
  | Panic => Panic
  | Unmodelled => Unmodelled
  end.

(* APPEND A B: s = the slice operand, vs = the A-1 values above it; with B == 1 the last of
   them is spread: vs = append(vs[:len-1], tmp.data()...) (built in the VM stack's spare
   room or a new array: a private copy either way, taken BEFORE anything is written).
   Operand of the spread (none / a slice Value / a string Value): *)
Inductive spread := SpNone | SpSlice (g : gval) | SpStr (s : list Z).
(* if tmp.t == TypeString { tmp = tmp.convert(TypeSlice) }: a new []uint8 slice holding the bytes
   of the string as Byte values; then tmp.data(): the cells of the slice *)
Definition spread_items (st : vstore) (sp : spread) : list value :=
  match sp with
  | SpNone => []
  | SpSlice g => cells st (gdata g)
  | SpStr s => map fn_Byte s
  end.
(* s.value != nil -> s.Append(vs...); else vsCopy := make([]Value, len(vs)); copy; NewSlice(s.t.value(), vsCopy) *)
Definition code_append (grow : nat -> nat -> nat) (st : vstore) (s : gval) (items : list value) : vstore * gval :=
  match s with
  | GSl _ _ => Value_Append grow st s items 0
  | GNil t => let (st1, d) := lit st items in NewSlice st1 (Type_value t) d
  end.

(* COPY a b: base(b.t) == TypeSlice -> copy(a.data(), b.data()); else copy(a.data(),
   b.convert(TypeSlice).data()) where convert turns a string into a new []uint8 slice of
   its bytes.  Go's copy on []Value: no element-type assignment. *)
Inductive csrc := CSlice (g : gval) | CStr (s : list Z).
Definition csrc_vals (st : vstore) (b : csrc) : list value :=
  match b with CSlice g => cells st (gdata g) | CStr s => map fn_Byte s end.
Definition code_copy (st : vstore) (a : gval) (b : csrc) : vstore * nat :=
  copy_vals st (gdata a) (csrc_vals st b).

(* ---- histories over a pool of slice variables ------------------------------------------- *)

Definition pool := list gval.
Definition pget (p : pool) (x : nat) : gval := nth x p (GNil 0).
Definition pset (p : pool) (x : nat) (g : gval) : pool := write p x [g].
Definition state := (vstore * pool)%type.
Definition spread_of (p : pool) (sp : spread_src) : spread :=
  match sp with SpN => SpNone | SpV z => SpSlice (pget p z) | SpS s => SpStr s end.

Definition step_res (s : state) (o : op) : res state :=
  let (st, p) := s in
  match o with
  | ONil x t => Ok (st, pset p x (GNil (fn_sliceType t)))
  | OLit x t vs => let (st', g) := code_newslice st t vs in Ok (st', pset p x g)
  | OMake x t n => match code_make st t n with
                   | Ok (st', g) => Ok (st', pset p x g) | Panic => Panic | Unmodelled => Unmodelled end
  | OSlice x y a b => match code_slice (pget p y) a b with
                      | Ok g => Ok (st, pset p x g) | Panic => Panic | Unmodelled => Unmodelled end
  | OSet x k v => match code_set st v (pget p x) k with
                  | Ok st' => Ok (st', p) | Panic => Panic | Unmodelled => Unmodelled end
  | OAppend x y vs sp c =>
      let items := (vs ++ spread_items st (spread_of p sp))%list in
      let (st', g) := code_append (fun _ _ => c) st (pget p y) items in Ok (st', pset p x g)
  | OCopy x y => Ok (fst (code_copy st (pget p x) (CSlice (pget p y))), p)
  | OCopyStr x s => Ok (fst (code_copy st (pget p x) (CStr s)), p)
  end.

(* a failing operation leaves everything as it was (the panic is raised before any write) *)
Definition step (s : state) (o : op) : state := match step_res s o with Ok s' => s' | _ => s end.
Definition run (s : state) (os : list op) : state := fold_left step os s.
