(* Run-level correspondence for the backtrace part of Model/VM.v (property C20): the model VM runs the
   code the real compiler produced (hook VerifLoadTrace; positions = function-name index << 32 | line << 16
   | column, as newPos packs them) from the globals snapshot taken before the run, followed by the call of
   main.main, and must print what the real VM printed, succeed or fail alike, and on failure produce the
   real error text: [trace] = the positions parsed from the text VM.btErr built (first line, then one per
   backtrace line).  Compared with it: the model's RFail position followed by the non-zero entries of the
   final state's [bt], AND the text predicted by the ghost call chain of Model/Backtrace.v. *)
From Coq Require Import ZArith List String Bool.
From GV Require Import GoSpec.GoPrim Gen.ValueOps_gen Model.VM Model.Corr Model.CorrVM Model.Backtrace.
Import ListNotations.
Open Scope Z_scope.

Inductive bcase :=
| CRunBt (codes : list instr) (slots : Z) (nglobals : Z) (globals : list (Z * gentry))
         (out : list Z) (ok : bool) (trace : list Z).

Definition c20_grun := grun (fun _ n => n) (fun _ _ _ => None) (fun _ _ _ _ => None) (fun _ _ => None) (fun _ _ _ => None) (fun _ _ _ _ => None).

(* 0 = agree, 1 = disagree, 2 = outside the modelled fragment, 3 = fuel *)
Definition run_bcase (c : bcase) : Z :=
  match c with
  | CRunBt codes slots ng gl out ok trace =>
      let s0 := init_globals gl (mkSt (repeat nilV (Z.to_nat ng)) [] [] []) in
      match c20_grun (Z.to_nat 400000) codes slots s0 with
      | (RDone _ ops s, _) =>
          if ok && bytes_eq (VM.out s) out && (match ops with [] => true | _ => false end) &&
             (match trace with [] => true | _ => false end) then 0 else 1
      | (RFail _ pos s, g) =>
          if negb ok && bytes_eq (VM.out s) out && bytes_eq (err_trace pos (bt s)) trace &&
             (match ghost_trace g with Some t => bytes_eq t trace | None => false end) then 0 else 1
      | (RStuck _, _) => 1
      | (RFuel, _) => 3
      | (RUnmod _, _) => 2
      end
  end.

Fixpoint bmism_from (n : Z) (cs : list bcase) : list Z :=
  match cs with
  | [] => []
  | c :: r => let k := run_bcase c in
              if k =? 0 then bmism_from (n + 1) r
              else if k =? 1 then n :: bmism_from (n + 1) r
              else (- (n + 1)) :: bmism_from (n + 1) r     (* negative: not comparable (unmodelled / fuel) *)
  end.
Definition xmismatches (base : Z) (cs : list bcase) : list Z := bmism_from base cs.
