(* GoCtl -- what Go specifies for structured control flow (The Go Programming
   Language Specification: "If statements", "Switch statements", "For statements",
   "Break statements", "Continue statements", "Return statements").

   A control skeleton keeps only the control structure of a function body: the
   observable actions are calls `emit(l)`, conditions are calls `c(k)` returning a
   bool, range expressions are calls `rs(k)` returning a slice, switch tags are
   calls `tg(k)` returning an int.  What those calls return is taken from an
   arbitrary ORACLE that may depend on everything observed so far, so a statement
   about "every oracle" covers every data-dependent path.

   The semantics is a fuelled big-step evaluator producing the trace of calls (most
   recent first) and an outcome.  *)
From Coq Require Import ZArith List Bool.
Import ListNotations.
Open Scope Z_scope.

Inductive event :=
| EvEmit (l : Z)      (* emit(l) was called *)
| EvCond (k : Z)      (* c(k) was evaluated *)
| EvRange (k : Z)     (* rs(k) was evaluated (range expression, once per range statement) *)
| EvTag (k : Z).      (* tg(k) was evaluated (switch tag, once per switch statement) *)

Definition trace := list event.     (* most recent event first *)

(* the answers of the environment, as functions of the history *)
Record oracle := mkOracle {
  o_cond : trace -> Z -> bool;      (* result of c(k) *)
  o_len : trace -> Z -> nat;        (* length of the slice rs(k) returns *)
  o_tag : trace -> Z -> Z           (* result of tg(k) *)
}.

(* Skeletons.  Blocks and case lists are spelled out as mutual inductives.
   If: optional init statement emit(l); condition c(k); then block; else block (BNil: no else, or
       an empty one; an else-if chain is an else block consisting of one If).
   For: optional init emit(l), optional condition c(k) (absent: loop forever), optional post emit(l).
   Range: `for range rs(k) { body }`.
   Switch: tagless (tag = None; guards are condition numbers k, meaning c(k)) or tagged (tag = Some k,
       meaning `switch tg(k)`; guards are integer literals); every case lists one or more guards; the
       default block (BNil: none or empty) stands at source position dpos among the cases. *)
Inductive stmt :=
| Emit (l : Z)
| If (init : option Z) (c : Z) (thn els : block)
| For (init cond post : option Z) (body : block)
| Range (k : Z) (body : block)
| Switch (tag : option Z) (cs : cases) (dpos : nat) (dflt : block)
| Break
| Continue
| Return
with block :=
| BNil
| BCons (s : stmt) (b : block)
with cases :=
| CNil
| CCons (g : Z) (gs : list Z) (body : block) (cs : cases).

Fixpoint blk (l : list stmt) : block :=
  match l with [] => BNil | s :: r => BCons s (blk r) end.
Fixpoint css (l : list (Z * list Z * block)) : cases :=
  match l with [] => CNil | (g, gs, b) :: r => CCons g gs b (css r) end.

Inductive outcome := Normal | Brk | Cont | Ret.

Section Sem.
  Variable orc : oracle.

  Definition do_emit (o : option Z) (tr : trace) : trace :=
    match o with Some l => EvEmit l :: tr | None => tr end.

  (* guards of one case clause, left to right, stopping at the first match.
     tagless: each guard is a call c(k).  tagged: each guard is a literal compared with the tag. *)
  Fixpoint eval_guards (tag : option Z) (gs : list Z) (tr : trace) : bool * trace :=
    match gs with
    | [] => (false, tr)
    | g :: r =>
        match tag with
        | None => if o_cond orc tr g then (true, EvCond g :: tr) else eval_guards tag r (EvCond g :: tr)
        | Some t => if t =? g then (true, tr) else eval_guards tag r tr
        end
    end.

  Fixpoint exec (fuel : nat) (s : stmt) (tr : trace) {struct fuel} : option (outcome * trace) :=
    match fuel with O => None | S f =>
    match s with
    | Emit l => Some (Normal, EvEmit l :: tr)
    | Break => Some (Brk, tr)
    | Continue => Some (Cont, tr)
    | Return => Some (Ret, tr)
    | If init c thn els =>
        let tr1 := do_emit init tr in
        if o_cond orc tr1 c then exec_block f thn (EvCond c :: tr1) else exec_block f els (EvCond c :: tr1)
    | For init cond post body => exec_for f cond post body (do_emit init tr)
    | Range k body => exec_range f (o_len orc tr k) body (EvRange k :: tr)
    | Switch tag cs _ dflt =>
        (* the default position plays no role; break leaves the switch *)
        let r := match tag with
                 | None => exec_cases f None cs dflt tr
                 | Some k => exec_cases f (Some (o_tag orc tr k)) cs dflt (EvTag k :: tr)
                 end in
        match r with Some (Brk, tr') => Some (Normal, tr') | _ => r end
    end end
  with exec_block (fuel : nat) (b : block) (tr : trace) {struct fuel} : option (outcome * trace) :=
    match fuel with O => None | S f =>
    match b with
    | BNil => Some (Normal, tr)
    | BCons s b' =>
        match exec f s tr with
        | Some (Normal, tr1) => exec_block f b' tr1
        | r => r                    (* break / continue / return skip the rest of the block *)
        end
    end end
  (* one round of a for loop, starting at the condition *)
  with exec_for (fuel : nat) (cond post : option Z) (body : block) (tr : trace) {struct fuel} : option (outcome * trace) :=
    match fuel with O => None | S f =>
    let '(go, tr1) := match cond with
                      | None => (true, tr)
                      | Some c => (o_cond orc tr c, EvCond c :: tr)
                      end in
    if go then
      match exec_block f body tr1 with
      | Some (Normal, tr2) | Some (Cont, tr2) => exec_for f cond post body (do_emit post tr2)   (* continue runs the post statement *)
      | Some (Brk, tr2) => Some (Normal, tr2)
      | Some (Ret, tr2) => Some (Ret, tr2)
      | None => None
      end
    else Some (Normal, tr1)
    end
  (* the remaining n iterations of a range loop *)
  with exec_range (fuel : nat) (n : nat) (body : block) (tr : trace) {struct fuel} : option (outcome * trace) :=
    match fuel with O => None | S f =>
    match n with
    | O => Some (Normal, tr)
    | S n' =>
        match exec_block f body tr with
        | Some (Normal, tr2) | Some (Cont, tr2) => exec_range f n' body tr2
        | Some (Brk, tr2) => Some (Normal, tr2)
        | Some (Ret, tr2) => Some (Ret, tr2)
        | None => None
        end
    end end
  (* case clauses top to bottom; exactly one body runs (no fall through); default iff none matched *)
  with exec_cases (fuel : nat) (tag : option Z) (cs : cases) (dflt : block) (tr : trace) {struct fuel} : option (outcome * trace) :=
    match fuel with O => None | S f =>
    match cs with
    | CNil => exec_block f dflt tr
    | CCons g gs body cs' =>
        let '(m, tr1) := eval_guards tag (g :: gs) tr in
        if m then exec_block f body tr1 else exec_cases f tag cs' dflt tr1
    end end.
End Sem.

(* well-formedness as the Go compiler checks it: break only inside for/range/switch, continue only inside a loop *)
Fixpoint wf (inl ins : bool) (s : stmt) : bool :=
  match s with
  | Emit _ | Return => true
  | Break => inl || ins
  | Continue => inl
  | If _ _ t e => wf_block inl ins t && wf_block inl ins e
  | For _ _ _ b => wf_block true false b
  | Range _ b => wf_block true false b
  | Switch _ cs _ d => wf_cases inl true cs && wf_block inl true d
  end
with wf_block (inl ins : bool) (b : block) : bool :=
  match b with BNil => true | BCons s b' => wf inl ins s && wf_block inl ins b' end
with wf_cases (inl ins : bool) (cs : cases) : bool :=
  match cs with CNil => true | CCons _ _ b cs' => wf_block inl ins b && wf_cases inl ins cs' end.
