(* GoSliceHist: the Go meaning of a history of slice statements over a pool of typed
   slice variables, built from GoSpec/GoSlice.v only.  SPECIFICATION (trusted; validated
   against the Go toolchain by `harness c11-script`).

   Values are goatlang's value representation (GoPrim.value); the store is Go's []Value
   store: a cell nobody wrote holds Value{} ([nilV]).  Go converts a value stored into a
   []T (literal element, s[i] = v, append argument) to T: that implicit conversion is
   [assign_to T] (C04: an untyped constant becomes a T, a T stays what it is). *)
From Coq Require Import ZArith List Bool.
From GV Require Import GoSpec.GoPrim GoSpec.GoSlice Gen.ValueOps_gen.
Import ListNotations.

Definition nilV : value := mkValue 0 (Zn 0) PNone.          (* Value{} *)
Definition vstore := @store value.
Definition assign_to (t : Z) (v : value) : value := Value_assign v t.

(* what append spreads after the listed values: nothing, the variable z (z...), a string ("s"...,
   for a []byte destination: its bytes) *)
Inductive spread_src := SpN | SpV (z : nat) | SpS (s : list Z).

(* statements; x, y, z are positions in the pool of variables *)
Inductive op :=
| ONil (x : nat) (t : Z)                                          (* var x []T   /  x = nil *)
| OLit (x : nat) (t : Z) (vs : list value)                        (* x = []T{vs} *)
| OMake (x : nat) (t : Z) (n : value)                             (* x = make([]T, n) *)
| OSlice (x y : nat) (a b : value)                                (* x = y[a:b]; b = nil value: x = y[a:] *)
| OSet (x : nat) (k v : value)                                    (* x[k] = v *)
| OAppend (x y : nat) (vs : list value) (sp : spread_src) (c : nat) (* x = append(y, vs...) / append(y, vs..., z...) /
                                                                     append(y, vs..., "s"...); c: capacity the
                                                                     implementation picks if it must grow *)
| OCopy (x y : nat)                                               (* copy(x, y) *)
| OCopyStr (x : nat) (s : list Z).                                (* copy(x, "s") for a []byte x *)

(* a typed variable: element type and slice value *)
Definition tvar := (Z * slice)%type.
Definition gstate := (vstore * list tvar)%type.
Definition tget (p : list tvar) (x : nat) : tvar := nth x p (0%Z, SNil).
Definition tset (p : list tvar) (x : nat) (v : tvar) : list tvar := write p x [v].

(* one statement; [cap] = the capacity Go picks if this statement is an append that grows.
   A run-time panic leaves the state as it was. *)
Definition go_step_res (cap : nat) (gs : gstate) (o : op) : res gstate :=
  let (st, p) := gs in
  match o with
  | ONil x t => Ok (st, tset p x (t, SNil))
  | OLit x t vs => let (st', s) := lit st (map (assign_to t) vs) in Ok (st', tset p x (t, s))
  | OMake x t n =>
      match make_ st (Value_Int n) (fn_newZero t) with
      | Ok (st', s) => Ok (st', tset p x (t, s)) | Panic => Panic | Unmodelled => Unmodelled
      end
  | OSlice x y a b =>
      let (t, s) := tget p y in
      match reslice s (Value_Int a) (if (vt b =? TypeNil)%Z then Z.of_nat (slen s) else Value_Int b) with
      | Ok s' => Ok (st, tset p x (t, s')) | Panic => Panic | Unmodelled => Unmodelled
      end
  | OSet x k v =>
      let (t, s) := tget p x in
      match set st s (Value_Int k) (assign_to t v) with
      | Ok st' => Ok (st', p) | Panic => Panic | Unmodelled => Unmodelled
      end
  | OAppend x y vs sp _ =>
      let (t, s) := tget p y in
      let items := (vs ++ match sp with
                           | SpN => [] | SpV z => cells st (snd (tget p z)) | SpS bs => map fn_Byte bs
                           end)%list in
      let (st', s') := append_ nilV (fun _ _ => cap) st s (map (assign_to t) items) in
      Ok (st', tset p x (t, s'))
  | OCopy x y => Ok (fst (copy_ st (snd (tget p x)) (snd (tget p y))), p)
  | OCopyStr x bs => Ok (fst (copy_vals st (snd (tget p x)) (map fn_Byte bs)), p)
  end.
Definition go_step (cap : nat) (gs : gstate) (o : op) : gstate :=
  match go_step_res cap gs o with Ok gs' => gs' | _ => gs end.

(* a history, with SOME capacity choice at every step *)
Inductive go_run : gstate -> list op -> gstate -> Prop :=
| go_run_nil gs : go_run gs [] gs
| go_run_cons gs o os cap gs' : go_run (go_step cap gs o) os gs' -> go_run gs (o :: os) gs'.
