(* GoSlice: what the Go specification says about slices (Slice types, Slice
   expressions, Index expressions, Appending to and copying slices, Making
   slices), as executable Gallina.  SPECIFICATION (trusted; validated against
   the Go toolchain by the C11 differential `harness c11-script`), not derived
   from /repo.

   A store is a list of backing arrays; the identity of an array is its
   position; an array never changes its length.  A slice value is nil or a
   descriptor (array, offset, length, capacity).  Only the two-index slice
   expression is specified (goatlang has no s[i:j:k]).

   The capacity chosen by an append that must reallocate is NOT specified by
   Go ("sufficiently large"): it is the oracle [grow cap needed]; whatever the
   oracle answers, the new capacity is at least the needed length. *)
From Coq Require Import ZArith List Bool Lia.
From GV Require Import GoSpec.GoPrim.
Import ListNotations.

Section GoSlice.
  Context {V : Type}.
  Variable zero : V.                       (* content of freshly allocated cells nobody wrote yet *)

  Definition store := list (list V).
  Inductive slice := SNil | SMk (arr off len cap : nat).

  Definition slen (s : slice) : nat := match s with SNil => 0 | SMk _ _ l _ => l end.
  Definition scap (s : slice) : nat := match s with SNil => 0 | SMk _ _ _ c => c end.
  Definition is_nil (s : slice) : bool := match s with SNil => true | _ => false end.

  (* l[k .. k+|vs|) := vs   (a write that does not fit is not performed; it never happens
     for well-formed slices) *)
  Definition write {A} (l : list A) (k : nat) (vs : list A) : list A :=
    if (k + length vs <=? length l)%nat then firstn k l ++ vs ++ skipn (k + length vs) l else l.

  Definition array (st : store) (a : nat) : list V := nth a st [].
  Definition arr_write (st : store) (a k : nat) (vs : list V) : store :=
    write st a [write (array st a) k vs].

  (* the elements of s, in order *)
  Definition cells (st : store) (s : slice) : list V :=
    match s with SNil => [] | SMk a o l _ => firstn l (skipn o (array st a)) end.

  (* s[i] : run-time panic unless 0 <= i < len(s) *)
  Definition index (st : store) (s : slice) (i : Z) : res V :=
    if (0 <=? i)%Z && (i <? Z.of_nat (slen s))%Z then
      match nth_error (cells st s) (Z.to_nat i) with Some v => Ok v | None => Panic end
    else Panic.

  (* s[i] = v *)
  Definition set (st : store) (s : slice) (i : Z) (v : V) : res store :=
    match s with
    | SNil => Panic
    | SMk a o l _ => if (0 <=? i)%Z && (i <? Z.of_nat l)%Z then Ok (arr_write st a (o + Z.to_nat i) [v]) else Panic
    end.

  (* s[i:j] : run-time panic unless 0 <= i <= j <= cap(s) (NOT len(s)); the result shares the
     array; slicing a nil slice (only [0:0] is in range) gives nil *)
  Definition reslice (s : slice) (i j : Z) : res slice :=
    match s with
    | SNil => if (i =? 0)%Z && (j =? 0)%Z then Ok SNil else Panic
    | SMk a o l c =>
        if (0 <=? i)%Z && (i <=? j)%Z && (j <=? Z.of_nat c)%Z
        then Ok (SMk a (o + Z.to_nat i) (Z.to_nat j - Z.to_nat i) (c - Z.to_nat i))
        else Panic
    end.

  (* make([]T, n) with [z] the zero value of T *)
  Definition make_ (st : store) (n : Z) (z : V) : res (store * slice) :=
    if (n <? 0)%Z then Panic
    else Ok (st ++ [repeat z (Z.to_nat n)], SMk (length st) 0 (Z.to_nat n) (Z.to_nat n)).

  (* []T{vs} : a new array holding exactly vs *)
  Definition lit (st : store) (vs : list V) : store * slice :=
    (st ++ [vs], SMk (length st) 0 (length vs) (length vs)).

  (* append(s, vs...) : if the result fits the capacity the values are written into the
     array s points into (visible through every slice covering those cells) and the result
     is s extended; otherwise a new array of capacity max(needed, grow cap needed) receives
     the elements of s followed by vs, and nothing that existed is modified.  The values vs
     are taken before anything is written (they may come from a slice overlapping s). *)
  Definition append_ (grow : nat -> nat -> nat) (st : store) (s : slice) (vs : list V) : store * slice :=
    let n := (slen s + length vs)%nat in
    if (n <=? scap s)%nat then
      match s with
      | SNil => (st, SNil)
      | SMk a o l c => (arr_write st a (o + l) vs, SMk a o n c)
      end
    else
      let c' := Nat.max n (grow (scap s) n) in
      (st ++ [cells st s ++ vs ++ repeat zero (c' - n)], SMk (length st) 0 n c').

  (* copy(dst, src-values): min(len(dst), number of values) elements are written at the
     start of dst; the values are read before anything is written, which is the meaning of
     "copy works when the ranges overlap" *)
  Definition copy_vals (st : store) (dst : slice) (vs : list V) : store * nat :=
    let n := Nat.min (slen dst) (length vs) in
    match dst with
    | SNil => (st, 0%nat)
    | SMk a o _ _ => (arr_write st a o (firstn n vs), n)
    end.
  Definition copy_ (st : store) (dst src : slice) : store * nat := copy_vals st dst (cells st src).

  (* well-formed descriptor: points into an existing array, len <= cap, cap within the array *)
  Definition wf_slice (st : store) (s : slice) : Prop :=
    match s with
    | SNil => True
    | SMk a o l c => (a < length st)%nat /\ (l <= c)%nat /\ (o + c <= length (array st a))%nat
    end.
End GoSlice.
