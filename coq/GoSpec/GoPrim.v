(* GoPrim: the meaning of Go's primitive operators and conversions on the
   fixed-width types goatlang uses, as executable Gallina.  This file is
   SPECIFICATION (trusted, validated against the real Go toolchain by the
   harness: `harness prim`), not derived from /repo.

   Representation decision (DESIGN.md section 4): a Go float64 that holds an
   integer z is modelled as [Zn z]; a float64 that is the payload of a
   TypeFloat64 value is [Fn f] with f a primitive (IEEE-754 binary64) float. *)

From Coq Require Import ZArith List Bool Floats Lia String.
Import ListNotations.
Open Scope Z_scope.

Inductive num := Zn (z : Z) | Fn (f : float).
Inductive payload := PNone | PStr (s : list Z) | PRef (a : Z).
Record value := mkValue { vt : Z; vnum : num; vval : payload }.

Inductive res (A : Type) := Ok (a : A) | Panic | Unmodelled.
Arguments Ok {A} a.
Arguments Panic {A}.
Arguments Unmodelled {A}.

Definition bind {A B} (x : res A) (f : A -> res B) : res B :=
  match x with Ok a => f a | Panic => Panic | Unmodelled => Unmodelled end.
Notation "x <- e ;; k" := (bind e (fun x => k)) (at level 61, e at next level, right associativity).

(* ---- integer types ------------------------------------------------------- *)

Inductive ity := I8 | U8 | I32 | U32 | I64 | U64.

Definition bits (t : ity) : Z :=
  match t with I8 | U8 => 8 | I32 | U32 => 32 | I64 | U64 => 64 end.
Definition signed (t : ity) : bool :=
  match t with I8 | I32 | I64 => true | _ => false end.
(* 2^bits and 2^(bits-1) as literals (so that evaluation does not recompute powers) *)
Definition modulus (t : ity) : Z :=
  match t with I8 | U8 => 256 | I32 | U32 => 4294967296 | I64 | U64 => 18446744073709551616 end.
Definition half (t : ity) : Z :=
  match t with I8 | U8 => 128 | I32 | U32 => 2147483648 | I64 | U64 => 9223372036854775808 end.
Lemma modulus_pow t : modulus t = 2 ^ bits t.  Proof. destruct t; reflexivity. Qed.
Lemma half_pow t : half t = 2 ^ (bits t - 1).  Proof. destruct t; reflexivity. Qed.

Definition lo (t : ity) : Z := if signed t then - half t else 0.
Definition hi (t : ity) : Z := if signed t then half t - 1 else modulus t - 1.
Definition in_range (t : ity) (z : Z) : bool := (lo t <=? z) && (z <=? hi t).

(* two's-complement wrap-around into the range of t *)
Definition wrap (t : ity) (z : Z) : Z :=
  if signed t then (z + half t) mod modulus t - half t
  else z mod modulus t.

Definition iadd t a b := wrap t (a + b).
Definition isub t a b := wrap t (a - b).
Definition imul t a b := wrap t (a * b).
Definition ineg t a := wrap t (- a).
(* truncated division; Go panics on zero divisor; MinInt / -1 wraps to MinInt *)
Definition iquo t a b : res Z := if b =? 0 then Panic else Ok (wrap t (Z.quot a b)).
Definition irem t a b : res Z := if b =? 0 then Panic else Ok (wrap t (Z.rem a b)).
(* shifts: the count has its own type; a negative (signed) count panics;
   counts >= width give 0 (or the sign fill for signed >>) *)
Definition ishl (t : ity) a (n : Z) : res Z :=
  if n <? 0 then Panic else if bits t <=? n then Ok 0 else Ok (wrap t (a * 2 ^ n)).
Definition ishr (t : ity) a (n : Z) : res Z :=
  if n <? 0 then Panic else if bits t <=? n then Ok (if a <? 0 then -1 else 0) else Ok (Z.shiftr a n).   (* floor division by 2^n: arithmetic for negatives, logical for non-negatives *)
(* bitwise ops on the two's-complement representative: Z.land & co already
   implement infinite two's complement, and the result of and/or/xor of two
   in-range values is in range, for signed and unsigned alike *)
Definition iand (t : ity) a b := wrap t (Z.land a b).
Definition ior (t : ity) a b := wrap t (Z.lor a b).
Definition ixor (t : ity) a b := wrap t (Z.lxor a b).
Definition iandnot (t : ity) a b := wrap t (Z.land a (Z.lnot b)).
Definition inot (t : ity) a := wrap t (Z.lnot a).

(* ---- floats ---------------------------------------------------------------- *)

Definition two53 : Z := 9007199254740992.

(* correctly rounded conversion for |z| < 2^94 (exact below 2^53): values of
   2^62 and above are split so that each half converts exactly and a single
   float addition rounds once *)
Definition float_of_nonneg (z : Z) : float :=
  if z <? 2 ^ 62 then PrimFloat.of_uint63 (Uint63.of_Z z)
  else PrimFloat.add (Z.ldexp (PrimFloat.of_uint63 (Uint63.of_Z (z / 2 ^ 32))) 32)
                     (PrimFloat.of_uint63 (Uint63.of_Z (z mod 2 ^ 32))).
Definition float_of_Z (z : Z) : float :=
  if z <? 0 then PrimFloat.opp (float_of_nonneg (- z)) else float_of_nonneg z.

(* truncation toward zero; None for NaN and infinities *)
Definition Ztrunc (f : float) : option Z :=
  match Prim2SF f with
  | S754_zero _ => Some 0
  | S754_finite s m e =>
      let mag := if 0 <=? e then Z.pos m * 2 ^ e else Z.pos m / 2 ^ (- e) in
      Some (if s then - mag else mag)
  | _ => None
  end.


Definition as_float (n : num) : float := match n with Zn z => float_of_Z z | Fn f => f end.

(* float64 -> integer conversion as the gc compiler implements it on amd64
   (Go leaves out-of-range results implementation-defined; theorems only rely
   on the in-range part, the out-of-range part is here so that the model can be
   run against the implementation on every input):
   - targets of <= 32 bits other than uint32 go through CVTTSD2SL (32-bit
     "integer indefinite" 0x80000000 when out of int32 range or NaN) and are
     then truncated to the target width;
   - uint32, int64/int go through CVTTSD2SQ (indefinite 0x8000000000000000);
   - uint64/uint: values >= 2^63 are converted as (f - 2^63) with the top bit set. *)
Definition cvt32 (z : option Z) : Z :=
  match z with Some z => if in_range I32 z then z else -2147483648 | None => -2147483648 end.
Definition cvt64 (z : option Z) : Z :=
  match z with Some z => if in_range I64 z then z else -9223372036854775808 | None => -9223372036854775808 end.
Definition cvt_z (t : ity) (z : option Z) : Z :=
  match t with
  | I32 => cvt32 z
  | I8 | U8 => wrap t (cvt32 z)
  | U32 => wrap U32 (cvt64 z)
  | I64 => cvt64 z
  | U64 => match z with      (* y | (z & (y >>a 63)) with y = cvt64 f, z = cvt64 (f - 2^63) *)
           | Some v => if v <? 0 then wrap U64 (cvt64 (Some v))
                       else if v <? 18446744073709551616 then v else 9223372036854775808
           | None => 9223372036854775808
           end
  end.
Definition cvt (t : ity) (n : num) : Z :=
  match n with Zn z => cvt_z t (Some z) | Fn f => cvt_z t (Ztrunc f) end.

(* integer-valued float64 arithmetic is exact while the result stays within
   2^53 in magnitude; beyond that the float operation rounds, as in Go *)
Definition num_arith (fz : Z -> Z -> Z) (ff : float -> float -> float) (a b : num) : num :=
  match a, b with
  | Zn x, Zn y => let r := fz x y in
                  if (Z.abs x <=? two53) && (Z.abs y <=? two53) && (Z.abs r <=? two53) then Zn r
                  else Fn (ff (as_float a) (as_float b))
  | _, _ => Fn (ff (as_float a) (as_float b))
  end.
Definition num_add := num_arith Z.add PrimFloat.add.
Definition num_sub := num_arith Z.sub PrimFloat.sub.
Definition num_mul := num_arith Z.mul PrimFloat.mul.
(* float division never panics; only reached with a float64 tag *)
Definition num_div (a b : num) : num := Fn (PrimFloat.div (as_float a) (as_float b)).
Definition num_neg (a : num) : num := match a with Zn x => Zn (- x) | Fn f => Fn (PrimFloat.opp f) end.

Definition num_ltb (a b : num) : bool :=
  match a, b with Zn x, Zn y => x <? y | _, _ => PrimFloat.ltb (as_float a) (as_float b) end.
Definition num_leb (a b : num) : bool :=
  match a, b with Zn x, Zn y => x <=? y | _, _ => PrimFloat.leb (as_float a) (as_float b) end.
Definition num_eqb (a b : num) : bool :=
  match a, b with Zn x, Zn y => x =? y | _, _ => PrimFloat.eqb (as_float a) (as_float b) end.

(* ---- strings (byte lists) --------------------------------------------------- *)

Fixpoint bytes_ltb (a b : list Z) : bool :=
  match a, b with
  | [], [] => false
  | [], _ :: _ => true
  | _ :: _, [] => false
  | x :: a', y :: b' => if x <? y then true else if y <? x then false else bytes_ltb a' b'
  end.
Fixpoint bytes_eqb (a b : list Z) : bool :=
  match a, b with
  | [], [] => true
  | x :: a', y :: b' => (x =? y) && bytes_eqb a' b'
  | _, _ => false
  end.
Definition bytes_leb a b := bytes_ltb a b || bytes_eqb a b.

(* UTF-8 encoding of a rune as Go's string(rune(x)) does: invalid code points
   (negative, surrogates, > 0x10FFFF) encode U+FFFD *)
Definition utf8_encode (r : Z) : list Z :=
  let r := if (r <? 0) || (1114111 <? r) || ((55296 <=? r) && (r <=? 57343)) then 65533 else r in
  if r <? 128 then [r]
  else if r <? 2048 then [192 + r / 64; 128 + r mod 64]
  else if r <? 65536 then [224 + r / 4096; 128 + (r / 64) mod 64; 128 + r mod 64]
  else [240 + r / 262144; 128 + (r / 4096) mod 64; 128 + (r / 64) mod 64; 128 + r mod 64].

(* ---- payloads ------------------------------------------------------------------ *)

Definition as_str (p : payload) : res (list Z) :=
  match p with PStr s => Ok s | _ => Panic end.     (* v.value.(stringT) *)
Definition payload_is_nil (p : payload) : bool := match p with PNone => true | _ => false end.
(* interface equality v.value == b.value: same dynamic object.  Strings are
   compared by content, references by address. *)
Definition payload_eqb (p q : payload) : bool :=
  match p, q with
  | PNone, PNone => true
  | PStr a, PStr b => bytes_eqb a b
  | PRef a, PRef b => a =? b
  | _, _ => false
  end.

(* ---- value constructor used by the translator ------------------------------------ *)

(* TypeFloat64 = 0b00011111 = 31.  A value literal whose tag is float64 keeps
   its payload as a float: this is the normalisation that makes "a float64
   holding the integer z" and "the float z.0" the same model value. *)
Definition mkV (t : Z) (n : num) (p : payload) : value :=
  mkValue t (if t =? 31 then Fn (as_float n) else n) p.

(* structural equality of model values used by correspondence checks
   (floats compared as IEEE datums: all NaNs equal, +0 <> -0) *)
Definition float_same (a b : float) : bool :=
  match Prim2SF a, Prim2SF b with
  | S754_zero s, S754_zero s' => Bool.eqb s s'
  | S754_infinity s, S754_infinity s' => Bool.eqb s s'
  | S754_nan, S754_nan => true
  | S754_finite s m e, S754_finite s' m' e' => Bool.eqb s s' && Pos.eqb m m' && Z.eqb e e'
  | _, _ => false
  end.
Definition num_same (a b : num) : bool :=
  match a, b with
  | Zn x, Zn y => x =? y
  | _, _ => float_same (as_float a) (as_float b)
  end.
Definition value_same (a b : value) : bool :=
  (vt a =? vt b) && num_same (vnum a) (vnum b) && payload_eqb (vval a) (vval b).
Definition res_same {A} (eq : A -> A -> bool) (a b : res A) : bool :=
  match a, b with
  | Ok x, Ok y => eq x y
  | Panic, Panic => true
  | Unmodelled, _ | _, Unmodelled => true
  | _, _ => false
  end.

(* building a float from sign/mantissa/exponent as printed by the harness *)
Definition mkF (neg : bool) (m e : Z) : float :=
  let f := Z.ldexp (float_of_Z m) e in if neg then PrimFloat.opp f else f.
Definition fNaN : float := PrimFloat.nan.
Definition fInf (neg : bool) : float := if neg then PrimFloat.neg_infinity else PrimFloat.infinity.
Definition fZero (neg : bool) : float := if neg then PrimFloat.neg_zero else PrimFloat.zero.
