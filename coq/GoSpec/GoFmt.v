(* GoFmt: what Go's fmt prints for the operand kinds goatlang scripts can build.
   SPECIFICATION (hand-written, validated against the real fmt package by the
   harness: `c14-corr` CSpec cases carry fmt.Sprint / fmt.Sprintf("%+v") of native
   Go values and are compared with [go_fmt] by vm_compute).

   * %v of bool, integers of every width (decimal), strings (bare, also inside
     containers), slices `[e1 e2]`, nil slice `[]`, maps `map[k:v]` (only
     single-entry maps: Go sorts keys, goatlang does not), nil map `map[]`,
     nil interface / nil pointer `<nil>`.
   * float64: strconv's shortest representation ('g' with exponent thresholds
     -4 / 21); it enters as the Section variable [fmt_float] -- goatlang calls
     fmt.Sprint on the float64, so model and specification share the function.
   * a pointer to a struct AT TOP LEVEL prints `&{...}`; the property fixes the
     form with field names, `&{F:v ...}` in declaration order, which is what
     Go's %+v prints (plain %v omits the names).  A struct pointer nested in a
     slice, map or struct prints as an address in Go, so struct references are
     a separate top-level layer ([gtop]) whose fields are [gval]s. *)
From Coq Require Import ZArith List Bool Floats Lia String Ascii.
Import ListNotations.
Open Scope Z_scope.

Notation bytes := (list Z) (only parsing).

(* byte string of an ASCII literal *)
Definition bs (s : string) : bytes :=
  List.map (fun c => Z.of_nat (nat_of_ascii c)) (list_ascii_of_string s).

(* ---- decimal rendering of integers (strconv.FormatInt base 10) ------------- *)

(* little-endian digits of a non-negative number; the fuel is an upper bound on
   the number of digits (S (log2 z) bits) *)
Fixpoint digits_le (fuel : nat) (z : Z) : bytes :=
  match fuel with
  | O => [48 + z]
  | S f => if z <? 10 then [48 + z] else (48 + z mod 10) :: digits_le f (z / 10)
  end.

Definition print_nonneg (z : Z) : bytes := rev (digits_le (Z.to_nat (Z.log2 z)) z).
Definition print_Z (z : Z) : bytes :=
  if z <? 0 then 45 :: print_nonneg (- z) else print_nonneg z.

(* the decoding direction: value of a digit string *)
Fixpoint value_le (l : bytes) : Z :=
  match l with [] => 0 | d :: r => (d - 48) + 10 * value_le r end.
Definition is_digit (d : Z) : bool := (48 <=? d) && (d <=? 57).
Definition parse_dec (s : bytes) : option Z :=
  match s with
  | 45 :: r => if forallb is_digit r && negb (match r with [] => true | _ => false end)
               then Some (- value_le (rev r)) else None
  | _ => if forallb is_digit s && negb (match s with [] => true | _ => false end)
         then Some (value_le (rev s)) else None
  end.

(* ---- values -------------------------------------------------------------------- *)

Inductive gval :=
| GBool (b : bool)
| GInt (z : Z)                      (* int8 / uint8 / int32 / uint32 / int: the mathematical value *)
| GFloat (f : float)
| GStr (s : bytes)
| GSlice (l : list gval)            (* non-nil slice, possibly empty *)
| GMap1 (k v : gval)                (* map with exactly one entry *)
| GMap0                             (* empty non-nil map *)
| GNilSlice
| GNilMap
| GNil.                             (* nil interface, nil pointer *)

(* operands of Print/Println: a value, or a reference to a struct whose fields
   are values (declaration order) *)
Inductive gtop :=
| GVal (g : gval)
| GStructRef (fields : list (bytes * gval)).

Fixpoint join_sp (l : list bytes) : bytes :=
  match l with
  | [] => []
  | [x] => x
  | x :: r => (x ++ 32 :: join_sp r)%list
  end.

Section Fmt.
  Variable fmt_float : float -> bytes.

  Fixpoint go_fmt (g : gval) : bytes :=
    match g with
    | GBool b => if b then bs "true" else bs "false"
    | GInt z => print_Z z
    | GFloat f => fmt_float f
    | GStr s => s
    | GSlice l => (bs "[" ++ join_sp (List.map go_fmt l) ++ bs "]")%list
    | GMap1 k v => (bs "map[" ++ go_fmt k ++ bs ":" ++ go_fmt v ++ bs "]")%list
    | GMap0 => bs "map[]"
    | GNilSlice => bs "[]"
    | GNilMap => bs "map[]"
    | GNil => bs "<nil>"
    end.

  Definition go_fmt_field (p : bytes * gval) : bytes := (fst p ++ bs ":" ++ go_fmt (snd p))%list.

  Definition go_fmt_top (t : gtop) : bytes :=
    match t with
    | GVal g => go_fmt g
    | GStructRef fs => (bs "&{" ++ join_sp (List.map go_fmt_field fs) ++ bs "}")%list
    end.

  (* fmt.Sprintln / Println: operands separated by one space, newline appended *)
  Definition go_println (ops : list gtop) : bytes :=
    (join_sp (List.map go_fmt_top ops) ++ [10])%list.
  (* fmt.Sprint / Print with ONE operand *)
  Definition go_print1 (op : gtop) : bytes := go_fmt_top op.
End Fmt.

(* nesting depth: scalars 0; every slice or map (nil or not) is one level *)
Fixpoint depth (g : gval) : nat :=
  match g with
  | GSlice l => S (fold_right (fun x m => Nat.max (depth x) m) O l)
  | GMap1 k v => S (Nat.max (depth k) (depth v))
  | GMap0 | GNilSlice | GNilMap => 1
  | _ => 0
  end.
Definition depth_top (t : gtop) : nat :=
  match t with
  | GVal g => depth g
  | GStructRef fs => S (fold_right (fun p m => Nat.max (depth (snd p)) m) O fs)
  end.

(* ---- the decimal printer is correct --------------------------------------------- *)

Lemma value_digits_le : forall fuel z, 0 <= z < 2 ^ Z.of_nat (S fuel) ->
  value_le (digits_le fuel z) = z /\ forallb is_digit (digits_le fuel z) = true /\ digits_le fuel z <> [].
Proof.
  induction fuel as [|f IH]; intros z Hz.
  - cbn [digits_le value_le forallb]. change (2 ^ Z.of_nat 1) with 2 in Hz.
    repeat split; try discriminate; unfold is_digit; lia.
  - cbn [digits_le]. destruct (Z.ltb_spec z 10).
    + cbn [value_le forallb]. repeat split; try discriminate; unfold is_digit; lia.
    + assert (Hq : 0 <= z / 10 < 2 ^ Z.of_nat (S f)).
      { rewrite Nat2Z.inj_succ, Z.pow_succ_r in Hz by lia.
        split; [apply Z.div_pos; lia|].
        apply Z.div_lt_upper_bound; lia. }
      destruct (IH _ Hq) as (Hv & Hd & _).
      cbn [value_le forallb]. rewrite Hv, Hd.
      pose proof (Z.mod_pos_bound z 10 ltac:(lia)).
      repeat split; try discriminate.
      * pose proof (Z.div_mod z 10 ltac:(lia)). lia.
      * unfold is_digit. lia.
Qed.

Lemma log2_fuel : forall z, 0 <= z -> z < 2 ^ Z.of_nat (S (Z.to_nat (Z.log2 z))).
Proof.
  intros z Hz. rewrite Nat2Z.inj_succ, Z2Nat.id by apply Z.log2_nonneg.
  destruct (Z.eq_dec z 0) as [->|]; [reflexivity|].
  apply Z.log2_spec. lia.
Qed.

Lemma print_nonneg_spec : forall z, 0 <= z ->
  value_le (rev (print_nonneg z)) = z /\ forallb is_digit (print_nonneg z) = true /\ print_nonneg z <> [].
Proof.
  intros z Hz. unfold print_nonneg. rewrite rev_involutive.
  destruct (value_digits_le (Z.to_nat (Z.log2 z)) z) as (Hv & Hd & Hn).
  { split; [lia | apply log2_fuel; lia]. }
  repeat split; auto.
  - rewrite forallb_forall in *. intros x Hx. apply Hd. now apply in_rev.
  - intro E. apply Hn. rewrite <- (rev_involutive (digits_le _ _)), E. reflexivity.
Qed.

Lemma print_nonneg_head : forall z, 0 <= z -> exists d r, print_nonneg z = d :: r /\ is_digit d = true.
Proof.
  intros z Hz. destruct (print_nonneg_spec z Hz) as (_ & Hd & Hn).
  destruct (print_nonneg z) as [|d r]; [congruence|].
  exists d, r. split; auto. cbn in Hd. now apply andb_prop in Hd.
Qed.

(* reading back what was printed gives the number: print_Z is injective and
   produces a well-formed decimal numeral *)
Theorem parse_print_Z : forall z, parse_dec (print_Z z) = Some z.
Proof.
  intros z. unfold print_Z. destruct (Z.ltb_spec z 0).
  - destruct (print_nonneg_spec (- z) ltac:(lia)) as (Hv & Hd & Hn).
    unfold parse_dec. rewrite Hd, Hv.
    destruct (print_nonneg (- z)); [congruence|]. cbn. f_equal. lia.
  - destruct (print_nonneg_spec z ltac:(lia)) as (Hv & Hd & Hn).
    destruct (print_nonneg_head z ltac:(lia)) as (d & r & E & Hdig).
    unfold parse_dec. rewrite E in *.
    assert (d <> 45) by (unfold is_digit in Hdig; lia).
    destruct d as [|p|p]; try (rewrite Hd, Hv; reflexivity).
    destruct (Pos.eq_dec p 45) as [->|]; [congruence|].
    repeat (destruct p as [p|p|]; try (rewrite Hd, Hv; reflexivity)); congruence.
Qed.

Corollary print_Z_inj : forall a b, print_Z a = print_Z b -> a = b.
Proof.
  intros a b E. pose proof (parse_print_Z a) as Ha. rewrite E, parse_print_Z in Ha. congruence.
Qed.
