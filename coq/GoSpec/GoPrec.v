(* GoPrec: what "groups as the Go specification prescribes" means for the
   expression core (operands, binary operators, unary - ^ !, parentheses).
   SPECIFICATION: hand-written from the Go spec's operator-precedence table. *)
From Coq Require Import ZArith List String Bool.
Import ListNotations.
Open Scope string_scope.
Open Scope Z_scope.

(* Go spec, "Operator precedence": 5 = * / % << >> & &^ ; 4 = + - | ^ ;
   3 = == != < <= > >= ; 2 = && ; 1 = ||.  0 = not a binary operator. *)
Definition go_prec (op : string) : Z :=
  if existsb (String.eqb op) ["*"; "/"; "%"; "<<"; ">>"; "&"; "&^"] then 5
  else if existsb (String.eqb op) ["+"; "-"; "|"; "^"] then 4
  else if existsb (String.eqb op) ["=="; "!="; "<"; "<="; ">"; ">="] then 3
  else if String.eqb op "&&" then 2
  else if String.eqb op "||" then 1
  else 0.

(* the binary operators goatlang's tokenizer knows (no &^) *)
Definition binops : list string :=
  ["*"; "/"; "%"; "<<"; ">>"; "&"; "+"; "-"; "|"; "^"; "=="; "!="; "<"; "<="; ">"; ">="; "&&"; "||"].

Inductive unop := UNeg | UCompl | UNot.
Definition unop_sym (u : unop) : string := match u with UNeg => "-" | UCompl => "^" | UNot => "!" end.

(* expression trees; parentheses are kept so that [flatten] is exact *)
Inductive tree :=
| Atom (is_int : bool) (text : string)
| Bin (op : string) (l r : tree)
| Un (u : unop) (t : tree)
| Paren (t : tree).

Inductive tok := TAtom (is_int : bool) (text : string) | TSym (s : string).

Fixpoint flatten (t : tree) : list tok :=
  match t with
  | Atom i s => [TAtom i s]
  | Bin op l r => flatten l ++ TSym op :: flatten r
  | Un u t => TSym (unop_sym u) :: flatten t
  | Paren t => TSym "(" :: flatten t ++ [TSym ")"]
  end.

Definition is_bin (t : tree) : bool := match t with Bin _ _ _ => true | _ => false end.
Definition root_prec (prec : string -> Z) (t : tree) : option Z :=
  match t with Bin op _ _ => Some (prec op) | _ => None end.

(* [grouped prec t]: t is grouped by precedence [prec] with left-to-right
   association inside a level and unary operators binding tighter than any
   binary operator:
   - the left operand of a binary operator is not a looser binary expression,
   - the right operand is a strictly tighter binary expression or not binary,
   - the operand of a unary operator is not a binary expression.
   Together with [flatten t = tokens] this determines t (theorem
   c05_unique), i.e. it IS the Go grouping of the token list. *)
Fixpoint grouped (prec : string -> Z) (t : tree) : Prop :=
  match t with
  | Atom _ _ => True
  | Paren t => grouped prec t
  | Un _ t => grouped prec t /\ is_bin t = false
  | Bin op l r =>
      0 < prec op /\ grouped prec l /\ grouped prec r /\
      (forall p, root_prec prec l = Some p -> prec op <= p) /\
      (forall p, root_prec prec r = Some p -> prec op < p)
  end.
