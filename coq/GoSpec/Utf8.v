(* Utf8: SPECIFICATION of Go's UTF-8 decoding (unicode/utf8.DecodeRune and the
   `for i, r := range s` statement on strings) as executable Gallina over byte
   lists.  Hand-written from the Go language specification ("For statements
   with range clause", "Conversions to and from a string type") and the
   documentation of unicode/utf8; validated against the real Go runtime on
   every run by `harness c13-corr` (cases CDecode / CGoRange / CEncode).

   Encoding is [utf8_encode] of GoSpec/GoPrim.v (string(rune(x))).

   A byte sequence decodes to a rune r of width w only when it is the
   shortest-form encoding of a Unicode scalar value (no overlongs, no
   surrogates U+D800..U+DFFF, nothing above U+10FFFF); every other non-empty
   input decodes to (U+FFFD, 1): stray continuation bytes, truncated
   sequences, bytes C0 C1 F5..FF. *)
From Coq Require Import ZArith List Bool Lia.
From GV Require Import GoSpec.GoPrim.
Import ListNotations.
Open Scope Z_scope.

Definition RuneError : Z := 65533.          (* U+FFFD *)
Definition MaxRune : Z := 1114111.          (* U+10FFFF *)

(* a Unicode scalar value: what utf8.ValidRune accepts *)
Definition valid_rune (r : Z) : Prop := 0 <= r <= MaxRune /\ ~ (55296 <= r <= 57343).
Definition valid_runeb (r : Z) : bool :=
  (0 <=? r) && (r <=? MaxRune) && negb ((55296 <=? r) && (r <=? 57343)).

(* b is in [lo, hi] *)
Definition between (lo hi b : Z) : bool := (lo <=? b) && (b <=? hi).
(* continuation byte 10xxxxxx *)
Definition cont (b : Z) : bool := between 128 191 b.

Definition bad : Z * nat := (RuneError, 1%nat).

(* utf8.DecodeRune(p): first rune of p and its width in bytes; (RuneError, 0)
   for empty input, (RuneError, 1) for an invalid encoding.  The accept ranges
   of the second byte are those of the Unicode standard, table 3-7
   ("Well-Formed UTF-8 Byte Sequences"), which unicode/utf8 implements. *)
Definition decode_rune (s : list Z) : Z * nat :=
  match s with
  | [] => (RuneError, 0%nat)
  | b0 :: t =>
      if b0 <? 128 then (b0, 1%nat)                              (* ASCII *)
      else if b0 <? 194 then bad                                 (* 80..BF stray continuation; C0 C1 overlong *)
      else if b0 <? 224 then                                     (* C2..DF: two bytes *)
        match t with
        | b1 :: _ => if cont b1 then ((b0 - 192) * 64 + (b1 - 128), 2%nat) else bad
        | _ => bad
        end
      else if b0 <? 240 then                                     (* E0..EF: three bytes *)
        match t with
        | b1 :: b2 :: _ =>
            let lo1 := if b0 =? 224 then 160 else 128 in         (* E0: A0..BF (no overlongs) *)
            let hi1 := if b0 =? 237 then 159 else 191 in         (* ED: 80..9F (no surrogates) *)
            if between lo1 hi1 b1 && cont b2
            then ((b0 - 224) * 4096 + (b1 - 128) * 64 + (b2 - 128), 3%nat) else bad
        | _ => bad
        end
      else if b0 <? 245 then                                     (* F0..F4: four bytes *)
        match t with
        | b1 :: b2 :: b3 :: _ =>
            let lo1 := if b0 =? 240 then 144 else 128 in         (* F0: 90..BF (no overlongs) *)
            let hi1 := if b0 =? 244 then 143 else 191 in         (* F4: 80..8F (<= U+10FFFF) *)
            if between lo1 hi1 b1 && cont b2 && cont b3
            then ((b0 - 240) * 262144 + (b1 - 128) * 4096 + (b2 - 128) * 64 + (b3 - 128), 4%nat) else bad
        | _ => bad
        end
      else bad                                                   (* F5..FF *)
  end.

(* `for i, r := range s`: successive (byte offset, rune) pairs; the offset
   advances by the width of the decoded rune (1 for an invalid byte). *)
Fixpoint go_range_from (fuel : nat) (off : Z) (s : list Z) : list (Z * Z) :=
  match fuel with
  | O => []
  | S f =>
      match s with
      | [] => []
      | _ => let '(r, w) := decode_rune s in
             (off, r) :: go_range_from f (off + Z.of_nat w) (skipn w s)
      end
  end.
Definition go_range (s : list Z) : list (Z * Z) := go_range_from (length s) 0 s.

(* the widths of the successive runes *)
Fixpoint go_widths_from (fuel : nat) (s : list Z) : list nat :=
  match fuel with
  | O => []
  | S f =>
      match s with
      | [] => []
      | _ => let w := snd (decode_rune s) in w :: go_widths_from f (skipn w s)
      end
  end.
Definition go_widths (s : list Z) : list nat := go_widths_from (length s) s.

(* []rune(s) / utf8.RuneCountInString *)
Definition go_runes (s : list Z) : list Z := map snd (go_range s).

(* string(rs) for rs a []rune *)
Definition encode_runes (rs : list Z) : list Z := flat_map utf8_encode rs.

(* utf8.ValidString *)
Definition valid_utf8 (s : list Z) : bool :=
  forallb (fun '(r, w) => negb ((r =? RuneError) && Nat.eqb w 1))
          (combine (go_runes s) (go_widths s)).
