(* The hand-written dispatch-loop model (Model/VM.v step1) agrees, opcode by opcode, with the cases that
   tools/go2v translates from /repo/do.go on every run (Gen/Steps_gen.v step_gen): for the translated
   opcodes the model IS what the Go source says. *)
From Coq Require Import ZArith List String Bool Lia.
From GV Require Import GoSpec.GoPrim Gen.ValueOps_gen Gen.Tables_gen Model.VM Gen.Steps_gen.
Import ListNotations.
Open Scope string_scope.
Open Scope Z_scope.

(* equal, or both "stuck" (operand access below the frame's operands / bad slot or global index: the
   diagnostic strings of the two sides differ) *)
Definition sres_same (a b : sres) : Prop :=
  a = b \/ (exists w1 w2, a = SStuck w1 /\ b = SStuck w2).

(* ---- tactics ------------------------------------------------------------------------------------ *)

(* replace every [C "codeX"] of the goal by its numeral (computed from the generated opcode table) *)
Ltac C_to_num :=
  repeat match goal with
         | |- context [C ?n] =>
             let v := eval vm_compute in (C n) in
             replace (C n) with v by (vm_compute; reflexivity)
         end.

(* decide the comparisons between opcode numerals; nothing else is unfolded *)
Ltac eval_tests := cbv beta iota zeta delta [Z.eqb Pos.eqb orb].

Ltac same_now :=
  first [ left; reflexivity
        | right; eexists; eexists; split; reflexivity ].

(* split on the shape of the operand stack, on slot / global lookups and on boolean tests until the two
   sides are convertible (or both stuck) *)
Ltac split_once :=
  match goal with
  | |- context [match ?x with _ => _ end] => is_var x; destruct x
  | |- context [znth ?l ?n] => destruct (znth l n)
  | |- context [Value_Bool ?x] => destruct (Value_Bool x)
  | |- context [Value_IsNil ?x] => destruct (Value_IsNil x)
  end; cbv beta iota delta [negb].

Ltac same := first [ same_now | split_once; same ].

(* the case of step_gen selected by the current test: [c] has been replaced by that opcode's numeral *)
Ltac this_case :=
  eval_tests;
  let H := fresh "H" in
  intro H; injection H as <-; same.

(* walk down the if-chain of step_gen *)
Ltac walk on_hit on_end :=
  lazymatch goal with
  | |- (if (Z.eqb ?c ?k1) || (Z.eqb ?c ?k2) then _ else _) = _ -> _ =>
      destruct (Z.eqb_spec c k1) as [->|?];
      [ on_hit
      | lazymatch goal with
        | |- (if false || ?t then ?A else ?B) = ?R -> ?G => change ((if t then A else B) = R -> G)
        | |- _ => idtac
        end; walk on_hit on_end ]
  | |- (if (Z.eqb ?c ?k) then _ else _) = _ -> _ =>
      destruct (Z.eqb_spec c k) as [->|?];
      [ on_hit
      | lazymatch goal with
        | |- (if false then _ else ?B) = ?R -> ?G => change (B = R -> G)
        | |- _ => idtac   (* destruct has already reduced the test *)
        end; walk on_hit on_end ]
  | |- None = _ -> _ => on_end
  end.

(* ---- agreement ---------------------------------------------------------------------------------- *)

Theorem steps_agree : forall grow ext_get ext_set ext_len ext_getattr ext_setattr codes pc i slots ops s r,
  step_gen i slots ops s = Some r ->
  sres_same r (step1 grow ext_get ext_set ext_len ext_getattr ext_setattr codes pc i slots ops s).
Proof.
  intros grow ext_get ext_set ext_len ext_getattr ext_setattr codes pc i slots ops s r.
  unfold sres_same, step_gen, step1, bin_of, local_bin_of.
  cbv zeta.
  C_to_num.
  cbv delta [c_Add c_And c_Append c_BitAnd c_BitComplement c_BitLsh c_BitOr c_BitRsh c_BitXor c_Call
             c_CallVariadic c_Cast c_Const c_Convert c_Copy c_Div c_Eq c_FastCall c_FastGetInt c_FastSetInt
             c_Func c_Get c_GlobalFunc c_GlobalGet c_GlobalRef c_GlobalSet c_GlobalZero c_Gt c_Gte c_IncDec
             c_Iter c_Jump c_JumpFalse c_JumpTrue c_Len c_LocalAdd c_LocalDiv c_LocalGet c_LocalIncDec
             c_LocalMul c_LocalSet c_LocalSub c_LocalZero c_Lt c_Lte c_Make c_Mod c_Mul c_Negate c_Neq
             c_NewSlice c_Not c_Or c_Panic c_Pass c_Pop c_Push c_Range c_Return c_Set c_Slice c_Sub c_Zero
             c_FastGet c_FastSet c_GetAttr c_SetAttr c_FastGetAttr c_FastSetAttr c_FastCallAttr].
  generalize (icode i); intro c.
  Time walk ltac:(this_case) ltac:(discriminate).
Time Qed.

(* ---- coverage ----------------------------------------------------------------------------------- *)

(* step_gen gives None only on instructions whose opcode is none of step_gen_opcodes *)
Lemma step_gen_None : forall i slots ops s,
  step_gen i slots ops s = None ->
  forallb (fun k => negb (icode i =? k)) (map C step_gen_opcodes) = true.
Proof.
  intros i slots ops s.
  unfold step_gen. cbv zeta.
  C_to_num.
  let l := eval vm_compute in (map C step_gen_opcodes) in
  replace (map C step_gen_opcodes) with l by (vm_compute; reflexivity).
  generalize (icode i); intro c.
  Time walk ltac:(discriminate)
            ltac:(intros _; cbv beta iota delta [forallb];
                  repeat match goal with
                         | H : c <> ?k |- _ => apply Z.eqb_neq in H; rewrite H; clear H
                         end;
                  reflexivity).
Time Qed.

Lemma existsb_eqb_In : forall n l, existsb (String.eqb n) l = true -> In n l.
Proof.
  intros n l H. apply existsb_exists in H. destruct H as [x [Hin Hx]].
  apply String.eqb_eq in Hx. subst x. exact Hin.
Qed.

Lemma step_gen_translated : forall name, In name step_gen_opcodes ->
  forall i slots ops s, icode i = C name -> step_gen i slots ops s <> None.
Proof.
  intros name Hin i slots ops s Hc Hn.
  apply step_gen_None in Hn.
  rewrite forallb_forall in Hn.
  specialize (Hn (C name) (in_map C _ _ Hin)).
  rewrite Hc, Z.eqb_refl in Hn. discriminate.
Qed.

Definition steps_cover_names : list string :=
  ["codePush"; "codePop"; "codeAdd"; "codeSub"; "codeMul"; "codeDiv"; "codeMod"; "codeLt"; "codeGt"; "codeLte"; "codeGte";
   "codeEq"; "codeNeq"; "codeBitAnd"; "codeBitOr"; "codeBitXor"; "codeBitLsh"; "codeBitRsh"; "codeIncDec"; "codeLocalIncDec";
   "codeConvert"; "codeCast"; "codeNegate"; "codeBitComplement"; "codeNot"; "codeZero"; "codeAnd"; "codeOr";
   "codeGlobalSet"; "codeGlobalZero"; "codeGlobalGet"; "codeConst"; "codeLocalGet"; "codeLocalSet"; "codeLocalZero";
   "codeReturn"; "codeJump"; "codeJumpFalse"; "codeJumpTrue"; "codeLocalAdd"; "codeLocalSub"; "codeLocalMul"; "codeLocalDiv"; "codePass"].

Lemma steps_cover_names_translated :
  forallb (fun n => existsb (String.eqb n) step_gen_opcodes) steps_cover_names = true.
Proof. vm_compute. reflexivity. Qed.

(* the translated subset is not empty and covers what the other theorems rely on *)
Theorem steps_cover : forall name, In name
  ["codePush"; "codePop"; "codeAdd"; "codeSub"; "codeMul"; "codeDiv"; "codeMod"; "codeLt"; "codeGt"; "codeLte"; "codeGte";
   "codeEq"; "codeNeq"; "codeBitAnd"; "codeBitOr"; "codeBitXor"; "codeBitLsh"; "codeBitRsh"; "codeIncDec"; "codeLocalIncDec";
   "codeConvert"; "codeCast"; "codeNegate"; "codeBitComplement"; "codeNot"; "codeZero"; "codeAnd"; "codeOr";
   "codeGlobalSet"; "codeGlobalZero"; "codeGlobalGet"; "codeConst"; "codeLocalGet"; "codeLocalSet"; "codeLocalZero";
   "codeReturn"; "codeJump"; "codeJumpFalse"; "codeJumpTrue"; "codeLocalAdd"; "codeLocalSub"; "codeLocalMul"; "codeLocalDiv"; "codePass"] ->
  In name step_gen_opcodes /\
  forall i slots ops s, icode i = C name -> step_gen i slots ops s <> None.
Proof.
  intros name Hin.
  change (In name steps_cover_names) in Hin.
  assert (Ht : In name step_gen_opcodes).
  { apply existsb_eqb_In.
    exact (proj1 (forallb_forall _ _) steps_cover_names_translated name Hin). }
  split; [ exact Ht | exact (step_gen_translated name Ht) ].
Qed.

Print Assumptions steps_agree.
Print Assumptions steps_cover.

(* ---- the dispatch cases around Value.Get / Value.Set (GET, SET and their fused forms) ---------------- *)

Ltac split_obj :=
  match goal with
  | |- context [match ?x with _ => _ end] => is_var x; destruct x
  | |- context [znth ?l ?n] => destruct (znth l n)
  | |- context [obj_get ?e ?s ?r ?k ?p] => destruct (obj_get e s r k p)
  | |- context [obj_set ?e ?s ?r ?k ?v] => destruct (obj_set e s r k v)
  end; cbv beta iota.
Ltac same_obj := first [ same_now | split_obj; same_obj ].
Ltac this_case_obj :=
  eval_tests;
  let H := fresh "H" in
  intro H; injection H as <-; same_obj.

Theorem steps_agree_obj : forall grow ext_get ext_set ext_len ext_getattr ext_setattr codes pc i slots ops s r,
  step_gen_obj ext_get ext_set i slots ops s = Some r ->
  sres_same r (step1 grow ext_get ext_set ext_len ext_getattr ext_setattr codes pc i slots ops s).
Proof.
  intros grow ext_get ext_set ext_len ext_getattr ext_setattr codes pc i slots ops s r.
  unfold sres_same, step_gen_obj, step1, bin_of, local_bin_of.
  cbv zeta.
  C_to_num.
  cbv delta [c_Add c_And c_Append c_BitAnd c_BitComplement c_BitLsh c_BitOr c_BitRsh c_BitXor c_Call
             c_CallVariadic c_Cast c_Const c_Convert c_Copy c_Div c_Eq c_FastCall c_FastGetInt c_FastSetInt
             c_Func c_Get c_GlobalFunc c_GlobalGet c_GlobalRef c_GlobalSet c_GlobalZero c_Gt c_Gte c_IncDec
             c_Iter c_Jump c_JumpFalse c_JumpTrue c_Len c_LocalAdd c_LocalDiv c_LocalGet c_LocalIncDec
             c_LocalMul c_LocalSet c_LocalSub c_LocalZero c_Lt c_Lte c_Make c_Mod c_Mul c_Negate c_Neq
             c_NewSlice c_Not c_Or c_Panic c_Pass c_Pop c_Push c_Range c_Return c_Set c_Slice c_Sub c_Zero
             c_FastGet c_FastSet c_GetAttr c_SetAttr c_FastGetAttr c_FastSetAttr c_FastCallAttr].
  generalize (icode i); intro c.
  Time walk ltac:(this_case_obj) ltac:(discriminate).
Time Qed.
Print Assumptions steps_agree_obj.

(* the object dispatch cases are all translated *)
Theorem steps_cover_obj : forall name, In name ["codeGet"; "codeSet"; "codeFastGet"; "codeFastSet"; "codeFastGetInt"; "codeFastSetInt"] ->
  In name step_gen_obj_opcodes /\
  forall ext_get ext_set i slots ops s, icode i = C name -> step_gen_obj ext_get ext_set i slots ops s <> None.
Proof.
  intros name Hin. split.
  - apply existsb_eqb_In. cbn [In] in Hin.
    repeat (destruct Hin as [<-|Hin]; [vm_compute; reflexivity|]). destruct Hin.
  - intros ext_get ext_set i slots ops s Hc. unfold step_gen_obj. cbv zeta. rewrite Hc. cbn [In] in Hin.
    repeat (destruct Hin as [<-|Hin]; [C_to_num; eval_tests; discriminate|]). destruct Hin.
Qed.
Print Assumptions steps_cover_obj.
