(* C06 main proof: the code compile_ctl produces drives the abstract machine to exactly
   the program point Go designates for every outcome of every statement. *)
From Coq Require Import ZArith List Bool Lia.
From GV Require Import GoSpec.GoCtl Model.Ctl Proofs.C06_base.
Import ListNotations.
Open Scope Z_scope.

Section Ctl.
  Variable orc : oracle.
  Notation star := (star orc).
  Notation reaches := (reaches orc).
  Notation post_ok := (post_ok orc).

  Ltac step_with H :=
    eapply star_step; [unfold step; cbn [Ctl.pc Ctl.stk Ctl.sl Ctl.ctr]; rewrite H; cbn; reflexivity |].

  Ltac lens := repeat (rewrite len_app || rewrite len_cons || rewrite len_nil || rewrite len_rewrite).

  Ltac set_pend e' :=
    match goal with |- C06_base.post_ok _ _ _ ?e _ _ _ _ _ _ _ _ => replace e with e' by lia end.

  Ltac split_carries H :=
    repeat (apply carries_cons in H; let F := fresh "F" in destruct H as [F H]; cbn [carried_instr] in F).

  Lemma post_ok_star : forall C p tr stk s p1 tr1 L pend bt ct out tr',
    star C (mkCfg p tr stk s) (mkCfg p1 tr1 stk s) ->
    post_ok C p1 pend tr1 stk s L bt ct out tr' ->
    post_ok C p pend tr stk s L bt ct out tr'.
  Proof.
    intros C p tr stk s p1 tr1 L pend bt ct out tr' S H.
    assert (T : forall p2 tr2, reaches C p1 tr1 stk s p2 tr2 L -> reaches C p tr stk s p2 tr2 L).
    { intros p2 tr2 [s2 [S2 F2]]. exists s2; split; auto. eapply star_trans; eauto. }
    destruct out; cbn [C06_base.post_ok] in *; auto.
    - destruct bt; auto.
    - destruct ct; auto.
    - destruct H as [pr [n [R F]]]. exists pr, n; auto.
  Qed.

  Lemma star_jf : forall C q d b tr st s, fetch C q = Some (CJumpFalse d) ->
    star C (mkCfg q tr (SBool b :: st) s) (mkCfg (if b then q + 1 else q + d + 1) tr st s).
  Proof. intros. eapply star_one. unfold step; cbn [Ctl.pc Ctl.stk]. rewrite H. reflexivity. Qed.

  Lemma star_jt : forall C q d b tr st s, fetch C q = Some (CJumpTrue d) ->
    star C (mkCfg q tr (SBool b :: st) s) (mkCfg (if b then q + d + 1 else q + 1) tr st s).
  Proof. intros. eapply star_one. unfold step; cbn [Ctl.pc Ctl.stk]. rewrite H. reflexivity. Qed.

  Lemma star_jump : forall C q q' d tr st s, fetch C q = Some (CJump d) -> q' = q + d + 1 ->
    star C (mkCfg q tr st s) (mkCfg q' tr st s).
  Proof. intros; subst. eapply star_one. unfold step; cbn [Ctl.pc]. rewrite H. reflexivity. Qed.

  (* ---- the call sequences ---- *)
  Lemma run_emit : forall C p l bt ct tr stk s, carries C p (c_emit l) bt ct ->
    star C (mkCfg p tr stk s) (mkCfg (p + 3) (EvEmit l :: tr) stk s).
  Proof.
    intros C p l bt ct tr stk s H. unfold c_emit, c_call in H. split_carries H.
    step_with F. step_with F0. step_with F1.
    replace (p + 1 + 1 + 1) with (p + 3) by lia. constructor.
  Qed.

  Lemma run_simple : forall C p o bt ct tr stk s, carries C p (c_simple o) bt ct ->
    star C (mkCfg p tr stk s) (mkCfg (p + len (c_simple o)) (do_emit o tr) stk s).
  Proof.
    intros C p o bt ct tr stk s H. destruct o; cbn [c_simple do_emit] in *.
    - eapply run_emit; eauto.
    - rewrite len_nil, Z.add_0_r. constructor.
  Qed.

  Lemma run_cond : forall C p k bt ct tr stk s, carries C p (c_cond k) bt ct ->
    star C (mkCfg p tr stk s) (mkCfg (p + 3) (EvCond k :: tr) (SBool (o_cond orc tr k) :: stk) s).
  Proof.
    intros C p k bt ct tr stk s H. unfold c_cond, c_call in H. split_carries H.
    step_with F. step_with F0. step_with F1.
    replace (p + 1 + 1 + 1) with (p + 3) by lia. constructor.
  Qed.

  Lemma run_len : forall C p k bt ct tr stk s, carries C p (c_len k) bt ct ->
    star C (mkCfg p tr stk s) (mkCfg (p + 3) (EvRange k :: tr) (SLen (o_len orc tr k) :: stk) s).
  Proof.
    intros C p k bt ct tr stk s H. unfold c_len, c_call in H. split_carries H.
    step_with F. step_with F0. step_with F1.
    replace (p + 1 + 1 + 1) with (p + 3) by lia. constructor.
  Qed.

  Lemma run_tag : forall C p k bt ct tr stk s, carries C p (c_tag k) bt ct ->
    star C (mkCfg p tr stk s) (mkCfg (p + 3) (EvTag k :: tr) (SInt (o_tag orc tr k) :: stk) s).
  Proof.
    intros C p k bt ct tr stk s H. unfold c_tag, c_call in H. split_carries H.
    step_with F. step_with F0. step_with F1.
    replace (p + 1 + 1 + 1) with (p + 3) by lia. constructor.
  Qed.

  (* code without placeholders is carried whatever is designated *)
  Lemma no_placeholder_simple : forall C p o bt ct bt' ct',
    carries C p (c_simple o) bt ct -> carries C p (c_simple o) bt' ct'.
  Proof.
    intros C p o bt ct bt' ct' H. destruct o; cbn [c_simple] in *; [|apply carries_nil].
    unfold c_emit, c_call in *. split_carries H.
    repeat (apply carries_cons; split; [assumption|]). apply carries_nil.
  Qed.

  (* ---- case guards ---- *)
  Definition tag_ok (tag : option Z) (isv : bool) (v : nat) (s : nat -> sval) : Prop :=
    match tag with Some t => isv = true /\ s v = SInt t | None => isv = false end.

  Lemma len_one_guard : forall isv v g, len (one_guard isv v g) = 3.
  Proof. intros; destruct isv; reflexivity. Qed.

  Lemma run_one_guard : forall C p tag isv v g bt ct tr stk s,
    tag_ok tag isv v s -> carries C p (one_guard isv v g) bt ct ->
    star C (mkCfg p tr stk s)
           (mkCfg (p + 3) (match tag with None => EvCond g :: tr | Some _ => tr end)
                  (SBool (match tag with None => o_cond orc tr g | Some t => t =? g end) :: stk) s).
  Proof.
    intros C p tag isv v g bt ct tr stk s T H. destruct tag as [t|]; cbn [tag_ok] in T.
    - destruct T as [-> Hv]. cbn [one_guard] in H. split_carries H.
      step_with F. step_with F0. rewrite Hv. step_with F1.
      replace (p + 1 + 1 + 1) with (p + 3) by lia. rewrite Z.eqb_sym. constructor.
    - subst isv. cbn [one_guard] in H. eapply run_cond; eauto.
  Qed.

  (* a true verdict skips all remaining alternatives *)
  Lemma run_more_true : forall gs C p isv v bt ct tr stk s,
    carries C p (more_guards isv v gs) bt ct ->
    star C (mkCfg p tr (SBool true :: stk) s) (mkCfg (p + len (more_guards isv v gs)) tr (SBool true :: stk) s).
  Proof.
    induction gs; intros C p isv v bt ct tr stk s H; cbn [more_guards] in *.
    - rewrite len_nil, Z.add_0_r. constructor.
    - rewrite <- app_comm_cons in H. apply carries_cons in H. destruct H as [F H]. cbn [carried_instr] in F.
      apply carries_app in H. destruct H as [_ H].
      step_with F. rewrite len_one_guard in *.
      replace (p + 1 + 3) with (p + 3 + 1) in H by lia.
      eapply star_trans. { eapply IHgs. exact H. }
      rewrite <- app_comm_cons, len_cons, len_app, len_one_guard.
      match goal with |- star _ (mkCfg ?a _ _ _) (mkCfg ?b _ _ _) => replace a with b by lia end. constructor.
  Qed.

  Lemma eval_guards_cons : forall tag g r tr,
    eval_guards orc tag (g :: r) tr =
    match tag with
    | None => if o_cond orc tr g then (true, EvCond g :: tr) else eval_guards orc tag r (EvCond g :: tr)
    | Some t => if t =? g then (true, tr) else eval_guards orc tag r tr
    end.
  Proof. reflexivity. Qed.

  Lemma run_guards : forall gs g C p tag isv v bt ct tr stk s m tr1,
    eval_guards orc tag (g :: gs) tr = (m, tr1) ->
    tag_ok tag isv v s -> carries C p (guards isv v g gs) bt ct ->
    star C (mkCfg p tr stk s) (mkCfg (p + len (guards isv v g gs)) tr1 (SBool m :: stk) s).
  Proof.
    unfold guards.
    induction gs; intros g C p tag isv v bt ct tr stk s m tr1 E T H;
      apply carries_app in H; destruct H as [H1 H2]; rewrite len_app, len_one_guard in *.
    - cbn [more_guards] in *. rewrite len_nil, Z.add_0_r.
      pose proof (run_one_guard C p tag isv v g bt ct tr stk s T H1) as R.
      cbn [eval_guards] in E. destruct tag as [t|].
      + destruct (t =? g); inversion E; subst; exact R.
      + destruct (o_cond orc tr g); inversion E; subst; exact R.
    - pose proof (run_one_guard C p tag isv v g bt ct tr stk s T H1) as R.
      eapply star_trans; [exact R|].
      rewrite eval_guards_cons in E.
      assert (D : forall (b : bool) (tr0 : trace),
                 (if b then (true, tr0) else eval_guards orc tag (a :: gs) tr0) = (m, tr1) ->
                 star C (mkCfg (p + 3) tr0 (SBool b :: stk) s)
                        (mkCfg (p + (3 + len (more_guards isv v (a :: gs)))) tr1 (SBool m :: stk) s)).
      { intros b tr0 Eb. destruct b.
        - inversion Eb; subst.
          replace (p + (3 + len (more_guards isv v (a :: gs)))) with (p + 3 + len (more_guards isv v (a :: gs))) by lia.
          eapply run_more_true; eauto.
        - cbn [more_guards] in *. rewrite <- app_comm_cons in H2.
          apply carries_cons in H2. destruct H2 as [F H2]. cbn [carried_instr] in F.
          step_with F.
          specialize (IHgs a C (p + 3 + 1) tag isv v bt ct tr0 stk s m tr1 Eb T H2).
          rewrite len_app, len_one_guard in IHgs.
          rewrite <- app_comm_cons, len_cons, len_app, len_one_guard.
          match goal with |- star _ _ (mkCfg ?b _ _ _) =>
            match type of IHgs with star _ _ (mkCfg ?a _ _ _) => replace b with a by lia end end.
          exact IHgs. }
      destruct tag as [t|]; apply D; exact E.
  Qed.

  (* unfolding equations of the evaluator *)
  Lemma exec_S : forall f s tr, exec orc (S f) s tr =
    match s with
    | Emit l => Some (Normal, EvEmit l :: tr)
    | Break => Some (Brk, tr)
    | Continue => Some (Cont, tr)
    | Return => Some (Ret, tr)
    | If init c thn els =>
        if o_cond orc (do_emit init tr) c then exec_block orc f thn (EvCond c :: do_emit init tr)
        else exec_block orc f els (EvCond c :: do_emit init tr)
    | For init cond post body => exec_for orc f cond post body (do_emit init tr)
    | Range k body => exec_range orc f (o_len orc tr k) body (EvRange k :: tr)
    | Switch tag cs _ dflt =>
        let r := match tag with
                 | None => exec_cases orc f None cs dflt tr
                 | Some k => exec_cases orc f (Some (o_tag orc tr k)) cs dflt (EvTag k :: tr)
                 end in
        match r with Some (Brk, tr') => Some (Normal, tr') | _ => r end
    end.
  Proof. reflexivity. Qed.

  Lemma exec_block_S : forall f b tr, exec_block orc (S f) b tr =
    match b with
    | BNil => Some (Normal, tr)
    | BCons s b' => match exec orc f s tr with Some (Normal, tr1) => exec_block orc f b' tr1 | r => r end
    end.
  Proof. reflexivity. Qed.

  Lemma exec_for_S : forall f cond post body tr, exec_for orc (S f) cond post body tr =
    let '(go, tr1) := match cond with None => (true, tr) | Some c => (o_cond orc tr c, EvCond c :: tr) end in
    if go then
      match exec_block orc f body tr1 with
      | Some (Normal, tr2) | Some (Cont, tr2) => exec_for orc f cond post body (do_emit post tr2)
      | Some (Brk, tr2) => Some (Normal, tr2)
      | Some (Ret, tr2) => Some (Ret, tr2)
      | None => None
      end
    else Some (Normal, tr1).
  Proof. reflexivity. Qed.

  Lemma exec_range_S : forall f n body tr, exec_range orc (S f) n body tr =
    match n with
    | O => Some (Normal, tr)
    | S n' =>
        match exec_block orc f body tr with
        | Some (Normal, tr2) | Some (Cont, tr2) => exec_range orc f n' body tr2
        | Some (Brk, tr2) => Some (Normal, tr2)
        | Some (Ret, tr2) => Some (Ret, tr2)
        | None => None
        end
    end.
  Proof. reflexivity. Qed.

  Lemma exec_cases_S : forall f tag cs dflt tr, exec_cases orc (S f) tag cs dflt tr =
    match cs with
    | CNil => exec_block orc f dflt tr
    | CCons g gs body cs' =>
        let '(m, tr1) := eval_guards orc tag (g :: gs) tr in
        if m then exec_block orc f body tr1 else exec_cases orc f tag cs' dflt tr1
    end.
  Proof. reflexivity. Qed.

  (* ---- the induction ---- *)
  Definition P_stmt (f : nat) : Prop := forall s tr out tr', exec orc f s tr = Some (out, tr') ->
    forall C p L bt ct stk sl, 0 <= p -> carries C p (compile L s) bt ct ->
    post_ok C p (p + len (compile L s)) tr stk sl L bt ct out tr'.

  Definition P_block (f : nat) : Prop := forall b tr out tr', exec_block orc f b tr = Some (out, tr') ->
    forall C p L bt ct stk sl, 0 <= p -> carries C p (compile_block L b) bt ct ->
    post_ok C p (p + len (compile_block L b)) tr stk sl L bt ct out tr'.

  Definition P_for (f : nat) : Prop := forall cond post body tr out tr',
    exec_for orc f cond post body tr = Some (out, tr') ->
    forall C L pentry pbody pend bt ct stk sl,
    0 <= pbody ->
    carries C pbody (compile_block L body) (Some pend) (Some (pbody + len (compile_block L body))) ->
    carries C (pbody + len (compile_block L body)) (c_simple post) None None ->
    match cond with
    | Some k => pentry = pbody + len (compile_block L body) + len (c_simple post) /\
                carries C pentry (c_cond k ++ [CJumpTrue (pbody - (pentry + 3) - 1)]) None None /\
                pend = pentry + 4
    | None => pentry = pbody /\
              fetch C (pbody + len (compile_block L body) + len (c_simple post)) =
                Some (CJump (pbody - (pbody + len (compile_block L body) + len (c_simple post)) - 1)) /\
              pend = pbody + len (compile_block L body) + len (c_simple post) + 1
    end ->
    post_ok C pentry pend tr stk sl L bt ct out tr'.

  Definition P_range (f : nat) : Prop := forall n body tr out tr',
    exec_range orc f n body tr = Some (out, tr') ->
    forall C L pbody bt ct stk sl,
    0 <= pbody ->
    let piter := pbody + len (compile_block (L + 2) body) in
    carries C pbody (compile_block (L + 2) body) (Some (piter + 1)) (Some piter) ->
    fetch C piter = Some (CIter L (L + 1) (L + 1) (pbody - piter - 1)) ->
    sl L = SCount n ->
    post_ok C piter (piter + 1) tr stk sl L bt ct out tr'.

  Definition P_cases (f : nat) : Prop := forall tag cs dflt tr out tr',
    exec_cases orc f tag cs dflt tr = Some (out, tr') ->
    forall C p isv v Lc Ld Lf ldef bt0 ct stk sl,
    0 <= p -> ldef = len (compile_block Ld dflt) -> (Lf <= Lc)%nat -> (Lf <= Ld)%nat ->
    tag_ok tag isv v sl ->
    carries C p (compile_cases isv v Lc ldef cs ++
                 rewrite (fun n => Some (ldef - n - 1)) (fun _ => None) 0 (compile_block Ld dflt)) bt0 ct ->
    let pend := p + len (compile_cases isv v Lc ldef cs) + ldef in
    post_ok C p pend tr stk sl Lf (Some pend) ct out tr'.

  Lemma ok_block_S : forall f, P_stmt f -> P_block f -> P_block (S f).
  Proof.
    intros f IHs IHb b tr out tr' E C p L bt ct stk sl Hp H.
    rewrite exec_block_S in E. destruct b as [|s b'].
    - inversion E; subst. cbn [compile_block]. rewrite len_nil, Z.add_0_r. apply reaches_refl.
    - cbn [compile_block] in *. apply carries_app in H. destruct H as [H1 H2].
      destruct (exec orc f s tr) as [[o1 tr1]|] eqn:E1; [|discriminate].
      pose proof (IHs s tr o1 tr1 E1 C p L bt ct stk sl Hp H1) as R1.
      assert (Hnn := len_nonneg (compile L s)).
      destruct o1.
      + (* Normal: go on with the rest *)
        cbn [C06_base.post_ok] in R1.
        eapply post_ok_trans; [exact R1 | | apply Nat.le_add_r].
        intros s1. rewrite len_app, Z.add_assoc.
        eapply IHb; eauto. lia.
      + inversion E; subst. eapply post_ok_pend; [congruence | exact R1].
      + inversion E; subst. eapply post_ok_pend; [congruence | exact R1].
      + inversion E; subst. eapply post_ok_pend; [congruence | exact R1].
  Qed.

  Lemma ok_for_S : forall f, P_block f -> P_for f -> P_for (S f).
  Proof.
    intros f IHb IHf cond post body tr out tr' E C L pentry pbody pend bt ct stk sl Hp Hbody Hpost Hc.
    rewrite exec_for_S in E.
    set (lb := len (compile_block L body)) in *. set (lp := len (c_simple post)) in *.
    assert (Hlb := len_nonneg (compile_block L body)). fold lb in Hlb.
    assert (Hlp := len_nonneg (c_simple post)). fold lp in Hlp.
    (* what happens once the body has been entered at pbody with trace tr1 *)
    assert (Body : forall tr1 sl1,
      (match exec_block orc f body tr1 with
       | Some (Normal, tr2) | Some (Cont, tr2) => exec_for orc f cond post body (do_emit post tr2)
       | Some (Brk, tr2) => Some (Normal, tr2)
       | Some (Ret, tr2) => Some (Ret, tr2)
       | None => None
       end) = Some (out, tr') ->
      post_ok C pbody pend tr1 stk sl1 L bt ct out tr').
    { intros tr1 sl1 E1.
      destruct (exec_block orc f body tr1) as [[o2 tr2]|] eqn:E2; [|discriminate].
      pose proof (IHb body tr1 o2 tr2 E2 C pbody L (Some pend) (Some (pbody + lb)) stk sl1 Hp Hbody) as R2.
      (* from the post statement on *)
      assert (Next : forall sl2, exec_for orc f cond post body (do_emit post tr2) = Some (out, tr') ->
                post_ok C (pbody + lb) pend tr2 stk sl2 L bt ct out tr').
      { intros sl2 E3.
        pose proof (run_simple C (pbody + lb) post None None tr2 stk sl2 Hpost) as RP. fold lp in RP.
        eapply post_ok_star; [exact RP|].
        destruct cond as [k|].
        - destruct Hc as [Hpe [Hcc Hpend]]. fold lb lp in Hpe. rewrite <- Hpe.
          exact (IHf (Some k) post body _ out tr' E3 C L pentry pbody pend bt ct stk sl2 Hp Hbody Hpost
                     (conj Hpe (conj Hcc Hpend))).
        - destruct Hc as [Hpe [Hj Hpend]].
          eapply post_ok_star.
          { eapply star_one. unfold step; cbn [Ctl.pc]. fold lb lp in Hj. rewrite Hj. reflexivity. }
          replace (pbody + lb + lp + (pbody - (pbody + lb + lp) - 1) + 1) with pbody by lia.
          exact (IHf None post body _ out tr' E3 C L pbody pbody pend bt ct stk sl2 Hp Hbody Hpost
                     (conj eq_refl (conj Hj Hpend))). }
      destruct o2; cbn [C06_base.post_ok] in R2.
      - eapply post_ok_trans; [exact R2 | | apply Nat.le_refl]. intros s2. apply Next. exact E1.
      - inversion E1; subst. cbn [C06_base.post_ok]. exact R2.
      - eapply post_ok_trans; [exact R2 | | apply Nat.le_refl]. intros s2. apply Next. exact E1.
      - inversion E1; subst. exact R2. }
    destruct cond as [k|].
    - destruct Hc as [Hpe [Hcc Hpend]].
      apply carries_app in Hcc. destruct Hcc as [Hc1 Hc2]. change (len (c_cond k)) with 3 in Hc2.
      split_carries Hc2.
      pose proof (run_cond C pentry k None None tr stk sl Hc1) as RC.
      eapply post_ok_star; [eapply star_trans; [exact RC | apply star_jt; exact F]|].
      destruct (o_cond orc tr k) eqn:Ek.
      + replace (pentry + 3 + (pbody - (pentry + 3) - 1) + 1) with pbody by lia.
        apply Body. exact E.
      + injection E as <- <-. cbn [C06_base.post_ok].
        replace (pentry + 3 + 1) with pend by lia. apply reaches_refl.
    - destruct Hc as [Hpe [Hj Hpend]]. subst pentry. apply Body. exact E.
  Qed.

  Lemma ok_range_S : forall f, P_block f -> P_range f -> P_range (S f).
  Proof.
    intros f IHb IHr n body tr out tr' E C L pbody bt ct stk sl Hp piter Hbody Hit Hn.
    rewrite exec_range_S in E.
    assert (Hlb := len_nonneg (compile_block (L + 2) body)).
    destruct n as [|n'].
    - inversion E; subst. cbn [C06_base.post_ok]. apply reaches_star.
      eapply star_one. unfold step; cbn [Ctl.pc Ctl.sl]. rewrite Hit, Hn. reflexivity.
    - (* one ITER step into the body *)
      set (sl1 := upd (upd (upd sl L (SCount n')) (L + 1) SJunk) (L + 1) SJunk).
      assert (S1 : star C (mkCfg piter tr stk sl) (mkCfg pbody tr stk sl1)).
      { eapply star_one. unfold step; cbn [Ctl.pc Ctl.sl]. rewrite Hit, Hn. cbn. unfold sl1. do 2 f_equal. lia. }
      assert (F1 : forall i, (i < L)%nat -> sl1 i = sl i).
      { intros i Hi. unfold sl1, upd.
        destruct (Nat.eqb_spec i (L + 1)); [lia|]. destruct (Nat.eqb_spec i L); [lia|]. reflexivity. }
      assert (N1 : sl1 L = SCount n').
      { unfold sl1, upd. destruct (Nat.eqb_spec L (L + 1)); [lia|]. now rewrite Nat.eqb_refl. }
      assert (R1 : reaches C piter tr stk sl pbody tr L) by (exists sl1; auto).
      destruct (exec_block orc f body tr) as [[o2 tr2]|] eqn:E2; [|discriminate].
      assert (R2 : forall s1, sl1 L = s1 L -> True) by auto. clear R2.
      (* the body runs from sl1 *)
      pose proof (IHb body tr o2 tr2 E2 C pbody (L + 2)%nat (Some (piter + 1)) (Some piter) stk sl1 Hp Hbody) as RB.
      assert (Again : forall s2, (forall i, (i < L + 2)%nat -> s2 i = sl1 i) ->
                 exec_range orc f n' body tr2 = Some (out, tr') ->
                 post_ok C piter (piter + 1) tr2 stk s2 L bt ct out tr').
      { intros s2 F2 E3. eapply IHr; eauto. rewrite F2 by lia. exact N1. }
      assert (Compose : forall q, reaches C pbody tr stk sl1 q tr2 (L + 2) ->
                 (forall s2, (forall i, (i < L + 2)%nat -> s2 i = sl1 i) -> post_ok C q (piter + 1) tr2 stk s2 L bt ct out tr') ->
                 post_ok C piter (piter + 1) tr stk sl L bt ct out tr').
      { intros q [s2 [S2 F2]] K. specialize (K s2 F2).
        assert (T : forall q' tr3, reaches C q tr2 stk s2 q' tr3 L -> reaches C piter tr stk sl q' tr3 L).
        { intros q' tr3 [s3 [S3 F3]]. exists s3; split.
          - eapply star_trans; [exact S1|]. eapply star_trans; eauto.
          - intros i Hi. rewrite F3, F2, F1 by lia. reflexivity. }
        destruct out; cbn [C06_base.post_ok] in *; auto.
        - destruct bt; auto.
        - destruct ct; auto.
        - destruct K as [pr [m [R F]]]. exists pr, m; auto. }
      destruct o2; cbn [C06_base.post_ok] in RB.
      + fold piter in RB. eapply Compose; [exact RB|]. intros s2 F2. apply Again; auto.
      + injection E as <- <-. eapply Compose; [exact RB|]. intros s2 F2. cbn [C06_base.post_ok]. apply reaches_refl.
      + eapply Compose; [exact RB|]. intros s2 F2. apply Again; auto.
      + inversion E; subst. cbn [C06_base.post_ok].
        destruct RB as [pr [m [[s2 [S2 F2]] Fr]]]. exists pr, m; split; auto.
        exists s2; split.
        * eapply star_trans; eauto.
        * intros i Hi. rewrite F2, F1 by lia. reflexivity.
  Qed.

  Lemma ok_cases_S : forall f, P_block f -> P_cases f -> P_cases (S f).
  Proof.
    intros f IHb IHc tag cs dflt tr out tr' E C p isv v Lc Ld Lf ldef bt0 ct stk sl Hp Hld HLc HLd T H pend.
    rewrite exec_cases_S in E. destruct cs as [|g gs body cs'].
    - (* no case matched: the default block; its breaks jump to its end *)
      cbn [compile_cases app] in *. subst pend. rewrite len_nil, Z.add_0_r.
      eapply post_ok_weaken; [|exact HLd]. rewrite Hld.
      eapply IHb; eauto.
      eapply carries_rewrite; [exact H | | right; auto].
      left. eexists; split; [reflexivity|]. intros i Hi. f_equal. lia.
    - cbn [compile_cases] in H, pend.
      set (out' := compile_cases isv v Lc ldef cs') in *.
      set (cs0 := compile_block (Lc + slots_cases cs') body) in *.
      set (csB := rewrite (fun n => Some (len cs0 - n + len out' + ldef)) (fun _ => None) 0 cs0) in *.
      assert (HlB : len csB = len cs0) by apply len_rewrite.
      assert (Hn0 := len_nonneg cs0). assert (Hn1 := len_nonneg out').
      assert (Hn2 := len_nonneg (guards isv v g gs)).
      assert (Hn3 : 0 <= ldef) by (subst ldef; apply len_nonneg).
      rewrite <- !app_assoc in H.
      apply carries_app in H. destruct H as [Hg H].
      cbn [app] in H. apply carries_cons in H. destruct H as [Fj H]. cbn [carried_instr] in Fj.
      apply carries_app in H. destruct H as [HB H].
      apply carries_cons in H. destruct H as [Fe H]. cbn [carried_instr] in Fe.
      destruct (eval_guards orc tag (g :: gs) tr) as [m tr1] eqn:EG.
      pose proof (run_guards gs g C p tag isv v bt0 ct tr stk sl m tr1 EG T Hg) as RG.
      set (pj := p + len (guards isv v g gs)) in *.
      assert (Hpend : pend = pj + 1 + len cs0 + 1 + len out' + ldef).
      { subst pend pj. unfold csB. lens. fold out'. lia. }
      eapply post_ok_star; [eapply star_trans; [exact RG | apply star_jf; exact Fj]|].
      destruct m.
      + (* this case: run its block; Normal ends at the JUMP to the end *)
        eapply post_ok_weaken with (L := (Lc + slots_cases cs')%nat); [|lia].
        assert (HB' : carries C (pj + 1) cs0 (Some pend) ct).
        { eapply carries_rewrite; [exact HB | | right; auto].
          left. eexists; split; [reflexivity|]. intros i Hi. f_equal. lia. }
        pose proof (IHb body tr1 out tr' E C (pj + 1) (Lc + slots_cases cs')%nat (Some pend) ct stk sl ltac:(lia) HB') as RB.
        fold cs0 in RB.
        destruct out; cbn [C06_base.post_ok] in *; auto.
        eapply reaches_trans; [exact RB | | apply Nat.le_refl].
        intros s1. apply reaches_star. rewrite <- HlB. eapply star_jump; [exact Fe | lia].
      + (* next case *)
        replace (pj + (len csB + 1) + 1) with (pj + 1 + len csB + 1) by lia.
        pose proof (IHc tag cs' dflt tr1 out tr' E C (pj + 1 + len csB + 1) isv v Lc Ld Lf ldef bt0 ct stk sl
                        ltac:(lia) Hld HLc HLd T H) as RN.
        cbn zeta in RN. fold out' in RN.
        replace (pj + 1 + len csB + 1 + len out' + ldef) with pend in RN by lia.
        exact RN.
  Qed.

  Lemma ok_stmt_S : forall f, P_block f -> P_for f -> P_range f -> P_cases f -> P_stmt (S f).
  Proof.
    intros f IHb IHf IHr IHc s tr out tr' E C p L bt ct stk sl Hp H.
    rewrite exec_S in E. destruct s.
    - (* Emit *)
      inversion E; subst. cbn [compile C06_base.post_ok] in *.
      apply reaches_star. eapply run_emit; eauto.
    - (* If *)
      cbn [compile] in *.
      set (thenI := compile_block L thn) in *. set (elseI := compile_block (L + slots_block thn) els) in *.
      assert (Hn1 := len_nonneg thenI). assert (Hn2 := len_nonneg elseI).
      assert (Hn0 := len_nonneg (c_simple init)).
      apply carries_app in H. destruct H as [Hi H]. apply carries_app in H. destruct H as [Hc H].
      change (len (c_cond c)) with 3 in H.
      pose proof (run_simple C p init bt ct tr stk sl Hi) as R0.
      pose proof (run_cond C (p + len (c_simple init)) c bt ct (do_emit init tr) stk sl Hc) as R1.
      set (q := p + len (c_simple init) + 3) in *.
      rewrite !len_app. change (len (c_cond c)) with 3.
      destruct (len elseI =? 0) eqn:Eel.
      + apply Z.eqb_eq in Eel. apply carries_cons in H. destruct H as [Fj Ht]. cbn [carried_instr] in Fj.
        eapply post_ok_star; [eapply star_trans; [exact R0 | eapply star_trans; [exact R1 | apply star_jf; exact Fj]]|].
        rewrite len_cons.
        destruct (o_cond orc (do_emit init tr) c).
        * replace (p + (len (c_simple init) + (3 + (1 + len thenI)))) with (q + 1 + len thenI) by (subst q; lia).
          eapply IHb; eauto. subst q; lia.
        * (* the else block is empty code: run it in place *)
          replace (p + (len (c_simple init) + (3 + (1 + len thenI)))) with (q + len thenI + 1 + len elseI) by (subst q; lia).
          eapply post_ok_weaken with (L := (L + slots_block thn)%nat); [|lia].
          eapply IHb; eauto. { subst q; lia. }
          fold elseI. destruct elseI; [apply carries_nil | rewrite len_cons in Eel; pose proof (len_nonneg elseI); lia].
      + apply Z.eqb_neq in Eel. apply carries_cons in H. destruct H as [Fj H]. cbn [carried_instr] in Fj.
        apply carries_app in H. destruct H as [Ht H]. apply carries_cons in H. destruct H as [Fe He].
        cbn [carried_instr] in Fe.
        eapply post_ok_star; [eapply star_trans; [exact R0 | eapply star_trans; [exact R1 | apply star_jf; exact Fj]]|].
        rewrite len_cons, len_app, len_cons.
        destruct (o_cond orc (do_emit init tr) c).
        * pose proof (IHb thn (EvCond c :: do_emit init tr) out tr' E C (q + 1) L bt ct stk sl ltac:(subst q; lia) Ht) as RT.
          fold thenI in RT.
          destruct out; cbn [C06_base.post_ok] in *; auto.
          eapply reaches_trans; [exact RT | | apply Nat.le_refl].
          intros s1. apply reaches_star. eapply star_jump; [exact Fe | subst q; lia].
        * replace (p + (len (c_simple init) + (3 + (1 + (len thenI + (1 + len elseI))))))
            with (q + (len thenI + 1) + 1 + len elseI) by (subst q; lia).
          eapply post_ok_weaken with (L := (L + slots_block thn)%nat); [|lia].
          eapply IHb; eauto. { subst q; lia. }
          replace (q + (len thenI + 1) + 1) with (q + 1 + len thenI + 1) by lia. exact He.
    - (* For *)
      cbn [compile] in *.
      set (block := compile_block L body) in *. set (pst := c_simple post) in *. set (cnd := c_optcond cond) in *.
      assert (Hn0 := len_nonneg (c_simple init)). assert (Hn1 := len_nonneg block). assert (Hn2 := len_nonneg pst).
      apply carries_app in H. destruct H as [Hi H].
      pose proof (run_simple C p init bt ct tr stk sl Hi) as R0.
      eapply post_ok_star; [exact R0|].
      set (q := p + len (c_simple init)) in *.
      destruct cond as [k|]; cbn [c_optcond] in cnd; subst cnd.
      + change (0 <? len (c_cond k)) with true in *. cbv iota in H. change (len (c_cond k)) with 3 in *.
        cbn [app] in H. apply carries_cons in H. destruct H as [Fj H]. cbn [carried_instr] in Fj.
        apply carries_app in H. destruct H as [HB H]. rewrite len_rewrite in H.
        apply carries_app in H. destruct H as [HP HC].
        eapply post_ok_star; [eapply star_jump; [exact Fj | reflexivity]|].
        lens. change (len (c_cond k)) with 3.
        eapply (IHf (Some k) post body (do_emit init tr) out tr' E C L
                    (q + (len block + len pst) + 1) (q + 1) _ bt ct stk sl ltac:(subst q; lia)).
        * eapply carries_rewrite; [exact HB | | ].
          -- left. eexists; split; [reflexivity|]. intros i Hi'. f_equal. subst q. fold block pst. lia.
          -- left. eexists; split; [reflexivity|]. intros i Hi'. f_equal. fold block. lia.
        * fold block. eapply no_placeholder_simple. exact HP.
        * fold block pst. split; [subst q; lia|]. split; [|subst q; lia].
          replace (q + 1 + len block + len pst) with (q + (len block + len pst) + 1) in HC by lia.
          replace (q + 1 - (q + (len block + len pst) + 1 + 3) - 1) with (- (len block + len pst + 3 + 1)) by lia.
          apply carries_app in HC. destruct HC as [HC1 HC2]. apply carries_app. split.
          -- unfold c_cond, c_call in *. split_carries HC1. repeat (apply carries_cons; split; [assumption|]). apply carries_nil.
          -- change (len (c_cond k)) with 3 in *. split_carries HC2. apply carries_cons; split; [exact F | apply carries_nil].
      + change (0 <? len []) with false in *. cbv iota in H. rewrite len_nil in *.
        cbn [app] in H. apply carries_app in H. destruct H as [HB H]. rewrite len_rewrite in H.
        apply carries_app in H. destruct H as [HP HC]. split_carries HC.
        lens.
        eapply (IHf None post body (do_emit init tr) out tr' E C L q q _ bt ct stk sl ltac:(subst q; lia)).
        * eapply carries_rewrite; [exact HB | | ].
          -- left. eexists; split; [reflexivity|]. intros i Hi'. f_equal. subst q. fold block pst. lia.
          -- left. eexists; split; [reflexivity|]. intros i Hi'. f_equal. fold block. lia.
        * fold block. eapply no_placeholder_simple. exact HP.
        * fold block pst. split; [reflexivity|]. split; [|subst q; lia].
          rewrite F. do 2 f_equal. lia.
    - (* Range *)
      cbn [compile] in *.
      set (block := compile_block (L + 2) body) in *. assert (Hn1 := len_nonneg block).
      apply carries_app in H. destruct H as [Hl H]. change (len (c_len k)) with 3 in H.
      cbn [app] in H. apply carries_cons in H. destruct H as [Fr H]. cbn [carried_instr] in Fr.
      apply carries_app in H. destruct H as [HB HI]. rewrite len_rewrite in HI. split_carries HI.
      pose proof (run_len C p k bt ct tr stk sl Hl) as R0.
      set (sl1 := upd sl L (SCount (o_len orc tr k))).
      assert (S1 : star C (mkCfg p tr stk sl) (mkCfg (p + 3 + 1 + len block) (EvRange k :: tr) stk sl1)).
      { eapply star_trans; [exact R0|]. eapply star_one. unfold step; cbn [Ctl.pc Ctl.stk]. rewrite Fr. cbn.
        unfold sl1. do 2 f_equal. lia. }
      lens. change (len (c_len k)) with 3.
      assert (RR : post_ok C (p + 3 + 1 + len block) (p + 3 + 1 + len block + 1) (EvRange k :: tr) stk sl1 L bt ct out tr').
      { eapply (IHr (o_len orc tr k) body (EvRange k :: tr) out tr' E C L (p + 3 + 1) bt ct stk sl1 ltac:(lia)).
        - fold block. eapply carries_rewrite; [exact HB | | ].
          + left. eexists; split; [reflexivity|]. intros i Hi'. f_equal. fold block. lia.
          + left. eexists; split; [reflexivity|]. intros i Hi'. f_equal. fold block. lia.
        - fold block. rewrite F. do 2 f_equal. lia.
        - unfold sl1, upd. now rewrite Nat.eqb_refl. }
      assert (F1 : forall i, (i < L)%nat -> sl1 i = sl i).
      { intros i Hi. unfold sl1, upd. destruct (Nat.eqb_spec i L); [lia | reflexivity]. }
      assert (T : forall q' tr3, reaches C (p + 3 + 1 + len block) (EvRange k :: tr) stk sl1 q' tr3 L -> reaches C p tr stk sl q' tr3 L).
      { intros q' tr3 [s3 [S3 F3]]. exists s3; split.
        - eapply star_trans; eauto.
        - intros i Hi. rewrite F3, F1 by lia. reflexivity. }
      set_pend (p + 3 + 1 + len block + 1).
      destruct out; cbn [C06_base.post_ok] in *; auto.
      + destruct bt; auto.
      + destruct ct; auto.
      + destruct RR as [pr [m [R Fx]]]. exists pr, m; auto.
    - (* Switch *)
      cbn [compile] in *.
      set (isv := match tag with Some _ => true | None => false end) in *.
      set (L1 := if isv then (L + 1)%nat else L) in *.
      set (def0 := compile_block L1 dflt) in *.
      set (ldef := len (rewrite (fun n => Some (len def0 - n - 1)) (fun _ => None) 0 def0)) in *.
      assert (Hld : ldef = len def0) by apply len_rewrite.
      assert (HL1 : (L <= L1)%nat) by (subst L1; destruct isv; lia).
      set (out' := compile_cases isv L (L1 + slots_block dflt) ldef cs) in *.
      assert (Core : forall p0 tr0 sl0 tg, 0 <= p0 -> tag_ok tg isv L sl0 ->
                carries C p0 (out' ++ rewrite (fun n => Some (len def0 - n - 1)) (fun _ => None) 0 def0) bt ct ->
                (let r := exec_cases orc f tg cs dflt tr0 in
                 match r with Some (Brk, t') => Some (Normal, t') | _ => r end) = Some (out, tr') ->
                post_ok C p0 (p0 + len out' + ldef) tr0 stk sl0 L bt ct out tr').
      { intros p0 tr0 sl0 tg Hp0 T Hc E0. cbv zeta in E0.
        destruct (exec_cases orc f tg cs dflt tr0) as [[o2 tr2]|] eqn:E2; [|discriminate].
        rewrite <- Hld in Hc.
        pose proof (IHc tg cs dflt tr0 o2 tr2 E2 C p0 isv L (L1 + slots_block dflt)%nat L1 L ldef bt ct stk sl0
                        Hp0 Hld ltac:(lia) HL1 T Hc) as RC.
        cbn zeta in RC. fold out' in RC.
        destruct o2; inversion E0; subst; cbn [C06_base.post_ok] in *; auto. }
      destruct tag as [k|].
      + rewrite <- app_assoc in H. apply carries_app in H. destruct H as [Ht H]. change (len (c_tag k)) with 3 in H.
        cbn [app] in H. apply carries_cons in H. destruct H as [Fs H]. cbn [carried_instr] in Fs.
        pose proof (run_tag C p k bt ct tr stk sl Ht) as R0.
        set (sl1 := upd sl L (SInt (o_tag orc tr k))).
        assert (S1 : star C (mkCfg p tr stk sl) (mkCfg (p + 3 + 1) (EvTag k :: tr) stk sl1)).
        { eapply star_trans; [exact R0|]. eapply star_one. unfold step; cbn [Ctl.pc Ctl.stk]. rewrite Fs. reflexivity. }
        assert (F1 : forall i, (i < L)%nat -> sl1 i = sl i).
        { intros i Hi. unfold sl1, upd. destruct (Nat.eqb_spec i L); [lia | reflexivity]. }
        assert (RR := Core (p + 3 + 1) (EvTag k :: tr) sl1 (Some (o_tag orc tr k)) ltac:(lia)
                           ltac:(split; [reflexivity | unfold sl1, upd; now rewrite Nat.eqb_refl]) H E).
        lens. change (len (c_tag k)) with 3. fold ldef.
        set_pend (p + 3 + 1 + len out' + ldef).
        assert (T : forall q' tr3, reaches C (p + 3 + 1) (EvTag k :: tr) stk sl1 q' tr3 L -> reaches C p tr stk sl q' tr3 L).
        { intros q' tr3 [s3 [S3 F3]]. exists s3; split.
          - eapply star_trans; eauto.
          - intros i Hi. rewrite F3, F1 by lia. reflexivity. }
        destruct out; cbn [C06_base.post_ok] in *; auto.
        * destruct bt; auto.
        * destruct ct; auto.
        * destruct RR as [pr [m [R Fx]]]. exists pr, m; auto.
      + cbn [app] in *. rewrite len_app. fold ldef. rewrite Z.add_assoc.
        eapply Core; eauto. reflexivity.
    - inversion E; subst. cbn [C06_base.post_ok compile] in *. destruct bt as [t|]; auto.
      apply carries_cons in H. destruct H as [F _]. cbn [carried_instr] in F.
      apply reaches_star. eapply star_jump; [exact F | lia].
    - inversion E; subst. cbn [C06_base.post_ok compile] in *. destruct ct as [t|]; auto.
      apply carries_cons in H. destruct H as [F _]. cbn [carried_instr] in F.
      apply reaches_star. eapply star_jump; [exact F | lia].
    - inversion E; subst. cbn [C06_base.post_ok compile] in *. split_carries H.
      exists p, 0. split; [apply reaches_refl | exact F].
  Qed.
End Ctl.
